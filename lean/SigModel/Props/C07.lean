/-
C07 — Flushed log data survives a process crash at any instant.
Property theorems only (model: SigModel/Model/Crash.lean, helper lemmas: SigModel/Lemmas/C07*.lean).

For EVERY ingest history `h` (any sequence of buffer flushes — each with ANY list of column-file appends, i.e.
any completion order of the parallel column writers — and rotations) and EVERY number `k` of completed
file-system steps (process-crash model: completed calls persist, no torn writes), `crashAfter h k` is the data
directory a restart finds; `visible` is what a match-all search then serves (startup adopts the lines of
segmeta.json and every directory whose .sfm parses; it reads every block summary present), `completed h k` are
the flushes whose last step (the rename that puts the running .sfm in place) lies within the first k steps,
`inflight h k` the flush that was cut.

History of the finding: `WriteSfm` used to open the running .sfm with O_TRUNC and write afterwards; a crash in
between left a zero-byte .sfm, and the open segment — with ALL its earlier, completed flushes — was not adopted.
Statement 1 was therefore false (`crash_prefix_safe_counterexample_old`, about the `…Old` step lists, which are
kept only for this theorem; the crash suite had replayed it on the real code).  Since the repair (write
`<segkey>.sfm.tmp`, Sync, rename onto `<segkey>.sfm`) statement 1 holds at full strength (`crash_prefix_safe`).

Later findings, all about the flush IN PROGRESS at the crash (its block summary is appended before the running .sfm
is replaced, and the restart serves every block summary it finds), all repaired; the old behaviour is kept in
explicitly named `…Old` definitions with their counterexample theorems:
 * the adopted record was the older .sfm as it is (`metasOld`): the events of the flush in progress came back without
   the columns that flush had introduced (`served_columns_advertised_counterexample_old`) — now the adopted record
   is made to cover the block summaries (`reconciled`), `served_columns_advertised` holds at full strength;
 * a record search never returned when a served block straddled the advertised start of its segment (`answerOld`,
   `search_terminates_counterexample_old`) — now fetchRRCs hands out what it kept back once the last blocks are
   read: `search_terminates` at full strength, and with the reconciled records `search_keeps_nothing_back`.
-/
import SigModel.Model.Crash
import SigModel.Model.CrashMeta
import SigModel.Lemmas.C07d
import SigModel.Lemmas.C07e
import SigModel.Model.CrashSuffix
import SigModel.Lemmas.C07f

namespace SigModel.Props.C07
open SigModel.Crash

/-- C07.1, full strength: after a crash at ANY step of ANY history, every flush that had completed is served,
and nothing is served twice. -/
def CrashPrefixSafe : Prop :=
  ∀ (h : Hist) (k : Nat),
    (∀ f ∈ completed h k, f ∈ visible (crashAfter h k)) ∧ (visible (crashAfter h k)).Nodup

/-- C07.1 holds for the write order of the code: every completed flush is served exactly once — for all
histories and all crash points, no guard. -/
theorem crash_prefix_safe : CrashPrefixSafe := fun h k =>
  let G := SigModel.Lemmas.C07.crashAfter_good h k
  ⟨G.2.2.2.1, G.1⟩

/-- the same statement about the protocol BEFORE the repair of `WriteSfm` (truncate in place, then write) -/
def CrashPrefixSafeOld : Prop :=
  ∀ (h : Hist) (k : Nat),
    (∀ f ∈ completedOld h k, f ∈ visible (crashAfterOld h k)) ∧ (visible (crashAfterOld h k)).Nodup

/-- the minimal history: two flushes into one segment, crash inside the second flush's `WriteSfm` -/
def cexHist : Hist := [.fl [0], .fl [0]]

/-- step 14 of that history in the old protocol is the truncating open of the second flush's `WriteSfm` -/
example : ((stepsOld cexHist).take 14).getLast? = some (.sfmTrunc 0) := by decide

/-- The old write order violated C07.1: flush 0 had completed (its .sfm was written at step 9), yet after a
crash right behind step 14 the restart served nothing at all. -/
theorem crash_prefix_safe_counterexample_old : ¬ CrashPrefixSafeOld := by
  intro H
  have h0 : (0 : Nat) ∈ completedOld cexHist 14 := by decide
  have hv : visible (crashAfterOld cexHist 14) = [] := by decide
  have := (H cexHist 14).1 0 h0
  rw [hv] at this
  cases this

/-- the same cut in the repaired protocol (step 14 = .sfm.tmp written, not yet renamed): flush 0 is served, and
so is the block of the flush in progress; after the rename (15) both are completed -/
example : ((steps cexHist).take 14).getLast? = some (.sfmTmp 0 [0, 1]) ∧
    completed cexHist 14 = [0] ∧ inflight cexHist 14 = some 1 ∧ visible (crashAfter cexHist 14) = [0, 1] := by decide
example : completed cexHist 15 = [0, 1] ∧ visible (crashAfter cexHist 15) = [0, 1] := by decide
/-- before the block summary of the second flush is written only the first one is served -/
example : completed cexHist 10 = [0] ∧ inflight cexHist 10 = some 1 ∧ visible (crashAfter cexHist 10) = [0] := by decide

/-- C07.2 the flush in progress is served entirely or not at all: no block that the restart serves misses any of
its column chunks (`torn` = block summaries of adopted segments that point at chunks which are not on disk), and
no flush is served twice — at every crash point. -/
theorem inflight_atomic (h : Hist) (k : Nat) :
    torn (crashAfter h k) = [] ∧ (visible (crashAfter h k)).Nodup :=
  let G := SigModel.Lemmas.C07.crashAfter_good h k
  ⟨G.2.1, G.1⟩

/-- C07.3 no garbage: whatever the restart serves is a flush that had completed or the one flush that was in
progress — never a later one, never anything that was not written. -/
theorem no_garbage (h : Hist) (k : Nat) :
    ∀ f ∈ visible (crashAfter h k), f ∈ completed h k ∨ inflight h k = some f :=
  (SigModel.Lemmas.C07.crashAfter_good h k).2.2.1

/-- C07.4 later ingestion does not overwrite recovered data: the suffix the restarted writer takes for its first
segment is larger than that of every existing segment directory, and no segment without a directory has any file. -/
theorem restart_no_overwrite (h : Hist) (k : Nat) :
    (∀ s ∈ (crashAfter h k).dirs, s < nextSuffix (crashAfter h k)) ∧
    (∀ s, s ∉ (crashAfter h k).dirs → (crashAfter h k).seg s = {}) :=
  let G := SigModel.Lemmas.C07.crashAfter_good h k
  ⟨G.2.2.2.2.1, G.2.2.2.2.2⟩

/-- non-vacuity of C07.3/C07.4: a rotation in progress (segment 0 sealed, suffix file bumped, directory 1 not
yet created): both flushes served from the sealed segment, next suffix 2 -/
example : visible (crashAfter [.fl [0, 1], .fl [2], .ro] 21) = [0, 1] ∧ nextSuffix (crashAfter [.fl [0, 1], .fl [2], .ro] 21) = 2
    ∧ (crashAfter [.fl [0, 1], .fl [2], .ro] 21).dirs = [0] := by decide

/-! ### the segment number of the restarted writer, at system-call level (Model/CrashSuffix.lean)

`restart_no_overwrite` rests on the step `suffixTmp` = "os.WriteFile of the temp file completed".  An os.WriteFile is
two system calls (open with O_TRUNC, write); the statements below are about every crash point between single system
calls, for any number of processes that each die anywhere, and they depend on the temp file + rename visibly: the
in-place variant is refuted. -/

/-- C07.4 at system-call level, as a statement about an allocation protocol: over a whole life of the node (process
after process on one directory, each making any number of allocations and dying after any number of system calls) no
segment number is handed out twice, and the number the NEXT process will read from the suffix file is above every
number ever handed out — the restarted writer's first segment directory is fresh, new ingestion cannot touch the
files of a segment that may hold flushed data. -/
def SegmentNumberNeverReissued (proto : Nat → List CrashSuffix.Sys) : Prop :=
  ∀ (d : CrashSuffix.Disk) (runs : List (Nat × Nat)),
    (∀ r ∈ CrashSuffix.lifeHanded proto d runs, r < CrashSuffix.getSuffix (CrashSuffix.life proto d runs)) ∧
    (CrashSuffix.lifeHanded proto d runs).Nodup

/-- … holds for the protocol of the code (writeSuffix: os.WriteFile of `<file>.tmp`, os.Rename onto the file; getSuffix
reading a missing or empty file as 0), from ANY initial content of the two files. -/
theorem segment_number_never_reissued : SegmentNumberNeverReissued CrashSuffix.allocTmpRename := fun d runs =>
  let H := SigModel.Lemmas.C07f.life_fresh runs d
  ⟨fun r hr => (H.2.1 r hr).2, H.2.2.imp (fun h => Nat.ne_of_lt h)⟩

/-- … and is FALSE for the variant that rewrites the suffix file in place (os.WriteFile on the file itself): one
process, two allocations, death between the open(O_TRUNC) and the write of the second one — the file is empty, the
restart reads 0, and 0 was handed out. -/
theorem segment_number_never_reissued_counterexample_inplace : ¬ SegmentNumberNeverReissued CrashSuffix.allocInPlace := by
  intro h
  have h0 := (h {} [(2, 3)]).1 0 (by decide)
  revert h0
  decide

/-- the kernel of the positive statement: until the rename has happened nothing that a restart reads has changed,
wherever the process dies inside the write of the temp file (also between its open(O_TRUNC) and its write: the crash
points `…|~open` of the harness). -/
theorem suffix_unchanged_before_rename (d : CrashSuffix.Disk) (r k : Nat) (hk : k < 3) :
    CrashSuffix.getSuffix (CrashSuffix.run d ((CrashSuffix.allocTmpRename r).take k)) = CrashSuffix.getSuffix d :=
  SigModel.Lemmas.C07f.getSuffix_allocTmpRename_prefix d r k hk

/-- tie between the two models: the number the restarted writer takes in the step model (`nextSuffix`, compared with
the real code at every crash point: field `next=`) is `getSuffix` of the two suffix files, and `openSteps n` acts on
them as one temp-file + rename allocation. -/
theorem step_model_suffix_is_alloc (fs : FS) (n : Nat) :
    nextSuffix fs = CrashSuffix.getSuffix (SigModel.Lemmas.C07f.project fs) ∧
    SigModel.Lemmas.C07f.project (run fs (openSteps n)) =
      CrashSuffix.run (SigModel.Lemmas.C07f.project fs) (CrashSuffix.allocTmpRename n) :=
  ⟨SigModel.Lemmas.C07f.project_nextSuffix fs, SigModel.Lemmas.C07f.project_openSteps fs n⟩

/-- non-vacuity: process 1 hands out 0, dies between the open and the write of the temp file of its second
allocation; process 2 reads 1, hands out 1, completes: numbers 0 and 1 handed out, the next process reads 2 -/
example : CrashSuffix.lifeHanded CrashSuffix.allocTmpRename {} [(2, 4), (1, 3)] = [0, 1] ∧
    CrashSuffix.getSuffix (CrashSuffix.life CrashSuffix.allocTmpRename {} [(2, 4), (1, 3)]) = 2 ∧
    CrashSuffix.crashAfter CrashSuffix.allocTmpRename 2 {} 4 = { file := .num 1, tmp := .empty } := by decide

/-- the in-place witness spelled out: number 0 handed out, then the file is empty and reads as 0 again -/
example : CrashSuffix.lifeHanded CrashSuffix.allocInPlace {} [(2, 3)] = [0] ∧
    CrashSuffix.life CrashSuffix.allocInPlace {} [(2, 3)] = { file := .empty, tmp := .missing } ∧
    CrashSuffix.getSuffix (CrashSuffix.life CrashSuffix.allocInPlace {} [(2, 3)]) = 0 := by decide

/-! ### "searchable", not only "served by a match-all search": the metadata records (Model/CrashMeta.lean)

`evs f` are the events of flush `f` (any assignment of events to flushes); every metadata record on disk — the
running `.sfm` after each flush, the record a rotation writes to the `.sfm` and to segmeta.json — is built from the
SegStore fields, which the per-record rule `SM.addEv` maintains.  Ingest never stores a timestamp 0 (it is replaced
by the arrival time), hence `PosTs`; the field value 0 means "no record yet" in the code. -/

/-- no stored event has the timestamp 0 -/
def PosTs (evs : Evs) : Prop := ∀ f, ∀ e ∈ evs f, 0 < e.ts

/-- C07.5 metadata soundness: after a crash at ANY step of ANY history, every completed flush is served from an
adopted segment whose metadata record — the one the restarted node prunes by — covers every event of the flush
(advertised time range contains the timestamp, advertised column set contains the columns), was built from the
flush (so its RecordCount counts it), and counts exactly the records it was built from. -/
theorem meta_sound (evs : Evs) (hpos : PosTs evs) (h : Hist) (k : Nat) :
    ∀ f ∈ completed h k, ∃ p ∈ metas (crashAfter h k),
      f ∈ segVisible ((crashAfter h k).seg p.1) ∧ f ∈ p.2 ∧ (∀ e ∈ evs f, (metaOf evs p.2).covers e) ∧
      (metaOf evs p.2).recs = (evsOf evs p.2).length := by
  intro f hf
  rcases SigModel.Lemmas.C07.crashAfter_meta h k f hf with ⟨p, hp, hfp, hv⟩
  refine ⟨p, hp, hv, hfp, ?_, SigModel.Lemmas.C07.ofEvents_recs _⟩
  intro e he
  have hall : ∀ x ∈ evsOf evs p.2, 0 < x.ts := by
    intro x hx
    rcases List.mem_flatMap.1 hx with ⟨g, _, hg⟩
    exact hpos g x hg
  exact SigModel.Lemmas.C07.ofEvents_covers hall e (List.mem_flatMap.2 ⟨f, hfp, he⟩)

/-- C07.5, full strength for EVERYTHING a restart serves (since `readSegFullMetaFileAndPopulate` makes the adopted
record cover the block summaries): every record the restarted node holds covers every event of every block it
serves from that segment — the flush in progress included. -/
theorem meta_sound_served (evs : Evs) (hpos : PosTs evs) (h : Hist) (k : Nat) :
    ∀ p ∈ metas (crashAfter h k), ∀ f ∈ segVisible ((crashAfter h k).seg p.1),
      f ∈ p.2 ∧ ∀ e ∈ evs f, (metaOf evs p.2).covers e := by
  intro p hp f hf
  have hfp := SigModel.Lemmas.C07.crashAfter_provAll h k p hp f hf
  refine ⟨hfp, fun e he => ?_⟩
  have hall : ∀ x ∈ evsOf evs p.2, 0 < x.ts := by
    intro x hx
    rcases List.mem_flatMap.1 hx with ⟨g, _, hg⟩
    exact hpos g x hg
  exact SigModel.Lemmas.C07.ofEvents_covers hall e (List.mem_flatMap.2 ⟨f, hfp, he⟩)

/-- C07.6 every event of a completed flush is SEARCHABLE after the crash: whatever the time window and column
condition of the search, an event of a completed flush that satisfies them is returned — the segment is not pruned
by its advertised time range, the block is not pruned by its summary.  All histories, all crash points, all
queries. -/
theorem time_search_complete (evs : Evs) (hpos : PosTs evs) (h : Hist) (k : Nat) (q : Query) :
    ∀ f ∈ completed h k, ∀ e ∈ evs f, evPass q e = true → e ∈ search evs (crashAfter h k) q := by
  intro f hf e he hq
  rcases meta_sound evs hpos h k f hf with ⟨p, hp, hv, _, hc, _⟩
  unfold search searchWith searchOn
  refine List.mem_flatMap.2 ⟨f, ?_, List.mem_filter.2 ⟨he, hq⟩⟩
  have hb := SigModel.Lemmas.C07.ofEvents_covers (fun x hx => hpos f x hx) e he
  exact SigModel.Lemmas.C07.mem_searchFlushesOn_of hp
    (SigModel.Lemmas.C07.rangePass_of_covers (hc e he) hq) hv
    (SigModel.Lemmas.C07.rangePass_of_covers hb hq) (hc e he).1 (hc e he).2.1 hb.2.1

/-- C07.6 for the flush in progress: it is ALL visible or ALL invisible, for every search alike — as soon as the
restart serves one of its blocks (the all-time match-all shows it), every search returns every event of the block
that satisfies it. -/
theorem served_is_searchable (evs : Evs) (hpos : PosTs evs) (h : Hist) (k : Nat) (q : Query) :
    ∀ f ∈ visible (crashAfter h k), ∀ e ∈ evs f, evPass q e = true → e ∈ search evs (crashAfter h k) q := by
  intro f hf e he hq
  rw [SigModel.Lemmas.C07.visible_eq_metas] at hf
  rcases List.mem_flatMap.1 hf with ⟨p, hp, hv⟩
  have hc := (meta_sound_served evs hpos h k p hp f hv).2
  unfold search searchWith searchOn
  refine List.mem_flatMap.2 ⟨f, ?_, List.mem_filter.2 ⟨he, hq⟩⟩
  have hb := SigModel.Lemmas.C07.ofEvents_covers (fun x hx => hpos f x hx) e he
  exact SigModel.Lemmas.C07.mem_searchFlushesOn_of hp
    (SigModel.Lemmas.C07.rangePass_of_covers (hc e he) hq) hv
    (SigModel.Lemmas.C07.rangePass_of_covers hb hq) (hc e he).1 (hc e he).2.1 hb.2.1

/-- C07.7 … exactly once and nothing else: every search reads each block at most once, and only blocks the
match-all search serves (so by C07.3 only completed flushes or the one flush in progress). -/
theorem time_search_exactly_once (evs : Evs) (h : Hist) (k : Nat) (q : Query) :
    (searchFlushes evs (crashAfter h k) q).Nodup ∧
    ∀ f ∈ searchFlushes evs (crashAfter h k) q, f ∈ completed h k ∨ inflight h k = some f := by
  have hs := SigModel.Lemmas.C07.searchFlushesWith_sublist metaOf evs (crashAfter h k) q
  exact ⟨hs.nodup (crash_prefix_safe h k).2, fun f hf => no_garbage h k f (hs.subset hf)⟩

/-- C07.6 for the VARIANT that caches the record at the first block of a segment and refreshes only counters and
columns afterwards (time range of the FIRST block): -/
def TimeSearchCompleteCachedRange : Prop :=
  ∀ (evs : Evs), PosTs evs → ∀ (h : Hist) (k : Nat) (q : Query),
    ∀ f ∈ completed h k, ∀ e ∈ evs f, evPass q e = true → e ∈ searchWith metaOfCachedRange evs (crashAfter h k) q

/-- two flushes into one segment, the second one later in time -/
def cexEvs : Evs := fun f => if f = 0 then [⟨1, 1000, ["a"]⟩] else if f = 1 then [⟨2, 60000, ["a"]⟩] else []

/-- … that variant loses a completed flush: two flushes into one unrotated segment, crash after the second flush
completed (step 15), search over the window of the second flush — the segment is pruned, nothing is returned;
the match-all search still serves both flushes. -/
theorem time_search_complete_counterexample_cached_range : ¬ TimeSearchCompleteCachedRange := by
  intro H
  have hpos : PosTs cexEvs := by
    intro f e he
    unfold cexEvs at he
    split at he
    · simp at he; subst he; decide
    · split at he
      · simp at he; subst he; decide
      · cases he
  have h1 : (1 : Nat) ∈ completed cexHist 15 := by decide
  have hs : searchWith metaOfCachedRange cexEvs (crashAfter cexHist 15) ⟨59000, 61000, none⟩ = [] := by decide
  have := H cexEvs hpos cexHist 15 ⟨59000, 61000, none⟩ 1 h1 ⟨2, 60000, ["a"]⟩ (by decide) (by decide)
  rw [hs] at this
  cases this

/-- the same cut with the rule of the code: the window of the second flush returns its event, the window of the
first flush the first one, and the match-all search of the variant would still have served both -/
example : (search cexEvs (crashAfter cexHist 15) ⟨59000, 61000, none⟩).map (·.id) = [2] ∧
    (search cexEvs (crashAfter cexHist 15) ⟨900, 1100, none⟩).map (·.id) = [1] ∧
    visible (crashAfter cexHist 15) = [0, 1] ∧
    metaOf cexEvs [0, 1] = { lo := 1000, hi := 60000, recs := 2, cols := ["a", "a"] } ∧
    metaOfCachedRange cexEvs [0, 1] = { lo := 1000, hi := 1000, recs := 2, cols := ["a", "a"] } := by decide

/-! ### content of what is served -/

/-- C07.8, full strength for the CONTENT of what is served: every event a restart serves — of a completed flush or
of the flush in progress — has all its columns in the column set its segment advertises (the record reader reads the
advertised columns only, so nothing comes back with a field missing).  All histories, all crash points. -/
theorem served_columns_advertised (evs : Evs) (h : Hist) (k : Nat) :
    ∀ p ∈ metas (crashAfter h k), ∀ f ∈ segVisible ((crashAfter h k).seg p.1),
      ∀ e ∈ evs f, ∀ c ∈ e.cols, c ∈ (metaOf evs p.2).cols := by
  intro p hp f hf e he c hc
  have hfp := SigModel.Lemmas.C07.crashAfter_provAll h k p hp f hf
  exact SigModel.Lemmas.C07.ofEvents_cols e (List.mem_flatMap.2 ⟨f, hfp, he⟩) c hc

/-- the same statement about the records BEFORE the repair of `readSegFullMetaFileAndPopulate` (`metasOld`: the
adopted record is the .sfm as it is) -/
def ServedColumnsAdvertisedOld : Prop :=
  ∀ (evs : Evs) (h : Hist) (k : Nat), ∀ p ∈ metasOld (crashAfter h k), ∀ f ∈ segVisible ((crashAfter h k).seg p.1),
    ∀ e ∈ evs f, ∀ c ∈ e.cols, c ∈ (metaOf evs p.2).cols

/-- the second flush brings a column the first one did not have -/
def cexEvsCol : Evs := fun f => if f = 0 then [⟨1, 1000, ["a"]⟩] else if f = 1 then [⟨2, 60000, ["a", "c1"]⟩] else []

/-- … which was false for the flush IN PROGRESS: its block summary is written (step 11) before the running .sfm names
the new column (step 15), and the restart reads every block summary present; in between the event of the flush in
progress was served without its new column (replayed on the real code: crash/inflight-new-column-dropped) -/
theorem served_columns_advertised_counterexample_old : ¬ ServedColumnsAdvertisedOld := by
  intro H
  have := H cexEvsCol cexHist 11 (0, [0]) (by decide) 1 (by decide) ⟨2, 60000, ["a", "c1"]⟩ (by decide) "c1" (by decide)
  revert this
  decide

/-- the same cut now: the adopted record is built from both blocks -/
example : metas (crashAfter cexHist 11) = [(0, [0, 1])] ∧ metasOld (crashAfter cexHist 11) = [(0, [0])] := by decide

/-! ### every search returns -/

/-- C07.9, full strength for "queries return": every record search of the restarted node terminates with an answer
(`answer`: once every segment has given its blocks, fetchRRCs hands out whatever it kept back).  All histories, all
crash points, all queries, whatever the records advertise. -/
theorem search_terminates (evs : Evs) (h : Hist) (k : Nat) (q : Query) :
    (answer evs (crashAfter h k) q).isSome = true := rfl

/-- … and with the records the restart now adopts nothing is kept back to the end in the first place: every record
a search finds lies at or above the advertised start of its segment, hence at or above the last cut-off. -/
theorem search_keeps_nothing_back (evs : Evs) (hpos : PosTs evs) (h : Hist) (k : Nat) (q : Query) :
    keptBack evs (crashAfter h k) q = [] := by
  apply SigModel.Lemmas.C07.keptBackOn_nil_of
  intro e he
  unfold searchOn at he
  rcases List.mem_flatMap.1 he with ⟨f, hf, hef⟩
  have hev : e ∈ evs f := (List.mem_filter.1 hef).1
  rcases SigModel.Lemmas.C07.mem_searchFlushesOn_elim hf with ⟨p, hp, hr, hv⟩
  exact ⟨p, hp, hr, ((meta_sound_served evs hpos h k p hp f hv).2 e hev).1⟩

/-- the same statement about the code BEFORE the two repairs (`answerOld`: records as the .sfm had them, nothing
handed out after the last round) -/
def SearchTerminatesOld : Prop :=
  ∀ (evs : Evs), PosTs evs → ∀ (h : Hist) (k : Nat) (q : Query), (answerOld evs (crashAfter h k) q).isSome = true

/-- the flush in progress holds two batches: one older and one newer than everything the first flush held -/
def cexEvsStraddle : Evs := fun f =>
  if f = 0 then [⟨1, 50001, ["a"]⟩] else if f = 1 then [⟨2, 30004, ["a"]⟩, ⟨3, 60007, ["a"]⟩] else []

/-- … which was false while a flush was in progress: the block summary of the second flush is on disk (step 11), the
running .sfm still advertises [50001, 50001]; the block reaches the cut-off (its HighTs 60007 ≥ 50001) and is read,
its record at 30004 lies below the last cut-off and was never handed out — the all-time search never returned
(replayed on the real code: crash/query-never-returns) -/
theorem search_terminates_counterexample_old : ¬ SearchTerminatesOld := by
  intro H
  have hpos : PosTs cexEvsStraddle := by
    intro f e he
    unfold cexEvsStraddle at he
    split at he
    · simp at he; subst he; decide
    · split at he
      · simp at he; rcases he with rfl | rfl <;> decide
      · cases he
  have := H cexEvsStraddle hpos cexHist 11 ⟨1, 100000, none⟩
  revert this
  decide

/-- the same cut now: the search answers, with all three events -/
example : (answer cexEvsStraddle (crashAfter cexHist 11) ⟨1, 100000, none⟩).map (fun r => r.map (·.id)) = some [1, 2, 3] := by
  decide

/-- `PosTs` is needed in the MODEL of the per-record rule (0 = "no record yet"): a record with timestamp 0 followed
by a later one leaves a range that misses the first — which is why ingest must never store 0 -/
example : ¬ (SM.ofEvents [⟨1, 0, []⟩, ⟨2, 5, []⟩]).covers ⟨1, 0, []⟩ := by
  intro h; exact absurd h.1 (by decide)

end SigModel.Props.C07
