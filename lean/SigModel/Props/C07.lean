/-
C07 — Flushed log data survives a process crash at any instant.
Property theorems only (model: SigModel/Model/Crash.lean, helper lemmas: SigModel/Lemmas/C07*.lean).

For EVERY ingest history `h` (any sequence of buffer flushes — each with ANY list of column-file appends, i.e.
any completion order of the parallel column writers — and rotations) and EVERY number `k` of completed
file-system steps (process-crash model: completed calls persist, no torn writes), `crashAfter h k` is the data
directory a restart finds; `visible` is what a match-all search then serves (startup adopts the lines of
segmeta.json and every directory whose .sfm parses; it reads every block summary present), `completed h k` are
the flushes whose last step (the rename that puts the running .sfm in place) lies within the first k steps,
`inflight h k` the flush that was cut.

History of the finding: `WriteSfm` used to open the running .sfm with O_TRUNC and write afterwards; a crash in
between left a zero-byte .sfm, and the open segment — with ALL its earlier, completed flushes — was not adopted.
Statement 1 was therefore false (`crash_prefix_safe_counterexample_old`, about the `…Old` step lists, which are
kept only for this theorem; the crash suite had replayed it on the real code).  Since the repair (write
`<segkey>.sfm.tmp`, Sync, rename onto `<segkey>.sfm`) statement 1 holds at full strength (`crash_prefix_safe`).
-/
import SigModel.Model.Crash
import SigModel.Lemmas.C07d

namespace SigModel.Props.C07
open SigModel.Crash

/-- C07.1, full strength: after a crash at ANY step of ANY history, every flush that had completed is served,
and nothing is served twice. -/
def CrashPrefixSafe : Prop :=
  ∀ (h : Hist) (k : Nat),
    (∀ f ∈ completed h k, f ∈ visible (crashAfter h k)) ∧ (visible (crashAfter h k)).Nodup

/-- C07.1 holds for the write order of the code: every completed flush is served exactly once — for all
histories and all crash points, no guard. -/
theorem crash_prefix_safe : CrashPrefixSafe := fun h k =>
  let G := SigModel.Lemmas.C07.crashAfter_good h k
  ⟨G.2.2.2.1, G.1⟩

/-- the same statement about the protocol BEFORE the repair of `WriteSfm` (truncate in place, then write) -/
def CrashPrefixSafeOld : Prop :=
  ∀ (h : Hist) (k : Nat),
    (∀ f ∈ completedOld h k, f ∈ visible (crashAfterOld h k)) ∧ (visible (crashAfterOld h k)).Nodup

/-- the minimal history: two flushes into one segment, crash inside the second flush's `WriteSfm` -/
def cexHist : Hist := [.fl [0], .fl [0]]

/-- step 14 of that history in the old protocol is the truncating open of the second flush's `WriteSfm` -/
example : ((stepsOld cexHist).take 14).getLast? = some (.sfmTrunc 0) := by decide

/-- The old write order violated C07.1: flush 0 had completed (its .sfm was written at step 9), yet after a
crash right behind step 14 the restart served nothing at all. -/
theorem crash_prefix_safe_counterexample_old : ¬ CrashPrefixSafeOld := by
  intro H
  have h0 : (0 : Nat) ∈ completedOld cexHist 14 := by decide
  have hv : visible (crashAfterOld cexHist 14) = [] := by decide
  have := (H cexHist 14).1 0 h0
  rw [hv] at this
  cases this

/-- the same cut in the repaired protocol (step 14 = .sfm.tmp written, not yet renamed): flush 0 is served, and
so is the block of the flush in progress; after the rename (15) both are completed -/
example : ((steps cexHist).take 14).getLast? = some (.sfmTmp 0 [0, 1]) ∧
    completed cexHist 14 = [0] ∧ inflight cexHist 14 = some 1 ∧ visible (crashAfter cexHist 14) = [0, 1] := by decide
example : completed cexHist 15 = [0, 1] ∧ visible (crashAfter cexHist 15) = [0, 1] := by decide
/-- before the block summary of the second flush is written only the first one is served -/
example : completed cexHist 10 = [0] ∧ inflight cexHist 10 = some 1 ∧ visible (crashAfter cexHist 10) = [0] := by decide

/-- C07.2 the flush in progress is served entirely or not at all: no block that the restart serves misses any of
its column chunks (`torn` = block summaries of adopted segments that point at chunks which are not on disk), and
no flush is served twice — at every crash point. -/
theorem inflight_atomic (h : Hist) (k : Nat) :
    torn (crashAfter h k) = [] ∧ (visible (crashAfter h k)).Nodup :=
  let G := SigModel.Lemmas.C07.crashAfter_good h k
  ⟨G.2.1, G.1⟩

/-- C07.3 no garbage: whatever the restart serves is a flush that had completed or the one flush that was in
progress — never a later one, never anything that was not written. -/
theorem no_garbage (h : Hist) (k : Nat) :
    ∀ f ∈ visible (crashAfter h k), f ∈ completed h k ∨ inflight h k = some f :=
  (SigModel.Lemmas.C07.crashAfter_good h k).2.2.1

/-- C07.4 later ingestion does not overwrite recovered data: the suffix the restarted writer takes for its first
segment is larger than that of every existing segment directory, and no segment without a directory has any file. -/
theorem restart_no_overwrite (h : Hist) (k : Nat) :
    (∀ s ∈ (crashAfter h k).dirs, s < nextSuffix (crashAfter h k)) ∧
    (∀ s, s ∉ (crashAfter h k).dirs → (crashAfter h k).seg s = {}) :=
  let G := SigModel.Lemmas.C07.crashAfter_good h k
  ⟨G.2.2.2.2.1, G.2.2.2.2.2⟩

/-- non-vacuity of C07.3/C07.4: a rotation in progress (segment 0 sealed, suffix file bumped, directory 1 not
yet created): both flushes served from the sealed segment, next suffix 2 -/
example : visible (crashAfter [.fl [0, 1], .fl [2], .ro] 21) = [0, 1] ∧ nextSuffix (crashAfter [.fl [0, 1], .fl [2], .ro] 21) = 2
    ∧ (crashAfter [.fl [0, 1], .fl [2], .ro] 21).dirs = [0] := by decide

end SigModel.Props.C07
