/-
C11 — Concurrent ingest, flush, rotation and search stay consistent.

Property theorems about the PROTOCOL LOGIC only: the interleaving machine of `SigModel/Model/Conc.lean`
(flush | rotation as its four steps in the order extracted from checkAndRotateColFiles /
CleanupUnrotatedSegment | query as its two segment-list snapshots in the order extracted from
getAllSegmentsInQuery / getAllSegmentsInAggs, the request list de-duplicated by segment key, followed by the
read).  Every theorem quantifies over ALL schedules (lists of labels "which thread moves next") from the
initial empty state, for any number of streams and queries.  `Cfg.real` is tied to the source by the go2lean
call-order facts C11.* (lib/props.py).  `Cfg.realOld` / `Reader.old` are the code BEFORE the three repairs
recorded in known_findings.txt (count doubled, segment skipped, crash); their counterexample theorems are kept
under names ending in `_old`.

NOT decided here (see lib/props.py, `partial`): data races in the Go memory model, deadlocks, crashes and
real scheduling — the stress worker and the `-race` build are exploration only.

The machine treats the read of one request as ONE step.  Section 4 (`ReadOne`) refines exactly that step to the
lock acquisitions of the read path: the reader as it is reads the segment in every interleaving with the
rotation of that segment (it falls back to the rotated metadata when the key has left the unrotated map between
a check and its look-up); the composition of the two machines is not proved.

Section 5 (namespace `Create`, at the end of the file) is about a different machine, `SigModel/Model/ConcCreate.lean`:
the get-or-create of a stream's SegStore in the table `allSegStores` by any number of concurrent ingest calls, with
flushes and removeStaleSegments — no acknowledged event may end up in a store that is not in the table.

Section 6 (namespace `Flush`, after section 5) is about the machine of `SigModel/Model/ConcFlush.lean`: the flushes of
DIFFERENT segstores (different indexes, several streams of one index) run concurrently — each holds only its own
store's lock — and every segment's block-summary file must hold exactly the summaries of its own blocks.

Block `(g, k)` "has been flushed" in state `s` iff `k < s.total g`; `(s.query j).pre` is `total` at the
moment query `j` took its first step (theorem `pre_is_flushed_at_first_step`).
-/
import SigModel.Model.Conc
import SigModel.Lemmas.C11d
import SigModel.Lemmas.C11e
import SigModel.Lemmas.C11f
import SigModel.Lemmas.C11g
import SigModel.Lemmas.SegSelect

namespace SigModel.Props.C11
open SigModel.Conc

/-- the state reached from the empty engine by a schedule: the code as it is -/
abbrev reach (sched : List Label) : St := run Cfg.real init sched

/-- … and the code before the de-duplication of the request list by segment key -/
abbrev reachOld (sched : List Label) : St := run Cfg.realOld init sched

/-! ## 1. no loss -/

/-- C11.1 (invariant) At every step of every schedule, a request for a segment reads exactly the blocks
that were ever flushed to it: while the segment moves from open to rotated it is at every moment in the
unrotated map or in the rotated map, with all its blocks.  (Depends on add-before-remove.) -/
theorem flushed_blocks_always_visible (sched : List Label) (g : Seg) :
    nowCount (reach sched) g = (reach sched).total g :=
  Lemmas.C11.nowCount_eq_total _ (Lemmas.C11.inv_run (d := true) init sched Lemmas.C11.inv_init) g

/-- … in the words of the property: every flushed block's segment is in unrotated ∪ rotated. -/
theorem flushed_segment_in_unrot_or_rot (sched : List Label) (g : Seg) (k : Nat)
    (h : k < (reach sched).total g) :
    k < (reach sched).unrot g ∨ k < (reach sched).rot g := by
  rcases Lemmas.C11.visible _ (Lemmas.C11.inv_run (d := true) init sched Lemmas.C11.inv_init) g k h with h1 | h1
  · exact Or.inl h1.2
  · exact Or.inr h1

/-- the ghost `pre` is what it is called: when query `j` takes its first step, `pre` becomes the flush
history of that moment … -/
theorem pre_is_flushed_at_first_step (sched : List Label) (j : Nat) (k : Bool)
    (h : ((reach sched).query j).started = false) :
    ((reach (sched ++ [.q j k])).query j).pre = (reach sched).total := by
  have hq := Lemmas.C11.qinv_run (d := true) sched j
  have hnf : ((reach sched).query j).finished = false := by
    cases hfin : ((reach sched).query j).finished with
    | false => rfl
    | true => have := (hq.finOk hfin).1; rw [h] at this; exact absurd this (by simp)
  simp only [reach] at *
  rw [Lemmas.C11.run_append]
  generalize run Cfg.real init sched = s at *
  simp [run, step, qStep, h, hnf, Cfg.real, Cfg.of, applySnap, upd]

/-- … and it never changes afterwards. -/
theorem pre_stable (sched : List Label) (l : Label) (j : Nat)
    (h : ((reach sched).query j).started = true) :
    ((reach (sched ++ [l])).query j).pre = ((reach sched).query j).pre := by
  simp only [reach] at *
  rw [Lemmas.C11.run_append]
  generalize run Cfg.real init sched = s at *
  by_cases hl : ∃ k, l = .q j k
  · obtain ⟨k, hk⟩ := hl
    subst hk
    simp only [run, List.foldl_cons, List.foldl_nil, step, qStep]
    by_cases h1 : (s.query j).finished
    · simp [h1]
    · cases h3 : (s.query j).todo with
      | nil => simp [h1, h, upd]
      | cons a r => cases a <;> simp [h1, h, upd, applySnap]
  · simp only [run, List.foldl_cons, List.foldl_nil]
    rw [show Cfg.real = Cfg.of true from rfl, Lemmas.C11.query_frame _ l j (fun k hk => hl ⟨k, hk⟩)]

/-- C11.1 (snapshots) A query whose first snapshot step follows a completed flush has that flush's segment,
with a block count that covers the flushed block, in at least one of its two snapshots.
(Depends on add-before-remove in the rotation AND on unrotated-before-rotated in the query.) -/
theorem no_loss_snapshots (sched : List Label) (j : Nat) (g : Seg) (k : Nat)
    (hs : ((reach sched).query j).started = true) (ht : ((reach sched).query j).todo = [])
    (hk : k < ((reach sched).query j).pre g) :
    (∃ n, (g, n) ∈ ((reach sched).query j).snapU ∧ k < n) ∨
    (∃ n, (g, n) ∈ ((reach sched).query j).snapR ∧ k < n) := by
  rcases (Lemmas.C11.qinv_run (d := true) sched j).seenR hs ht g k hk with h | h
  · exact Or.inr h
  · exact Or.inl h.1

/-- C11.1 `no_loss`: in every interleaving, a finished query (record query or count query) has read every
block whose flush had completed before the query's first step. -/
theorem no_loss (sched : List Label) (j : Nat) (g : Seg) (k : Nat)
    (hf : ((reach sched).query j).finished = true) (hk : k < ((reach sched).query j).pre g) :
    (g, k) ∈ ((reach sched).query j).result :=
  (Lemmas.C11.qinv_run (d := true) sched j).res hf g k hk

/-- the rotation with `removeSegKeyFromUnrotatedInfo` BEFORE `AddSegMetaToMetadata` -/
def Cfg.removeFirst : Cfg := { Cfg.real with rotOrder := [.segmetaFile, .removeUnrot, .addMeta, .reset] }

/-- the query taking the rotated snapshot BEFORE the unrotated one -/
def Cfg.rotatedFirst : Cfg := { Cfg.real with qOrder := [.snapR, .snapU] }

/-- why the rotation order is a checked fact: with remove-before-add there is a schedule in which a query
that starts after a completed flush loses the flushed block (the query runs between the two steps). -/
theorem no_loss_fails_if_rotation_reordered :
    ∃ (sched : List Label) (j : Nat) (g : Seg) (k : Nat),
      ((run Cfg.removeFirst init sched).query j).finished = true ∧
      k < ((run Cfg.removeFirst init sched).query j).pre g ∧
      (g, k) ∉ ((run Cfg.removeFirst init sched).query j).result :=
  ⟨[.flush 0, .rot 0, .rot 0, .q 0 false, .q 0 false, .q 0 false], 0, ⟨0, 0⟩, 0, by decide⟩

/-- why the snapshot order is a checked fact: with rotated-before-unrotated there is a schedule in which a
query loses a flushed block even though the rotation adds before it removes (the whole hand-over happens
between the two snapshots). -/
theorem no_loss_fails_if_snapshots_reordered :
    ∃ (sched : List Label) (j : Nat) (g : Seg) (k : Nat),
      ((run Cfg.rotatedFirst init sched).query j).finished = true ∧
      k < ((run Cfg.rotatedFirst init sched).query j).pre g ∧
      (g, k) ∉ ((run Cfg.rotatedFirst init sched).query j).result :=
  ⟨[.flush 0, .q 0 false, .rot 0, .rot 0, .rot 0, .q 0 false, .q 0 false], 0, ⟨0, 0⟩, 0, by decide⟩

/-! ## 2. at most once -/

/-- C11.2 `at_most_once`: in every interleaving a finished query — record query or count query — has read
every block at most once.  (Record queries drop a (segment, block) pair already taken; the request list is
de-duplicated by segment key, so a segment that is in both snapshots is requested once.) -/
theorem at_most_once (sched : List Label) (j : Nat)
    (hf : ((reach sched).query j).finished = true) :
    ((reach sched).query j).result.Nodup :=
  Lemmas.C11.nodup_of_dedup _ j (Lemmas.C11.qinv_run (d := true) sched j) hf

/-- the former witness schedule (a rotation publishes the segment between the two snapshots of a count
query) now counts the block once -/
example : ((reach [.flush 0, .q 0 true, .rot 0, .rot 0, .q 0 true, .q 0 true]).query 0).result = [(⟨0, 0⟩, 0)] := by
  decide

/-- C11.2 for record queries held before the repair as well (block-level `processedBlocks` filter). -/
theorem at_most_once_rrc_old (sched : List Label) (j : Nat)
    (hf : ((reachOld sched).query j).finished = true) (hk : ((reachOld sched).query j).kind = .rrc) :
    ((reachOld sched).query j).result.Nodup :=
  (Lemmas.C11.qinv_run (d := false) sched j).resRrc hf hk

/-- BEFORE the repair (`Cfg.realOld`: the two request lists appended as they were) C11.2 was false: flush;
the count query takes its unrotated snapshot; the rotation publishes the segment (`AddSegMetaToMetadata`); the
query takes its rotated snapshot ⇒ the segment is in both snapshots and its block is counted twice.
(Was replayed on the real engine by the suite `conc`: `c11 1 f0 q0s r0 r0 q0s q0s` → count 4 for 2 events.) -/
theorem at_most_once_counterexample_old :
    ¬ (∀ (sched : List Label) (j : Nat), ((reachOld sched).query j).finished = true →
        ((reachOld sched).query j).result.Nodup) := by
  intro h
  have := h [.flush 0, .q 0 true, .rot 0, .rot 0, .q 0 true, .q 0 true] 0 (by decide)
  revert this
  decide

/-- … and "no rotation step between the two snapshot steps" would not have been a sufficient guard: both
snapshots can fall into the hand-over window of a rotation (published, not yet removed from the unrotated map). -/
theorem at_most_once_window_counterexample_old :
    ∃ (sched : List Label) (j : Nat), ((reachOld sched).query j).finished = true ∧
      ¬ ((reachOld sched).query j).result.Nodup :=
  ⟨[.flush 0, .rot 0, .rot 0, .q 0 true, .q 0 true, .q 0 true], 0, by decide⟩

/-- the two snapshots of a query name no segment twice -/
def SnapshotsDisjoint (q : Query) : Prop := ∀ r ∈ q.snapU, ∀ r' ∈ q.snapR, r.1 ≠ r'.1

instance (q : Query) : Decidable (SnapshotsDisjoint q) := by
  unfold SnapshotsDisjoint; infer_instance

/-- before the repair, partial (state guard): a finished query whose two snapshots are disjoint had read every
block at most once … -/
theorem at_most_once_partial_old (sched : List Label) (j : Nat)
    (hf : ((reachOld sched).query j).finished = true)
    (hd : SnapshotsDisjoint ((reachOld sched).query j)) :
    ((reachOld sched).query j).result.Nodup :=
  Lemmas.C11.nodup_of_disj _ j (Lemmas.C11.qinv_run (d := false) sched j) hf hd

/-- … and the guard excluded exactly the failing class: a finished COUNT query counted some block twice
if and only if its two snapshots shared a segment. -/
theorem count_query_nodup_iff_old (sched : List Label) (j : Nat)
    (hf : ((reachOld sched).query j).finished = true) (hk : ((reachOld sched).query j).kind = .stats) :
    ((reachOld sched).query j).result.Nodup ↔ SnapshotsDisjoint ((reachOld sched).query j) := by
  constructor
  · intro hn
    apply Classical.byContradiction
    intro hd
    exact Lemmas.C11.not_nodup_of_overlap _ j (Lemmas.C11.qinv_run (d := false) sched j) hf hk hd hn
  · exact at_most_once_partial_old sched j hf

/-- no segment is in its hand-over window (in the unrotated map and already in the rotated map) -/
def WindowFree (s : St) : Prop := ∀ g ∈ s.segs, s.unrot g ≠ 0 → s.rot g = 0

instance (s : St) : Decidable (WindowFree s) := by
  unfold WindowFree; infer_instance

/-- neither a rotation step nor a step of query `j` -/
def QuietFor (j : Nat) (l : Label) : Prop := (∀ i, l ≠ .rot i) ∧ (∀ b, l ≠ .q j b)

/-- before the repair, partial (schedule guard): if query `j` took its first snapshot when no segment was in
its hand-over window, and no rotation step ran before its second snapshot, then — whatever happened before
and afterwards — it read every block at most once. -/
theorem at_most_once_no_rotation_overlap_old (p m rest : List Label) (j : Nat) (k k' : Bool)
    (hns : ((reachOld p).query j).started = false) (hw : WindowFree (reachOld p))
    (hm : ∀ l ∈ m, QuietFor j l)
    (hf : ((reachOld (p ++ .q j k :: (m ++ .q j k' :: rest))).query j).finished = true) :
    ((reachOld (p ++ .q j k :: (m ++ .q j k' :: rest))).query j).result.Nodup :=
  Lemmas.C11.quiet_nodup p m rest j k k' hns hw hm hf

/-- the old guards were satisfiable: a rotation that completes before the count query starts, flushes woven
through the query — nothing counted twice (and nothing lost). -/
example :
    let p : List Label := [.flush 0, .flush 1, .rot 0, .rot 0, .rot 0, .rot 0, .flush 0]
    let sched := p ++ .q 0 true :: ([.flush 1, .flush 0] ++ .q 0 true :: [.rot 1, .q 0 true])
    ((reachOld p).query 0).started = false ∧ WindowFree (reachOld p) ∧
    ((reachOld sched).query 0).finished = true ∧ SnapshotsDisjoint ((reachOld sched).query 0) ∧
    ((reachOld sched).query 0).result = [(⟨1, 0⟩, 0), (⟨0, 1⟩, 0), (⟨0, 0⟩, 0)] := by
  decide

/-! ## 3. quiescence -/

/-- C11.3 `quiescent_eq_sequential`: when a schedule ends with no rotation in progress, the unrotated map,
the rotated map and the flush history equal those of the SEQUENTIAL execution `seqOf` of the same schedule —
the same effective flushes in the same order, every rotation run as one uninterrupted block of its steps,
no concurrency. -/
theorem quiescent_eq_sequential (sched : List Label) (hq : Quiescent (reach sched)) :
    let seqSched := seqOf Cfg.real init sched
    (∀ g, (reach sched).unrot g = (reach seqSched).unrot g) ∧
    (∀ g, (reach sched).rot g = (reach seqSched).rot g) ∧
    (∀ g, (reach sched).total g = (reach seqSched).total g) ∧
    (reach sched).segs = (reach seqSched).segs := by
  have hrel := Lemmas.C11.rel_run (d := true) sched init init Lemmas.C11.inv_init Lemmas.C11.inv_init Lemmas.C11.rel_refl_init
  have hc := Lemmas.C11.inv_run (d := true) init sched Lemmas.C11.inv_init
  have ha := Lemmas.C11.inv_run (d := true) init (seqOf Cfg.real init sched) Lemmas.C11.inv_init
  have hce := Lemmas.C11.contents_eq _ _ hc ha hrel hq
  exact ⟨fun g => (hce g).1, fun g => (hce g).2, hrel.total, hrel.segs⟩

/-- … and at quiescence the stored contents are exactly the flushed blocks, each in exactly one of the two
maps: nothing lost, nothing doubled, nothing invented. -/
theorem quiescent_contents_exact (sched : List Label) (hq : Quiescent (reach sched)) (g : Seg) :
    ((reach sched).unrot g = (reach sched).total g ∧ (reach sched).rot g = 0) ∨
    ((reach sched).unrot g = 0 ∧ (reach sched).rot g = (reach sched).total g) := by
  have hc : Lemmas.C11.Inv (reach sched) := Lemmas.C11.inv_run (d := true) init sched Lemmas.C11.inv_init
  obtain ⟨i, k⟩ := g
  simp only [reach] at *
  generalize run Cfg.real init sched = s at *
  have hu := hc.unrot_eq i k
  have hr := hc.rot_eq i k
  have h0 := hq i
  simp [Lemmas.C11.removed, Lemmas.C11.added, h0] at hu hr
  by_cases h1 : k < (s.store i).seq
  · right
    have : ¬ k = (s.store i).seq := by omega
    simp [h1, this] at hu hr
    exact ⟨hu, hr⟩
  · left
    simp [h1] at hr
    by_cases h2 : k = (s.store i).seq
    · subst h2
      simp at hu
      exact ⟨by rw [hu, hc.tot_eq i], hr⟩
    · simp [h2] at hu
      exact ⟨by rw [hu, hc.tot_gt i k (by omega)], hr⟩

/-! ## 4. the read of one request, at lock granularity -/

open SigModel.Conc.ReadOne in
/-- C11.1 / "no crashes" at lock granularity: whatever the interleaving with the rotation of its segment, a
finished read of a request has read the segment — from the unrotated entry or from the rotated metadata.  The
reader checks `IsSegKeyUnrotated` and looks the key up under a second lock acquisition; when the rotation has
removed the key in between, it asks again and takes the rotated path (GetSSRsFromQSR,
initNewMultiColumnReader), and `SharedMultiColReaders.Close` is idempotent. -/
theorem read_one_reads_segment (sched : List RLabel) (hd : (rrun .real {} sched).pc = .done) :
    (rrun .real {} sched).outcome = some .readUnrotated ∨ (rrun .real {} sched).outcome = some .readRotated :=
  (Lemmas.C11.ReadOne.goodReal_run sched {} Lemmas.C11.ReadOne.goodReal_init).1 hd

open SigModel.Conc.ReadOne in
/-- … in particular the read never skips the segment and never crashes (was `read_one_crash_counterexample`). -/
theorem read_one_never_skips_never_crashes (sched : List RLabel) :
    (rrun .real {} sched).outcome ≠ some .skipped ∧ (rrun .real {} sched).outcome ≠ some .crashed := by
  have h := Lemmas.C11.ReadOne.goodReal_run sched {} Lemmas.C11.ReadOne.goodReal_init
  by_cases hd : (rrun .real {} sched).pc = .done
  · rcases h.1 hd with h1 | h1 <;> simp [h1]
  · simp [h.2 hd]

open SigModel.Conc.ReadOne in
/-- BEFORE the repair the statement was false: the check in GetSSRsFromQSR answered yes, the rotation ran to
`removeSegKeyFromUnrotatedInfo`, the look-up in CheckMicroIndicesForUnrotated found nothing and the segment was
skipped — its events silently missing.  (Was replayed on the real engine: suite `conc`, op `c11w ssr`.) -/
theorem read_one_skipped_counterexample_old :
    ¬ (∀ (sched : List RLabel), (rrun .old {} sched).pc = .done →
        ((rrun .old {} sched).outcome = some .readUnrotated ∨ (rrun .old {} sched).outcome = some .readRotated)) := by
  intro h
  have := h [.read, .rot, .rot, .rot, .read] (by decide)
  revert this
  decide

open SigModel.Conc.ReadOne in
/-- … and the same window one layer down ended in the double release of the FD semaphore, a crash of the
process.  (Was replayed on the real engine: suite `conc`, op `c11w reader`.) -/
theorem read_one_crash_counterexample_old :
    ∃ (sched : List RLabel), (rrun .old {} sched).outcome = some .crashed :=
  ⟨[.read, .read, .read, .rot, .rot, .rot, .read], by decide⟩

open SigModel.Conc.ReadOne in
/-- before the repair, partial: if the `removeUnrot` step did not fall between a check and its look-up, a
finished read had read the segment. -/
theorem read_one_ok_partial_old (sched : List RLabel) (hg : noRemoveInWindow {} sched = true)
    (hd : (rrun .old {} sched).pc = .done) :
    (rrun .old {} sched).outcome = some .readUnrotated ∨ (rrun .old {} sched).outcome = some .readRotated :=
  (Lemmas.C11.ReadOne.goodOld_run sched {} Lemmas.C11.ReadOne.goodOld_init hg).2.1 hd

open SigModel.Conc.ReadOne in
/-- the old guard was satisfiable with a rotation that does run concurrently with the read -/
example : noRemoveInWindow {} [.rot, .read, .read, .rot, .rot, .read, .rot] = true ∧
    (rrun .old {} [.rot, .read, .read, .rot, .rot, .read, .rot]).outcome = some .readRotated := by
  decide

/-! ### The open segments are collected whatever the rotated metadata hold (Model/SegSelect.lean; suite `segsel`,
facts C11.query.unrotated.steps / C11.aggs.unrotated.steps)

"Every event whose flush completed before the search began" sits in a segment that is in the unrotated or in the rotated map
(section 1).  That the query then asks for that segment is decided by time, per segment: an index may have several open
segments (one per ingest stream) and its rotated segments may end later than events that are still in an open one. -/
section SegSelect
open SigModel.SegSelect

/-- a flushed event of an OPEN segment of a queried index, inside the query range: the query's request list holds a request for
the segment's key — for EVERY content of the rotated tables (newer or older than the range, of any index) -/
theorem open_segment_collected (qs qe org t : Int) (indexes : List Nat) (tables : Nat → List SegSelect.Seg) (open_ : List SegSelect.Seg) (s : SegSelect.Seg)
    (hq1 : qs ≤ t) (hq2 : t ≤ qe) (hs1 : s.earliest ≤ t) (hs2 : t ≤ s.latest) (horg : s.org = org) (hix : s.table ∈ indexes)
    (hopen : s ∈ open_) :
    ∃ s' ∈ (collect qs qe org indexes tables open_).1 ++ (collect qs qe org indexes tables open_).2, s'.key = s.key :=
  collect_has_key qs qe org indexes tables open_ s
    (Or.inr ((mem_filterUnrotated ..).mpr ⟨hopen, hix, keep_of_point qs qe org t s hq1 hq2 hs1 hs2 horg⟩))

/-- the same for a segment that has just moved to the rotated table (it is found there) -/
theorem rotated_segment_collected (qs qe org t : Int) (indexes : List Nat) (tables : Nat → List SegSelect.Seg) (open_ : List SegSelect.Seg) (s : SegSelect.Seg)
    (hq1 : qs ≤ t) (hq2 : t ≤ qe) (hs1 : s.earliest ≤ t) (hs2 : t ≤ s.latest) (horg : s.org = org) (hix : s.table ∈ indexes)
    (hrot : s ∈ tables s.table) :
    ∃ s' ∈ (collect qs qe org indexes tables open_).1 ++ (collect qs qe org indexes tables open_).2, s'.key = s.key :=
  collect_has_key qs qe org indexes tables open_ s
    (Or.inl ((mem_filterRotated ..).mpr ⟨s.table, hix, hrot, keep_of_point qs qe org t s hq1 hq2 hs1 hs2 horg⟩))

/-- the unrotated look-up may NOT be skipped on the strength of the rotated metadata: with the rule of
metadata.IsUnrotatedQueryNeeded (`collectSkipUnrotated`, not the code: no unrotated requests when every queried index has
rotated data ending at or after the range's end) the flushed events 500..504 of the open segment of a second stream are lost
for the range [400, 600] once the first stream's segment [1000, 1009] is rotated -/
theorem skip_unrotated_counterexample :
    let tables : Nat → List SegSelect.Seg := fun ix => if ix = 0 then [⟨1, 0, 1000, 1009, 0⟩] else []
    let open_ : List SegSelect.Seg := [⟨2, 0, 500, 504, 0⟩]
    (∃ s' ∈ (collect 400 600 0 [0] tables open_).1 ++ (collect 400 600 0 [0] tables open_).2, s'.key = 2) ∧
    ¬ (∃ s' ∈ (collectSkipUnrotated 400 600 0 [0] tables open_).1 ++ (collectSkipUnrotated 400 600 0 [0] tables open_).2, s'.key = 2) := by
  decide

end SegSelect

end SigModel.Props.C11

/-! ## 5. get-or-create of the segstore table

The machine of `SigModel/Model/ConcCreate.lean`: any number of ingest calls (each: getSegStore under the read lock;
if the stream has no SegStore, createSegStore = Lock, re-check, build (suffix file read, suffix file write), insert,
deferred Unlock; then AddEntry under the store's own lock — which refuses a store that removeStaleSegments has
marked, so that the call starts over — and the acknowledgement), flush + rotation of the registered stores, and
removeStaleSegments (under the table lock and the store's lock: mark, delete), in ANY interleaving.  A step that
needs `allSegStoresLock` is not enabled while a call holds it.  `Cfg.real` = the statement order of createSegStore
and the mark-and-retry protocol extracted from the source (facts C11.create.order, C11.getOrCreate.order,
C11.lock.getSegStore, C11.addEntry.order, C11.addEntry.removed, C11.evict.order, C11.suffix.order), replayed step
by step on the real writer by the `c11c` op lines of suite `conc`.  `Cfg.realOld` is the code BEFORE the repair
of removeStaleSegments / AddEntryToInMemBuf (no mark, no retry); its counterexample theorems are kept under names
ending in `_old`.

An acknowledged event is LOST (`Lost s e r`) when it is not persistent and its store `r` is not the registered
store of its stream: the flush timers, forced rotation and the shutdown flush iterate over the table only. -/
namespace SigModel.Props.C11.Create
open SigModel.ConcCreate

/-- the state reached from the empty engine by a schedule: the code as it is -/
abbrev reach (sched : List Label) : St := run Cfg.real init sched

/-- … and the code before removeStaleSegments marked the store it deletes and AddEntryToInMemBuf started over -/
abbrev reachOld (sched : List Label) : St := run Cfg.realOld init sched

/-- C11 (table) `no_lost_ack`, FULL statement: in EVERY interleaving of any number of ingest calls on any streams,
flushes + rotations and removeStaleSegments passes (at any moment — the idle horizon is not used) no acknowledged
event is lost: every acknowledged event is persistent or sits in the registered store of its stream. -/
theorem create_no_lost_ack (sched : List Label) (e r : Nat) : ¬ Lost (reach sched) e r := by
  intro ⟨h1, h2, h3⟩
  rcases ((Lemmas.C11f.inv_reach sched).ack e r h1).2 with hp | ⟨_, hreg⟩
  · exact h2 hp
  · exact h3 hreg

/-- BEFORE the repair the statement was false: call 0 creates the store of stream 0 and appends, the store is
flushed and rotated (no records left); call 1 gets the store from getSegStore; removeStaleSegments deletes it from
the table; call 1 appends to it and is acknowledged — no flush ever reached that store.
(Was replayed on the real writer: suite `conc`, `c11c 1 c0 c0 c0 c0 c0 c0 c0 c0 f0 c1 e0 c1 c2`.) -/
theorem create_no_lost_ack_counterexample_old :
    ¬ (∀ (sched : List Label) (e r : Nat), ¬ Lost (reachOld sched) e r) := by
  intro h
  have := h [.call 0 0, .call 0 0, .call 0 0, .call 0 0, .call 0 0, .call 0 0, .call 0 0, .call 0 0,
             .flush 0, .call 1 0, .evict 0, .call 1 0] 1 0
  revert this
  decide

/-- … and, the same window one call earlier, by an eviction between createSegStore and the AddEntry of the very
call that created the store (`c11c 1 c0 c0 c0 c0 c0 c0 c0 e0 c0`; with the stale horizon of 900 ns instead of
900 s that the code had, any pass of removeStaleSegments could do it). -/
theorem create_no_lost_ack_counterexample_creator_old :
    ∃ (sched : List Label) (e r : Nat), Lost (reachOld sched) e r :=
  ⟨[.call 0 0, .call 0 0, .call 0 0, .call 0 0, .call 0 0, .call 0 0, .call 0 0, .evict 0, .call 0 0], 0, 0, by decide⟩

/-- the two former witness schedules now: the call whose store was evicted under its hands appends nothing to it,
starts over, and ends up — acknowledged once — in the new registered store. -/
example :
    let sched : List Label := [.call 0 0, .call 0 0, .call 0 0, .call 0 0, .call 0 0, .call 0 0, .call 0 0, .call 0 0,
      .flush 0, .call 1 0, .evict 0, .call 1 0,
      .call 1 0, .call 1 0, .call 1 0, .call 1 0, .call 1 0, .call 1 0, .call 1 0, .call 1 0]
    ((reach (sched.take 12)).thread 1).pc = .retry ∧ (reach (sched.take 12)).acked = [(0, 0)] ∧
    (reach sched).acked = [(0, 0), (1, 1)] ∧ (reach sched).table 0 = some 1 ∧
    ((reach sched).store 0).removed = true ∧ ((reach sched).store 0).events = [] := by
  decide

example :
    let sched : List Label := [.call 0 0, .call 0 0, .call 0 0, .call 0 0, .call 0 0, .call 0 0, .call 0 0, .evict 0,
      .call 0 0, .call 0 0, .call 0 0, .call 0 0, .call 0 0, .call 0 0, .call 0 0, .call 0 0, .call 0 0]
    (reach sched).acked = [(0, 1)] ∧ (reach sched).table 0 = some 1 := by
  decide

/-- C11 (table) `one_store_per_stream`: in every eviction-free interleaving, of all the stores ever built for a
stream there is exactly one — k concurrent first ingests create ONE SegStore. -/
theorem create_one_store_per_stream (sched : List Label) (hf : evictFree sched = true) (m1 m2 : Nat)
    (h1 : m1 < (reach sched).nstores) (h2 : m2 < (reach sched).nstores)
    (hs : ((reach sched).store m1).stream = ((reach sched).store m2).stream) : m1 = m2 := by
  have hinv := Lemmas.C11f.inv_reach sched
  have hb := Lemmas.C11f.built_run sched init Lemmas.C11f.inv_init Lemmas.C11f.built_init hf
  simp only [reach] at *
  generalize run Cfg.real init sched = s at *
  -- a store waiting for its insert: the table has no entry for its stream, and its builder holds the lock
  have pend : ∀ t m, (s.thread t).pc = .create Lemmas.C11f.P4 → (s.thread t).mine = some m →
      s.lock = some t ∧ s.table (s.store m).stream = none := by
    intro t m hpc hm
    have ht := hinv.th t
    have hl := Lemmas.C11f.p4_holds ht hpc
    unfold Lemmas.C11f.ThreadOk at ht
    simp only [hpc] at ht
    rcases ht.2 with ⟨h, _⟩ | ⟨h, _⟩ | ⟨h, _⟩ | ⟨h, _⟩ | ⟨_, _, h3, m', h4, _, h6, _⟩ | ⟨h, _⟩
    all_goals first | (simp at h; done) | skip
    rw [hm] at h4
    have := Option.some.inj h4
    subst this
    exact ⟨hl, by rw [h6]; exact h3⟩
  rcases hb m1 h1 with r1 | ⟨t1, p1, q1⟩ <;> rcases hb m2 h2 with r2 | ⟨t2, p2, q2⟩
  · rw [hs, r2] at r1; exact (Option.some.inj r1).symm
  · have := (pend t2 m2 p2 q2).2; rw [← hs, r1] at this; exact absurd this (by simp)
  · have := (pend t1 m1 p1 q1).2; rw [hs, r2] at this; exact absurd this (by simp)
  · have e1 := (pend t1 m1 p1 q1).1
    have e2 := (pend t2 m2 p2 q2).1
    rw [e1] at e2
    have := Option.some.inj e2
    subst this
    rw [q1] at q2
    exact Option.some.inj q2

/-- C11 (table) `append_target_registered`: in every interleaving, the store that a call is about to append to is
the REGISTERED store of the call's stream — or it carries the mark of removeStaleSegments, and then AddEntry
refuses it. -/
theorem create_append_target_registered (sched : List Label) (t : Nat)
    (hp : ((reach sched).thread t).pc = .append) :
    ∃ r, ((reach sched).thread t).ret = some r ∧
      (((reach sched).store r).removed = false → (reach sched).table ((reach sched).thread t).stream = some r) := by
  have ht := (Lemmas.C11f.inv_reach sched).th t
  unfold Lemmas.C11f.ThreadOk at ht
  simp only [reach] at *
  simp only [hp] at ht
  obtain ⟨_, _, r, h1, _, _, h4⟩ := ht
  exact ⟨r, h1, h4⟩

/-- … and a store in the table never carries the mark. -/
theorem create_registered_store_not_removed (sched : List Label) (i r : Nat) (h : (reach sched).table i = some r) :
    ((reach sched).store r).removed = false :=
  ((Lemmas.C11f.inv_reach sched).tab i r h).2.2

/-- C11 (table) `suffix_handed_out_once`: in every interleaving no segment suffix of a stream is handed out
twice — by the creating calls (GetNextSuffix under allSegStoresLock) and by the rotations. -/
theorem create_suffix_handed_out_once (sched : List Label) : (reach sched).handed.Nodup :=
  (Lemmas.C11f.inv_reach sched).nodup

/-- C11 (table) "no deadlock" at the level of the lock protocol: in every interleaving, a call that holds
allSegStoresLock is inside createSegStore past its `lock` statement — its next statement never waits — and the
`unlock` is still ahead of it. -/
theorem create_lock_holder_can_move (sched : List Label) (t : Nat) (h : (reach sched).lock = some t) :
    ∃ a rest, ((reach sched).thread t).pc = .create (a :: rest) ∧ a ≠ .lock ∧ CStep.unlock ∈ a :: rest := by
  obtain ⟨todo, hpc, hc⟩ := Lemmas.C11f.holder_pc ((Lemmas.C11f.inv_reach sched).th t) h
  rcases hc with hc | hc | hc | hc | hc <;> subst hc <;> exact ⟨_, _, hpc, by decide, by decide⟩

/-- … hence, once every started call has returned, the lock is free. -/
theorem create_lock_free_at_quiescence (sched : List Label)
    (hq : ∀ t, ((reach sched).thread t).pc = .idle ∨ ((reach sched).thread t).pc = .done) :
    (reach sched).lock = none := by
  cases hl : (reach sched).lock with
  | none => rfl
  | some t =>
    obtain ⟨a, rest, hpc, _⟩ := create_lock_holder_can_move sched t hl
    rcases hq t with h | h <;> rw [hpc] at h <;> simp at h

/-- C11 (table): every call that has returned was acknowledged (no call fails, a call that had to start over is
acknowledged for the store it finally appended to) … -/
theorem create_done_is_acked (sched : List Label) (t : Nat) (hd : ((reach sched).thread t).pc = .done) :
    ∃ r, (t, r) ∈ (reach sched).acked := by
  have ht := (Lemmas.C11f.inv_reach sched).th t
  unfold Lemmas.C11f.ThreadOk at ht
  simp only [reach] at *
  simp only [hd] at ht
  exact ht.2.2

/-- … and "once activity stops the stored contents are those of a sequential execution": if the lock is free (e.g.
every call has returned), ONE flush of its stream makes an acknowledged event persistent — nothing acknowledged is
out of the reach of the flush. -/
theorem create_flush_makes_acked_persistent (sched : List Label)
    (hl : (reach sched).lock = none) (e r : Nat) (ha : (e, r) ∈ (reach sched).acked) :
    e ∈ (reach (sched ++ [.flush ((reach sched).store r).stream])).persisted := by
  have hk := ((Lemmas.C11f.inv_reach sched).ack e r ha).2
  simp only [reach, run, List.foldl_append, List.foldl_cons, List.foldl_nil] at *
  generalize List.foldl (step Cfg.real) init sched = s at *
  simp only [step, flushStep, hl]
  rcases hk with hp | ⟨he, hreg⟩
  · cases htb : s.table (s.store r).stream with
    | none => exact hp
    | some r' =>
      simp only []
      by_cases hev : (s.store r').events = []
      · simp [hev]; exact hp
      · simp [hev]; exact Or.inl hp
  · simp only [hreg]
    have hev : (s.store r).events ≠ [] := by intro hc; rw [hc] at he; simp at he
    simp [hev]; exact Or.inr he

/-! ### why the statement order of createSegStore is a checked fact -/

/-- With the store built BEFORE the lock is taken and inserted without a re-check (`Cfg.buildOutsideLock`) two
first ingests on a new stream lose an acknowledged event, without any eviction: both pass the nil check, each
builds a store, the second insert overwrites the first, the first call appends to the overwritten store. -/
theorem create_lost_ack_if_built_outside_lock :
    ∃ (sched : List Label) (e r : Nat), evictFree sched = true ∧ Lost (run Cfg.buildOutsideLock init sched) e r :=
  ⟨[.call 0 0, .call 1 0, .call 0 0, .call 0 0, .call 0 0, .call 0 0, .call 0 0,
    .call 1 0, .call 1 0, .call 1 0, .call 1 0, .call 1 0, .call 0 0, .call 1 0], 0, 0, by decide⟩

/-- … and the two racers are handed the same suffix (GetNextSuffix's read and write are not atomic by themselves). -/
theorem create_duplicate_suffix_if_built_outside_lock :
    ∃ sched : List Label, ¬ (run Cfg.buildOutsideLock init sched).handed.Nodup :=
  ⟨[.call 0 0, .call 1 0, .call 0 0, .call 1 0, .call 0 0, .call 1 0], by decide⟩

/-- Everything under the lock but WITHOUT the re-check (`Cfg.noRecheck`): the second of two calls that both passed
the nil check builds and inserts a second store. -/
theorem create_lost_ack_if_no_recheck :
    ∃ (sched : List Label) (e r : Nat), evictFree sched = true ∧ Lost (run Cfg.noRecheck init sched) e r :=
  ⟨[.call 0 0, .call 1 0, .call 0 0, .call 0 0, .call 0 0, .call 0 0, .call 0 0, .call 0 0,
    .call 1 0, .call 1 0, .call 1 0, .call 1 0, .call 1 0, .call 1 0], 0, 0, by decide⟩

/-- The lock released BEFORE the insert (`Cfg.unlockBeforeInsert`): a second call re-checks in the window, inserts its
own store and is then overwritten by the first call's insert. -/
theorem create_lost_ack_if_unlocked_before_insert :
    ∃ (sched : List Label) (e r : Nat), evictFree sched = true ∧ Lost (run Cfg.unlockBeforeInsert init sched) e r :=
  ⟨[.call 0 0, .call 1 0, .call 0 0, .call 0 0, .call 0 0, .call 0 0, .call 0 0,
    .call 1 0, .call 1 0, .call 1 0, .call 1 0, .call 1 0, .call 1 0, .call 0 0, .call 0 0, .call 1 0], 1, 1, by decide⟩

end SigModel.Props.C11.Create

/-! ## 6. concurrent flushes of different segstores

The machine of `SigModel/Model/ConcFlush.lean`: one thread per store, each the block-summary part of a flush
(flushBlockSummary: encode the summary of the store's block into the work buffer, then append the buffer to the
segment's .bsu file), interleaved in ANY order — a flush holds the lock of its own store only.  `Cfg.real` (the work
buffer is allocated by the call) is tied to the source by the regenerated fact `C11.flush.bsu.pkgvars`
(flushBlockSummary and EncodeBlocksum refer to no package-level variable) and by the replay of generated schedules
on the real writer (suite conc, op `c11f`: every flush stopped before the encoding and before the write; the .bsu
files read back after rotation). -/

namespace SigModel.Props.C11.Flush
open SigModel.ConcFlush

/-- C11.6a (schedule independence) Whatever the interleaving of the flushes of the stores in a round — any schedule,
any number of stores, any blocks, any earlier file contents — every store j < n has afterwards appended EXACTLY the
summary of its own block to its own file: the stored contents equal those of the sequential execution. -/
theorem flush_round_equals_sequential (cur : Nat → Sum) (n : Nat) (s : St) (sched : List Nat) (j : Nat) (hj : j < n) :
    ((round Cfg.real cur n s sched).th j).file = (s.th j).file ++ [cur j] :=
  Lemmas.C11g.round_file cur n s sched j hj

/-- C11.6b (flushes of different stores commute) Two schedules of the same round leave the same files. -/
theorem flushes_of_different_stores_commute (cur : Nat → Sum) (n : Nat) (s : St) (sched₁ sched₂ : List Nat)
    (j : Nat) (hj : j < n) :
    ((round Cfg.real cur n s sched₁).th j).file = ((round Cfg.real cur n s sched₂).th j).file := by
  rw [flush_round_equals_sequential cur n s sched₁ j hj, flush_round_equals_sequential cur n s sched₂ j hj]

/-- C11.6c (any number of rounds = blocks per segment) After the rounds `scheds` (round r flushes the blocks
`cur r ·`) the file of store j holds, after what it held before, the summaries of ITS blocks in round order —
nothing of any other store, nothing missing, nothing twice. -/
theorem flush_rounds_equal_sequential (cur : Nat → Nat → Sum) (n : Nat) (scheds : List (List Nat)) :
    ∀ (r0 : Nat) (s : St) (j : Nat), j < n →
      ((rounds Cfg.real cur n r0 s scheds).th j).file =
        (s.th j).file ++ (List.range scheds.length).map (fun r => cur (r0 + r) j) := by
  induction scheds with
  | nil => intro r0 s j _; simp [rounds]
  | cons sched rest ih =>
    intro r0 s j hj
    rw [rounds, ih (r0 + 1) _ j hj, flush_round_equals_sequential (cur r0) n s sched j hj]
    rw [List.length_cons, List.range_succ_eq_map, List.map_cons, List.map_map, List.append_assoc]
    congr 1
    show cur r0 j :: _ = cur (r0 + 0) j :: _
    congr 1
    apply List.map_congr_left
    intro r _
    show cur (r0 + 1 + r) j = cur (r0 + (r + 1)) j
    rw [Nat.add_assoc, Nat.add_comm 1 r]

/-- C11.6d (the statement the replay checks on the real files) With the blocks of the replay harness, from the empty
engine: every block summary in the file of store j lies inside the time window of store j's own events. -/
theorem block_summaries_are_of_own_store (n : Nat) (scheds : List (List Nat)) (hlen : scheds.length ≤ 999)
    (j : Nat) (hj : j < n) (b : Sum) (hb : b ∈ ((rounds Cfg.real harnessCur n 0 init scheds).th j).file) :
    j * 1000000 ≤ b.lo ∧ b.lo ≤ b.hi ∧ b.hi < (j + 1) * 1000000 := by
  rw [flush_rounds_equal_sequential harnessCur n scheds 0 init j hj] at hb
  simp only [init, List.nil_append, List.mem_map, List.mem_range, Nat.zero_add] at hb
  obtain ⟨r, hr, rfl⟩ := hb
  simp only [harnessCur]
  omega

/-- Non-vacuity / why the buffer must not be shared: with ONE package-level work buffer (`Cfg.sharedWorkBuf`; "the
function runs with the segstore lock held" — the lock is per store) two stores between "encoded" and "written" at
the same time make the first one write the OTHER store's summary: the file of store 0 holds a block of store 1's
time window and none of its own. -/
theorem shared_work_buffer_counterexample :
    ∃ (sched : List Nat),
      ((round Cfg.sharedWorkBuf (harnessCur 0) 2 init sched).th 0).file = [harnessCur 0 1] ∧
      ((round Cfg.sharedWorkBuf (harnessCur 0) 2 init sched).th 0).file ≠ [harnessCur 0 0] :=
  ⟨[0, 0, 1, 1], by decide⟩

/-- … while the sequential schedule is harmless even then: the variant passes every test that flushes the stores
one after the other. -/
example : ((round Cfg.sharedWorkBuf (harnessCur 0) 2 init [0, 0, 0, 1, 1, 1]).th 0).file = [harnessCur 0 0] := by
  decide

end SigModel.Props.C11.Flush
