/-
C11 — Concurrent ingest, flush, rotation and search stay consistent.

Property theorems about the PROTOCOL LOGIC only: the interleaving machine of `SigModel/Model/Conc.lean`
(flush | rotation as its four steps in the order extracted from checkAndRotateColFiles /
CleanupUnrotatedSegment | query as its two segment-list snapshots in the order extracted from
getAllSegmentsInQuery / getAllSegmentsInAggs, followed by the read).  Every theorem quantifies over ALL
schedules (lists of labels "which thread moves next") from the initial empty state, for any number of
streams and queries.  `Cfg.real` is tied to the source by the go2lean call-order facts C11.* (lib/props.py).

NOT decided here (see lib/props.py, `partial`): data races in the Go memory model, deadlocks, crashes and
real scheduling — the stress worker and the `-race` build are exploration only.

The machine treats the read of one request as ONE step.  Section 4 (`ReadOne`) refines exactly that step to the
lock acquisitions of the read path and shows what the real reader does when a rotation completes between a
check and the look-up that follows it (a segment skipped / a crash): `no_loss` for RECORD queries holds for the
code only under the guard of `read_one_ok_partial` (count queries do not look the segment up again).

Block `(g, k)` "has been flushed" in state `s` iff `k < s.total g`; `(s.query j).pre` is `total` at the
moment query `j` took its first step (theorem `pre_is_flushed_at_first_step`).
-/
import SigModel.Model.Conc
import SigModel.Lemmas.C11d
import SigModel.Lemmas.C11e

namespace SigModel.Props.C11
open SigModel.Conc

/-- the state reached from the empty engine by a schedule, with the extracted orders -/
abbrev reach (sched : List Label) : St := run Cfg.real init sched

/-! ## 1. no loss -/

/-- C11.1 (invariant) At every step of every schedule, a request for a segment reads exactly the blocks
that were ever flushed to it: while the segment moves from open to rotated it is at every moment in the
unrotated map or in the rotated map, with all its blocks.  (Depends on add-before-remove.) -/
theorem flushed_blocks_always_visible (sched : List Label) (g : Seg) :
    nowCount (reach sched) g = (reach sched).total g :=
  Lemmas.C11.nowCount_eq_total _ (Lemmas.C11.inv_run init sched Lemmas.C11.inv_init) g

/-- … in the words of the property: every flushed block's segment is in unrotated ∪ rotated. -/
theorem flushed_segment_in_unrot_or_rot (sched : List Label) (g : Seg) (k : Nat)
    (h : k < (reach sched).total g) :
    k < (reach sched).unrot g ∨ k < (reach sched).rot g := by
  rcases Lemmas.C11.visible _ (Lemmas.C11.inv_run init sched Lemmas.C11.inv_init) g k h with h1 | h1
  · exact Or.inl h1.2
  · exact Or.inr h1

/-- the ghost `pre` is what it is called: when query `j` takes its first step, `pre` becomes the flush
history of that moment … -/
theorem pre_is_flushed_at_first_step (sched : List Label) (j : Nat) (k : Bool)
    (h : ((reach sched).query j).started = false) :
    ((reach (sched ++ [.q j k])).query j).pre = (reach sched).total := by
  have hq := Lemmas.C11.qinv_run sched j
  have hnf : ((reach sched).query j).finished = false := by
    cases hfin : ((reach sched).query j).finished with
    | false => rfl
    | true => have := (hq.finOk hfin).1; rw [h] at this; exact absurd this (by simp)
  simp only [reach] at *
  rw [Lemmas.C11.run_append]
  generalize run Cfg.real init sched = s at *
  simp [run, step, qStep, h, hnf, Cfg.real, applySnap, upd]

/-- … and it never changes afterwards. -/
theorem pre_stable (sched : List Label) (l : Label) (j : Nat)
    (h : ((reach sched).query j).started = true) :
    ((reach (sched ++ [l])).query j).pre = ((reach sched).query j).pre := by
  simp only [reach] at *
  rw [Lemmas.C11.run_append]
  generalize run Cfg.real init sched = s at *
  by_cases hl : ∃ k, l = .q j k
  · obtain ⟨k, hk⟩ := hl
    subst hk
    simp only [run, List.foldl_cons, List.foldl_nil, step, qStep]
    by_cases h1 : (s.query j).finished
    · simp [h1]
    · cases h3 : (s.query j).todo with
      | nil => simp [h1, h, upd]
      | cons a r => cases a <;> simp [h1, h, upd, applySnap]
  · simp only [run, List.foldl_cons, List.foldl_nil]
    rw [Lemmas.C11.query_frame _ l j (fun k hk => hl ⟨k, hk⟩)]

/-- C11.1 (snapshots) A query whose first snapshot step follows a completed flush has that flush's segment,
with a block count that covers the flushed block, in at least one of its two snapshots.
(Depends on add-before-remove in the rotation AND on unrotated-before-rotated in the query.) -/
theorem no_loss_snapshots (sched : List Label) (j : Nat) (g : Seg) (k : Nat)
    (hs : ((reach sched).query j).started = true) (ht : ((reach sched).query j).todo = [])
    (hk : k < ((reach sched).query j).pre g) :
    (∃ n, (g, n) ∈ ((reach sched).query j).snapU ∧ k < n) ∨
    (∃ n, (g, n) ∈ ((reach sched).query j).snapR ∧ k < n) :=
  (Lemmas.C11.qinv_run sched j).seenR hs ht g k hk

/-- C11.1 `no_loss`: in every interleaving, a finished query (record query or count query) has read every
block whose flush had completed before the query's first step. -/
theorem no_loss (sched : List Label) (j : Nat) (g : Seg) (k : Nat)
    (hf : ((reach sched).query j).finished = true) (hk : k < ((reach sched).query j).pre g) :
    (g, k) ∈ ((reach sched).query j).result :=
  (Lemmas.C11.qinv_run sched j).res hf g k hk

/-- the rotation with `removeSegKeyFromUnrotatedInfo` BEFORE `AddSegMetaToMetadata` -/
def Cfg.removeFirst : Cfg := { Cfg.real with rotOrder := [.segmetaFile, .removeUnrot, .addMeta, .reset] }

/-- the query taking the rotated snapshot BEFORE the unrotated one -/
def Cfg.rotatedFirst : Cfg := { Cfg.real with qOrder := [.snapR, .snapU] }

/-- why the rotation order is a checked fact: with remove-before-add there is a schedule in which a query
that starts after a completed flush loses the flushed block (the query runs between the two steps). -/
theorem no_loss_fails_if_rotation_reordered :
    ∃ (sched : List Label) (j : Nat) (g : Seg) (k : Nat),
      ((run Cfg.removeFirst init sched).query j).finished = true ∧
      k < ((run Cfg.removeFirst init sched).query j).pre g ∧
      (g, k) ∉ ((run Cfg.removeFirst init sched).query j).result :=
  ⟨[.flush 0, .rot 0, .rot 0, .q 0 false, .q 0 false, .q 0 false], 0, ⟨0, 0⟩, 0, by decide⟩

/-- why the snapshot order is a checked fact: with rotated-before-unrotated there is a schedule in which a
query loses a flushed block even though the rotation adds before it removes (the whole hand-over happens
between the two snapshots). -/
theorem no_loss_fails_if_snapshots_reordered :
    ∃ (sched : List Label) (j : Nat) (g : Seg) (k : Nat),
      ((run Cfg.rotatedFirst init sched).query j).finished = true ∧
      k < ((run Cfg.rotatedFirst init sched).query j).pre g ∧
      (g, k) ∉ ((run Cfg.rotatedFirst init sched).query j).result :=
  ⟨[.flush 0, .q 0 false, .rot 0, .rot 0, .rot 0, .q 0 false, .q 0 false], 0, ⟨0, 0⟩, 0, by decide⟩

/-! ## 2. at most once -/

/-- C11.2 for record queries: the read drops a (segment, block) pair it has already taken
(`processedBlocks`), so a record query returns every block at most once in every interleaving. -/
theorem at_most_once_rrc (sched : List Label) (j : Nat)
    (hf : ((reach sched).query j).finished = true) (hk : ((reach sched).query j).kind = .rrc) :
    ((reach sched).query j).result.Nodup :=
  (Lemmas.C11.qinv_run sched j).resRrc hf hk

/-- C11.2 at full strength (every finished query counts every block at most once) is FALSE for the code as
it is: the request list is not de-duplicated by segment key.  Witness: flush; the count query takes its
unrotated snapshot; the rotation publishes the segment (`AddSegMetaToMetadata`); the query takes its rotated
snapshot ⇒ the segment is in both snapshots and its block is counted twice.  (Replayed on the real engine by
the suite `conc`: `c11 1 f0 q0s r0 r0 q0s q0s` → count 4 for 2 events.) -/
theorem at_most_once_counterexample :
    ¬ (∀ (sched : List Label) (j : Nat), ((reach sched).query j).finished = true →
        ((reach sched).query j).result.Nodup) := by
  intro h
  have := h [.flush 0, .q 0 true, .rot 0, .rot 0, .q 0 true, .q 0 true] 0 (by decide)
  revert this
  decide

/-- what the minimal repair (de-duplicate the appended request lists by segment key, `Cfg.dedupSeg`) does to
the witness schedule: the block is counted once. -/
example : ((run { Cfg.real with dedupSeg := true } init
    [.flush 0, .q 0 true, .rot 0, .rot 0, .q 0 true, .q 0 true]).query 0).result = [(⟨0, 0⟩, 0)] := by
  decide

/-- the guard "no rotation step between the two snapshot steps" alone is NOT enough: both snapshots can
fall into the hand-over window of a rotation (published, not yet removed from the unrotated map). -/
theorem at_most_once_window_counterexample :
    ∃ (sched : List Label) (j : Nat), ((reach sched).query j).finished = true ∧
      ¬ ((reach sched).query j).result.Nodup :=
  ⟨[.flush 0, .rot 0, .rot 0, .q 0 true, .q 0 true, .q 0 true], 0, by decide⟩

/-- the two snapshots of a query name no segment twice -/
def SnapshotsDisjoint (q : Query) : Prop := ∀ r ∈ q.snapU, ∀ r' ∈ q.snapR, r.1 ≠ r'.1

instance (q : Query) : Decidable (SnapshotsDisjoint q) := by
  unfold SnapshotsDisjoint; infer_instance

/-- C11.2 partial (state guard): a finished query whose two snapshots are disjoint has read every block
at most once. -/
theorem at_most_once_partial (sched : List Label) (j : Nat)
    (hf : ((reach sched).query j).finished = true)
    (hd : SnapshotsDisjoint ((reach sched).query j)) :
    ((reach sched).query j).result.Nodup :=
  Lemmas.C11.nodup_of_disj _ j (Lemmas.C11.qinv_run sched j) hf hd

/-- … and the guard excludes exactly the failing class: a finished COUNT query counts some block twice
if and only if its two snapshots share a segment. -/
theorem count_query_nodup_iff (sched : List Label) (j : Nat)
    (hf : ((reach sched).query j).finished = true) (hk : ((reach sched).query j).kind = .stats) :
    ((reach sched).query j).result.Nodup ↔ SnapshotsDisjoint ((reach sched).query j) := by
  constructor
  · intro hn
    apply Classical.byContradiction
    intro hd
    exact Lemmas.C11.not_nodup_of_overlap _ j (Lemmas.C11.qinv_run sched j) hf hk hd hn
  · exact at_most_once_partial sched j hf

/-- no segment is in its hand-over window (in the unrotated map and already in the rotated map) -/
def WindowFree (s : St) : Prop := ∀ g ∈ s.segs, s.unrot g ≠ 0 → s.rot g = 0

instance (s : St) : Decidable (WindowFree s) := by
  unfold WindowFree; infer_instance

/-- neither a rotation step nor a step of query `j` -/
def QuietFor (j : Nat) (l : Label) : Prop := (∀ i, l ≠ .rot i) ∧ (∀ b, l ≠ .q j b)

/-- C11.2 partial (schedule guard): if query `j` takes its first snapshot when no segment is in its
hand-over window, and no rotation step runs before its second snapshot, then — whatever happens before
and afterwards — it reads every block at most once. -/
theorem at_most_once_no_rotation_overlap (p m rest : List Label) (j : Nat) (k k' : Bool)
    (hns : ((reach p).query j).started = false) (hw : WindowFree (reach p))
    (hm : ∀ l ∈ m, QuietFor j l)
    (hf : ((reach (p ++ .q j k :: (m ++ .q j k' :: rest))).query j).finished = true) :
    ((reach (p ++ .q j k :: (m ++ .q j k' :: rest))).query j).result.Nodup :=
  Lemmas.C11.quiet_nodup p m rest j k k' hns hw hm hf

/-- the guards are satisfiable: a rotation that completes before the count query starts, flushes woven
through the query — nothing is counted twice (and nothing is lost). -/
example :
    let p : List Label := [.flush 0, .flush 1, .rot 0, .rot 0, .rot 0, .rot 0, .flush 0]
    let sched := p ++ .q 0 true :: ([.flush 1, .flush 0] ++ .q 0 true :: [.rot 1, .q 0 true])
    ((reach p).query 0).started = false ∧ WindowFree (reach p) ∧
    ((reach sched).query 0).finished = true ∧ SnapshotsDisjoint ((reach sched).query 0) ∧
    ((reach sched).query 0).result = [(⟨1, 0⟩, 0), (⟨0, 1⟩, 0), (⟨0, 0⟩, 0)] := by
  decide

/-! ## 3. quiescence -/

/-- C11.3 `quiescent_eq_sequential`: when a schedule ends with no rotation in progress, the unrotated map,
the rotated map and the flush history equal those of the SEQUENTIAL execution `seqOf` of the same schedule —
the same effective flushes in the same order, every rotation run as one uninterrupted block of its steps,
no concurrency. -/
theorem quiescent_eq_sequential (sched : List Label) (hq : Quiescent (reach sched)) :
    let seqSched := seqOf Cfg.real init sched
    (∀ g, (reach sched).unrot g = (reach seqSched).unrot g) ∧
    (∀ g, (reach sched).rot g = (reach seqSched).rot g) ∧
    (∀ g, (reach sched).total g = (reach seqSched).total g) ∧
    (reach sched).segs = (reach seqSched).segs := by
  have hrel := Lemmas.C11.rel_run sched init init Lemmas.C11.inv_init Lemmas.C11.inv_init Lemmas.C11.rel_refl_init
  have hc := Lemmas.C11.inv_run init sched Lemmas.C11.inv_init
  have ha := Lemmas.C11.inv_run init (seqOf Cfg.real init sched) Lemmas.C11.inv_init
  have hce := Lemmas.C11.contents_eq _ _ hc ha hrel hq
  exact ⟨fun g => (hce g).1, fun g => (hce g).2, hrel.total, hrel.segs⟩

/-- … and at quiescence the stored contents are exactly the flushed blocks, each in exactly one of the two
maps: nothing lost, nothing doubled, nothing invented. -/
theorem quiescent_contents_exact (sched : List Label) (hq : Quiescent (reach sched)) (g : Seg) :
    ((reach sched).unrot g = (reach sched).total g ∧ (reach sched).rot g = 0) ∨
    ((reach sched).unrot g = 0 ∧ (reach sched).rot g = (reach sched).total g) := by
  have hc := Lemmas.C11.inv_run init sched Lemmas.C11.inv_init
  obtain ⟨i, k⟩ := g
  have hu := hc.unrot_eq i k
  have hr := hc.rot_eq i k
  have h0 := hq i
  simp only [reach] at *
  simp [Lemmas.C11.removed, Lemmas.C11.added, h0] at hu hr
  by_cases h1 : k < ((run Cfg.real init sched).store i).seq
  · right
    have : ¬ k = ((run Cfg.real init sched).store i).seq := by omega
    simp [h1, this] at hu hr
    exact ⟨hu, hr⟩
  · left
    simp [h1] at hr
    by_cases h2 : k = ((run Cfg.real init sched).store i).seq
    · subst h2
      simp at hu
      exact ⟨by rw [hu, hc.tot_eq i], hr⟩
    · simp [h2] at hu
      exact ⟨by rw [hu, hc.tot_gt i k (by omega)], hr⟩

/-! ## 4. the read of one request, at lock granularity -/

open SigModel.Conc.ReadOne in
/-- C11.1 at lock granularity, full strength: "whatever the interleaving with the rotation of its segment,
a finished read of a request has read the segment" is FALSE for the code as it is.  Witness: the check
`IsSegKeyUnrotated` in GetSSRsFromQSR answers yes, the rotation runs to `removeSegKeyFromUnrotatedInfo`, the
look-up in CheckMicroIndicesForUnrotated finds nothing and the segment is skipped: its events are silently
missing from the result.  (Replayed on the real engine: suite `conc`, op `c11w ssr`.) -/
theorem read_one_skipped_counterexample :
    ¬ (∀ (sched : List RLabel), (rrun false {} sched).pc = .done →
        ((rrun false {} sched).outcome = some .readUnrotated ∨ (rrun false {} sched).outcome = some .readRotated)) := by
  intro h
  have := h [.read, .rot, .rot, .rot, .read] (by decide)
  revert this
  decide

open SigModel.Conc.ReadOne in
/-- … and the same window one layer down ends in the double release of the FD semaphore, i.e. a crash of the
process.  (Replayed on the real engine: suite `conc`, op `c11w reader`.) -/
theorem read_one_crash_counterexample :
    ∃ (sched : List RLabel), (rrun false {} sched).outcome = some .crashed :=
  ⟨[.read, .read, .read, .rot, .rot, .rot, .read], by decide⟩

open SigModel.Conc.ReadOne in
/-- C11.1 at lock granularity, partial: if the `removeUnrot` step of the segment's rotation does not fall
between a check and its look-up, a finished read has read the segment (from the unrotated entry or from the
rotated metadata) — in particular nothing is skipped and nothing crashes. -/
theorem read_one_ok_partial (sched : List RLabel) (hg : noRemoveInWindow {} sched = true)
    (hd : (rrun false {} sched).pc = .done) :
    (rrun false {} sched).outcome = some .readUnrotated ∨ (rrun false {} sched).outcome = some .readRotated :=
  (Lemmas.C11.ReadOne.good_run sched {} Lemmas.C11.ReadOne.good_init hg).2.1 hd

open SigModel.Conc.ReadOne in
/-- the guard is satisfiable with a rotation that does run concurrently with the read -/
example : noRemoveInWindow {} [.rot, .read, .read, .rot, .rot, .read, .rot] = true ∧
    (rrun false {} [.rot, .read, .read, .rot, .rot, .read, .rot]).outcome = some .readRotated := by
  decide

open SigModel.Conc.ReadOne in
/-- what the minimal repair achieves: a reader that checks and looks up under ONE lock acquisition never
skips the segment and never crashes, in every interleaving (given add-before-remove). -/
theorem read_one_never_fails_if_lookup_atomic (sched : List RLabel) :
    (rrun true {} sched).outcome ≠ some .skipped ∧ (rrun true {} sched).outcome ≠ some .crashed :=
  (Lemmas.C11.ReadOne.goodAtomic_run sched {} (by simp [Lemmas.C11.ReadOne.GoodAtomic])).2.2

end SigModel.Props.C11
