/-
C15 — Bulk ingest acknowledges exactly what it stored.  Property theorems only.

For EVERY bulk body (as a sequence of actions over any number of index names, each with or without its document
line, optionally followed by an incomplete final action and/or a trailing newline), every index-name predicate,
every alias table and every store behaviour:
 * the response has exactly one item per action, in order; an item's status depends only on its own action and
   document (locality); the `errors` flag is true iff some item is not `created`        (C15.1, C15.3, C15.4)
 * the documents accepted by the loop are exactly those of the `created` items, in order, each with the index
   name of ITS action                                                                  (C15.2)
 * after the loop every accepted document is handed to the store exactly once, in the ONE batch of its own index
   name, in request order; no batch contains a document of another index name; every batch passes
   ProcessIndexRequestPle's checks and reaches the store under the real index of its name   (C15.5, C15.6)
 * "created ⇒ stored" itself is FALSE for the code as it is: the error of the store call is only logged, the
   response never depends on the store (C15.7).  The full statement, its counterexample, and the partial
   statement under the decidable guard "the store accepts every batch of this request" — which is exactly the
   class where it holds (C15.8) — with the locality of a store failure (only the refused index loses documents).
(The loop statements were false before the two `fix:` commits e6f2a3b / 1f7d4e3 — see known_findings.txt.)
-/
import SigModel.Model.Bulk
import SigModel.Lemmas.C15
import SigModel.Lemmas.C15Store

namespace SigModel.Props.C15
open SigModel.Bulk

/-- an action of the request: a one-line action (delete / unknown / malformed), or an
index/create/update action followed by its document line -/
inductive Action where
  | single (l : Line)
  | withDoc (a doc : Line)
deriving Repr, DecidableEq

def Action.lines : Action → List Line
  | .single l => [l]
  | .withDoc a d => [a, d]

/-- what the request syntax guarantees about the abstraction of a line -/
def Action.wf : Action → Prop
  | .single l => l.kind = Kind.other ∧ 0 < l.len
  | .withDoc a d => a.kind ≠ Kind.other ∧ 0 < a.len ∧ 0 < d.len

/-- the per-action specification: depends on nothing but the action itself (and the index-name predicate) -/
def status (env : Env) : Action → Status
  | .single _ => .failed
  | .withDoc a d =>
    if a.kind = Kind.update then .failed
    else if env.valid a.idx = false then .failed
    else if maxRecordSize ≤ d.len then .tooLarge
    else if d.docOk then .created else .failed

/-- the document an action contributes, with the index name of the action -/
def storedOf (env : Env) : Action → List (Nat × Nat)
  | .single _ => []
  | .withDoc a d =>
    if a.kind ≠ Kind.update ∧ env.valid a.idx = true ∧ d.len < maxRecordSize ∧ d.docOk then [(a.idx, d.id)] else []

def emptyLine : Line := { kind := .other, len := 0, docOk := false, id := 0, idx := 0 }

/-- the body: complete actions, then optionally an index/create/update line whose document is
missing, then optionally the trailing newline (= a final empty line) -/
def bodyOf (acts : List Action) (dangling : Option Line) (nl : Bool) : List Line :=
  acts.flatMap Action.lines ++ dangling.toList ++ (if nl then [emptyLine] else [])

def expectedItems (env : Env) (acts : List Action) (dangling : Option Line) : List Status :=
  acts.map (status env) ++ (dangling.map (fun _ => Status.failed)).toList

/-- the (index name, document) pairs of the `created` items, in request order -/
def created (env : Env) (acts : List Action) : List (Nat × Nat) := acts.flatMap (storedOf env)

/-- the documents of the `created` items addressed to index name `x`, in request order -/
def docsOf (env : Env) (acts : List Action) (x : Nat) : List Nat :=
  ((created env acts).filter (·.1 == x)).map (·.2)

/-- the loop on a well-formed body: items, accepted documents and `errors` flag at once (C15.1–C15.3 are its parts) -/
theorem loop_spec (env : Env) (acts : List Action) (dangling : Option Line) (nl : Bool)
    (hwf : ∀ a ∈ acts, a.wf) (hd : ∀ l, dangling = some l → l.kind ≠ Kind.other ∧ 0 < l.len) :
    (handle env (bodyOf acts dangling nl)).items = expectedItems env acts dangling ∧
    (handle env (bodyOf acts dangling nl)).ples = created env acts ∧
    (handle env (bodyOf acts dangling nl)).overallError = (expectedItems env acts dangling).any (· ≠ Status.created) :=
  Lemmas.C15.handle_spec env
    (fun a => match a with | .single l => .single l | .withDoc a d => .withDoc a d)
    Action.lines Action.wf (status env) (storedOf env)
    (by intro a; cases a <;> rfl) (by intro a h; cases a <;> exact h)
    (by intro a; cases a <;> rfl) (by intro a; cases a <;> rfl) acts dangling nl hwf hd

/-- every accepted document was addressed to a valid index name -/
theorem created_have_valid_index (env : Env) (acts : List Action) : ∀ p ∈ created env acts, env.valid p.1 = true := by
  intro p hp
  obtain ⟨a, _, hpa⟩ := List.mem_flatMap.1 hp
  cases a with
  | single l => simp [storedOf] at hpa
  | withDoc x d =>
    by_cases h : x.kind ≠ Kind.update ∧ env.valid x.idx = true ∧ d.len < maxRecordSize ∧ d.docOk
    · simp only [storedOf, if_pos h, List.mem_singleton] at hpa
      rw [hpa]; exact h.2.1
    · simp only [storedOf, if_neg h] at hpa
      cases hpa

/-- C15.1 one item per action, in request order, each determined by its own action only -/
theorem items_per_action (env : Env) (acts : List Action) (dangling : Option Line) (nl : Bool)
    (hwf : ∀ a ∈ acts, a.wf) (hd : ∀ l, dangling = some l → l.kind ≠ Kind.other ∧ 0 < l.len) :
    (handle env (bodyOf acts dangling nl)).items = expectedItems env acts dangling :=
  (loop_spec env acts dangling nl hwf hd).1

/-- C15.2 created ⇔ accepted for the store: the documents the loop keeps (`allPLEs`) are exactly those of the
created items, in order, each under the index name of its own action -/
theorem stored_iff_created (env : Env) (acts : List Action) (dangling : Option Line) (nl : Bool)
    (hwf : ∀ a ∈ acts, a.wf) (hd : ∀ l, dangling = some l → l.kind ≠ Kind.other ∧ 0 < l.len) :
    (handle env (bodyOf acts dangling nl)).ples = acts.flatMap (storedOf env) ∧
    (∀ a ∈ acts, (storedOf env a ≠ [] ↔ status env a = Status.created)) := by
  refine ⟨(loop_spec env acts dangling nl hwf hd).2.1, ?_⟩
  intro a _
  cases a with
  | single l => exact Lemmas.C15.storedOf_ne_nil_iff env (.single l)
  | withDoc x d => exact Lemmas.C15.storedOf_ne_nil_iff env (.withDoc x d)

/-- C15.3 `errors` is true iff some item failed (400 or 413) -/
theorem errors_iff_some_failed (env : Env) (acts : List Action) (dangling : Option Line) (nl : Bool)
    (hwf : ∀ a ∈ acts, a.wf) (hd : ∀ l, dangling = some l → l.kind ≠ Kind.other ∧ 0 < l.len) :
    (handle env (bodyOf acts dangling nl)).overallError = (expectedItems env acts dangling).any (· ≠ Status.created) :=
  (loop_spec env acts dangling nl hwf hd).2.2

/-- C15.4 locality: replacing one action (and its document) by any other changes that item only -/
theorem local_failure (env : Env) (pre post : List Action) (a a' : Action) (nl : Bool)
    (hwf : ∀ x ∈ pre ++ a :: post, x.wf) (hwf' : a'.wf) :
    ∃ s s', (handle env (bodyOf (pre ++ a :: post) none nl)).items = pre.map (status env) ++ s :: post.map (status env) ∧
            (handle env (bodyOf (pre ++ a' :: post) none nl)).items = pre.map (status env) ++ s' :: post.map (status env) := by
  have hwf2 : ∀ x ∈ pre ++ a' :: post, x.wf := by
    intro x hx
    rcases List.mem_append.1 hx with h | h
    · exact hwf x (List.mem_append_left _ h)
    · rcases List.mem_cons.1 h with h | h
      · exact h ▸ hwf'
      · exact hwf x (List.mem_append_right _ (List.mem_cons_of_mem _ h))
  refine ⟨status env a, status env a', ?_, ?_⟩
  · rw [items_per_action env _ none nl hwf (by intro l h; cases h)]
    simp [expectedItems]
  · rw [items_per_action env _ none nl hwf2 (by intro l h; cases h)]
    simp [expectedItems]

/-! ### after the loop: several indexes per request, the store -/

/-- C15.5 every document acknowledged as created is handed to the store exactly once under ITS index name, in
request order per index: for every index name `x`, what is handed over under `x` is — as a list, so with
multiplicity and order — the created documents of the actions addressed to `x`, and there is at most one batch
for `x`.  For every request, over any number of index names in any interleaving. -/
theorem handed_once_under_its_index (env : Env) (acts : List Action) (dangling : Option Line) (nl : Bool)
    (hwf : ∀ a ∈ acts, a.wf) (hd : ∀ l, dangling = some l → l.kind ≠ Kind.other ∧ 0 < l.len) (x : Nat) :
    (handleReq env (bodyOf acts dangling nl)).handedUnder x = (created env acts).filter (·.1 == x) ∧
    ((handleReq env (bodyOf acts dangling nl)).calls.filter (·.idx == x)).length ≤ 1 := by
  have hp := (loop_spec env acts dangling nl hwf hd).2.1
  have e : handleReq env (bodyOf acts dangling nl) =
      { st := handle env (bodyOf acts dangling nl), calls := Lemmas.C15.callsOf env (created env acts) } := by
    rw [← hp]; rfl
  rw [e]
  exact ⟨Lemmas.C15.handedUnder_callsOf env _ _ x, Lemmas.C15.callsOf_count env _ x⟩

/-- C15.6 no document is handed to the store under another index: every batch consists of documents whose own
index name is the batch's, is not empty, is never turned away by ProcessIndexRequestPle's own checks (index-name
mismatch, invalid name), and reaches the store under the real index of its name (an alias resolved) -/
theorem no_document_under_another_index (env : Env) (acts : List Action) (dangling : Option Line) (nl : Bool)
    (hwf : ∀ a ∈ acts, a.wf) (hd : ∀ l, dangling = some l → l.kind ≠ Kind.other ∧ 0 < l.len) :
    ∀ c ∈ (handleReq env (bodyOf acts dangling nl)).calls,
      (∀ p ∈ c.docs, p.1 = c.idx) ∧ c.docs ≠ [] ∧
      (c.res = .stored (env.resolve c.idx) ∨ c.res = .refused (env.resolve c.idx)) := by
  intro c hc
  have hp := (loop_spec env acts dangling nl hwf hd).2.1
  rw [Lemmas.C15.handleReq_calls, hp] at hc
  obtain ⟨h1, h2, _, h4⟩ := Lemmas.C15.callsOf_res env _ (created_have_valid_index env acts) c hc
  exact ⟨h2, h4, h1⟩

/-- C15.7 the response never depends on the store: whatever the store does with the batches, items, `errors`
and the processed count are the same (the error of the store call is only logged) -/
theorem response_independent_of_store (env : Env) (store' : Nat → List Nat → Bool) (body : List Line) :
    (handleReq { env with store := store' } body).st = (handleReq env body).st := by
  have hstep : ∀ s l r, stepAction { env with store := store' } s l r = stepAction env s l r := by
    intro s l r; rfl
  have hloop : ∀ f s b, loop { env with store := store' } f s b = loop env f s b := by
    intro f
    induction f with
    | zero => intro s b; rfl
    | succ f ih => intro s b; simp only [loop, hstep, ih]
  exact hloop _ _ _

/-- the full statement of "created ⇔ stored" at the store: for every request and every store behaviour, the
documents the store took under each index name are exactly the created documents addressed to it -/
def AcknowledgedIsStored : Prop :=
  ∀ (env : Env) (acts : List Action) (dangling : Option Line) (nl : Bool),
    (∀ a ∈ acts, a.wf) → (∀ l, dangling = some l → l.kind ≠ Kind.other ∧ 0 < l.len) →
    ∀ x, (handleReq env (bodyOf acts dangling nl)).storedUnder x = docsOf env acts x

/-- guard: the store accepts every batch of this request (decidable: finitely many batches) -/
def storeAccepts (env : Env) (acts : List Action) : Bool :=
  ((created env acts).map (·.1)).all (fun x => env.store (env.resolve x) (docsOf env acts x))

/-- what the store holds for index name `x` after the request, exactly: the created documents addressed to `x` if
the store accepted their batch, nothing otherwise -/
theorem stored_under_exact (env : Env) (acts : List Action) (dangling : Option Line) (nl : Bool)
    (hwf : ∀ a ∈ acts, a.wf) (hd : ∀ l, dangling = some l → l.kind ≠ Kind.other ∧ 0 < l.len) (x : Nat) :
    (handleReq env (bodyOf acts dangling nl)).storedUnder x =
      if env.store (env.resolve x) (docsOf env acts x) then docsOf env acts x else [] := by
  have hp := (loop_spec env acts dangling nl hwf hd).2.1
  have e : handleReq env (bodyOf acts dangling nl) =
      { st := handle env (bodyOf acts dangling nl), calls := Lemmas.C15.callsOf env (created env acts) } := by
    rw [← hp]; rfl
  rw [e]
  exact Lemmas.C15.storedUnder_callsOf env _ _ x (created_have_valid_index env acts)

/-- C15.8a a store failure is local to its index: if the store accepts the batch of index name `x`, then exactly
the created documents addressed to `x` are stored under it, in order — whatever happens to the other batches -/
theorem store_failure_local (env : Env) (acts : List Action) (dangling : Option Line) (nl : Bool)
    (hwf : ∀ a ∈ acts, a.wf) (hd : ∀ l, dangling = some l → l.kind ≠ Kind.other ∧ 0 < l.len) (x : Nat)
    (hx : env.store (env.resolve x) (docsOf env acts x) = true) :
    (handleReq env (bodyOf acts dangling nl)).storedUnder x = docsOf env acts x := by
  rw [stored_under_exact env acts dangling nl hwf hd x, if_pos hx]

/-- C15.8b what the code does when the store refuses a batch: nothing of it is stored, and every one of its
items has nevertheless been answered `created` (the items are those of the per-action specification) -/
theorem refused_batch_is_acknowledged (env : Env) (acts : List Action) (dangling : Option Line) (nl : Bool)
    (hwf : ∀ a ∈ acts, a.wf) (hd : ∀ l, dangling = some l → l.kind ≠ Kind.other ∧ 0 < l.len) (x : Nat)
    (hx : env.store (env.resolve x) (docsOf env acts x) = false) :
    (handleReq env (bodyOf acts dangling nl)).storedUnder x = [] ∧
    (handleReq env (bodyOf acts dangling nl)).st.items = expectedItems env acts dangling := by
  refine ⟨?_, items_per_action env acts dangling nl hwf hd⟩
  rw [stored_under_exact env acts dangling nl hwf hd x, hx]; rfl

/-- C15.8 partial statement: when the store accepts every batch of the request, created ⇔ stored holds for
every index name — and this guard is EXACTLY the class where it holds -/
theorem acknowledged_is_stored_partial (env : Env) (acts : List Action) (dangling : Option Line) (nl : Bool)
    (hwf : ∀ a ∈ acts, a.wf) (hd : ∀ l, dangling = some l → l.kind ≠ Kind.other ∧ 0 < l.len) :
    storeAccepts env acts = true ↔
      ∀ x, (handleReq env (bodyOf acts dangling nl)).storedUnder x = docsOf env acts x := by
  constructor
  · intro hg x
    rw [stored_under_exact env acts dangling nl hwf hd x]
    by_cases hx : x ∈ (created env acts).map (·.1)
    · have := List.all_eq_true.1 hg x hx
      rw [if_pos this]
    · have : docsOf env acts x = [] := by
        unfold docsOf
        rw [Lemmas.C15.filter_nil_of_not_mem _ x hx]; rfl
      rw [this]; split <;> rfl
  · intro h
    unfold storeAccepts
    rw [List.all_eq_true]
    intro x hx
    have hne : docsOf env acts x ≠ [] := by
      obtain ⟨p, hp, hpx⟩ := List.mem_map.1 hx
      unfold docsOf
      intro hnil
      have hmem : p ∈ (created env acts).filter (·.1 == x) := List.mem_filter.2 ⟨hp, by simp [hpx]⟩
      have : p.2 ∈ ((created env acts).filter (·.1 == x)).map (·.2) := List.mem_map.2 ⟨p, hmem, rfl⟩
      rw [hnil] at this; cases this
    have hx' := h x
    rw [stored_under_exact env acts dangling nl hwf hd x] at hx'
    cases hs : env.store (env.resolve x) (docsOf env acts x)
    · rw [hs] at hx'; exact absurd hx'.symm hne
    · rfl

/-- a store that never fails satisfies the guard for every request -/
theorem storeAccepts_of_never_fails (env : Env) (h : ∀ i ds, env.store i ds = true) (acts : List Action) :
    storeAccepts env acts = true := by
  unfold storeAccepts
  rw [List.all_eq_true]
  intro x _
  exact h _ _

/-- the code as it is violates the full statement: one `index` action with a good document, a store that
refuses — the item is answered `created`, nothing is stored -/
theorem acknowledged_is_stored_counterexample : ¬ AcknowledgedIsStored := by
  intro h
  have := h { valid := fun _ => true, resolve := id, store := fun _ _ => false }
    [.withDoc ⟨.index, 29, true, 0, 0⟩ ⟨.other, 20, true, 7, 0⟩] none true
    (by intro a ha; simp at ha; subst ha; simp [Action.wf]) (by intro l hl; cases hl) 0
  revert this
  decide

/-- the guard is satisfiable, with several indexes, an alias and a failing item in the request -/
example : storeAccepts { valid := fun x => x != 9, resolve := fun x => if x == 4 then 0 else x, store := fun _ _ => true }
    [.withDoc ⟨.index, 29, true, 0, 0⟩ ⟨.other, 20, true, 1, 0⟩,
     .withDoc ⟨.index, 29, true, 0, 4⟩ ⟨.other, 20, true, 2, 0⟩,
     .withDoc ⟨.index, 29, true, 0, 9⟩ ⟨.other, 20, true, 3, 0⟩] = true := by decide

/-- non-vacuity: an oversize document followed by a malformed one and a trailing delete -/
example :
    (handle { valid := fun _ => true, resolve := id, store := fun _ _ => true }
      (bodyOf [.withDoc ⟨.index, 29, true, 1, 0⟩ ⟨.other, 63021, true, 2, 0⟩,
               .withDoc ⟨.create, 30, true, 3, 0⟩ ⟨.other, 20, false, 4, 0⟩,
               .single ⟨.other, 40, true, 5, 0⟩] none false)).items = [.tooLarge, .failed, .failed] := by
  decide

/-- non-vacuity, several indexes: index order A,A,B,A gives one batch for A with its three documents in request
order and one batch for B; when the store refuses B's batch only B's document is lost, all four items are `created` -/
example :
    let r := handleReq { valid := fun _ => true, resolve := id, store := fun i _ => i != 1 }
      (bodyOf [.withDoc ⟨.index, 29, true, 0, 0⟩ ⟨.other, 20, true, 1, 0⟩,
               .withDoc ⟨.index, 29, true, 0, 0⟩ ⟨.other, 20, true, 2, 0⟩,
               .withDoc ⟨.index, 29, true, 0, 1⟩ ⟨.other, 20, true, 3, 0⟩,
               .withDoc ⟨.index, 29, true, 0, 0⟩ ⟨.other, 20, true, 4, 0⟩] none true)
    r.st.items = [.created, .created, .created, .created] ∧ r.st.overallError = false ∧
    r.calls = [⟨0, [(0, 1), (0, 2), (0, 4)], .stored 0⟩, ⟨1, [(1, 3)], .refused 1⟩] ∧
    r.storedUnder 0 = [1, 2, 4] ∧ r.storedUnder 1 = [] := by
  decide

end SigModel.Props.C15
