/-
C15 — Bulk ingest acknowledges exactly what it stored.  Property theorems only.
(The vocabulary — a request as a list of actions `Act`, the per-action specification `Act.status`, `finalStatus`,
`finalItems`, `docsOf`, `finalDocsOf` — is defined in Lemmas/C15.lean and Lemmas/C15Store.lean.)

For EVERY bulk body (as a sequence of actions over any number of index names, each with or without its document
line, optionally followed by an incomplete final action and/or a trailing newline), every index-name predicate,
every alias table and every store behaviour, for the code as repaired (c15-3, c15-5):
 * the response has exactly one item per action, in order; an item's status depends only on its own action and
   document and on whether the store took the batch of its index; `errors` is true iff some item is not `created`
                                                                              (C15.1, C15.3, C15.4, C15.5)
 * the documents accepted by the loop are exactly those the loop answers `created`, in order, each with the index
   name of ITS action; a `.kibana` document, which nothing stores, is never answered created   (C15.2, C15.9)
 * after the loop every accepted document is handed to the store exactly once, in the ONE batch of its own index
   name, in request order; no batch contains a document of another index name; every batch passes
   ProcessIndexRequestPle's checks and reaches the store under the real index of its name   (C15.6, C15.7)
 * created ⇔ stored, at full strength: for every index name, what the store took is — as a list, so with order
   and multiplicity — the documents of the actions whose RESPONSE ITEM is `created` (C15.8); a store failure is
   local to its index (C15.8a) and is reported on exactly the items of the refused batch (C15.8b).
The same statement is refuted for the code before each of the two repairs (`…_old_counterexample_…`).
(The loop statements were false before the two `fix:` commits e6f2a3b / 1f7d4e3 — see known_findings.txt.)
-/
import SigModel.Model.Bulk
import SigModel.Lemmas.C15
import SigModel.Lemmas.C15Store

namespace SigModel.Props.C15
open SigModel.Bulk SigModel.Lemmas.C15

/-- C15.1 (loop) one item per action, in request order, each determined by its own action only -/
theorem items_per_action (env : Env) (acts : List Act) (dangling : Option Line) (nl : Bool)
    (hwf : ∀ a ∈ acts, a.wf) (hd : ∀ l, dangling = some l → l.kind ≠ Kind.other ∧ 0 < l.len) :
    (handle Version.fixed env (bodyOf acts dangling nl)).items = loopItems env acts dangling :=
  (handle_spec env acts dangling nl hwf hd).1

/-- C15.2 (loop) created ⇔ accepted for the store: the events the loop keeps (`allPLEs`) are exactly those of
the items it answers created, in order, each under the index name of its own action and tagged with the position
of its own item -/
theorem stored_iff_created (env : Env) (acts : List Act) (dangling : Option Line) (nl : Bool)
    (hwf : ∀ a ∈ acts, a.wf) (hd : ∀ l, dangling = some l → l.kind ≠ Kind.other ∧ 0 < l.len) :
    (handle Version.fixed env (bodyOf acts dangling nl)).ples = plesFrom env acts 0 ∧
    ((handle Version.fixed env (bodyOf acts dangling nl)).ples.map (fun p => (p.1, p.2.1))) = acts.flatMap (Act.storedOf env) ∧
    (∀ a ∈ acts, (a.storedOf env ≠ [] ↔ a.status env = Status.created)) := by
  have h := (handle_spec env acts dangling nl hwf hd).2.1
  refine ⟨h, ?_, fun a _ => storedOf_ne_nil_iff env a⟩
  rw [h]; exact plesFrom_proj env acts 0

/-- C15.3 `errors` of the response is true iff some item of the response is not `created` (400, 413 or 503) -/
theorem errors_iff_some_failed (env : Env) (acts : List Act) (dangling : Option Line) (nl : Bool)
    (hwf : ∀ a ∈ acts, a.wf) (hd : ∀ l, dangling = some l → l.kind ≠ Kind.other ∧ 0 < l.len) :
    (handleReq env (bodyOf acts dangling nl)).errors = (handleReq env (bodyOf acts dangling nl)).items.any (· ≠ Status.created) := by
  rw [final_errors env acts dangling nl hwf hd, final_items env acts dangling nl hwf hd]; rfl

/-- C15.4 locality in the loop: replacing one action (and its document) by any other changes that item only -/
theorem local_failure (env : Env) (pre post : List Act) (a a' : Act) (nl : Bool)
    (hwf : ∀ x ∈ pre ++ a :: post, x.wf) (hwf' : a'.wf) :
    ∃ s s', (handle Version.fixed env (bodyOf (pre ++ a :: post) none nl)).items = pre.map (Act.status env) ++ s :: post.map (Act.status env) ∧
            (handle Version.fixed env (bodyOf (pre ++ a' :: post) none nl)).items = pre.map (Act.status env) ++ s' :: post.map (Act.status env) := by
  have hwf2 : ∀ x ∈ pre ++ a' :: post, x.wf := by
    intro x hx
    rcases List.mem_append.1 hx with h | h
    · exact hwf x (List.mem_append_left _ h)
    · rcases List.mem_cons.1 h with h | h
      · exact h ▸ hwf'
      · exact hwf x (List.mem_append_right _ (List.mem_cons_of_mem _ h))
  refine ⟨a.status env, a'.status env, ?_, ?_⟩
  · rw [items_per_action env _ none nl hwf (by intro l h; cases h)]
    simp [loopItems, tailItems]
  · rw [items_per_action env _ none nl hwf2 (by intro l h; cases h)]
    simp [loopItems, tailItems]

/-- C15.5 the response: one item per action, in request order; the item of an action is the loop's, except that
a created item becomes `unavailable` exactly when the store refused the batch of its index name -/
theorem response_items (env : Env) (acts : List Act) (dangling : Option Line) (nl : Bool)
    (hwf : ∀ a ∈ acts, a.wf) (hd : ∀ l, dangling = some l → l.kind ≠ Kind.other ∧ 0 < l.len) :
    (handleReq env (bodyOf acts dangling nl)).items = finalItems env acts dangling :=
  final_items env acts dangling nl hwf hd

/-- C15.6 every document the loop accepted is handed to the store exactly once under ITS index name, in
request order per index: for every index name `x`, what is handed over under `x` is — as a list, so with
multiplicity and order — the accepted documents of the actions addressed to `x`, and there is at most one batch
for `x`.  For every request, over any number of index names in any interleaving. -/
theorem handed_once_under_its_index (env : Env) (acts : List Act) (dangling : Option Line) (nl : Bool)
    (hwf : ∀ a ∈ acts, a.wf) (hd : ∀ l, dangling = some l → l.kind ≠ Kind.other ∧ 0 < l.len) (x : Nat) :
    ((handleReq env (bodyOf acts dangling nl)).handedUnder x).map (fun p => (p.1, p.2.1)) = (created env acts).filter (·.1 == x) ∧
    ((handleReq env (bodyOf acts dangling nl)).calls.filter (·.idx == x)).length ≤ 1 := by
  have hp := (handle_spec env acts dangling nl hwf hd).2.1
  have hc : (handleReq env (bodyOf acts dangling nl)).calls = callsOf env (plesFrom env acts 0) := by
    rw [handleReq_calls, hp]
  refine ⟨?_, by rw [hc]; exact callsOf_count env _ x⟩
  rw [handedUnder_callsOf env _ _ hc x, ← plesFrom_proj env acts 0, List.filter_map]
  rfl

/-- C15.7 no document is handed to the store under another index: every batch consists of documents whose own
index name is the batch's, is not empty, is never turned away by ProcessIndexRequestPle's own checks (index-name
mismatch, invalid name), and reaches the store under the real index of its name (an alias resolved) -/
theorem no_document_under_another_index (env : Env) (acts : List Act) (dangling : Option Line) (nl : Bool)
    (hwf : ∀ a ∈ acts, a.wf) (hd : ∀ l, dangling = some l → l.kind ≠ Kind.other ∧ 0 < l.len) :
    ∀ c ∈ (handleReq env (bodyOf acts dangling nl)).calls,
      (∀ p ∈ c.docs, p.1 = c.idx) ∧ c.docs ≠ [] ∧
      (c.res = .stored (env.resolve c.idx) ∨ c.res = .refused (env.resolve c.idx)) := by
  intro c hc
  have hp := (handle_spec env acts dangling nl hwf hd).2.1
  rw [handleReq_calls, hp] at hc
  obtain ⟨h1, h2, _, h4⟩ := callsOf_res env _ (plesFrom_valid env acts 0) c hc
  exact ⟨h2, h4, h1⟩

/-- the documents of the actions whose RESPONSE ITEM is `created` and that address index name `x`, in request
order — read off the response itself, whatever code produced it -/
def ackedDocs (items : List Status) (acts : List Act) (x : Nat) : List Nat :=
  ((acts.zip items).filter (fun ai => ai.2 == Status.created && ai.1.idxOf == x)).map (fun ai => ai.1.docId)

/-- the full statement of "created ⇔ stored" for a bulk handler: for every request, every index-name predicate,
alias table and store behaviour, and every index name, the documents the store took under it are exactly — in
order, each once — the documents of the items the response reports as created -/
def AcknowledgedIsStored (handler : Env → List Line → Resp) : Prop :=
  ∀ (env : Env) (acts : List Act) (dangling : Option Line) (nl : Bool),
    (∀ a ∈ acts, a.wf) → (∀ l, dangling = some l → l.kind ≠ Kind.other ∧ 0 < l.len) →
    ∀ x, (handler env (bodyOf acts dangling nl)).storedUnder x =
      ackedDocs (handler env (bodyOf acts dangling nl)).items acts x

/-- reading the created documents off a response that has one item per action -/
theorem ackedDocs_of_map (f : Act → Status) (acts : List Act) (t : List Status) (x : Nat) :
    ackedDocs (acts.map f ++ t) acts x = (acts.filter (fun a => f a == Status.created && a.idxOf == x)).map Act.docId := by
  unfold ackedDocs
  induction acts with
  | nil => simp
  | cons a r ih =>
    simp only [List.map_cons, List.cons_append, List.zip_cons_cons, List.filter_cons]
    by_cases h : (f a == Status.created && a.idxOf == x) = true
    · simp only [h, if_true, List.map_cons, ih]
    · have h' : (f a == Status.created && a.idxOf == x) = false := by simpa using h
      simp only [h', Bool.false_eq_true, if_false]
      exact ih

/-- C15.8 created ⇔ stored, at full strength, for the repaired code: whatever the store does with the batches -/
theorem acknowledged_is_stored : AcknowledgedIsStored handleReq := by
  intro env acts dangling nl hwf hd x
  rw [final_items env acts dangling nl hwf hd, stored_eq_finalDocs env acts dangling nl hwf hd x,
    ackedDocs_of_map]
  rfl

/-- before repair c15-3 the statement was false: one `index` action with a good document, a store that refuses —
the item is answered `created`, nothing is stored -/
theorem acknowledged_is_stored_old_counterexample_store :
    ¬ AcknowledgedIsStored (handleReqV { kibanaAcked := false, storeErrorIgnored := true }) := by
  intro h
  have := h { valid := fun _ => true, kibana := fun _ => false, resolve := id, store := fun _ _ => false }
    [.withDoc ⟨.index, 29, true, 0, 0⟩ ⟨.other, 20, true, 7, 0⟩] none true
    (by intro a ha; simp at ha; subst ha; simp [Act.wf]) (by intro l hl; cases hl) 0
  revert this
  decide

/-- before repair c15-5 the statement was false: one `index` action for a `.kibana` index name with a good
document, a store that never fails — the item is answered `created`, the document goes nowhere -/
theorem acknowledged_is_stored_old_counterexample_kibana :
    ¬ AcknowledgedIsStored (handleReqV { kibanaAcked := true, storeErrorIgnored := false }) := by
  intro h
  have := h { valid := fun _ => true, kibana := fun _ => true, resolve := id, store := fun _ _ => true }
    [.withDoc ⟨.index, 29, true, 0, 0⟩ ⟨.other, 20, true, 7, 0⟩] none true
    (by intro a ha; simp at ha; subst ha; simp [Act.wf]) (by intro l hl; cases hl) 0
  revert this
  decide

/-- and so for the code before both repairs -/
theorem acknowledged_is_stored_old_counterexample : ¬ AcknowledgedIsStored handleReqOld := by
  intro h
  have := h { valid := fun _ => true, kibana := fun _ => false, resolve := id, store := fun _ _ => false }
    [.withDoc ⟨.index, 29, true, 0, 0⟩ ⟨.other, 20, true, 7, 0⟩] none true
    (by intro a ha; simp at ha; subst ha; simp [Act.wf]) (by intro l hl; cases hl) 0
  revert this
  decide

/-- C15.8a a store failure is local to its index: if the store accepts the batch of index name `x`, then exactly
the documents the loop accepted for `x` are stored under it, in order, and every action addressed to `x` keeps
the loop's status — whatever happens to the other batches -/
theorem store_failure_local (env : Env) (acts : List Act) (dangling : Option Line) (nl : Bool)
    (hwf : ∀ a ∈ acts, a.wf) (hd : ∀ l, dangling = some l → l.kind ≠ Kind.other ∧ 0 < l.len) (x : Nat)
    (hx : env.store (env.resolve x) (docsOf env acts x) = true) :
    (handleReq env (bodyOf acts dangling nl)).storedUnder x = docsOf env acts x ∧
    (∀ a ∈ acts, a.idxOf = x → finalStatus env acts a = a.status env) := by
  constructor
  · have hp := (handle_spec env acts dangling nl hwf hd).2.1
    rw [storedUnder_callsOf env _ (plesFrom env acts 0) (by rw [handleReq_calls, hp]) x (plesFrom_valid env acts 0),
      docs_plesFrom, if_pos hx]
  · intro a _ hax
    have : refusedIdx env acts a.idxOf = false := by simp [refusedIdx, hax, hx]
    simp [finalStatus, this]

/-- C15.8b when the store refuses the batch of index name `x`: nothing of it is stored, and no action addressed
to `x` is answered `created` — the items the loop had answered created are `unavailable` -/
theorem refused_batch_is_reported (env : Env) (acts : List Act) (dangling : Option Line) (nl : Bool)
    (hwf : ∀ a ∈ acts, a.wf) (hd : ∀ l, dangling = some l → l.kind ≠ Kind.other ∧ 0 < l.len) (x : Nat)
    (hx : env.store (env.resolve x) (docsOf env acts x) = false) :
    (handleReq env (bodyOf acts dangling nl)).storedUnder x = [] ∧
    (∀ a ∈ acts, a.idxOf = x → a.status env = Status.created → finalStatus env acts a = Status.unavailable) ∧
    (∀ a ∈ acts, a.idxOf = x → finalStatus env acts a ≠ Status.created) := by
  have href : ∀ a : Act, a.idxOf = x → refusedIdx env acts a.idxOf = true := by
    intro a hax; simp [refusedIdx, hax, hx]
  refine ⟨?_, ?_, ?_⟩
  · have hp := (handle_spec env acts dangling nl hwf hd).2.1
    rw [storedUnder_callsOf env _ (plesFrom env acts 0) (by rw [handleReq_calls, hp]) x (plesFrom_valid env acts 0),
      docs_plesFrom, hx]
    rfl
  · intro a _ hax hc
    simp [finalStatus, hc, href a hax]
  · intro a _ hax
    by_cases hc : a.status env = Status.created
    · simp [finalStatus, hc, href a hax]
    · rw [finalStatus_ne_created_of env acts a hc]; exact hc

/-- the code before repair c15-3: the response never depended on the store — whatever the store did with the
batches, items and `errors` were the same (the error of the store call was only logged) -/
theorem response_independent_of_store_old (env : Env) (store' : Nat → List Nat → Bool) (body : List Line) :
    (handleReqOld { env with store := store' } body).items = (handleReqOld env body).items ∧
    (handleReqOld { env with store := store' } body).errors = (handleReqOld env body).errors := by
  have hstep : ∀ s l r, stepAction Version.old { env with store := store' } s l r = stepAction Version.old env s l r := by
    intro s l r; rfl
  have hloop : ∀ f s b, loop Version.old { env with store := store' } f s b = loop Version.old env f s b := by
    intro f
    induction f with
    | zero => intro s b; rfl
    | succ f ih => intro s b; simp only [loop, hstep, ih]
  have hh : handle Version.old { env with store := store' } body = handle Version.old env body := hloop _ _ _
  have e1 : ∀ e : Env, (handleReqOld e body).items = (handle Version.old e body).items := fun _ => rfl
  have e2 : ∀ e : Env, (handleReqOld e body).errors = (handle Version.old e body).overallError := fun _ => rfl
  rw [e1, e1, e2, e2, hh]
  exact ⟨rfl, rfl⟩

/-- C15.9 a document for a `.kibana` index name, which nothing stores, is never answered created and is never
handed to the store -/
theorem kibana_item_fails (env : Env) (a : Act) (hk : env.kibana a.idxOf = true) :
    a.status env ≠ Status.created ∧ a.storedOf env = [] := by
  have hs : a.storedOf env = [] := by
    cases a with
    | single l => rfl
    | withDoc x d =>
      have hk' : env.kibana x.idx = true := hk
      simp [Act.storedOf, hk']
  refine ⟨?_, hs⟩
  intro hc
  exact (storedOf_ne_nil_iff env a).2 hc hs

/-- non-vacuity: an oversize document followed by a malformed one and a trailing delete -/
example :
    (handle Version.fixed { valid := fun _ => true, kibana := fun _ => false, resolve := id, store := fun _ _ => true }
      (bodyOf [.withDoc ⟨.index, 29, true, 1, 0⟩ ⟨.other, 63021, true, 2, 0⟩,
               .withDoc ⟨.create, 30, true, 3, 0⟩ ⟨.other, 20, false, 4, 0⟩,
               .single ⟨.other, 40, true, 5, 0⟩] none false)).items = [.tooLarge, .failed, .failed] := by
  decide

/-- non-vacuity, several indexes: index order A,A,B,A gives one batch for A with its three documents in request
order and one batch for B; when the store refuses B's batch only B's document is lost and only B's item is
`unavailable`; a `.kibana` item in between fails on its own -/
example :
    let r := handleReq { valid := fun _ => true, kibana := fun x => x == 5, resolve := id, store := fun i _ => i != 1 }
      (bodyOf [.withDoc ⟨.index, 29, true, 0, 0⟩ ⟨.other, 20, true, 1, 0⟩,
               .withDoc ⟨.index, 29, true, 0, 0⟩ ⟨.other, 20, true, 2, 0⟩,
               .withDoc ⟨.index, 29, true, 0, 5⟩ ⟨.other, 20, true, 9, 0⟩,
               .withDoc ⟨.index, 29, true, 0, 1⟩ ⟨.other, 20, true, 3, 0⟩,
               .withDoc ⟨.index, 29, true, 0, 0⟩ ⟨.other, 20, true, 4, 0⟩] none true)
    r.items = [.created, .created, .failed, .unavailable, .created] ∧ r.errors = true ∧ r.numCreated = 3 ∧
    r.calls = [⟨0, [(0, 1, 0), (0, 2, 1), (0, 4, 4)], .stored 0⟩, ⟨1, [(1, 3, 3)], .refused 1⟩] ∧
    r.storedUnder 0 = [1, 2, 4] ∧ r.storedUnder 1 = [] := by
  decide

/-- the same request on the code before the repairs: five items `created`, `errors` false -/
example :
    let r := handleReqOld { valid := fun _ => true, kibana := fun x => x == 5, resolve := id, store := fun i _ => i != 1 }
      (bodyOf [.withDoc ⟨.index, 29, true, 0, 0⟩ ⟨.other, 20, true, 1, 0⟩,
               .withDoc ⟨.index, 29, true, 0, 0⟩ ⟨.other, 20, true, 2, 0⟩,
               .withDoc ⟨.index, 29, true, 0, 5⟩ ⟨.other, 20, true, 9, 0⟩,
               .withDoc ⟨.index, 29, true, 0, 1⟩ ⟨.other, 20, true, 3, 0⟩,
               .withDoc ⟨.index, 29, true, 0, 0⟩ ⟨.other, 20, true, 4, 0⟩] none true)
    r.items = [.created, .created, .created, .created, .created] ∧ r.errors = false ∧
    r.storedUnder 0 = [1, 2, 4] ∧ r.storedUnder 1 = [] ∧ r.storedUnder 5 = [] := by
  decide

end SigModel.Props.C15
