/-
C15 — Bulk ingest acknowledges exactly what it stored.  Property theorems only.

For EVERY bulk body (as a sequence of actions, each with or without its document line, optionally
followed by an incomplete final action and/or a trailing newline): the response has exactly one item
per action, in order; an item's status depends only on its own action and document (locality); the
documents handed to the store are exactly those of the `created` items, in order; and the `errors`
flag is true iff some item is not `created`.
(The statement was false before the two `fix:` commits e6f2a3b / 1f7d4e3 — see known_findings.txt.)
-/
import SigModel.Model.Bulk
import SigModel.Lemmas.C15

namespace SigModel.Props.C15
open SigModel.Bulk

/-- an action of the request: a one-line action (delete / unknown / malformed), or an
index/create/update action followed by its document line -/
inductive Action where
  | single (l : Line)
  | withDoc (a doc : Line)
deriving Repr, DecidableEq

def Action.lines : Action → List Line
  | .single l => [l]
  | .withDoc a d => [a, d]

/-- what the request syntax guarantees about the abstraction of a line -/
def Action.wf : Action → Prop
  | .single l => l.kind = Kind.other ∧ 0 < l.len
  | .withDoc a d => a.kind ≠ Kind.other ∧ 0 < a.len ∧ 0 < d.len

/-- the per-action specification: depends on nothing but the action itself -/
def status : Action → Status
  | .single _ => .failed
  | .withDoc a d =>
    if a.kind = Kind.update then .failed
    else if maxRecordSize ≤ d.len then .tooLarge
    else if d.docOk then .created else .failed

def storedOf : Action → List Nat
  | .single _ => []
  | .withDoc a d => if a.kind ≠ Kind.update ∧ d.len < maxRecordSize ∧ d.docOk then [d.id] else []

def emptyLine : Line := { kind := .other, len := 0, docOk := false, id := 0 }

/-- the body: complete actions, then optionally an index/create/update line whose document is
missing, then optionally the trailing newline (= a final empty line) -/
def bodyOf (acts : List Action) (dangling : Option Line) (nl : Bool) : List Line :=
  acts.flatMap Action.lines ++ dangling.toList ++ (if nl then [emptyLine] else [])

def expectedItems (acts : List Action) (dangling : Option Line) : List Status :=
  acts.map status ++ (dangling.map (fun _ => Status.failed)).toList

/-- C15.1 one item per action, in request order, each determined by its own action only -/
theorem items_per_action (acts : List Action) (dangling : Option Line) (nl : Bool)
    (hwf : ∀ a ∈ acts, a.wf) (hd : ∀ l, dangling = some l → l.kind ≠ Kind.other ∧ 0 < l.len) :
    (handle (bodyOf acts dangling nl)).items = expectedItems acts dangling := by
  have h := Lemmas.C15.handle_spec
    (fun a => match a with | .single l => .single l | .withDoc a d => .withDoc a d)
    Action.lines Action.wf status storedOf
    (by intro a; cases a <;> rfl) (by intro a h; cases a <;> exact h)
    (by intro a; cases a <;> rfl) (by intro a; cases a <;> rfl) acts dangling nl hwf hd
  exact h.1

/-- C15.2 created ⇔ handed to the store: the stored documents are exactly those of created items, in order -/
theorem stored_iff_created (acts : List Action) (dangling : Option Line) (nl : Bool)
    (hwf : ∀ a ∈ acts, a.wf) (hd : ∀ l, dangling = some l → l.kind ≠ Kind.other ∧ 0 < l.len) :
    (handle (bodyOf acts dangling nl)).stored = acts.flatMap storedOf ∧
    (∀ a ∈ acts, (storedOf a ≠ [] ↔ status a = Status.created)) := by
  have h := Lemmas.C15.handle_spec
    (fun a => match a with | .single l => .single l | .withDoc a d => .withDoc a d)
    Action.lines Action.wf status storedOf
    (by intro a; cases a <;> rfl) (by intro a h; cases a <;> exact h)
    (by intro a; cases a <;> rfl) (by intro a; cases a <;> rfl) acts dangling nl hwf hd
  refine ⟨h.2.1, ?_⟩
  intro a _
  cases a with
  | single l => exact Lemmas.C15.storedOf_ne_nil_iff (.single l)
  | withDoc x d => exact Lemmas.C15.storedOf_ne_nil_iff (.withDoc x d)

/-- C15.3 `errors` is true iff some item failed (400 or 413) -/
theorem errors_iff_some_failed (acts : List Action) (dangling : Option Line) (nl : Bool)
    (hwf : ∀ a ∈ acts, a.wf) (hd : ∀ l, dangling = some l → l.kind ≠ Kind.other ∧ 0 < l.len) :
    (handle (bodyOf acts dangling nl)).overallError = (expectedItems acts dangling).any (· ≠ Status.created) := by
  have h := Lemmas.C15.handle_spec
    (fun a => match a with | .single l => .single l | .withDoc a d => .withDoc a d)
    Action.lines Action.wf status storedOf
    (by intro a; cases a <;> rfl) (by intro a h; cases a <;> exact h)
    (by intro a; cases a <;> rfl) (by intro a; cases a <;> rfl) acts dangling nl hwf hd
  exact h.2.2

/-- C15.4 locality: replacing one action (and its document) by any other changes that item only -/
theorem local_failure (pre post : List Action) (a a' : Action) (nl : Bool)
    (hwf : ∀ x ∈ pre ++ a :: post, x.wf) (hwf' : a'.wf) :
    ∃ s s', (handle (bodyOf (pre ++ a :: post) none nl)).items = pre.map status ++ s :: post.map status ∧
            (handle (bodyOf (pre ++ a' :: post) none nl)).items = pre.map status ++ s' :: post.map status := by
  have hwf2 : ∀ x ∈ pre ++ a' :: post, x.wf := by
    intro x hx
    rcases List.mem_append.1 hx with h | h
    · exact hwf x (List.mem_append_left _ h)
    · rcases List.mem_cons.1 h with h | h
      · exact h ▸ hwf'
      · exact hwf x (List.mem_append_right _ (List.mem_cons_of_mem _ h))
  refine ⟨status a, status a', ?_, ?_⟩
  · rw [items_per_action _ none nl hwf (by intro l h; cases h)]
    simp [expectedItems]
  · rw [items_per_action _ none nl hwf2 (by intro l h; cases h)]
    simp [expectedItems]

/-- non-vacuity: an oversize document followed by a malformed one and a trailing delete -/
example :
    (handle (bodyOf [.withDoc ⟨.index, 29, true, 1⟩ ⟨.other, 63021, true, 2⟩,
                     .withDoc ⟨.create, 30, true, 3⟩ ⟨.other, 20, false, 4⟩,
                     .single ⟨.other, 40, true, 5⟩] none false)).items = [.tooLarge, .failed, .failed] := by
  decide

end SigModel.Props.C15
