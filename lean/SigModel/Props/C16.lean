/-
C16 — All ingest protocols preserve event content and time: THE TIME-UNIT LOGIC.
Property theorems only (helper lemmas: SigModel/Lemmas/C16.lean).

"The same logical event … is stored with the event time it carried; the time of arrival is used
only when the event has no time of its own."  Here: for EVERY instant of the plausible window,
rendered in EVERY accepted unit (seconds, milliseconds, nanoseconds) as a JSON number or as a JSON
string of digits, what `ExtractTimeStamp` (logs) and the metrics extractors return.  The decimal
rendering `dec n` is literally `toString n` (`dec_is_toString`), the parsers are the modelled Go
loops, and the thresholds come from the REGENERATED kernels `Gen.IsTimeInMilli`, `Gen.IsTimeInNano`,
`Gen.parseTimestamp`, `Gen.normalizeIntToSeconds`: a changed threshold, comparison or divisor in
/repo breaks these proofs.

Field preservation across the protocol decoders: section `Content` at the end of this file (the flattener
`ParseRawJsonObject` and the protocol envelopes, over the specification SigModel/Spec/Flatten.lean).
-/
import SigModel.Model.TimeUnit
import SigModel.Lemmas.C16
import SigModel.Spec.Flatten
import SigModel.Lemmas.C16Flatten

namespace SigModel.Props.C16
open SigModel SigModel.TimeUnit SigModel.MachInt
open SigModel.Lemmas.C16

/-! ## vocabulary -/

/-- the units that the code comments / tests name as accepted -/
inductive TUnit where
  | sec | milli | nano
deriving DecidableEq, Repr

/-- how the scalar travels in the JSON document -/
inductive Enc where
  | number | string
deriving DecidableEq, Repr

/-- plausible window of each unit: 1973-03-03T09:46:40Z (resp. …:39.999Z, the millisecond threshold)
… 2286-11-20T17:46:40Z; nanoseconds from 2001-09-09T01:46:40Z = 10^18 ns, the magnitude the code
comment documents for "Time in Nano Seconds" (see `nanos_before_2001_characterisation`), to
2262-04-11, the end of int64 nanoseconds (what every nanosecond-producing protocol carries). -/
def inWindow : TUnit → Nat → Prop
  | .sec, v => 100000000 ≤ v ∧ v < 10000000000
  | .milli, v => 99999999999 ≤ v ∧ v < 10000000000000
  | .nano, v => 1000000000000000000 ≤ v ∧ v < 9223372036854775808

instance (u : TUnit) (v : Nat) : Decidable (inWindow u v) := by
  cases u <;> unfold inWindow <;> infer_instance

/-- the instant in epoch milliseconds (sub-millisecond part dropped: the store's resolution) -/
def toMillis : TUnit → Nat → Nat
  | .sec, v => v * 1000
  | .milli, v => v
  | .nano, v => v / 1000000

/-- the instant in epoch seconds (metrics store resolution) -/
def toSeconds : TUnit → Nat → Nat
  | .sec, v => v
  | .milli, v => v / 1000
  | .nano, v => v / 1000000000

/-- the scalar under the timestamp key: integer `v` rendered by `toString`, as number or string.
`lo` is the (irrelevant) outcome of the date layouts on that digit string. -/
def scalarOf (enc : Enc) (v : Nat) (lo : Option Int) : Scalar :=
  match enc with
  | .number => .num (dec v)
  | .string => .str (dec v) lo

/-- the rendering used throughout is `toString` -/
theorem dec_is_toString (n : Nat) : dec n = (toString n).toList := dec_eq_toString n

/-! ## (1) accepted units, integer renderings -/

/-- both encodings of an integer below 2^63 go through the same unit cascade -/
theorem extract_scalarOf (enc : Enc) (v : Nat) (lo : Option Int) (h : v < 9223372036854775808) :
    extractTimeStamp (scalarOf enc v lo) = .ms (scaleUnits (v : Int)) := by
  cases enc with
  | number => simp only [scalarOf, extractTimeStamp, extractNum_dec v h]
  | string => simp only [scalarOf, extractTimeStamp, convertTimestampToMillis, goParseUint_dec v (by omega)]

/-- C16.1a seconds: every instant of the window, as JSON number or digit string, is stored as that
instant (s·1000 ms). -/
theorem extract_seconds_correct (enc : Enc) (s : Nat) (lo : Option Int) (h : inWindow .sec s) :
    extractTimeStamp (scalarOf enc s lo) = .ms ((s : Int) * 1000) := by
  obtain ⟨h1, h2⟩ := h
  rw [extract_scalarOf enc s lo (by omega), scaleUnits_sec (s : Int) (by omega) (by omega)]

/-- C16.1b milliseconds: every instant of the window, as JSON number or digit string, is stored as is. -/
theorem extract_millis_correct (enc : Enc) (m : Nat) (lo : Option Int) (h : inWindow .milli m) :
    extractTimeStamp (scalarOf enc m lo) = .ms (m : Int) := by
  obtain ⟨h1, h2⟩ := h
  rw [extract_scalarOf enc m lo (by omega), scaleUnits_milli (m : Int) (by omega) (by omega)]

/-- C16.1c nanoseconds, as JSON number (OTLP-style producers) or digit string (Loki): every instant of
the window is stored as ns / 10^6. -/
theorem extract_nanos_correct (enc : Enc) (n : Nat) (lo : Option Int) (h : inWindow .nano n) :
    extractTimeStamp (scalarOf enc n lo) = .ms ((n / 1000000 : Nat) : Int) := by
  obtain ⟨h1, h2⟩ := h
  rw [extract_scalarOf enc n lo h2, scaleUnits_nano (n : Int) (by omega) (by omega)]
  simp only [Res.ms.injEq]; omega

/-- C16 (time-unit logic) AT FULL STRENGTH: every instant of the window, in every accepted unit and
both encodings, is stored as the instant it denotes.  (Before the repair of ExtractTimeStamp this
failed for nanoseconds given as a JSON number: `{"timestamp":1714352490251000000}`.) -/
theorem time_preserved (enc : Enc) (u : TUnit) (v : Nat) (lo : Option Int) (h : inWindow u v) :
    extractTimeStamp (scalarOf enc v lo) = .ms ((toMillis u v : Nat) : Int) := by
  cases u with
  | sec =>
    rw [extract_seconds_correct enc v lo h]
    simp only [toMillis, Res.ms.injEq]
    omega
  | milli => exact extract_millis_correct enc v lo h
  | nano => exact extract_nanos_correct enc v lo h

/-- the regression witness of the repaired defect -/
example : extractTimeStamp (.num (dec 1714352490251000000)) = .ms 1714352490251 :=
  time_preserved .number .nano 1714352490251000000 none (by unfold inWindow; omega)

/-! ## (2) fractional seconds; exact characterisation of what is NOT accepted -/

/-- C16.2a fractional seconds `<s>.<fff>` given as a JSON number (the form Splunk HEC clients and
`time.time()` produce): ParseInt fails, ParseFloat's binary64 is multiplied by 1000 and rounded
BEFORE the conversion to an integer, and the result is exactly the instant s.fff — for every second
of the window and every millisecond.  (Before the repair the milliseconds were dropped.) -/
theorem fraction_preserved (s f : Nat) (h : inWindow .sec s) (hf : f < 1000) :
    extractTimeStamp (.num (fracText s f)) = .ms ((s : Int) * 1000 + f) := by
  obtain ⟨h1, h2⟩ := h
  simp only [extractTimeStamp, extractNum_fracText s f h1 h2 hf, Res.ms.injEq]
  omega

/-- the regression witness: 1700000000.500 -/
example : extractTimeStamp (.num (fracText 1700000000 500)) = .ms 1700000000500 :=
  fraction_preserved 1700000000 500 (by unfold inWindow; omega) (by omega)

/-- microseconds (not an accepted unit): every µs instant of 1973…2286, in either encoding, is
returned unchanged, i.e. read as milliseconds (1000 times too far in the future). -/
theorem micros_characterisation (enc : Enc) (v : Nat) (lo : Option Int)
    (h1 : 100000000000000 ≤ v) (h2 : v < 10000000000000000) :
    extractTimeStamp (scalarOf enc v lo) = .ms (v : Int) := by
  rw [extract_scalarOf enc v lo (by omega), scaleUnits_milli (v : Int) (by omega) (by omega)]

/-- nanosecond values for instants between 1973-03-03 and 2001-09-09 (below the documented 10^18
magnitude) are returned unchanged, i.e. read as milliseconds. -/
theorem nanos_before_2001_characterisation (enc : Enc) (v : Nat) (lo : Option Int)
    (h1 : 99999999999000000 ≤ v) (h2 : v < 1000000000000000000) :
    extractTimeStamp (scalarOf enc v lo) = .ms (v : Int) := by
  rw [extract_scalarOf enc v lo (by omega), scaleUnits_milli (v : Int) (by omega) (by omega)]

/-! ## (3) arrival time only if the event carries no time -/

/-- what the jp.Number branch reads from a token -/
inductive NumReading where
  | unparseable                 -- neither ParseInt nor ParseFloat accepts it (malformed, or infinite)
  | raw (v : Int)               -- a uint64 that then goes through the unit cascade
  | scaledMs (ms : Int)         -- a small non-negative float: already round(val·1000)
deriving Repr, DecidableEq

def numReading (t : List Char) : NumReading :=
  match jpParseInt t with
  | some v => .raw (wrapU64 v)
  | none =>
    match jpParseFloat t with
    | none => .unparseable
    | some f =>
      if (!f.neg || f.q == 0) && !(Gen.IsTimeInMilli (f64ToU64 f)) then .scaledMs (f64ToU64 (f.mulNat 1000).round)
      else .raw (f64ToU64 f)

/-- the precisely characterised shapes for which the event has no usable time of its own -/
def carriesNoTime : Scalar → Prop
  | .absent => True
  | .other => True
  | .strBadEscape => True
  | .num t =>
    match numReading t with
    | .unparseable => True
    | .raw v => v = 0                                       -- 0, -0, 0e5, "-" …: the epoch itself
    | .scaledMs ms => ms = 0                                -- |value| below half a millisecond
  | .str s lo =>
    match goParseUint s with
    | some v => v = 0                                       -- "0", "000", … : the epoch itself
    | none => lo = none ∨ ∃ x, lo = some x ∧ wrapU64 x = 0  -- no layout matches, or 1970-01-01T00:00:00Z

/-- C16.3 the arrival time is substituted (result 0, or "now" for an unparseable string) exactly
for an absent key, a non-scalar, and the characterised shapes; in particular the unit cascade never
turns a non-zero reading into 0. -/
theorem arrival_only_if_absent (sc : Scalar) :
    (extractTimeStamp sc = .ms 0 ∨ extractTimeStamp sc = .now) ↔ carriesNoTime sc := by
  cases sc with
  | absent => simp [extractTimeStamp, carriesNoTime]
  | other => simp [extractTimeStamp, carriesNoTime]
  | strBadEscape => simp [extractTimeStamp, carriesNoTime]
  | num t =>
    simp only [extractTimeStamp, carriesNoTime, numReading, extractNum, Res.ms.injEq, reduceCtorEq, or_false]
    cases hpi : jpParseInt t with
    | some v =>
      simp only []
      exact scaleUnits_eq_zero_iff (wrapU64 v) (by unfold wrapU64; omega) (by unfold wrapU64; omega)
    | none =>
      cases hpf : jpParseFloat t with
      | none => simp
      | some f =>
        simp only []
        split
        · simp only []
        · simp only []
          exact scaleUnits_eq_zero_iff (f64ToU64 f) (f64ToU64_range f).1 (f64ToU64_range f).2
  | str s lo =>
    cases hpu : goParseUint s with
    | some v =>
      have hr := goParseUint_range hpu
      simp only [extractTimeStamp, carriesNoTime, convertTimestampToMillis, hpu, Res.ms.injEq, reduceCtorEq, or_false]
      exact scaleUnits_eq_zero_iff v hr.1 hr.2
    | none =>
      cases lo with
      | none => simp [extractTimeStamp, carriesNoTime, convertTimestampToMillis, hpu]
      | some x => simp [extractTimeStamp, carriesNoTime, convertTimestampToMillis, hpu]

/-- consequence for the caller (`GetNewPLE` / `ProcessIndexRequestPle`): an event of the window, in
any accepted unit and encoding, is never stored under the arrival time. -/
theorem stored_is_event_time (tsNow : Int) (enc : Enc) (u : TUnit) (v : Nat) (lo : Option Int)
    (h : inWindow u v) :
    storedMillis tsNow (scalarOf enc v lo) = .ms ((toMillis u v : Nat) : Int) := by
  have hpos : ((toMillis u v : Nat) : Int) ≠ 0 := by
    cases u <;> simp only [toMillis, inWindow] at h ⊢ <;> omega
  simp only [storedMillis, time_preserved enc u v lo h, hpos, if_false]

/-- C16.3b hand-over from the protocol handlers (`ProcessIndexRequestPle` as repaired): a time the
handler put on the event survives when the JSON record has no timestamp key of its own (OTLP logs:
time_unix_nano), and a record's own time in any accepted unit and encoding still wins. -/
theorem handler_time_kept (handlerMs : Int) (h : handlerMs ≠ 0) :
    ingestStored handlerMs .absent = .ms handlerMs := by
  simp [ingestStored, extractTimeStamp, h]

theorem record_time_wins (handlerMs : Int) (enc : Enc) (u : TUnit) (v : Nat) (lo : Option Int) (h : inWindow u v) :
    ingestStored handlerMs (scalarOf enc v lo) = .ms ((toMillis u v : Nat) : Int) := by
  have hpos : ((toMillis u v : Nat) : Int) ≠ 0 := by
    cases u <;> simp only [toMillis, inWindow] at h ⊢ <;> omega
  simp only [ingestStored, time_preserved enc u v lo h, hpos, ne_eq, not_false_eq_true, if_true]

/-- … and the arrival time is used only if the record carries no usable time of its own -/
theorem arrival_only_if_record_has_no_time (handlerMs : Int) (sc : Scalar)
    (h : ingestStored handlerMs sc = .now) : carriesNoTime sc := by
  have key := arrival_only_if_absent sc
  unfold ingestStored at h
  cases hx : extractTimeStamp sc with
  | now => exact key.1 (Or.inr hx)
  | ms n =>
    rw [hx] at h
    by_cases hn : n = 0
    · subst hn; exact key.1 (Or.inl hx)
    · simp only [ne_eq, hn, not_false_eq_true, if_true, reduceCtorEq] at h

/-! ### Splunk HEC: the envelope's `time` -/

/-- C16.3c Splunk HEC, AT FULL STRENGTH on the seconds window: an event sent as
`{"time":<s>.<fff>,"event":{…}}` (number or numeric string; no timestamp key at the envelope's root)
is stored at the instant s.fff — for every second of the window and every millisecond.  (Before the
repair `time` was never read: `hec_time_old_counterexample`.) -/
theorem hec_time_used (s f : Nat) (h : inWindow .sec s) (hf : f < 1000) :
    hecStored (some (fracText s f)) .absent = .ms ((s : Int) * 1000 + f) := by
  obtain ⟨q, x, hp, hq⟩ := jpParseFloat_fracText_pos s f (by unfold inWindow at h; omega) h.2 hf
  have hq' : (q == 0) = false := by simpa using hq
  have hx := extractNum_fracText s f h.1 h.2 hf
  have hne : ¬ ((1000 * s + f : Nat) : Int) = 0 := by unfold inWindow at h; omega
  simp only [hecStored, hecEventTime, hp, hq', Bool.or_self, Bool.false_eq_true, if_false, hx,
    ingestStored, extractTimeStamp, ne_eq, not_true_eq_false, hne, not_false_eq_true, if_true, Res.ms.injEq]
  omega

/-- … and whole seconds `{"time":<s>}` are stored as s·1000 ms -/
theorem hec_time_whole_seconds (s : Nat) (h : inWindow .sec s) :
    hecStored (some (dec s)) .absent = .ms ((s : Int) * 1000) := by
  obtain ⟨q, x, hp, hq⟩ := jpParseFloat_dec_pos s (by unfold inWindow at h; omega) h.2
  have hq' : (q == 0) = false := by simpa using hq
  have hx : extractNum (dec s) = (s : Int) * 1000 := by
    rw [extractNum_dec s (by unfold inWindow at h; omega)]
    exact scaleUnits_sec (s : Int) (by omega) (by unfold inWindow at h; omega)
  have hne : ¬ ((s : Int) * 1000 = 0) := by unfold inWindow at h; omega
  simp only [hecStored, hecEventTime, hp, hq', Bool.or_self, Bool.false_eq_true, if_false, hx,
    ingestStored, extractTimeStamp, ne_eq, not_true_eq_false, hne, not_false_eq_true, if_true]

/-- the abstraction of `hecEventTime` is sound on the window: a whole number of seconds takes the
integer path of ExtractTimeStamp when re-rendered (`1700000000`) and the float path when written with
a fraction (`1700000000.000`); both give the same instant. -/
theorem hec_whole_seconds_both_paths (s : Nat) (h : inWindow .sec s) :
    extractNum (dec s) = extractNum (fracText s 0) := by
  rw [extractNum_fracText s 0 h.1 h.2 (by omega), extractNum_dec s (by unfold inWindow at h; omega),
    scaleUnits_sec (s : Int) (by omega) (by unfold inWindow at h; omega)]
  omega

/-- a timestamp key at the envelope's root still wins (the behaviour before the repair is kept) -/
theorem hec_root_timestamp_wins (t : Option (List Char)) (enc : Enc) (u : TUnit) (v : Nat) (lo : Option Int)
    (h : inWindow u v) : hecStored t (scalarOf enc v lo) = .ms ((toMillis u v : Nat) : Int) :=
  record_time_wins (hecEventTime t) enc u v lo h

/-- the arrival time is used only when the envelope has no time of its own: neither a usable root
timestamp nor a usable `time` -/
theorem hec_arrival_only_without_time (t : Option (List Char)) (sc : Scalar)
    (h : hecStored t sc = .now) : carriesNoTime sc ∧ (extractTimeStamp sc = .now ∨ hecEventTime t = 0) := by
  refine ⟨arrival_only_if_record_has_no_time _ sc h, ?_⟩
  unfold hecStored ingestStored at h
  cases hx : extractTimeStamp sc with
  | now => exact Or.inl rfl
  | ms n =>
    rw [hx] at h
    by_cases hn : n = 0
    · by_cases ht : hecEventTime t = 0
      · exact Or.inr ht
      · simp only [hn, ne_eq, not_true_eq_false, if_false, ht, not_false_eq_true, if_true, reduceCtorEq] at h
    · simp only [ne_eq, hn, not_false_eq_true, if_true, reduceCtorEq] at h

/-- an envelope without `time` and without root timestamp is stored at its arrival -/
example : hecStored none .absent = .now := by decide

/-- the behaviour BEFORE the repair violated the property: the witness `{"time":1700000000.123,…}` was
stored under its arrival time … -/
theorem hec_time_old_counterexample :
    ¬ (∀ s f : Nat, inWindow .sec s → f < 1000 →
        hecStoredOld (some (fracText s f)) .absent = .ms ((s : Int) * 1000 + f)) := by
  intro hall
  have := hall 1700000000 123 (by unfold inWindow; omega) (by omega)
  simp [hecStoredOld, ingestStored, extractTimeStamp] at this

/-- … and the repaired code stores the witness at 1700000000123 -/
example : hecStored (some (fracText 1700000000 123)) .absent = .ms 1700000000123 :=
  hec_time_used 1700000000 123 (by unfold inWindow; omega) (by omega)

/-! ## (4) the thresholds separate the windows -/

/-- the unit that the threshold tests select (the cascade of ConvertTimestampToMillis /
ExtractOTLPPayload / parseTimestamp) -/
def classify (v : Int) : TUnit :=
  if Gen.IsTimeInNano v then .nano else if Gen.IsTimeInMilli v then .milli else .sec

/-- C16.4a on the plausible windows of the accepted units the regenerated thresholds classify exactly -/
theorem thresholds_separate_windows (u : TUnit) (v : Nat) (h : inWindow u v) : classify (v : Int) = u := by
  cases u with
  | sec =>
    obtain ⟨h1, h2⟩ := h
    simp only [classify, isNano_false (v := (v : Int)) (by omega), isMilli_false (v := (v : Int)) (by omega),
      Bool.false_eq_true, if_false]
  | milli =>
    obtain ⟨h1, h2⟩ := h
    simp only [classify, isNano_false (v := (v : Int)) (by omega), isMilli_true (v := (v : Int)) (by omega),
      Bool.false_eq_true, if_false, if_true]
  | nano =>
    obtain ⟨h1, h2⟩ := h
    simp only [classify, isNano_true (v := (v : Int)) (by omega), if_true]

/-- C16.4b the windows are pairwise disjoint: a value determines its unit -/
theorem windows_disjoint (u₁ u₂ : TUnit) (v : Nat) (h₁ : inWindow u₁ v) (h₂ : inWindow u₂ v) : u₁ = u₂ := by
  rw [← thresholds_separate_windows u₁ v h₁, ← thresholds_separate_windows u₂ v h₂]

/-- C16.4c after the ns → ms division the value is recognised as milliseconds (no second scaling) -/
theorem nanos_scaled_land_in_millis (v : Nat) (h : inWindow .nano v) :
    classify ((v / 1000000 : Nat) : Int) = .milli := by
  obtain ⟨h1, h2⟩ := h
  simp only [classify, isNano_false (v := ((v / 1000000 : Nat) : Int)) (by omega),
    isMilli_true (v := ((v / 1000000 : Nat) : Int)) (by omega), Bool.false_eq_true, if_false, if_true]

/-- the microsecond window lies wholly in the "milliseconds" class -/
theorem micros_classified_as_millis (v : Nat) (h1 : 100000000000000 ≤ v) (h2 : v < 10000000000000000) :
    classify (v : Int) = .milli := by
  simp only [classify, isNano_false (v := (v : Int)) (by omega), isMilli_true (v := (v : Int)) (by omega),
    Bool.false_eq_true, if_false, if_true]

/-! ## metrics: uint32 seconds -/

/-- metrics window: the instant's seconds fit the uint32 of the metrics store (until 2106-02-07) -/
def inMetricWindow (u : TUnit) (v : Nat) : Prop := inWindow u v ∧ toSeconds u v < 4294967296

/-- C16.5a OTLP metrics (JSON number): seconds, milliseconds and nanoseconds are all reduced to the
instant's seconds. -/
theorem otlp_metrics_correct (u : TUnit) (v : Nat) (h : inMetricWindow u v) :
    otlpTs (.num (dec v)) = some ((toSeconds u v : Nat) : Int) := by
  obtain ⟨hw, hs⟩ := h
  cases u with
  | sec =>
    obtain ⟨h1, h2⟩ := hw
    simp only [toSeconds] at hs ⊢
    have hwr : wrapU64 (v : Int) = v := by unfold wrapU64; omega
    have hw32 : wrapU32 (v : Int) = v := by unfold wrapU32; omega
    have hpos : (v : Int) > 0 := by omega
    simp only [otlpTs, otlpNum, jpParseInt_dec v (by omega), hwr, isNano_false (v := (v : Int)) (by omega),
      isMilli_false (v := (v : Int)) (by omega), Bool.false_eq_true, if_false, hw32, finish, hpos, if_true]
  | milli =>
    obtain ⟨h1, h2⟩ := hw
    simp only [toSeconds] at hs ⊢
    have hwr : wrapU64 (v : Int) = v := by unfold wrapU64; omega
    have hd : Int.tdiv (v : Int) 1000 = ((v / 1000 : Nat) : Int) := by
      rw [Int.tdiv_eq_ediv_of_nonneg (by omega)]; omega
    have hw32 : wrapU32 ((v / 1000 : Nat) : Int) = ((v / 1000 : Nat) : Int) := by unfold wrapU32; omega
    have hpos : ((v / 1000 : Nat) : Int) > 0 := by omega
    simp only [otlpTs, otlpNum, jpParseInt_dec v (by omega), hwr, isNano_false (v := (v : Int)) (by omega),
      isMilli_true (v := (v : Int)) (by omega), Bool.false_eq_true, if_false, if_true, hd, hw32, finish, hpos]
  | nano =>
    obtain ⟨h1, h2⟩ := hw
    simp only [toSeconds] at hs ⊢
    have hwr : wrapU64 (v : Int) = v := by unfold wrapU64; omega
    have hd : Int.tdiv (v : Int) 1000000000 = ((v / 1000000000 : Nat) : Int) := by
      rw [Int.tdiv_eq_ediv_of_nonneg (by omega)]; omega
    have hw32 : wrapU32 ((v / 1000000000 : Nat) : Int) = ((v / 1000000000 : Nat) : Int) := by unfold wrapU32; omega
    have hpos : ((v / 1000000000 : Nat) : Int) > 0 := by omega
    simp only [otlpTs, otlpNum, jpParseInt_dec v (by omega), hwr, isNano_true (v := (v : Int)) (by omega),
      if_true, hd, hw32, finish, hpos]

/-- C16.5b OpenTSDB put (JSON number or digit string): seconds and milliseconds ("seconds or
milliseconds since epoch", the code comment) are reduced to the instant's seconds. -/
theorem otsdb_metrics_correct (enc : Enc) (u : TUnit) (v : Nat) (lo : Option Int) (hu : u ≠ .nano)
    (h : inMetricWindow u v) :
    otsdbTs (match enc with | .number => .num (dec v) | .string => .str (dec v) lo)
      = some ((toSeconds u v : Nat) : Int) := by
  obtain ⟨hw, hs⟩ := h
  cases u with
  | nano => exact absurd rfl hu
  | sec =>
    obtain ⟨h1, h2⟩ := hw
    simp only [toSeconds] at hs ⊢
    have hwr : wrapU64 (v : Int) = v := by unfold wrapU64; omega
    have hw32 : wrapU32 (v : Int) = v := by unfold wrapU32; omega
    have hpos : (v : Int) > 0 := by omega
    cases enc with
    | number =>
      simp only [otsdbTs, otsdbNum, jpParseInt_dec v (by omega), hwr,
        isMilli_false (v := (v : Int)) (by omega), Bool.false_eq_true, if_false, hw32, finish, hpos, if_true]
    | string =>
      simp only [otsdbTs, otsdbStr, goParseInt_dec v (by omega), hwr,
        isMilli_false (v := (v : Int)) (by omega), Bool.false_eq_true, if_false, hw32, finish, hpos, if_true]
  | milli =>
    obtain ⟨h1, h2⟩ := hw
    simp only [toSeconds] at hs ⊢
    have hwr : wrapU64 (v : Int) = v := by unfold wrapU64; omega
    have hd : Int.tdiv (v : Int) 1000 = ((v / 1000 : Nat) : Int) := by
      rw [Int.tdiv_eq_ediv_of_nonneg (by omega)]; omega
    have hw32 : wrapU32 ((v / 1000 : Nat) : Int) = ((v / 1000 : Nat) : Int) := by unfold wrapU32; omega
    have hpos : ((v / 1000 : Nat) : Int) > 0 := by omega
    cases enc with
    | number =>
      simp only [otsdbTs, otsdbNum, jpParseInt_dec v (by omega), hwr,
        isMilli_true (v := (v : Int)) (by omega), if_true, hd, hw32, finish, hpos]
    | string =>
      simp only [otsdbTs, otsdbStr, goParseInt_dec v (by omega), hwr,
        isMilli_true (v := (v : Int)) (by omega), if_true, hd, hw32, finish, hpos]

/-- C16.5c Prometheus remote write (`parseTimestamp`, REGENERATED from /repo): all three units are
reduced to the instant's seconds. -/
theorem remote_write_correct (u : TUnit) (v : Nat) (h : inMetricWindow u v) :
    Gen.parseTimestamp (v : Int) = ((toSeconds u v : Nat) : Int) := by
  obtain ⟨hw, hs⟩ := h
  have hwr : ∀ x : Nat, x < 18446744073709551616 → wrapU64 (x : Int) = x := by
    intro x hx; unfold wrapU64; omega
  cases u with
  | sec =>
    obtain ⟨h1, h2⟩ := hw
    simp only [toSeconds] at hs ⊢
    have hw32 : wrapU32 (v : Int) = v := by unfold wrapU32; omega
    simp only [Gen.parseTimestamp, hwr v (by omega), isNano_false (v := (v : Int)) (by omega),
      isMilli_false (v := (v : Int)) (by omega), Bool.false_eq_true, if_false, hw32]
  | milli =>
    obtain ⟨h1, h2⟩ := hw
    simp only [toSeconds] at hs ⊢
    have hd : Int.tdiv (v : Int) 1000 = ((v / 1000 : Nat) : Int) := by
      rw [Int.tdiv_eq_ediv_of_nonneg (by omega)]; omega
    have hs64 : wrapS64 ((v / 1000 : Nat) : Int) = ((v / 1000 : Nat) : Int) := by unfold wrapS64; omega
    have hw32 : wrapU32 ((v / 1000 : Nat) : Int) = ((v / 1000 : Nat) : Int) := by unfold wrapU32; omega
    simp only [Gen.parseTimestamp, hwr v (by omega), isNano_false (v := (v : Int)) (by omega),
      isMilli_true (v := (v : Int)) (by omega), Bool.false_eq_true, if_false, if_true, hd, hs64, hw32]
  | nano =>
    obtain ⟨h1, h2⟩ := hw
    simp only [toSeconds] at hs ⊢
    have hd : Int.tdiv (v : Int) 1000000000 = ((v / 1000000000 : Nat) : Int) := by
      rw [Int.tdiv_eq_ediv_of_nonneg (by omega)]; omega
    have hs64 : wrapS64 ((v / 1000000000 : Nat) : Int) = ((v / 1000000000 : Nat) : Int) := by unfold wrapS64; omega
    have hw32 : wrapU32 ((v / 1000000000 : Nat) : Int) = ((v / 1000000000 : Nat) : Int) := by unfold wrapU32; omega
    simp only [Gen.parseTimestamp, hwr v (by omega), isNano_true (v := (v : Int)) (by omega), if_true, hd, hs64, hw32]

/-- C16.5d the PromQL time parameter (`normalizeIntToSeconds`, REGENERATED): the same instants are
read back in the same unit as ingest stored them, EXCEPT that its millisecond class starts strictly
above 10^12 (2001-09-09) instead of at 99999999999, and its nanosecond class strictly above 10^18. -/
theorem promql_time_correct (u : TUnit) (v : Nat) (h : inMetricWindow u v)
    (hm : u = .milli → 1000000000000 < v) (hn : u = .nano → 1000000000000000000 < v) :
    Gen.normalizeIntToSeconds (v : Int) = some ((toSeconds u v : Nat) : Int) := by
  obtain ⟨hw, hs⟩ := h
  cases u with
  | sec =>
    obtain ⟨h1, h2⟩ := hw
    simp only [toSeconds] at hs ⊢
    have hw32 : wrapU32 (v : Int) = v := by unfold wrapU32; omega
    have c1 : ¬ ((v : Int) > 1000000000000000000) := by omega
    have c2 : ¬ ((v : Int) > 1000000000000) := by omega
    have c3 : (v : Int) > 0 := by omega
    simp only [Gen.normalizeIntToSeconds, c1, c2, c3, decide_false, decide_true, Bool.false_eq_true, if_false, if_true, hw32]
  | milli =>
    obtain ⟨h1, h2⟩ := hw
    have := hm rfl
    simp only [toSeconds] at hs ⊢
    have hd : Int.tdiv (v : Int) 1000 = ((v / 1000 : Nat) : Int) := by
      rw [Int.tdiv_eq_ediv_of_nonneg (by omega)]; omega
    have hs64 : wrapS64 ((v / 1000 : Nat) : Int) = ((v / 1000 : Nat) : Int) := by unfold wrapS64; omega
    have hw32 : wrapU32 ((v / 1000 : Nat) : Int) = ((v / 1000 : Nat) : Int) := by unfold wrapU32; omega
    have c1 : ¬ ((v : Int) > 1000000000000000000) := by omega
    have c2 : (v : Int) > 1000000000000 := by omega
    simp only [Gen.normalizeIntToSeconds, c1, c2, decide_false, decide_true, Bool.false_eq_true, if_false, if_true, hd, hs64, hw32]
  | nano =>
    obtain ⟨h1, h2⟩ := hw
    have := hn rfl
    simp only [toSeconds] at hs ⊢
    have hd : Int.tdiv (v : Int) 1000000000 = ((v / 1000000000 : Nat) : Int) := by
      rw [Int.tdiv_eq_ediv_of_nonneg (by omega)]; omega
    have hs64 : wrapS64 ((v / 1000000000 : Nat) : Int) = ((v / 1000000000 : Nat) : Int) := by unfold wrapS64; omega
    have hw32 : wrapU32 ((v / 1000000000 : Nat) : Int) = ((v / 1000000000 : Nat) : Int) := by unfold wrapU32; omega
    have c1 : (v : Int) > 1000000000000000000 := by omega
    simp only [Gen.normalizeIntToSeconds, c1, decide_true, if_true, hd, hs64, hw32]

/-- the metrics guards are satisfiable -/
example : inMetricWindow .sec 1700000000 ∧ inMetricWindow .milli 1700000000123 ∧
    inMetricWindow .nano 1700000000123456789 := by
  refine ⟨⟨?_, ?_⟩, ⟨?_, ?_⟩, ⟨?_, ?_⟩⟩ <;> simp only [inWindow, toSeconds] <;> omega


/-! # CONTENT: "stored with all of its fields, attributes and identifiers intact"

Vocabulary (SigModel/Spec/Flatten.lean): a logical event is a JSON tree (`Members` = the members of the root
object); `leavesMembers doc` lists every scalar leaf with ITS OWN path (member keys and array positions);
`flatten ts doc` is what `GetNewPLE`/`ParseRawJsonObject` turn the document into: the columns `(name, value)`
in emission order; `joinPath [] p` is the flattener's name of path `p`, `dotted p` the documented convention
(segments joined with "."); `ts` is the configured timestamp key.  All statements are for EVERY tree. -/
namespace Content
open SigModel.Spec.Flatten SigModel.Lemmas.C16Flatten

/-- EXACT CONTENT (and totality: `flatten` is a total function on all trees): the flattener emits exactly the
tree's leaves — each once, in document order, under the flattener's name of its path, with its value — except
the leaves whose NAME is the timestamp key.  Nothing else is dropped, nothing is invented. -/
theorem flatten_exact (ts : Bytes) (doc : Members) :
    flatten ts doc = ((leavesMembers doc).map (fun p => (joinPath [] p.1, p.2))).filter (fun q => q.1 ≠ ts) := by
  unfold flatten
  rw [flatMembers_eq]; rfl

/-- the same at every depth and behind every prefix (`cur` = the name built so far) -/
theorem flatten_exact_below (ts cur : Bytes) (j : Json) :
    flatVal ts cur j = ((leaves j).map (fun p => (joinPath cur p.1, p.2))).filter (fun q => q.1 ≠ ts) := by
  rw [flatVal_eq]; rfl

/-- COUNT: stored columns + leaves consumed as the time = leaves of the tree -/
theorem flatten_count (ts : Bytes) (doc : Members) :
    (flatten ts doc).length + ((leavesMembers doc).filter (fun p => joinPath [] p.1 = ts)).length
      = (leavesMembers doc).length := by
  rw [flatten_exact, List.filter_map, List.length_map]
  have := filter_length_split (fun p : List Bytes × Atom => decide (joinPath [] p.1 ≠ ts)) (leavesMembers doc)
  simp only [decide_not, Bool.not_not] at this
  simpa [Function.comp_def] using this

/-- LEAF PRESERVATION: every leaf whose name is not the timestamp key is stored under the name of its own path
with its own value -/
theorem leaf_preserved (ts : Bytes) (doc : Members) (x : List Bytes × Atom) (hx : x ∈ leavesMembers doc)
    (hne : joinPath [] x.1 ≠ ts) : (joinPath [] x.1, x.2) ∈ flatten ts doc := by
  unfold flatten
  exact (mem_flatMembers ts [] doc _).mpr ⟨x, hx, rfl, hne⟩

/-- … and the name is the documented one — the segments joined with "." — whenever the root key of the path is
not the empty string -/
theorem leaf_preserved_dotted (ts : Bytes) (doc : Members) (k : Bytes) (r : List Bytes) (v : Atom)
    (hx : (k :: r, v) ∈ leavesMembers doc) (hk : k ≠ []) (hne : dotted (k :: r) ≠ ts) :
    (dotted (k :: r), v) ∈ flatten ts doc := by
  have := leaf_preserved ts doc (k :: r, v) hx (by rw [joinPath_root k r hk]; exact hne)
  rwa [joinPath_root k r hk] at this

/-- guard of the nested-leaf theorem: no ROOT member has the empty key (decidable) -/
def NoEmptyRootKey (doc : Members) : Prop := rootKeysNonEmpty doc = true
instance (doc : Members) : Decidable (NoEmptyRootKey doc) := by unfold NoEmptyRootKey; exact inferInstance

/-- FULL STATEMENT for nested leaves: "a leaf below the root level (path of two or more segments) is always
stored, whatever its own key is — the timestamp key included; only the ROOT-level timestamp member is consumed
as the time". -/
def NestedLeavesStored : Prop :=
  ∀ (ts : Bytes), dot ∉ ts → ∀ (doc : Members) (x : List Bytes × Atom), x ∈ leavesMembers doc → 2 ≤ x.1.length →
    ∃ n, (n, x.2) ∈ flatten ts doc

/-- the code violates the full statement: the flattener treats an EMPTY name-so-far as "no prefix", so the
members of a root member with the empty key are named like root members: in `{"": {"t": 5}}` with timestamp key
`t` the nested leaf is consumed (nothing is stored). -/
theorem nested_leaves_stored_counterexample : ¬ NestedLeavesStored := by
  intro h
  have := h [116] (by decide) (.cons [] (.obj (.cons [116] (.leaf (.num ['5'] ['5'])) .nil)) .nil)
    ([[], [116]], .num ['5'] ['5']) (by simp [leavesMembers, leaves]) (by simp)
  obtain ⟨n, hn⟩ := this
  simp [flatten, flatMembers, flatVal, joinKey, emit] at hn

/-- the statement holds for every tree without an empty ROOT key: a nested leaf — also one whose own key equals
the timestamp key, at any depth, inside arrays — is stored under its dotted path with its value (the timestamp
key contains no dot: `timestamp`) -/
theorem nested_leaves_stored_partial (ts : Bytes) (hts : dot ∉ ts) (doc : Members) (hg : NoEmptyRootKey doc)
    (x : List Bytes × Atom) (hx : x ∈ leavesMembers doc) (h2 : 2 ≤ x.1.length) :
    (dotted x.1, x.2) ∈ flatten ts doc := by
  obtain ⟨k, r, e, hk⟩ := mem_leavesMembers_head doc x hx
  have hkn : k ≠ [] := by
    intro e0; subst e0
    simp [NoEmptyRootKey, rootKeysNonEmpty, hk] at hg
  obtain ⟨p, v⟩ := x
  simp only at e; subst e
  match r, h2 with
  | t :: r', _ =>
    refine leaf_preserved_dotted ts doc k (t :: r') v hx hkn ?_
    intro e
    have := dot_mem_joinPath_of_two k t r' hkn
    rw [joinPath_root k _ hkn, e] at this
    exact hts this

example : NoEmptyRootKey (.cons [97] (.obj (.cons [116] (.leaf .null) .nil)) .nil) := by decide

/-- WHAT IS CONSUMED: without an empty root key and with a dot-free timestamp key, a leaf is consumed as the time
iff it is the root-level member named like the timestamp key -/
theorem only_root_ts_consumed (ts : Bytes) (hts : dot ∉ ts) (doc : Members) (hg : NoEmptyRootKey doc)
    (x : List Bytes × Atom) (hx : x ∈ leavesMembers doc) : joinPath [] x.1 = ts ↔ x.1 = [ts] := by
  obtain ⟨k, r, e, hk⟩ := mem_leavesMembers_head doc x hx
  have hkn : k ≠ [] := by
    intro e0; subst e0
    simp [NoEmptyRootKey, rootKeysNonEmpty, hk] at hg
  rw [e, joinPath_root k r hkn]
  cases r with
  | nil => simp [dotted]
  | cons t r' =>
    constructor
    · intro e2
      have := dot_mem_joinPath_of_two k t r' hkn
      rw [joinPath_root k _ hkn, e2] at this
      exact absurd this hts
    · intro e2; simp at e2

/-- guard of the no-collision theorem (decidable): in every object of the tree the keys are pairwise distinct
and contain no dot, and no root key is empty -/
def WellKeyed (doc : Members) : Prop := wellKeyedMembers doc = true ∧ rootKeysNonEmpty doc = true
instance (doc : Members) : Decidable (WellKeyed doc) := by unfold WellKeyed; exact inferInstance

/-- FULL STATEMENT "distinct leaves get distinct column names" -/
def NamesDistinct : Prop := ∀ (ts : Bytes) (doc : Members), ((flatten ts doc).map (fun q => q.1)).Nodup

/-- the code violates it: a key that contains a dot collides with a nested path — `{"a.b": 1, "a": {"b": 2}}`
emits the column `a.b` twice (and the record is read back with one of the two values) -/
theorem names_distinct_counterexample : ¬ NamesDistinct := by
  intro h
  have := h [0] (.cons [97, 46, 98] (.leaf (.num ['1'] ['1'])) (.cons [97] (.obj (.cons [98] (.leaf (.num ['2'] ['2'])) .nil)) .nil))
  simp [flatten, flatMembers, flatVal, joinKey, emit, dot] at this

/-- … and so does the empty root key: `{"": {"a": 1}, "a": 2}` emits `a` twice -/
theorem names_distinct_counterexample_empty_key : ¬ NamesDistinct := by
  intro h
  have := h [0] (.cons [] (.obj (.cons [97] (.leaf (.num ['1'] ['1'])) .nil)) (.cons [97] (.leaf (.num ['2'] ['2'])) .nil))
  simp [flatten, flatMembers, flatVal, joinKey, emit] at this

/-- INJECTIVITY ON KEY PATHS: for every well-keyed tree distinct leaves are stored under distinct names (array
positions included: decimal rendering is injective) -/
theorem names_distinct_partial (ts : Bytes) (doc : Members) (hg : WellKeyed doc) :
    ((flatten ts doc).map (fun q => q.1)).Nodup := by
  unfold flatten
  rw [flatMembers_eq]
  exact (names_nodup doc hg.1 hg.2).sublist (keep_names_sublist ts _)

example : WellKeyed (.cons [97] (.obj (.cons [98] (.arr (.cons (.leaf .null) .nil)) .nil)) (.cons [99] (.leaf .null) .nil)) := by decide

/-- hence the record that is read back (`lookupLast`: one value per name) shows, for a well-keyed tree, every
stored leaf with exactly its own value -/
theorem stored_value_is_leaf_value (ts : Bytes) (doc : Members) (hg : WellKeyed doc) (x : List Bytes × Atom)
    (hx : x ∈ leavesMembers doc) (hne : joinPath [] x.1 ≠ ts) :
    lookupLast (flatten ts doc) (joinPath [] x.1) = some x.2 :=
  lookupLast_of_nodup _ _ _ (names_distinct_partial ts doc hg) (leaf_preserved ts doc x hx hne)

/-! ## protocol envelopes: the same tree behind a prefix -/

/-- BEHIND A PREFIX (HEC `event`, OTLP `attributes` / `resource.attributes` / `scope.attributes` / `body`): nothing
is consumed as the time, and the stored fields are exactly the leaves of the tree under `prefix` + "." + the name
they have in a root-level document (ES bulk) -/
theorem under_prefix_same_fields (ts cur : Bytes) (hc : cur ≠ []) (hts : dot ∉ ts) (t : Members) (hg : NoEmptyRootKey t) :
    flatMembers ts cur t = (leavesMembers t).map (fun p => (cur ++ dot :: joinPath [] p.1, p.2)) := by
  rw [flatMembers_eq]
  unfold keep allCols
  rw [List.filter_eq_self.mpr]
  · apply List.map_congr_left
    intro x hx
    obtain ⟨k, r, e, hk⟩ := mem_leavesMembers_head t x hx
    have hkn : k ≠ [] := by
      intro e0; subst e0
      simp [NoEmptyRootKey, rootKeysNonEmpty, hk] at hg
    rw [e, joinPath_prefix cur k r hc hkn]
  · intro q hq
    simp only [List.mem_map] at hq
    obtain ⟨x, hx, rfl⟩ := hq
    obtain ⟨k, r, e, _⟩ := mem_leavesMembers_head t x hx
    simp only [decide_eq_true_eq]
    exact joinPath_ne_of_dotfree cur ts x.1 hc (by rw [e]; simp) hts

/-- ES bulk (root level) versus any prefixed protocol: the field sets agree after removing the prefix, except for
the root-level timestamp member, which the root-level document gives up as its event time -/
theorem root_vs_prefix (ts cur : Bytes) (hc : cur ≠ []) (hts : dot ∉ ts) (t : Members) (hg : NoEmptyRootKey t)
    (n : Bytes) (v : Atom) :
    (n, v) ∈ flatten ts t ↔ ((cur ++ dot :: n, v) ∈ flatMembers ts cur t ∧ n ≠ ts) := by
  rw [under_prefix_same_fields ts cur hc hts t hg, flatten_exact]
  simp only [List.mem_filter, List.mem_map, decide_eq_true_eq, Prod.mk.injEq]
  constructor
  · rintro ⟨⟨x, hx, rfl, rfl⟩, h⟩
    exact ⟨⟨x, hx, rfl, rfl⟩, h⟩
  · rintro ⟨⟨x, hx, e1, rfl⟩, h⟩
    have : joinPath [] x.1 = n := by simpa using e1
    exact ⟨⟨x, hx, this, rfl⟩, h⟩

/-- ES bulk hands the document itself to the flattener -/
theorem es_stores (ts : Bytes) (t : Members) : flatten ts (envEs t) = flatten ts t := rfl

/-- Splunk HEC: every leaf of the event is stored under `event.` + its root-level name (the envelope members are
sorted by key on the way: irrelevant for WHAT is stored) -/
theorem hec_stores_event (c : Consts) (t : Members) (x : List Bytes × Atom) (hx : x ∈ leavesMembers t) :
    (joinPath N.event x.1, x.2) ∈ flatten tsKey (envHec c t) := by
  unfold flatten envHec
  refine (mem_flatMembers tsKey [] _ _).mpr ⟨(N.event :: x.1, x.2), ?_, ?_, ?_⟩
  · rw [mem_leavesMembers_sort]
    simp only [Members.ofList, leavesMembers, leaves, List.mem_append, List.mem_map]
    exact Or.inr (Or.inr (Or.inr (Or.inr (Or.inr (Or.inl ⟨x, hx, rfl⟩)))))
  · simp [joinPath, joinKey]
  · have : joinPath [] (N.event :: x.1) = joinPath N.event x.1 := by simp [joinPath, joinKey]
    rw [this]
    exact joinPath_ne_of_head N.event tsKey x.1 (by decide) (by decide)

/-- … i.e. under `event.<dotted path>` when the event has no empty root key -/
theorem hec_stores_event_dotted (c : Consts) (t : Members) (hg : NoEmptyRootKey t) (k : Bytes) (r : List Bytes) (v : Atom)
    (hx : (k :: r, v) ∈ leavesMembers t) : (N.event ++ dot :: dotted (k :: r), v) ∈ flatten tsKey (envHec c t) := by
  obtain ⟨k', r', e, hk⟩ := mem_leavesMembers_head t _ hx
  have hkn : k ≠ [] := by
    simp only at e
    obtain ⟨rfl, rfl⟩ := List.cons.inj e
    intro e0; subst e0
    simp [NoEmptyRootKey, rootKeysNonEmpty, hk] at hg
  have := hec_stores_event c t (k :: r, v) hx
  rwa [joinPath_prefix N.event k r (by decide) hkn, joinPath_root k r hkn] at this

/-- OTLP logs: every leaf of the attribute tree is stored three times — as record attribute, resource attribute
and scope attribute (the tree is delivered in all three places) — and a fourth time under `body` when the body is
the structured tree -/
theorem otlp_stores_attributes (c : Consts) (bodyTree ids : Bool) (msg : Bytes) (t : Members)
    (x : List Bytes × Atom) (hx : x ∈ leavesMembers t) :
    (joinPath N.attributes x.1, x.2) ∈ flatten tsKey (envOtlp c bodyTree ids msg t)
    ∧ (joinPath (N.resource ++ dot :: N.attributes) x.1, x.2) ∈ flatten tsKey (envOtlp c bodyTree ids msg t)
    ∧ (joinPath (N.scope ++ dot :: N.attributes) x.1, x.2) ∈ flatten tsKey (envOtlp c bodyTree ids msg t)
    ∧ (bodyTree = true → (joinPath N.body x.1, x.2) ∈ flatten tsKey (envOtlp c bodyTree ids msg t)) := by
  have hs : x ∈ leaves (sortJson (.obj t)) := (mem_leaves_sortJson _ x).mpr (by simpa [leaves] using hx)
  have hs2 : x ∈ leaves (sortJson (.obj (.cons N.siglensIndexName (jstr c.otlpIndex) t))) :=
    (mem_leaves_sortJson _ x).mpr (by simp [leaves, leavesMembers, hx])
  unfold flatten envOtlp
  refine ⟨?_, ?_, ?_, ?_⟩
  · refine (mem_flatMembers tsKey [] _ _).mpr ⟨(N.attributes :: x.1, x.2), ?_, by simp [joinPath, joinKey], ?_⟩
    · simp only [Members.ofList, leavesMembers, leaves, List.mem_append, List.mem_map]
      exact Or.inr (Or.inr (Or.inr (Or.inr (Or.inr (Or.inr (Or.inr (Or.inl ⟨x, hs, rfl⟩)))))))
    · have : joinPath [] (N.attributes :: x.1) = joinPath N.attributes x.1 := by simp [joinPath, joinKey]
      rw [this]; exact joinPath_ne_of_head _ tsKey x.1 (by decide) (by decide)
  · refine (mem_flatMembers tsKey [] _ _).mpr ⟨(N.resource :: N.attributes :: x.1, x.2), ?_, by simp [joinPath, joinKey, N.resource], ?_⟩
    · simp only [Members.ofList, leavesMembers, leaves, List.mem_append, List.mem_map]
      exact Or.inl ⟨(N.attributes :: x.1, x.2), Or.inl ⟨x, hs2, rfl⟩, rfl⟩
    · have : joinPath [] (N.resource :: N.attributes :: x.1) = joinPath (N.resource ++ dot :: N.attributes) x.1 := by
        simp [joinPath, joinKey, N.resource]
      rw [this]; exact joinPath_ne_of_head _ tsKey x.1 (by decide) (by decide)
  · refine (mem_flatMembers tsKey [] _ _).mpr ⟨(N.scope :: N.attributes :: x.1, x.2), ?_, by simp [joinPath, joinKey, N.scope], ?_⟩
    · simp only [Members.ofList, leavesMembers, leaves, List.mem_append, List.mem_map]
      exact Or.inr (Or.inl ⟨(N.attributes :: x.1, x.2), Or.inr (Or.inr (Or.inl ⟨x, hs, rfl⟩)), rfl⟩)
    · have : joinPath [] (N.scope :: N.attributes :: x.1) = joinPath (N.scope ++ dot :: N.attributes) x.1 := by
        simp [joinPath, joinKey, N.scope]
      rw [this]; exact joinPath_ne_of_head _ tsKey x.1 (by decide) (by decide)
  · intro hb
    subst hb
    refine (mem_flatMembers tsKey [] _ _).mpr ⟨(N.body :: x.1, x.2), ?_, by simp [joinPath, joinKey], ?_⟩
    · simp only [Members.ofList, leavesMembers, leaves, List.mem_append, List.mem_map, if_true]
      exact Or.inr (Or.inr (Or.inr (Or.inr (Or.inr (Or.inr (Or.inl ⟨x, hs, rfl⟩))))))
    · have : joinPath [] (N.body :: x.1) = joinPath N.body x.1 := by simp [joinPath, joinKey]
      rw [this]; exact joinPath_ne_of_head _ tsKey x.1 (by decide) (by decide)

/-- ES single-document API: every leaf outside the root member `_id` (which the handler sets itself) is stored
exactly as ES bulk stores it -/
theorem esdoc_stores (t : Members) (x : List Bytes × Atom) (hx : x ∈ leavesMembers t) (hid : x.1.head? ≠ some N.u_id)
    (hne : joinPath [] x.1 ≠ tsKey) : (joinPath [] x.1, x.2) ∈ flatten tsKey (envEsDoc t) := by
  unfold flatten envEsDoc
  refine (mem_flatMembers tsKey [] _ _).mpr ⟨x, ?_, rfl, hne⟩
  rw [mem_leavesMembers_sort]
  simp only [leavesMembers, List.mem_append]
  refine Or.inr ?_
  exact mem_leavesMembers_erase t N.u_id x hx hid

/-- Loki JSON push: a stream label (a root member with a string value) is stored under its own name with its value,
unless it is named like one of the protocol's own fields (`timestamp`, `line`) or a member of the structured
metadata has the same name (Go map assignment: the later one replaces it) -/
theorem loki_stores_labels (c : Consts) (msg : Bytes) (t : Members) (k s : Bytes)
    (h : (k, Json.leaf (.str s)) ∈ t.toList) (h1 : k ≠ N.timestamp) (h2 : k ≠ N.line)
    (h3 : ∀ kv ∈ (otherMembers t).toList, kv.1 ≠ k) :
    (k, Atom.str s) ∈ flatten tsKey (envLoki c msg t) := by
  unfold flatten envLoki
  refine (mem_flatMembers tsKey [] _ _).mpr ⟨([k], .str s), ?_, by simp [joinPath, joinKey], ?_⟩
  · rw [mem_leavesMembers_sort]
    refine mem_foldl_setMember _ _ _ ?_ (fun kv hkv => by simpa using fun e => h3 kv hkv e.symm)
    refine mem_setMember_other _ _ _ _ ?_ (by simpa using h2)
    refine mem_setMember_other _ _ _ _ ?_ (by simpa using h1)
    exact mem_stringMembers t k s h
  · simpa [joinPath, joinKey, tsKey] using h1

/-- Loki JSON push: the log line is stored as `line`, unless a member of the structured metadata is called `line` -/
theorem loki_stores_line (c : Consts) (msg : Bytes) (t : Members)
    (h3 : ∀ kv ∈ (otherMembers t).toList, kv.1 ≠ N.line) :
    (N.line, Atom.str msg) ∈ flatten tsKey (envLoki c msg t) := by
  unfold flatten envLoki
  refine (mem_flatMembers tsKey [] _ _).mpr ⟨([N.line], .str msg), ?_, by simp [joinPath, joinKey, N.line], ?_⟩
  · rw [mem_leavesMembers_sort]
    refine mem_foldl_setMember _ _ _ ?_ (fun kv hkv => by simpa using fun e => h3 kv hkv e.symm)
    exact mem_setMember_new _ N.line (.leaf (.str msg)) ([], .str msg) (by simp [leaves])
  · simp [joinPath, joinKey, tsKey, N.line, N.timestamp]

/-- the HEC envelope's own fields, as stored -/
def hecEnvelopeFields (c : Consts) : List (Bytes × Atom) :=
  [(N.time, .num c.hecTime.toList c.hecTime.toList), (N.host, .str (bytesOf c.host)), (N.source, .str (bytesOf c.source)),
   (N.sourcetype, .str (bytesOf c.sourcetype)), (N.index, .str (bytesOf c.hecIndex))]

/-- Splunk HEC, both directions: the stored field set is EXACTLY the envelope's own fields, the leaves of the event
under `event`, and the leaves of `fields` under `fields` — nothing is lost and nothing else appears; hence, after
removing the envelope fields and the prefix, HEC and ES bulk store the same field set (up to the root timestamp
member, `root_vs_prefix`) -/
theorem hec_stored_exactly (c : Consts) (t : Members) (q : Bytes × Atom) :
    q ∈ flatten tsKey (envHec c t) ↔
      (q ∈ hecEnvelopeFields c ∨ (∃ x ∈ leavesMembers t, q = (joinPath N.event x.1, x.2))
        ∨ (∃ x ∈ leavesMembers (stringMembers t), q = (joinPath N.fields x.1, x.2))) := by
  have he : ∀ p : List Bytes, joinPath [] (N.event :: p) = joinPath N.event p := by intro p; simp [joinPath, joinKey]
  have hf : ∀ p : List Bytes, joinPath [] (N.fields :: p) = joinPath N.fields p := by intro p; simp [joinPath, joinKey]
  unfold flatten envHec
  rw [mem_flatMembers]
  constructor
  · rintro ⟨x, hx, rfl, _⟩
    rw [mem_leavesMembers_sort] at hx
    simp only [Members.ofList, leavesMembers, leaves, jstr, List.mem_append, List.mem_map, List.mem_singleton,
      List.not_mem_nil, or_false] at hx
    rcases hx with ⟨y, rfl, rfl⟩ | ⟨y, rfl, rfl⟩ | ⟨y, rfl, rfl⟩ | ⟨y, rfl, rfl⟩ | ⟨y, rfl, rfl⟩ | ⟨y, hy, rfl⟩ | ⟨y, hy, rfl⟩
    · left; simp [hecEnvelopeFields, joinPath, joinKey]
    · left; simp [hecEnvelopeFields, joinPath, joinKey]
    · left; simp [hecEnvelopeFields, joinPath, joinKey]
    · left; simp [hecEnvelopeFields, joinPath, joinKey]
    · left; simp [hecEnvelopeFields, joinPath, joinKey]
    · right; left; exact ⟨y, hy, by rw [he]⟩
    · right; right; exact ⟨y, hy, by rw [hf]⟩
  · rintro (h | ⟨x, hx, rfl⟩ | ⟨x, hx, rfl⟩)
    · simp only [hecEnvelopeFields, List.mem_cons, List.not_mem_nil, or_false] at h
      have mk : ∀ (k : Bytes) (a : Atom), k ≠ tsKey → ([k], a) ∈ leavesMembers (sortMembers (Members.ofList [
          (N.time, .leaf (.num c.hecTime.toList c.hecTime.toList)),
          (N.host, jstr c.host), (N.source, jstr c.source), (N.sourcetype, jstr c.sourcetype),
          (N.index, jstr c.hecIndex), (N.event, .obj t), (N.fields, .obj (stringMembers t))])) →
          ∃ x ∈ leavesMembers (sortMembers (Members.ofList [
          (N.time, .leaf (.num c.hecTime.toList c.hecTime.toList)),
          (N.host, jstr c.host), (N.source, jstr c.source), (N.sourcetype, jstr c.sourcetype),
          (N.index, jstr c.hecIndex), (N.event, .obj t), (N.fields, .obj (stringMembers t))])),
            (k, a) = (joinPath [] x.1, x.2) ∧ joinPath [] x.1 ≠ tsKey := by
        intro k a hk hm
        exact ⟨([k], a), hm, by simp [joinPath, joinKey], by simpa [joinPath, joinKey] using hk⟩
      rcases h with rfl | rfl | rfl | rfl | rfl
      all_goals
        refine mk _ _ (by decide) ?_
        rw [mem_leavesMembers_sort]
        simp [Members.ofList, leavesMembers, leaves, jstr]
    · refine ⟨(N.event :: x.1, x.2), ?_, by rw [he], ?_⟩
      · rw [mem_leavesMembers_sort]
        simp only [Members.ofList, leavesMembers, leaves, List.mem_append, List.mem_map]
        exact Or.inr (Or.inr (Or.inr (Or.inr (Or.inr (Or.inl ⟨x, hx, rfl⟩)))))
      · rw [he]; exact joinPath_ne_of_head N.event tsKey x.1 (by decide) (by decide)
    · refine ⟨(N.fields :: x.1, x.2), ?_, by rw [hf], ?_⟩
      · rw [mem_leavesMembers_sort]
        simp only [Members.ofList, leavesMembers, leaves, List.mem_append, List.mem_map]
        exact Or.inr (Or.inr (Or.inr (Or.inr (Or.inr (Or.inr (Or.inl ⟨x, hx, rfl⟩))))))
      · rw [hf]; exact joinPath_ne_of_head N.fields tsKey x.1 (by decide) (by decide)

/-! ## numbers and the repaired handlers -/

/-- a number leaf whose token is an integer inside int64 is stored as exactly that integer, through every protocol
that hands the token to the flattener as it was sent -/
theorem int64_token_exact (tok jtok : List Char) (i : Int) (h : SigModel.TimeUnit.jpParseInt tok = some i) :
    storedNum .direct tok jtok = some (.int i) ∧ storedNum .otlp tok jtok = some (.int i) := by
  simp [storedNum, readTok, h]

/-- Splunk HEC and Loki JSON push AS REPAIRED (UseNumber): the stored number is what ES bulk stores for the same
token — the float64 re-rendering (`jtok`) plays no part any more.  Together with `hec_stored_exactly` /
`loki_stores_labels`: the same logical event has the same field VALUES through ES bulk, ES doc, HEC and Loki. -/
theorem hec_numbers_as_sent (tok jtok : List Char) : storedNum hecNumMode tok jtok = storedNum .direct tok jtok := rfl

/-- FULL STATEMENT for the old decoding: "HEC stores the number ES bulk stores" -/
def HecNumbersAsSentOld : Prop := ∀ tok jtok : List Char, storedNum hecNumModeOld tok jtok = storedNum .direct tok jtok

/-- before the repair it failed: 9007199254740993 went through float64, came back as the text 9007199254740992
and was stored as that integer (old known finding content/hec-int-beyond-2^53-altered) -/
theorem hec_numbers_old_counterexample : ¬ HecNumbersAsSentOld := by
  intro h
  have := h ['9','0','0','7','1','9','9','2','5','4','7','4','0','9','9','3'] ['9','0','0','7','1','9','9','2','5','4','7','4','0','9','9','2']
  revert this
  decide

/-- the ES single-document handler, before the repair, panicked after ingesting a document whose root `_type` or
`_index` is not a string (old known finding content/esdoc-panic): the class is not empty … -/
theorem esdoc_panic_old_witness :
    esDocPanicsOld (.cons N.u_type (.leaf (.num ['5'] ['5'])) (.cons [109] (.leaf (.str [111])) .nil)) = true := by decide

/-- … and as repaired the handler answers for EVERY document and stores what ES bulk stores, outside the root member
`_id`: `esdoc_stores` above holds without any guard on `_type` / `_index` (the answer of the specification has no
panic branch: `answer`). -/
theorem esdoc_answers_for_every_document (c : Consts) (k : Case) :
    ∃ es doc hec loki otlp : String, answer c k = s!"es={es} | esdoc={doc} | hec={hec} | loki={loki} | otlp={otlp}"
      ∧ doc = stored .direct (envEsDoc k.tree) :=
  ⟨_, _, _, _, _, rfl, rfl⟩

/-- THE LONGEST STRING VALUE (patch c16-4): a document that GetNewPLE accepts holds no string value of more than
65532 bytes, so the two length bytes of every stored string value say its length exactly and the end index of its
record (3 + length) fits into the uint16 the readers keep it in — for EVERY tree, at every depth, through every
protocol (each hands a tree to the same flattener). -/
theorem accepted_strings_fit (ts : Bytes) (doc : Members) (h : longMembers doc = false)
    (q : Bytes × Atom) (hq : q ∈ flatten ts doc) (s : Bytes) (hs : q.2 = .str s) :
    s.length ≤ maxStringBytes ∧ s.length % 65536 = s.length ∧ (3 + s.length) % 65536 = 3 + s.length := by
  unfold flatten at hq
  obtain ⟨x, hx, rfl, _⟩ := (mem_flatMembers ts [] doc q).mp hq
  have h1 := longMembers_false doc h x hx
  simp only at hs
  rw [hs] at h1
  have h2 : s.length ≤ 65532 := by simpa [Atom.tooLong, maxStringBytes] using h1
  exact ⟨h2, Nat.mod_eq_of_lt (by omega), Nat.mod_eq_of_lt (by omega)⟩

/-- a document with a longer string value is refused by every protocol (the specification's answer) -/
theorem long_string_refused (m : NumMode) (doc : Members) (h : longMembers doc = true) : stored m doc = "rejected" := by
  simp [stored, h]

/-- BEFORE the repair nothing was refused and a value came back with its length mod 65536: 70000 bytes sent, 4464
returned; 65536 bytes sent, the empty string (= no field) returned. -/
theorem long_string_old_counterexample :
    ¬ (∀ n : Nat, storedLenOld n = n) ∧ storedLenOld 70000 = 4464 ∧ storedLenOld 65536 = 0 := by
  refine ⟨fun h => ?_, by decide, by decide⟩
  have := h 65536
  revert this; decide

example : -- non-vacuous: a 3-byte value is accepted, the guard of accepted_strings_fit is satisfiable
    longMembers (.cons [97] (.leaf (.str [1, 2, 3])) .nil) = false := by decide

end Content

end SigModel.Props.C16
