/-
C05 — Result order, limits and pagination are correct (kernel part).

Property theorems only.  Two kernels of /repo are covered:

  * the searcher's block scheduler (SigModel/Model/Sched.lean mirrors pkg/segment/query/processor/searcher.go:
    sortBlocks, getNextBlocks, getValidRRCs, getQSRSToProcess, getFilteredBlocks, Fetch/fetchRRCs) — the
    statements quantify over EVERY list of segment requests with every number of blocks and records, every
    overlap of block and segment time ranges, every maxBlocks, every number of Fetch calls;
  * the `sort` comparator (SigModel/Model/SortCmp.lean mirrors sortcommand.go compareValues / less and
    dtypeutils.AlmostEquals) — the statements quantify over every key list and every value; the float64 rounding
    `rnd` is a parameter (see the model header);
  * plus the page arithmetic and the scroll / head processors over every batching.

Found false of the code as it was and REPAIRED (patch "a search never returned when a block reached past the time
range its segment advertises", fetchRRCs `lastBlocks`): records kept back in unsentRRCs with no round left to
release them — in the OLDEST-first mode (recentLast; selected by no query path in this version) even for
well-formed input.  After the repair EOF is reached for EVERY input in both modes (fetch_always_reaches_eof,
fetch_reaches_eof); the old scheduler is kept as `fetchRRCsOld` for fetch_reaches_eof_counterexample_old and
fetch_recentLast_stuck_forever_old.
Found false and REPAIRED in /repo (fix: commits of C05): `less` was not a strict weak order — compareFloat used
AlmostEquals' tolerance as equality (non-transitive "equal"), NaN was "equal" to every number and ±Inf was not
equal to itself.  With the exact compareFloat the statement is proved at full strength
(less_strict_weak_order); the old comparator is kept as `lessOld` for the two counterexample theorems.
Also repaired: the order among records with EQUAL timestamps depended on map iteration order and goroutine
scheduling, so paging (which re-runs the query for every page) could return an event on two pages and another
on none; sortRRCs now breaks ties by position in the segment (§4: sortRRCs_result_unique, with the
counterexample for the old comparator); the segment-level tie-breaks (segment key) are checked by the harness.
-/
import SigModel.Model.Sched
import SigModel.Model.SortCmp
import SigModel.Lemmas.C05a
import SigModel.Lemmas.C05b
import SigModel.Lemmas.C05c
import SigModel.Lemmas.C05d
import SigModel.Lemmas.C05e
import SigModel.Lemmas.C05f
import SigModel.Lemmas.C05g
import SigModel.Lemmas.C05h
import SigModel.Lemmas.C05i

namespace SigModel.Props.C05
open SigModel.Sched SigModel.SortCmp

/-! ## 1. the block scheduler -/

/-- Well-formed input (the C01 invariant): every record lies inside its block's [low, high] and every block
inside its segment request's [start, stop].  Nothing is assumed about how blocks or segments overlap. -/
def WellFormed (segs : List Seg) : Prop :=
  ∀ s ∈ segs, ∀ b ∈ s.blocks, s.start ≤ b.low ∧ b.high ≤ s.stop ∧ b.low ≤ b.high ∧
    ∀ r ∈ b.recs, b.low ≤ r.2 ∧ r.2 ≤ b.high

/-- Block ids (segment key + block number) are unique. -/
def UniqueBlockIds (segs : List Seg) : Prop := ((allBlocks segs).map (·.id)).Nodup

instance (segs : List Seg) : Decidable (WellFormed segs) := by unfold WellFormed; infer_instance
instance (segs : List Seg) : Decidable (UniqueBlockIds segs) := by unfold UniqueBlockIds; infer_instance

/-- Timestamps are uint64 in the code (`Nat` in the model): no record lies beyond math.MaxUint64.  Needed in
oldest-first mode only, where the end time of the last round is math.MaxUint64. -/
def TsFit (segs : List Seg) : Prop := ∀ r ∈ allRecs segs, r.2 ≤ maxU64

instance (segs : List Seg) : Decidable (TsFit segs) := by unfold TsFit; infer_instance

/-- all records released by the first `fuel` Fetch calls, in order -/
def released (m : Mode) (maxBlocks fuel : Nat) (segs : List Seg) : List Rec :=
  (runFetch m maxBlocks fuel (init m segs)).1.flatten

/-- EOF was reached within `fuel` Fetch calls -/
def reachedEOF (m : Mode) (maxBlocks fuel : Nat) (segs : List Seg) : Bool :=
  (runFetch m maxBlocks fuel (init m segs)).2

/-- the same two for the scheduler BEFORE the repair (`fetchRRCsOld`), for the counterexample theorems only -/
def releasedOld (m : Mode) (maxBlocks fuel : Nat) (segs : List Seg) : List Rec :=
  (runFetchOld m maxBlocks fuel (init m segs)).1.flatten

def reachedEOFOld (m : Mode) (maxBlocks fuel : Nat) (segs : List Seg) : Bool :=
  (runFetchOld m maxBlocks fuel (init m segs)).2

theorem wf_iff (segs : List Seg) (h : WellFormed segs) : Lemmas.C05.WF segs := by
  intro s hs b hb
  have := h s hs b hb
  exact ⟨this.1, this.2.1, this.2.2.1, this.2.2.2⟩

/-- C05.1 `fetch_released_sorted`: for EVERY well-formed set of segment requests and blocks (overlapping,
nested, identical ranges, ties), every maxBlocks and every number of Fetch calls, the concatenation of the
released batches is sorted by timestamp (non-strictly): newest first in recentFirst mode, oldest first in
recentLast mode — the last round, which hands out everything that was kept back, included.
(`m.before b a = false` reads "b is not strictly before a in the output order".) -/
theorem fetch_released_sorted (m : Mode) (segs : List Seg) (maxBlocks fuel : Nat) (hwf : WellFormed segs) :
    (released m maxBlocks fuel segs).Pairwise (fun a b => m.before b.2 a.2 = false) :=
  (Lemmas.C05.run_sorted m segs (wf_iff segs hwf) maxBlocks fuel (init m segs) (Lemmas.C05.inv_init m segs)).1

/-- the same, spelled out for the mode every query uses: newest first -/
theorem fetch_released_newest_first (segs : List Seg) (maxBlocks fuel : Nat) (hwf : WellFormed segs) :
    (released .recentFirst maxBlocks fuel segs).Pairwise (fun a b => b.2 ≤ a.2) := by
  have := fetch_released_sorted .recentFirst segs maxBlocks fuel hwf
  exact this.imp (fun h => by simpa using h)

/-- … and for the other mode: oldest first -/
theorem fetch_released_oldest_first (segs : List Seg) (maxBlocks fuel : Nat) (hwf : WellFormed segs) :
    (released .recentLast maxBlocks fuel segs).Pairwise (fun a b => a.2 ≤ b.2) := by
  have := fetch_released_sorted .recentLast segs maxBlocks fuel hwf
  exact this.imp (fun h => by simpa using h)

/-- C05.2 `fetch_released_perm`: once EOF is reached, the released records are a permutation of all matching
records: nothing is stuck in unsentRRCs, nothing is released twice (both modes). -/
theorem fetch_released_perm (m : Mode) (segs : List Seg) (maxBlocks fuel : Nat) (hwf : WellFormed segs)
    (hid : UniqueBlockIds segs) (heof : reachedEOF m maxBlocks fuel segs = true) :
    (released m maxBlocks fuel segs).Perm (allRecs segs) :=
  (Lemmas.C05.run_perm m segs (wf_iff segs hwf) maxBlocks fuel (init m segs)
    (Lemmas.C05.invP_init m segs hid) heof).trans (Lemmas.C05.future_init m segs)

/-- C05.2b `fetch_always_reaches_eof` — "a search always ends": for EVERY input — well-formed or not: blocks
that reach past the time range their segment advertises, records outside their block's range, repeated block
ids, empty segments —, both modes and every maxBlocks, the run has reached EOF after
`fuelBound = 2·(#segments + #blocks) + 4` Fetch calls.  Well-formedness is NOT needed; the only condition is the
one the Go types give (timestamps are uint64). -/
theorem fetch_always_reaches_eof (m : Mode) (segs : List Seg) (maxBlocks : Nat) (hfit : TsFit segs) :
    reachedEOF m maxBlocks (fuelBound segs) segs = true := by
  apply Lemmas.C05.run_eof m segs (fun _ => hfit) maxBlocks (fuelBound segs) (init m segs)
    (Lemmas.C05.invE_init m segs) (Lemmas.C05.gbRem_init m segs)
  rw [Lemmas.C05.mu_init]
  unfold fuelBound
  omega

/-- newest first (the mode every query uses) needs no condition at all -/
theorem fetch_always_reaches_eof_newest_first (segs : List Seg) (maxBlocks : Nat) :
    reachedEOF .recentFirst maxBlocks (fuelBound segs) segs = true := by
  apply Lemmas.C05.run_eof .recentFirst segs (fun h => by cases h) maxBlocks (fuelBound segs)
    (init .recentFirst segs) (Lemmas.C05.invE_init _ segs) (Lemmas.C05.gbRem_init _ segs)
  rw [Lemmas.C05.mu_init]
  unfold fuelBound
  omega

/-- C05.2b the full statement "EOF is always reached" (as stated before the repair, when it was false): for
every mode and every well-formed input, after `fuelBound` Fetch calls the run has reached EOF. -/
def FetchReachesEOF : Prop :=
  ∀ (m : Mode) (segs : List Seg) (maxBlocks : Nat), WellFormed segs → UniqueBlockIds segs → TsFit segs →
    reachedEOF m maxBlocks (fuelBound segs) segs = true

/-- … holds at full strength of the repaired scheduler (a corollary of `fetch_always_reaches_eof`; neither
well-formedness nor unique block ids are used) -/
theorem fetch_reaches_eof : FetchReachesEOF :=
  fun m segs maxBlocks _ _ hfit => fetch_always_reaches_eof m segs maxBlocks hfit

/-- Why `TsFit` appears: the model's timestamps are `Nat`.  A "timestamp" 2^64 — not a uint64, so not an input
of the code — would be kept back by the last round of the oldest-first mode (end time math.MaxUint64). -/
theorem fetch_eof_needs_uint64_timestamps :
    ¬ ∀ (m : Mode) (segs : List Seg) (maxBlocks : Nat), WellFormed segs → UniqueBlockIds segs →
        reachedEOF m maxBlocks (fuelBound segs) segs = true := by
  intro h
  let w : List Seg :=
    [ { start := 0, stop := 5, blocks := [{ id := 0, low := 0, high := 5, recs := [(0, 1), (1, 5)] }] },
      { start := 2, stop := 2 ^ 64, blocks := [{ id := 1, low := 2, high := 2 ^ 64, recs := [(2, 2), (3, 2 ^ 64)] }] } ]
  have h1 := h .recentLast w 2 (by decide +kernel) (by decide +kernel)
  have h2 : reachedEOF .recentLast 2 (fuelBound w) w = false := by decide +kernel
  rw [h1] at h2
  cases h2

/-- the two overlapping segment requests [0,5] {1,5} and [2,9] {2,9} -/
def stuckWitness : List Seg :=
  [ { start := 0, stop := 5, blocks := [{ id := 0, low := 0, high := 5, recs := [(0, 1), (1, 5)] }] },
    { start := 2, stop := 9, blocks := [{ id := 1, low := 2, high := 9, recs := [(2, 2), (3, 9)] }] } ]

/-- the hypotheses are satisfiable, also by overlapping input -/
example : WellFormed stuckWitness ∧ UniqueBlockIds stuckWitness ∧ TsFit stuckWitness := by decide +kernel

/-- the repaired scheduler on `stuckWitness`, oldest first: EOF, all four records, in order -/
example : reachedEOF .recentLast 2 (fuelBound stuckWitness) stuckWitness = true ∧
    released .recentLast 2 (fuelBound stuckWitness) stuckWitness = [(0, 1), (2, 2), (1, 5), (3, 9)] := by
  decide +kernel

/-- HISTORICAL, about the scheduler before the repair (`fetchRRCsOld`): the statement `FetchReachesEOF` read for it -/
def FetchReachesEOFOld : Prop :=
  ∀ (m : Mode) (segs : List Seg) (maxBlocks : Nat), WellFormed segs → UniqueBlockIds segs → TsFit segs →
    reachedEOFOld m maxBlocks (fuelBound segs) segs = true

/-- HISTORICAL: FALSE of the code before the repair, in OLDEST-first mode: with `stuckWitness` and maxBlocks = 2
the record with timestamp 9 stayed in unsentRRCs for ever — after the second request has left the list without
contributing a new block, `getNextBlocks(nil)` returns end time 0 and `min(0, cutOff) = 0` released nothing; EOF
was never reached, for ANY number of Fetch calls.  (Same root cause as the search that never returned when a
block reached past the time range its segment advertises: records kept back with no round left to release
them.) -/
theorem fetch_reaches_eof_counterexample_old : ¬ FetchReachesEOFOld := by
  intro h
  have h1 := h .recentLast stuckWitness 2 (by decide +kernel) (by decide +kernel) (by decide +kernel)
  have h2 : reachedEOFOld .recentLast 2 (fuelBound stuckWitness) stuckWitness = false := by decide +kernel
  rw [h1] at h2
  cases h2

/-- HISTORICAL: … and it was not a matter of the bound: no number of Fetch calls reached EOF or released
record 3 (ts 9). -/
theorem fetch_recentLast_stuck_forever_old (fuel : Nat) :
    reachedEOFOld .recentLast 2 fuel stuckWitness = false ∧ (3, 9) ∉ releasedOld .recentLast 2 fuel stuckWitness := by
  -- after three Fetch calls the state repeats
  let s1 : St := { unproc := [{ start := 2, stop := 9, blocks := [{ id := 1, low := 2, high := 9, recs := [(2, 2), (3, 9)] }] }],
                   processed := [1, 0], remaining := [], unsent := [(3, 9)], cutoff := 5, gotBlocks := false, gotAll := false }
  let s2 : St := { unproc := [], processed := [1, 0], remaining := [], unsent := [(3, 9)], cutoff := 9, gotBlocks := false,
                   gotAll := false }
  let s3 : St := { s2 with gotAll := true }
  have h1 : fetchOld .recentLast 2 (init .recentLast stuckWitness) = some ([(0, 1), (2, 2), (1, 5)], s1) := by decide +kernel
  have h2 : fetchOld .recentLast 2 s1 = some ([], s2) := by decide +kernel
  have h3 : fetchOld .recentLast 2 s2 = some ([], s3) := by decide +kernel
  have h4 : fetchOld .recentLast 2 s3 = some ([], s3) := by decide +kernel
  unfold reachedEOFOld releasedOld
  match fuel with
  | 0 => simp [runFetchOld]
  | 1 => simp [runFetchOld, h1]
  | 2 => simp [runFetchOld, h1, h2]
  | fuel + 3 =>
    have hs := Lemmas.C05.stuck_forever_old .recentLast 2 s3 h4 fuel
    simp only [runFetchOld, h1, h2, h3, List.flatten_cons, hs.1, hs.2, List.append_nil]
    simp

/-- a segment request that advertises [6,9] although its blocks lie in [1,4] (ill-formed: a block outside the
time range of its segment), behind the request [0,5] {0,5} -/
def illFormedWitness : List Seg :=
  [ { start := 0, stop := 5, blocks := [{ id := 0, low := 0, high := 5, recs := [(0, 0), (1, 5)] }] },
    { start := 6, stop := 9, blocks := [{ id := 1, low := 1, high := 4, recs := [(2, 4)] },
                                        { id := 2, low := 2, high := 2, recs := [] }] } ]

/-- Well-formedness IS needed for the order (it is not needed for EOF): on `illFormedWitness`, oldest first with
maxBlocks = 1, the record with timestamp 4 is released after the one with timestamp 5.  (Before the repair this
run never ended — `releasedOld` stays at [0, 5] and EOF is not reached; a segment whose blocks lie outside the
range it advertises is scheduled too late in either version, the last round only hands out what was kept
back.) -/
theorem fetch_released_sorted_needs_wellformed :
    ¬ ∀ (m : Mode) (segs : List Seg) (maxBlocks fuel : Nat),
        (released m maxBlocks fuel segs).Pairwise (fun a b => m.before b.2 a.2 = false) := by
  intro h
  have h1 := h .recentLast illFormedWitness 1 (fuelBound illFormedWitness)
  have h2 : released .recentLast 1 (fuelBound illFormedWitness) illFormedWitness = [(0, 0), (1, 5), (2, 4)] := by
    decide +kernel
  rw [h2] at h1
  revert h1
  decide

example : reachedEOF .recentLast 1 (fuelBound illFormedWitness) illFormedWitness = true ∧
    reachedEOFOld .recentLast 1 (fuelBound illFormedWitness) illFormedWitness = false ∧
    releasedOld .recentLast 1 (fuelBound illFormedWitness) illFormedWitness = [(0, 0), (1, 5)] := by
  decide +kernel

/-- C05.2c everything together (both modes): after `fuelBound` Fetch calls the run is at EOF and has released
exactly the matching records, in the order of the mode. -/
theorem fetch_complete (m : Mode) (segs : List Seg) (maxBlocks : Nat) (hwf : WellFormed segs)
    (hid : UniqueBlockIds segs) (hfit : TsFit segs) :
    reachedEOF m maxBlocks (fuelBound segs) segs = true ∧
    (released m maxBlocks (fuelBound segs) segs).Perm (allRecs segs) ∧
    (released m maxBlocks (fuelBound segs) segs).Pairwise (fun a b => m.before b.2 a.2 = false) :=
  ⟨fetch_always_reaches_eof m segs maxBlocks hfit,
   fetch_released_perm m segs maxBlocks (fuelBound segs) hwf hid (fetch_always_reaches_eof m segs maxBlocks hfit),
   fetch_released_sorted m segs maxBlocks (fuelBound segs) hwf⟩

/-- C05.2c newest first, everything together: after `fuelBound` Fetch calls the run is at EOF and has released
exactly the matching records, newest first. -/
theorem fetch_newest_first_complete (segs : List Seg) (maxBlocks : Nat) (hwf : WellFormed segs)
    (hid : UniqueBlockIds segs) :
    (released .recentFirst maxBlocks (fuelBound segs) segs).Perm (allRecs segs) ∧
    (released .recentFirst maxBlocks (fuelBound segs) segs).Pairwise (fun a b => b.2 ≤ a.2) :=
  ⟨fetch_released_perm .recentFirst segs maxBlocks (fuelBound segs) hwf hid
      (fetch_always_reaches_eof_newest_first segs maxBlocks),
   fetch_released_newest_first segs maxBlocks (fuelBound segs) hwf⟩

/-- C05.3 `head_n_newest`: the first n released records are n newest ones — each of them is at least as new as
every matching record that is not among them (what a size limit / `head n` keeps), and together with the rest
they are exactly the matching records. -/
theorem head_n_newest (segs : List Seg) (maxBlocks n : Nat) (hwf : WellFormed segs) (hid : UniqueBlockIds segs) :
    let out := released .recentFirst maxBlocks (fuelBound segs) segs
    (∀ a ∈ out.take n, ∀ b ∈ out.drop n, b.2 ≤ a.2) ∧ (out.take n ++ out.drop n).Perm (allRecs segs) := by
  intro out
  have hc := fetch_newest_first_complete segs maxBlocks hwf hid
  refine ⟨?_, ?_⟩
  · have hp : (out.take n ++ out.drop n).Pairwise (fun a b => b.2 ≤ a.2) := by
      rw [List.take_append_drop]; exact hc.2
    exact (List.pairwise_append.mp hp).2.2
  · rw [List.take_append_drop]; exact hc.1

/-! ## 2. the sort comparator -/

/-- a relation given as a Bool function is a strict weak order on the records of the right length -/
def IsStrictWeakOrder (n : Nat) (lt : List Val → List Val → Bool) : Prop :=
  ∀ a b c : List Val, a.length = n → b.length = n → c.length = n →
    lt a a = false ∧
    (lt a b = true → lt b c = true → lt a c = true) ∧
    (lt a b = false → lt b a = false → lt b c = false → lt c b = false → lt a c = false ∧ lt c a = false)

/-- C05.4 `less_strict_weak_order` (full strength): for EVERY key list (numeric, string, auto or any other
option; ascending/descending; any number of keys), every rounding function and ALL values — numbers closer than
any tolerance, integers beyond 2^53, ±Inf, NaN, numeric strings, empty strings, bool, null — `sortProcessor.less`
is a strict weak order on the records that carry one value per key: irreflexive, transitive, and "neither is
less" is transitive.  This is what sort.Slice, the top-N heap and the merge of sorted batches need for their
result to be sorted. -/
theorem less_strict_weak_order (rnd : Rat → Rat) (ks : List (Bool × SortOp)) :
    IsStrictWeakOrder ks.length (less rnd ks) := by
  intro a b c ha hb hc
  exact Lemmas.C05.less_swo rnd ks a b c ha hb hc

/-- adjacent results of a sorted output are never out of order: if `less` put a before b it did not also put b
before a (asymmetry, a consequence of the above spelled out) -/
theorem less_asymm (rnd : Rat → Rat) (ks : List (Bool × SortOp)) (a b : List Val)
    (ha : a.length = ks.length) (hb : b.length = ks.length) (h : less rnd ks a b = true) :
    less rnd ks b a = false := by
  cases hba : less rnd ks b a with
  | false => rfl
  | true =>
    have s := less_strict_weak_order rnd ks a b a ha hb ha
    have := s.2.1 h hba
    rw [s.1] at this
    cases this

/-- values closer than the old tolerance are now told apart, NaN comes after every number and equals NaN,
+Inf equals +Inf (the three classes that used to break the order) -/
example : compareValues roundF64 (.float (.fin 1) []) (.float (.fin (1 + 1 / 16384)) []) true .num = .less ∧
    compareValues roundF64 (.int 7) (.str (asciiBytes "nan") (some .nan)) true .num = .less ∧
    compareValues roundF64 (.str (asciiBytes "nan") (some .nan)) (.int 7) true .num = .greater ∧
    compareValues roundF64 (.float .nan []) (.str (asciiBytes "NaN") (some .nan)) false .num = .equal ∧
    compareValues roundF64 (.float .pinf []) (.str (asciiBytes "inf") (some .pinf)) false .num = .equal := by
  decide +kernel

def fl (q : Rat) : Val := .float (.fin q) []

/-- HISTORICAL, about the comparator before the fix (`lessOld`, compareFloat with AlmostEquals): it was NOT a
strict weak order.  Witness (all three values and their differences are exact binary64 numbers):
1 ~ 1 + 2⁻¹⁴ ~ 1 + 2⁻¹³ (neighbours differ by 0.000061 < 0.0001) but 1 < 1 + 2⁻¹³ (difference 0.000122). -/
theorem lessOld_not_strict_weak_order_tolerance :
    ¬ ∀ ks : List (Bool × SortOp), IsStrictWeakOrder ks.length (lessOld roundF64 ks) := by
  intro h
  have := (h [(true, .num)] [fl 1] [fl (1 + 1 / 16384)] [fl (1 + 1 / 8192)] rfl rfl rfl).2.2
    (by decide +kernel) (by decide +kernel) (by decide +kernel) (by decide +kernel)
  have h2 : lessOld roundF64 [(true, .num)] [fl 1] [fl (1 + 1 / 8192)] = true := by decide +kernel
  rw [this.1] at h2
  cases h2

/-- HISTORICAL: the strings "nan"/"NaN" rank as numbers and NaN compared GREATER both ways, so it was "equal"
to everything: 1 ~ NaN ~ 2 but 1 < 2. -/
theorem lessOld_not_strict_weak_order_nan :
    ¬ ∀ ks : List (Bool × SortOp), IsStrictWeakOrder ks.length (lessOld roundF64 ks) := by
  intro h
  have := (h [(true, .num)] [.int 1] [.str (asciiBytes "nan") (some .nan)] [.int 2] rfl rfl rfl).2.2
    (by decide +kernel) (by decide +kernel) (by decide +kernel) (by decide +kernel)
  have h2 : lessOld roundF64 [(true, .num)] [.int 1] [.int 2] = true := by decide +kernel
  rw [this.1] at h2
  cases h2

/-- HISTORICAL: +Inf was not equal to itself; descending, `lessOld a a` was true. -/
theorem lessOld_not_irreflexive_inf :
    lessOld roundF64 [(false, .num)] [.float .pinf []] [.float .pinf []] = true := by decide +kernel

/-! ## 3. pages, scroll, head -/

/-- C05.5 `pages_partition`: for every result list and page size k > 0, the pages `take k (drop (i·k) r)`,
i = 0 … n−1, concatenate to r as soon as n·k covers it — every match on exactly one page, in order. -/
theorem pages_partition {α : Type} (r : List α) (k n : Nat) (hn : r.length ≤ n * k) :
    (List.range n).flatMap (fun i => (r.drop (i * k)).take k) = r := by
  have := Lemmas.C05.pages_eq_take r k n
  unfold Lemmas.C05.pages at this
  rw [this, List.take_of_length_le hn]

/-- enough pages exist: n = ⌈len / k⌉ -/
theorem pages_partition_ceil {α : Type} (r : List α) (k : Nat) (hk : 0 < k) :
    (List.range ((r.length + k - 1) / k)).flatMap (fun i => (r.drop (i * k)).take k) = r := by
  apply pages_partition
  have h1 := Nat.div_add_mod (r.length + k - 1) k
  have h2 := Nat.mod_lt (r.length + k - 1) hk
  have h3 : k * ((r.length + k - 1) / k) = (r.length + k - 1) / k * k := Nat.mul_comm _ _
  omega

/-- C05.5 `scroll_chunk_invariant`: the scroll processor over ANY batching of its input yields `drop from`
of the whole input. -/
theorem scroll_chunk_invariant {α : Type} (from_ : Nat) (batches : List (List α)) :
    (scrollRun from_ batches).flatten = batches.flatten.drop from_ :=
  Lemmas.C05.scrollRun_flatten from_ batches

/-- `head n` (no condition) over ANY batching of its input yields `take n` of the whole input. -/
theorem head_chunk_invariant {α : Type} (limit : Nat) (batches : List (List α)) :
    (headRun limit 0 batches).flatten = batches.flatten.take limit := by
  have := Lemmas.C05.headRun_flatten limit 0 batches
  simpa using this

/-- paging with from/size over the whole pipeline = scroll then head: page i of size k is
`take k (drop (i·k) r)` whatever the batching. -/
theorem page_chunk_invariant {α : Type} (from_ size : Nat) (batches : List (List α)) :
    (headRun size 0 (scrollRun from_ batches)).flatten = (batches.flatten.drop from_).take size := by
  rw [head_chunk_invariant, scroll_chunk_invariant]

/-! ## 4. records with equal timestamps: the order is a function of the data

Paging re-runs the query for every page, so `pages_partition` speaks about the real server only if every
run releases the SAME sequence.  Before the repair the order among records with equal timestamps depended
on map iteration order and goroutine scheduling (sortRRCs compared timestamps only, sort.Slice is not
stable, the segments of a batch were read in map order): an event could appear on two pages and another on
none.  After the repair sortRRCs compares (timestamp, block number, record number). -/

/-- the repaired comparator is a strict order … -/
theorem rrcBefore_irrefl (m : Mode) (a : PosRec) : rrcBefore m a a = false := by
  simp [rrcBefore]

theorem rrcBefore_trans (m : Mode) (a b c : PosRec)
    (h1 : rrcBefore m a b = true) (h2 : rrcBefore m b c = true) : rrcBefore m a c = true := by
  unfold rrcBefore at *
  cases m <;> simp only [Mode.before, ne_eq, ite_not, decide_eq_true_eq] at * <;>
    (split at h1 <;> split at h2 <;> split <;> (try split at h1) <;> (try split at h2) <;> (try split) <;>
      simp only [decide_eq_true_eq] at * <;> omega)

/-- … that is total on records at different positions (two records of a segment never share block AND
record number) -/
theorem rrcBefore_total (m : Mode) (a b : PosRec) (h : a ≠ b) :
    rrcBefore m a b = true ∨ rrcBefore m b a = true := by
  have hne : a.ts ≠ b.ts ∨ a.blk ≠ b.blk ∨ a.recNum ≠ b.recNum := by
    by_cases h1 : a.ts = b.ts
    · by_cases h2 : a.blk = b.blk
      · by_cases h3 : a.recNum = b.recNum
        · exfalso; apply h; cases a; cases b; simp_all
        · exact Or.inr (Or.inr h3)
      · exact Or.inr (Or.inl h2)
    · exact Or.inl h1
  unfold rrcBefore
  cases m <;> simp only [Mode.before, ne_eq, ite_not, decide_eq_true_eq] <;>
    (split <;> split <;> (try split) <;> (try split) <;> simp only [decide_eq_true_eq] <;> omega)

/-- C05.6 — whatever order the records of a segment come in (goroutine scheduling of the raw search) and
whatever sorting algorithm is used (sort.Slice is not stable): two results without inversion under the
repaired comparator that hold the same records are THE SAME list.  So the slice `sortRRCs` returns is a
function of the set of matching records. -/
theorem sortRRCs_result_unique (m : Mode) (l₁ l₂ : List PosRec)
    (hnd : l₁.Nodup) (hp : l₁.Perm l₂)
    (h₁ : SortedUnder (rrcBefore m) l₁) (h₂ : SortedUnder (rrcBefore m) l₂) : l₁ = l₂ := by
  induction l₁ generalizing l₂ with
  | nil => exact (List.Perm.nil_eq hp)
  | cons a t₁ ih =>
    cases l₂ with
    | nil => exact absurd hp.symm (List.Perm.nil_eq · |> fun h => by cases h)
    | cons b t₂ =>
      have hab : a = b := by
        by_cases hab : a = b
        · exact hab
        · exfalso
          have ha2 : a ∈ t₂ := by
            have : a ∈ b :: t₂ := hp.mem_iff.mp List.mem_cons_self
            rcases List.mem_cons.mp this with h | h
            · exact absurd h hab
            · exact h
          have hb1 : b ∈ t₁ := by
            have : b ∈ a :: t₁ := hp.mem_iff.mpr List.mem_cons_self
            rcases List.mem_cons.mp this with h | h
            · exact absurd h.symm hab
            · exact h
          have n1 : rrcBefore m b a = false := (List.pairwise_cons.mp h₁).1 b hb1
          have n2 : rrcBefore m a b = false := (List.pairwise_cons.mp h₂).1 a ha2
          rcases rrcBefore_total m a b hab with h | h
          · rw [n2] at h; cases h
          · rw [n1] at h; cases h
      subst hab
      have := ih t₂ (List.nodup_cons.mp hnd).2 (List.Perm.cons_inv hp) (List.pairwise_cons.mp h₁).2
        (List.pairwise_cons.mp h₂).2
      rw [this]

/-- … which was false of the comparator before the repair: two records of one block with the same timestamp
may come out in either order. -/
theorem sortRRCs_old_result_not_unique :
    ¬ ∀ (m : Mode) (l₁ l₂ : List PosRec), l₁.Nodup → l₁.Perm l₂ →
        SortedUnder (rrcBeforeOld m) l₁ → SortedUnder (rrcBeforeOld m) l₂ → l₁ = l₂ := by
  intro h
  have := h .recentFirst [⟨5, 0, 0⟩, ⟨5, 0, 1⟩] [⟨5, 0, 1⟩, ⟨5, 0, 0⟩] (by decide)
    (List.Perm.swap _ _ _) (by unfold SortedUnder; decide) (by unfold SortedUnder; decide)
  exact absurd this (by decide)

end SigModel.Props.C05
