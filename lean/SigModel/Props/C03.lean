/-
C03 — Query answers do not depend on physical layout or acceleration path.  Property theorems only.

Decided by proof here (on kernels REGENERATED from /repo on every run, SigModel/Gen/Range.lean):
soundness of the range micro-index skip rule: if ANY value stored in the block (all stored values
lie within the block's [min, max]) satisfies the comparison, the block is NOT skipped — for all
six operators, all literals and all ranges, for signed, unsigned and float indexes.
The full-strength statement for `!=` must also cover records that LACK the column (they satisfy
`!=` under the engine's rules).  For the `!=` kernel alone that is false (`ne_prune_unsound_with_absent_old`: the
behaviour before patch c02-2); with the patch the block-level rule (`intRangeKeep`: doRangeCheckForCol /
doRangeCheckForCols do not consult the range for `!=`) is sound with absent records too —
`range_rule_sound_with_absent`.  The small model of that block-level rule is tied to the code by the end-to-end
suites only (two layouts of the same events).
Layout independence as a whole (flush/rotate histories, dictionary vs plain encoding) is decided by
the end-to-end differential (same events under different layouts vs the layout-free specification).
-/
import SigModel.Gen.Range
import SigModel.Lemmas.C03B
import SigModel.Lemmas.C03Bdict

namespace SigModel.Props.C03
open SigModel.Gen

/-- the comparison `value op literal` for the six operators, by operator code -/
def sat (op : Int) (v lit : Int) : Prop :=
  (op = FilterOperator_Equals ∧ v = lit) ∨ (op = FilterOperator_NotEquals ∧ v ≠ lit) ∨
  (op = FilterOperator_LessThan ∧ v < lit) ∨ (op = FilterOperator_LessThanOrEqualTo ∧ v ≤ lit) ∨
  (op = FilterOperator_GreaterThan ∧ v > lit) ∨ (op = FilterOperator_GreaterThanOrEqualTo ∧ v ≥ lit)

/-- C03.2 (signed) a block holding a satisfying value is never skipped -/
theorem int_range_prune_sound (op lit mn mx v : Int) (h1 : mn ≤ v) (h2 : v ≤ mx) (hs : sat op v lit) :
    doesIntPassRangeFilter op lit mn mx = true := by
  unfold doesIntPassRangeFilter
  unfold sat at hs
  simp only [FilterOperator_Equals, FilterOperator_NotEquals, FilterOperator_LessThan,
    FilterOperator_LessThanOrEqualTo, FilterOperator_GreaterThan, FilterOperator_GreaterThanOrEqualTo] at *
  rcases hs with ⟨ho, hv⟩ | ⟨ho, hv⟩ | ⟨ho, hv⟩ | ⟨ho, hv⟩ | ⟨ho, hv⟩ | ⟨ho, hv⟩ <;> subst ho <;> simp <;> omega

/-- C03.2 (unsigned) -/
theorem uint_range_prune_sound (op lit mn mx v : Int) (h1 : mn ≤ v) (h2 : v ≤ mx) (hs : sat op v lit) :
    doesUintPassRangeFilter op lit mn mx = true := by
  unfold doesUintPassRangeFilter
  unfold sat at hs
  simp only [FilterOperator_Equals, FilterOperator_NotEquals, FilterOperator_LessThan,
    FilterOperator_LessThanOrEqualTo, FilterOperator_GreaterThan, FilterOperator_GreaterThanOrEqualTo] at *
  rcases hs with ⟨ho, hv⟩ | ⟨ho, hv⟩ | ⟨ho, hv⟩ | ⟨ho, hv⟩ | ⟨ho, hv⟩ | ⟨ho, hv⟩ <;> subst ho <;> simp <;> omega

def satQ (op : Int) (v lit : Rat) : Prop :=
  (op = FilterOperator_Equals ∧ v = lit) ∨ (op = FilterOperator_NotEquals ∧ v ≠ lit) ∨
  (op = FilterOperator_LessThan ∧ v < lit) ∨ (op = FilterOperator_LessThanOrEqualTo ∧ v ≤ lit) ∨
  (op = FilterOperator_GreaterThan ∧ v > lit) ∨ (op = FilterOperator_GreaterThanOrEqualTo ∧ v ≥ lit)

/-- C03.2 (float index; finite doubles compare as their exact rational values) -/
theorem float_range_prune_sound (op : Int) (lit mn mx v : Rat) (h1 : mn ≤ v) (h2 : v ≤ mx) (hs : satQ op v lit) :
    doesFloatPassRangeFilter op lit mn mx = true := by
  unfold doesFloatPassRangeFilter
  unfold satQ at hs
  simp only [FilterOperator_Equals, FilterOperator_NotEquals, FilterOperator_LessThan,
    FilterOperator_LessThanOrEqualTo, FilterOperator_GreaterThan, FilterOperator_GreaterThanOrEqualTo] at *
  rcases hs with ⟨ho, hv⟩ | ⟨ho, hv⟩ | ⟨ho, hv⟩ | ⟨ho, hv⟩ | ⟨ho, hv⟩ | ⟨ho, hv⟩ <;> subst ho <;> simp <;> grind

/-- … and the rule is not vacuous: a block whose range excludes the literal IS skipped for `=` -/
example : doesIntPassRangeFilter FilterOperator_Equals 50 1 9 = false := by decide

/-- the comparison on a record that may LACK the column: a record without the column satisfies exactly `!=`
(engine rule: filterOpOnDataType on the empty / back-fill record) -/
def satOpt (op : Int) (v : Option Int) (lit : Int) : Prop :=
  match v with
  | some x => sat op x lit
  | none => op = FilterOperator_NotEquals

/-- the block-level rule of doRangeCheckForCol (rotated) / doRangeCheckForCols (open segments) with patch c02-2: for
`!=` the block is kept whatever the range says, otherwise the range kernel decides -/
def intRangeKeep (op lit mn mx : Int) : Bool :=
  if op = FilterOperator_NotEquals then true else doesIntPassRangeFilter op lit mn mx

/-- C03.2 full strength, records may LACK the column (patch c02-2): a block holding a record that satisfies the
comparison — a present value within the block's range, or for `!=` a record without the column — is never skipped,
for all six operators, all literals, ranges and blocks. -/
theorem range_rule_sound_with_absent (op lit mn mx : Int) (vals : List (Option Int))
    (hr : ∀ v ∈ vals, ∀ x, v = some x → mn ≤ x ∧ x ≤ mx) (hs : ∃ v ∈ vals, satOpt op v lit) :
    intRangeKeep op lit mn mx = true := by
  unfold intRangeKeep
  by_cases hne : op = FilterOperator_NotEquals
  · simp [hne]
  · simp only [hne, if_false]
    obtain ⟨v, hv, hsat⟩ := hs
    cases v with
    | none => exact absurd hsat hne
    | some x =>
      have hb := hr _ hv x rfl
      exact int_range_prune_sound op lit mn mx x hb.1 hb.2 hsat

/-- … and the rule still skips: `=` on a block whose range excludes the literal -/
example : intRangeKeep FilterOperator_Equals 50 1 9 = false := by decide

/-- BEFORE patch c02-2 the kernel decided for `!=` too: a record without the column satisfies `!=`, yet a block
whose present values all equal the literal was skipped (`n!=5` on {n:5},{n:5},{} in one block returned nothing, in
two blocks the third event).  So the `!=` skip rule changed which events match. -/
theorem ne_prune_unsound_with_absent_old :
    ¬ (∀ (lit mn mx : Int) (vals : List (Option Int)),
        (∀ v ∈ vals, ∀ x, v = some x → mn ≤ x ∧ x ≤ mx) →
        (∃ v ∈ vals, v = none ∨ ∃ x, v = some x ∧ x ≠ lit) →
        doesIntPassRangeFilter FilterOperator_NotEquals lit mn mx = true) := by
  intro h
  have := h 9 9 9 [some 9, none] (by simp) (by simp)
  revert this
  decide

end SigModel.Props.C03

/-!
## C03 kernel slice "bloom": the BLOOM skip rule and the DICTIONARY search path (Model/Bloom.lean)

The block bloom of a column holds, per stored string value, the keys `addedKeys v` (full value, pieces between single
spaces, ASCII-lower-cased copies).  A query probes the keys of `MatchFilter.probe` / `exprProbe` / `boolProbe`; the block
is dropped when the check (`passRotated` for rotated segments, `passUnrotated` for open ones) fails.  Soundness = a block
that holds a record of the answer is never dropped, for EVERY filter that behaves like a bloom (`BloomLike` holding at
least the added keys).

The model mirrors the code WITH the repairs c03-A … c03-E (/verif/build/patches).  With them the rule is sound at full
strength: And/Or filters of words of any number of tokens, phrases of any shape (`PhrasePruneSound` is a theorem now),
string equality, boolean comparisons, negated filters on rotated AND open segments; and a dictionary-encoded block
answers a negated filter like a plain one.  The former behaviour is kept under …Old definitions with the counterexample
theorems that were the defects (each replayed on the engine, see known_findings.txt):
* `bloom_prune_phrase_counterexample_old`   `"foo bar"` misses m="x foo bar y" (one key for the whole phrase);
* `bloom_prune_empty_needle_counterexample_old`  `""` misses m="abc " ;
* `unrotated_negated_prune_counterexample_old`  `NOT zzz` loses the blocks without zzz while the segment is open;
* `bool_probe_counterexample_old`  `b=true` finds nothing (the text "true" is probed, boolean columns have no bloom);
* `filterDictBlockOld_negated_counterexample`  `NOT zzz` returns the events WITH zzz (dictionary block, no record loop).
-/
namespace SigModel.Props.C03
open SigModel.Bloom
open SigModel.Tlv (Bytes DictRd)

/-- the match filter of a one-word free-text search (what `createMatchFilterCriteria` builds) -/
def wordFilter (w : Bytes) : MatchFilter :=
  { words := [w], wordsOrig := [], op := .and, phrase := [], phraseOrig := [], isPhrase := false, negate := false }

/-- the match filter of a quoted phrase (what `createMatchPhraseFilterCriteria` builds) -/
def phraseFilter (p : Bytes) : MatchFilter :=
  { words := splitSpace p, wordsOrig := [], op := .and, phrase := p, phraseOrig := [], isPhrase := true, negate := false }

/-- a key of the repaired probe is a non-empty piece of one of the former keys; such a piece is found in the block as
soon as the former key is a needle that the record matcher finds in the value -/
theorem piece_found (ci : Bool) (v k x : Bytes) (b : BloomLike) (cols : Cols) (p : Probe)
    (hb : b.holds (addedKeys v)) (hc : some b ∈ cols) (hlow : ci = true → hasUpper k = false)
    (hsub : subWord ci v k = true) (hx : x ∈ splitSpace k) (hne : x ≠ []) : needleInCols cols p x = true :=
  needleInCols_of_test cols b p x hc (hb x (pieces_added ci v k hlow hsub x hx hne))

/-- the words theorem for the probe as it was before patch c03-F, under the guard that patch makes unnecessary: when the
probe's operator is Or, no match word is blank (empty or spaces only) -/
theorem bloom_prune_sound_words_noBlankTest (mf : MatchFilter) (ci : Bool) (v : Bytes) (b : BloomLike) (cols : Cols) (allCols : Bool)
    (hb : b.holds (addedKeys v)) (hc : some b ∈ cols) (hph : mf.isPhrase = false)
    (hlow : ci = true → ∀ w ∈ mf.words, hasUpper w = false)
    (hor : (mf.probeNoBlankTest ci).op = .or → ∀ w ∈ mf.words, blankWord w = false)
    (h : matchRaw mf ci (.str v) = true) :
    passRotated allCols cols (mf.probeNoBlankTest ci) false = true ∧ passUnrotated cols (mf.probeNoBlankTest ci) false = true := by
  obtain ⟨hwc, hks⟩ := wordsLoop_spec ci (mf.wordsOrig.length == mf.words.length) mf.wordsOrig mf.words 0 [] [] false
  have hp : mf.probeNoBlankTest ci =
      { keys := wordsOfKeys (wordsLoop ci (mf.wordsOrig.length == mf.words.length) mf.wordsOrig mf.words 0 ([], [], false)).1,
        orig := (wordsLoop ci (mf.wordsOrig.length == mf.words.length) mf.wordsOrig mf.words 0 ([], [], false)).2.1,
        wildcard := (wordsLoop ci (mf.wordsOrig.length == mf.words.length) mf.wordsOrig mf.words 0 ([], [], false)).2.2,
        op := if (wordsLoop ci (mf.wordsOrig.length == mf.words.length) mf.wordsOrig mf.words 0 ([], [], false)).1.length == 1
              then .and else mf.op } := by
    simp [MatchFilter.probeNoBlankTest, MatchFilter.probeOld, hph]
  generalize hr : wordsLoop ci (mf.wordsOrig.length == mf.words.length) mf.wordsOrig mf.words 0 ([], [], false) = r at hp hwc hks
  obtain ⟨ks, os, wc⟩ := r
  simp only at hp hwc hks
  rw [hp] at hor
  simp only at hor
  rw [hp]
  cases hwcv : wc with
  | true => simp [passRotated, passUnrotated]
  | false =>
    rw [hwcv] at hwc
    have hnostar : ∀ x ∈ mf.words, hasStar x = false := by
      have : mf.words.any hasStar = false := by simpa using hwc.symm
      intro x hx
      have := List.any_eq_false.1 this x hx
      simpa using this
    have hmem : ∀ x, x ∈ ks ↔ x ∈ mf.words := by
      intro x; rw [hks x]; simp only [List.not_mem_nil, false_or]
      exact ⟨fun h => h.1, fun h => ⟨h, hnostar x h⟩⟩
    generalize hP : ({ keys := wordsOfKeys ks, orig := os, wildcard := false,
                       op := if (ks.length == 1) = true then Op.and else mf.op } : Probe) = P
    have hPk : P.keys = wordsOfKeys ks := by rw [← hP]
    have hPw : P.wildcard = false := by rw [← hP]
    have hPo : P.op = if (ks.length == 1) = true then Op.and else mf.op := by rw [← hP]
    -- every piece of a word found in the value is found in the block
    have hE : ∀ k ∈ mf.words, subWord ci v k = true → ∀ x ∈ splitSpace k, x ≠ [] → needleInCols cols P x = true := by
      intro k hk hsub x hx hne
      exact piece_found ci v k x b cols P hb hc (fun e => hlow e k hk) hsub hx hne
    simp only [passRotated, passUnrotated, hPw, Bool.false_or, Bool.false_eq_true, if_false, hPk]
    unfold matchRaw at h
    simp only [hph, Bool.false_eq_true, if_false] at h
    -- "all keys found" when every word is found in the value
    have hAllOf : (∀ k ∈ mf.words, subWord ci v k = true) → (wordsOfKeys ks).all (needleInCols cols P) = true := by
      intro hall
      rw [List.all_eq_true]; intro x hx
      obtain ⟨k, hk, hxk, hne⟩ := (mem_wordsOfKeys ks x).1 hx
      exact hE k ((hmem k).1 hk) (hall k ((hmem k).1 hk)) x hxk hne
    cases hop : mf.op with
    | and =>
      have hall : ∀ k ∈ mf.words, subWord ci v k = true := by
        by_cases he : mf.words.isEmpty = true
        · intro k hk; have : mf.words = [] := by simpa using he
          rw [this] at hk; simp at hk
        · have he' : mf.words.isEmpty = false := by simpa using he
          simp only [he', Bool.false_eq_true, if_false, hop, List.all_eq_true] at h
          exact h
      have hopP : P.op = Op.and := by rw [hPo, hop]; simp
      rw [hopP, forColLoop_and, allColLoop_and]
      cases allCols <;> simp [hAllOf hall]
    | or =>
      by_cases he : mf.words.isEmpty = true
      · have hw0 : mf.words = [] := by simpa using he
        have hk0 : ks = [] := by
          cases ks with
          | nil => rfl
          | cons a r => have := (hmem a).1 (by simp); rw [hw0] at this; simp at this
        subst hk0
        cases allCols <;> simp [wordsOfKeys, forColLoop, allColLoop]
      · have he' : mf.words.isEmpty = false := by simpa using he
        simp only [he', Bool.false_eq_true, if_false, hop, List.any_eq_true] at h
        obtain ⟨w0, hw0, hsub⟩ := h
        have hw0k : w0 ∈ ks := (hmem w0).2 hw0
        by_cases h1 : (ks.length == 1) = true
        · -- one former key: probed as And; it is the matching word
          have hopP : P.op = Op.and := by rw [hPo]; simp [h1]
          have hall : (wordsOfKeys ks).all (needleInCols cols P) = true := by
            rw [List.all_eq_true]; intro x hx
            obtain ⟨k, hk, hxk, hne⟩ := (mem_wordsOfKeys ks x).1 hx
            have hlen : ks.length = 1 := by simpa using h1
            have hkw : k = w0 := by
              match ks, hlen, hk, hw0k with
              | [a], _, hk, hw0k => simp at hk hw0k; rw [hk, hw0k]
            subst hkw
            exact hE k hw0 hsub x hxk hne
          rw [hopP, forColLoop_and, allColLoop_and]
          cases allCols <;> simp [hall]
        · have h1' : (ks.length == 1) = false := by simpa using h1
          have hopP : P.op = Op.or := by rw [hPo, hop]; simp [h1']
          obtain ⟨s, hs, hsne⟩ := piece_of_not_blank w0 (hor (by simp [h1', hop]) w0 hw0)
          have hAny : (wordsOfKeys ks).any (needleInCols cols P) = true := by
            rw [List.any_eq_true]
            exact ⟨s, (mem_wordsOfKeys ks s).2 ⟨w0, hw0k, hs, hsne⟩, hE w0 hw0 hsub s hs hsne⟩
          rw [hopP, forColLoop_or, allColLoop_or_any _ _ _ hAny]
          cases allCols <;> simp

/-- an Or probe over a filter with a blank word asks nothing (patch c03-F): the block is kept -/
theorem pass_of_no_keys (allCols : Bool) (cols : Cols) (p : Probe) (negate : Bool) :
    passRotated allCols cols { p with keys := [] } negate = true ∧ passUnrotated cols { p with keys := [] } negate = true := by
  cases allCols <;> simp [passRotated, passUnrotated, forColLoop, allColLoop]

/-- C03.3 (words, full filter) a block holding a record that satisfies an And/Or filter of match words — of ANY number
of tokens each, blank words included — is kept, on rotated and on open segments, whichever columns are consulted, for any
bloom-like filter.  (Case-insensitive search: lower-cased words, as the query grammar produces them.) -/
theorem bloom_prune_sound_words (mf : MatchFilter) (ci : Bool) (v : Bytes) (b : BloomLike) (cols : Cols) (allCols : Bool)
    (hb : b.holds (addedKeys v)) (hc : some b ∈ cols) (hph : mf.isPhrase = false)
    (hlow : ci = true → ∀ w ∈ mf.words, hasUpper w = false)
    (h : matchRaw mf ci (.str v) = true) :
    passRotated allCols cols (mf.probe ci) false = true ∧ passUnrotated cols (mf.probe ci) false = true := by
  unfold MatchFilter.probe
  simp only
  split
  · exact pass_of_no_keys allCols cols _ false
  · rename_i hc2
    apply bloom_prune_sound_words_noBlankTest mf ci v b cols allCols hb hc hph hlow _ h
    intro hop w hw
    cases hbw : blankWord w with
    | false => rfl
    | true =>
      exfalso; apply hc2
      simp only [hop, beq_self_eq_true, Bool.true_and, List.any_eq_true]
      exact ⟨w, hw, hbw⟩

/-- C03.3 (one word, case-sensitive and case-insensitive, ANY word) `IsSubWordPresent(v, w)` ⇒ the block is kept -/
theorem bloom_prune_sound_word (ci : Bool) (v w : Bytes) (b : BloomLike) (cols : Cols) (allCols : Bool)
    (hb : b.holds (addedKeys v)) (hc : some b ∈ cols) (hlow : ci = true → hasUpper w = false)
    (h : subWord ci v w = true) :
    passRotated allCols cols ((wordFilter w).probe ci) false = true ∧
    passUnrotated cols ((wordFilter w).probe ci) false = true := by
  apply bloom_prune_sound_words (wordFilter w) ci v b cols allCols hb hc rfl
  · intro e x hx; simp [wordFilter] at hx; subst hx; exact hlow e
  · simp [matchRaw, wordFilter, h]

/-- the Or filter of the words "nope", "", "zzz" -/
def orBlankFilter : MatchFilter :=
  { words := [[110, 111, 112, 101], [], [122, 122, 122]], wordsOrig := [], op := .or, phrase := [], phraseOrig := [],
    isPhrase := false, negate := false }

/-- before patch c03-F (between c03-A and c03-F): an OR filter with an EMPTY match word — a `multi_match` phrase query
with two spaces in a row builds one — matches, at record level, every value that starts or ends with a space, but only
the other words were probed: a block holding " ddd" and no "nope"/"zzz" was dropped by the all-columns / open-segment
check (the single-column check of rotated segments never drops a block for an Or, hence the layout dependence) -/
theorem or_blank_word_counterexample_old :
    matchRaw orBlankFilter false (.str [32, 100, 100, 100]) = true ∧
    passUnrotated [some (exact (addedKeys [32, 100, 100, 100]))] (orBlankFilter.probeNoBlankTest false) false = false ∧
    passRotated false [some (exact (addedKeys [32, 100, 100, 100]))] (orBlankFilter.probeNoBlankTest false) false = true ∧
    passUnrotated [some (exact (addedKeys [32, 100, 100, 100]))] (orBlankFilter.probe false) false = true := by decide

/-- the case-insensitive rule needs the lower-cased needle the query grammar produces: a needle with upper-case bytes
that differs in case from the stored token is probed as is and missed -/
theorem bloom_ci_needs_lowered_needle :
    ¬ (∀ (v w : Bytes) (b : BloomLike), b.holds (addedKeys v) → subWord true v w = true →
        passRotated true [some b] ((wordFilter w).probe true) false = true) := by
  intro h
  -- v = "FOO", w = "Foo"
  have := h [70, 79, 79] [70, 111, 111] (exact (addedKeys [70, 79, 79])) (exact_holds _) (by decide)
  revert this; decide

/-- C03.3 (phrase) every phrase filter (And or Or, any phrase: one word, several words, empty, leading / trailing /
double spaces) keeps a block that holds a value in which the record matcher finds the phrase -/
theorem bloom_prune_sound_phrase_noBlankTest (mf : MatchFilter) (ci : Bool) (v : Bytes) (b : BloomLike) (cols : Cols) (allCols : Bool)
    (hb : b.holds (addedKeys v)) (hc : some b ∈ cols) (hph : mf.isPhrase = true)
    (hlow : ci = true → hasUpper mf.phrase = false)
    (h : subWord ci v mf.phrase = true) :
    passRotated allCols cols (mf.probeNoBlankTest ci) false = true ∧ passUnrotated cols (mf.probeNoBlankTest ci) false = true := by
  by_cases hs : hasStar mf.phrase = true
  · simp [MatchFilter.probeNoBlankTest, MatchFilter.probeOld, hph, hs, passRotated, passUnrotated]
  · have hs' : hasStar mf.phrase = false := by simpa using hs
    simp only [MatchFilter.probeNoBlankTest, MatchFilter.probeOld, hph, hs', if_true, Bool.false_eq_true, if_false, passRotated,
      passUnrotated, Bool.false_or]
    generalize hP : ({ keys := wordsOfKeys [mf.phrase],
                       orig := if (ci && !mf.phraseOrig.isEmpty) = true then [(mf.phrase, mf.phraseOrig)] else [],
                       wildcard := false, op := mf.op } : Probe) = P
    have hall : (wordsOfKeys [mf.phrase]).all (needleInCols cols P) = true := by
      rw [List.all_eq_true]; intro x hx
      obtain ⟨k, hk, hxk, hne⟩ := (mem_wordsOfKeys _ x).1 hx
      simp at hk; subst hk
      exact piece_found ci v _ x b cols P hb hc hlow h hxk hne
    cases hop : mf.op with
    | and =>
      rw [forColLoop_and, allColLoop_and]
      cases allCols <;> simp [hall]
    | or =>
      rw [forColLoop_or]
      cases hk : wordsOfKeys [mf.phrase] with
      | nil => cases allCols <;> simp [allColLoop]
      | cons a r =>
        have ha : needleInCols cols P a = true := by
          rw [hk] at hall; simp only [List.all_cons, Bool.and_eq_true] at hall; exact hall.1
        rw [allColLoop_or_any _ _ _ (by simp [ha])]
        cases allCols <;> simp

theorem bloom_prune_sound_phrase (mf : MatchFilter) (ci : Bool) (v : Bytes) (b : BloomLike) (cols : Cols) (allCols : Bool)
    (hb : b.holds (addedKeys v)) (hc : some b ∈ cols) (hph : mf.isPhrase = true)
    (hlow : ci = true → hasUpper mf.phrase = false)
    (h : subWord ci v mf.phrase = true) :
    passRotated allCols cols (mf.probe ci) false = true ∧ passUnrotated cols (mf.probe ci) false = true := by
  unfold MatchFilter.probe
  simp only
  split
  · exact pass_of_no_keys allCols cols _ false
  · exact bloom_prune_sound_phrase_noBlankTest mf ci v b cols allCols hb hc hph hlow h

/-- C03.3 (phrase filter with operator Or, as `multi_match` type phrase builds it: the match words are the pieces of the
phrase).  At record level such a filter asks for ANY of its words; a block holding a value with one of them is kept. -/
theorem bloom_prune_sound_phrase_or (mf : MatchFilter) (ci : Bool) (v : Bytes) (b : BloomLike) (cols : Cols) (allCols : Bool)
    (hb : b.holds (addedKeys v)) (hc : some b ∈ cols) (hph : mf.isPhrase = true) (hop : mf.op = .or)
    (hwords : mf.words = splitSpace mf.phrase)
    (hlow : ci = true → hasUpper mf.phrase = false)
    (h : matchRaw mf ci (.str v) = true) :
    passRotated allCols cols (mf.probe ci) false = true ∧ passUnrotated cols (mf.probe ci) false = true := by
  unfold MatchFilter.probe
  simp only
  split
  · exact pass_of_no_keys allCols cols _ false
  · rename_i hc2
    by_cases hs : hasStar mf.phrase = true
    · simp [MatchFilter.probeNoBlankTest, MatchFilter.probeOld, hph, hs, passRotated, passUnrotated]
    · have hs' : hasStar mf.phrase = false := by simpa using hs
      have hopP : (mf.probeNoBlankTest ci).op = .or := by
        simp [MatchFilter.probeNoBlankTest, MatchFilter.probeOld, hph, hs', hop]
      have hnb : ∀ w ∈ mf.words, blankWord w = false := by
        intro w hw
        cases hbw : blankWord w with
        | false => rfl
        | true =>
          exfalso; apply hc2
          simp only [hopP, beq_self_eq_true, Bool.true_and, List.any_eq_true]
          exact ⟨w, hw, hbw⟩
      have hne : mf.words.isEmpty = false := by
        rw [hwords]; cases hsp : splitSpace mf.phrase with
        | nil => exact absurd hsp (splitSpace_ne_nil _)
        | cons a r => rfl
      simp only [matchRaw, hne, Bool.false_eq_true, if_false, hop, List.any_eq_true] at h
      obtain ⟨w0, hw0, hsub⟩ := h
      have hw0ne : w0 ≠ [] := by
        intro e; have := hnb w0 hw0; rw [e] at this; simp [blankWord] at this
      have hw0p : w0 ∈ splitSpace mf.phrase := by rw [← hwords]; exact hw0
      have hw0low : ci = true → hasUpper w0 = false := fun e => hasUpper_piece mf.phrase w0 hw0p (hlow e)
      -- w0 has no space, it is its own only piece
      have hw0sp : 32 ∉ w0 := by
        intro hm
        have : ∀ (p s : Bytes), s ∈ splitSpace p → 32 ∉ s := by
          intro p
          induction p with
          | nil => intro s hs; simp [splitSpace] at hs; subst hs; simp
          | cons c r ih =>
            intro s hs
            by_cases hcs : c = 32
            · simp only [splitSpace, hcs, if_true, List.mem_cons] at hs
              rcases hs with rfl | hs
              · simp
              · exact ih s hs
            · simp only [splitSpace, hcs, if_false] at hs
              cases hsr : splitSpace r with
              | nil => exact absurd hsr (splitSpace_ne_nil r)
              | cons s0 ss =>
                rw [hsr] at hs
                simp only [List.mem_cons] at hs
                rcases hs with rfl | hs
                · intro hm2
                  simp only [List.mem_cons] at hm2
                  rcases hm2 with e | hm2
                  · exact hcs e.symm
                  · exact ih s0 (by rw [hsr]; simp) hm2
                · exact ih s (by rw [hsr]; simp [hs])
        exact this mf.phrase w0 hw0p hm
      have hkey : w0 ∈ addedKeys v := key_added_token ci v w0 hw0ne hw0sp hw0low hsub
      simp only [MatchFilter.probeNoBlankTest, MatchFilter.probeOld, hph, hs', if_true, Bool.false_eq_true, if_false,
        passRotated, passUnrotated, Bool.false_or, hop]
      generalize hP : ({ keys := wordsOfKeys [mf.phrase],
                         orig := if (ci && !mf.phraseOrig.isEmpty) = true then [(mf.phrase, mf.phraseOrig)] else [],
                         wildcard := false, op := Op.or } : Probe) = P
      have hmemk : w0 ∈ wordsOfKeys [mf.phrase] := (mem_wordsOfKeys _ w0).2 ⟨mf.phrase, by simp, hw0p, hw0ne⟩
      have hAny : (wordsOfKeys [mf.phrase]).any (needleInCols cols P) = true := by
        rw [List.any_eq_true]
        exact ⟨w0, hmemk, needleInCols_of_test cols b P w0 hc (hb w0 hkey)⟩
      rw [forColLoop_or, allColLoop_or_any _ _ _ hAny]
      cases allCols <;> simp

/-- C03.3 (phrase) FULL strength: every phrase found in a stored value keeps the block (rotated and open segments) -/
def PhrasePruneSound : Prop :=
  ∀ (ci : Bool) (v p : Bytes) (b : BloomLike), b.holds (addedKeys v) → (ci = true → hasUpper p = false) →
    subWord ci v p = true →
    passRotated true [some b] ((phraseFilter p).probe ci) false = true ∧
    passUnrotated [some b] ((phraseFilter p).probe ci) false = true

/-- … and with patch c03-A it HOLDS -/
theorem bloom_prune_phrase_sound : PhrasePruneSound := by
  intro ci v p b hb hlow h
  exact bloom_prune_sound_phrase (phraseFilter p) ci v b [some b] true hb (by simp) rfl hlow h

/-- the same statement for the code BEFORE patch c03-A (one key for the whole phrase) -/
def PhrasePruneSoundOld : Prop :=
  ∀ (ci : Bool) (v p : Bytes) (b : BloomLike), b.holds (addedKeys v) → (ci = true → hasUpper p = false) →
    subWord ci v p = true →
    passRotated true [some b] ((phraseFilter p).probeOld ci) false = true

/-- OLD code: the phrase "foo bar" is found by the record matcher in the value "x foo bar y", but it was probed as ONE
key and the writer adds only the whole value and the single tokens: the block was dropped. -/
theorem bloom_prune_phrase_counterexample_old : ¬ PhrasePruneSoundOld := by
  intro h
  have := h false [120, 32, 102, 111, 111, 32, 98, 97, 114, 32, 121] [102, 111, 111, 32, 98, 97, 114]
    (exact (addedKeys [120, 32, 102, 111, 111, 32, 98, 97, 114, 32, 121])) (exact_holds _) (by simp) (by decide)
  revert this; decide

/-- … the repaired probe keeps that very block -/
example : passRotated true [some (exact (addedKeys [120, 32, 102, 111, 111, 32, 98, 97, 114, 32, 121]))]
    ((phraseFilter [102, 111, 111, 32, 98, 97, 114]).probe false) false = true := by decide

/-- OLD code: the EMPTY phrase is "found" by `IsSubWordPresent` after a trailing space ("abc "), but the key "" is not
added for an empty LAST piece -/
theorem bloom_prune_empty_needle_counterexample_old :
    ¬ (∀ (v : Bytes) (b : BloomLike), b.holds (addedKeys v) → subWord false v [] = true →
        passRotated true [some b] ((phraseFilter []).probeOld false) false = true) := by
  intro h
  have := h [97, 98, 99, 32] (exact (addedKeys [97, 98, 99, 32])) (exact_holds _) (by decide)
  revert this; decide

/-- the phrases the OLD probe was right about: one token, or the whole value -/
def PhraseGuard (v p : Bytes) : Prop := (p ≠ [] ∧ 32 ∉ p) ∨ p.length = v.length

instance (v p : Bytes) : Decidable (PhraseGuard v p) := by unfold PhraseGuard; exact inferInstance

/-- OLD code, partial: under the guard the one-key phrase probe was sound -/
theorem bloom_prune_phrase_partial_old (mf : MatchFilter) (ci : Bool) (v : Bytes) (b : BloomLike) (cols : Cols) (allCols : Bool)
    (hb : b.holds (addedKeys v)) (hc : some b ∈ cols) (hph : mf.isPhrase = true)
    (hg : PhraseGuard v mf.phrase) (hlow : ci = true → hasUpper mf.phrase = false)
    (h : subWord ci v mf.phrase = true) :
    passRotated allCols cols (mf.probeOld ci) false = true ∧ passUnrotatedOld cols (mf.probeOld ci) = true := by
  have hkey : mf.phrase ∈ addedKeys v := by
    rcases hg with ⟨h1, h2⟩ | h1
    · exact key_added_token ci v mf.phrase h1 h2 hlow h
    · exact key_added_whole ci v mf.phrase h1 hlow h
  by_cases hs : hasStar mf.phrase = true
  · simp [MatchFilter.probeOld, hph, hs, passRotated, passUnrotatedOld]
  · have hs' : hasStar mf.phrase = false := by simpa using hs
    simp only [MatchFilter.probeOld, hph, hs', if_true, Bool.false_eq_true, if_false, passRotated, passUnrotatedOld, Bool.false_or]
    generalize hP : ({ keys := [mf.phrase], orig := if (ci && !mf.phraseOrig.isEmpty) = true then [(mf.phrase, mf.phraseOrig)] else [],
                       wildcard := false, op := mf.op } : Probe) = P
    have hE : needleInCols cols P mf.phrase = true := needleInCols_of_test cols b P _ hc (hb _ hkey)
    cases hop : mf.op with
    | and =>
      rw [forColLoop_and, allColLoop_and]
      cases allCols <;> simp [hE]
    | or =>
      rw [forColLoop_or, allColLoop_or_any _ _ _ (by simp [hE])]
      cases allCols <;> simp

/-- the guard is satisfiable on both sides: "foo" and the whole value in "x foo bar y" -/
example : PhraseGuard [120, 32, 102, 111, 111, 32, 98, 97, 114, 32, 121] [102, 111, 111] ∧
    subWord false [120, 32, 102, 111, 111, 32, 98, 97, 114, 32, 121] [102, 111, 111] = true := by decide
example : PhraseGuard [120, 32, 102, 111, 111] [120, 32, 102, 111, 111] ∧ subWord false [120, 32, 102, 111, 111] [120, 32, 102, 111, 111] = true := by decide
/-- … and it excludes the counterexample -/
example : ¬ PhraseGuard [120, 32, 102, 111, 111, 32, 98, 97, 114, 32, 121] [102, 111, 111, 32, 98, 97, 114] := by decide
/-- the rule is not vacuous: a block without the word IS dropped ("zzz" against a block holding "x foo bar y"), and so
is a block holding only one word of the phrase ("foo zzz") -/
example : passRotated true [some (exact (addedKeys [120, 32, 102, 111, 111, 32, 98, 97, 114, 32, 121]))]
    ((wordFilter [122, 122, 122]).probe false) false = false := by decide
example : passRotated true [some (exact (addedKeys [120, 32, 102, 111, 111, 32, 98, 97, 114, 32, 121]))]
    ((phraseFilter [102, 111, 111, 32, 122, 122, 122]).probe false) false = false := by decide

/-- C03.3 (string equality `col = "value"`) a block holding an equal value (equal up to ASCII case when the comparison
is case-insensitive) is kept -/
theorem bloom_prune_sound_eq (ci : Bool) (v val orig : Bytes) (hasOrig : Bool) (b : BloomLike) (cols : Cols) (allCols : Bool)
    (hb : b.holds (addedKeys v)) (hc : some b ∈ cols) (hlow : ci = true → hasUpper val = false)
    (h : exprRaw true ci val (.str v) = true) :
    passRotated allCols cols (exprProbe true (hasStar val) val hasOrig orig ci) false = true ∧
    passUnrotated cols (exprProbe true (hasStar val) val hasOrig orig ci) false = true := by
  simp only [exprRaw, if_true, Bool.and_eq_true, beq_iff_eq] at h
  obtain ⟨_, hcs, hcis⟩ := bytesEq_spec ci v val h.2
  have hkey : val ∈ addedKeys v := by
    cases ci with
    | false => rw [← hcs rfl]; exact mem_addedKeys_self v
    | true =>
      have hw : toLower val = val := toLower_of_noUpper val (hlow rfl)
      by_cases hu : hasUpper v = true
      · rw [← hw, ← hcis rfl]; exact mem_addedKeys_lower_self v hu
      · have hu' : hasUpper v = false := by simpa using hu
        rw [← hw, ← hcis rfl, toLower_of_noUpper v hu']; exact mem_addedKeys_self v
  unfold exprProbe
  simp only [Bool.not_true, Bool.false_eq_true, if_false]
  by_cases hs : hasStar val = true
  · simp [hs, passRotated, passUnrotated]
  · have hs' : hasStar val = false := by simpa using hs
    simp only [hs', Bool.false_eq_true, if_false]
    by_cases he : val.isEmpty = true
    · cases allCols <;> simp [he, passRotated, passUnrotated, forColLoop, allColLoop]
    · simp only [he, if_false, passRotated, passUnrotated, Bool.false_or, Bool.false_eq_true]
      generalize hP : ({ keys := [val], orig := if (ci && hasOrig && !orig.isEmpty) = true then [(val, orig)] else [],
                         wildcard := false, op := Op.and } : Probe) = P
      have hE : needleInCols cols P val = true := needleInCols_of_test cols b P _ hc (hb _ hkey)
      rw [forColLoop_and, allColLoop_and]
      cases allCols <;> simp [hE]

/-- a record belongs to the answer of a (possibly negated) match filter -/
def inAnswer (mf : MatchFilter) (ci : Bool) (v : Bytes) : Bool := matchRaw mf ci (.str v) != mf.negate

/-- negated filters: neither check drops a block (rotated: `doCmiChecks`; open: `DoCMICheckForUnrotated` with patch c03-B) -/
theorem bloom_prune_negated (allCols : Bool) (cols : Cols) (p : Probe) :
    passRotated allCols cols p true = true ∧ passUnrotated cols p true = true := by
  simp [passRotated, passUnrotated]

/-- OLD code (before c03-B): `DoCMICheckForUnrotated` had no negate test; a block none of whose records holds the word —
every record of it belongs to the answer of `NOT zzz` — was dropped while the segment was open. -/
theorem unrotated_negated_prune_counterexample_old :
    ¬ (∀ (mf : MatchFilter) (ci : Bool) (v : Bytes) (b : BloomLike), b.holds (addedKeys v) → inAnswer mf ci v = true →
        passUnrotatedOld [some b] (mf.probe ci) = true) := by
  intro h
  -- NOT zzz against a block holding "ccc"
  have := h { wordFilter [122, 122, 122] with negate := true } false [99, 99, 99] (exact (addedKeys [99, 99, 99]))
    (exact_holds _) (by decide)
  revert this; decide

example : inAnswer (wordFilter [99, 99, 99]) false [99, 99, 99] = true := by decide

/-- C03.3 (boolean comparison, patch c03-C) nothing is probed: the block is kept whatever micro-indexes it has -/
theorem bool_probe_sound (allCols : Bool) (cols : Cols) :
    passRotated allCols cols boolProbe false = true ∧ passUnrotated cols boolProbe false = true := by
  cases allCols <;> simp [passRotated, passUnrotated, boolProbe, forColLoop, allColLoop]

/-- OLD code (before c03-C): `b=true` probed the TEXT "true".  A boolean column has no bloom micro-index (`none`), and
where a dictionary block's filter exists it holds the byte 0/1: either way the block with a matching record was dropped. -/
theorem bool_probe_counterexample_old :
    boolRaw true true (.bool true) = true ∧
    passRotated false [none] (boolProbeOld true true) false = false ∧
    passRotated false [some (exact (colKeysDict [.bool true, .bool false]))] (boolProbeOld true true) false = false ∧
    passUnrotatedOld [none] (boolProbeOld true true) = false := by decide

/-- patch c03-E: a boolean comparison on a record that is not a boolean answers without an error, where the OLD code
returned an error (which stopped the dictionary word loop / the record loop of the block at that record); on booleans
nothing changed -/
theorem boolRaw_old (eq lit : Bool) (v : CVal) :
    (boolRawOld eq lit v = none ↔ ∀ b, v ≠ .bool b) ∧ (∀ r, boolRawOld eq lit v = some r → boolRaw eq lit v = r) := by
  cases v <;> simp [boolRawOld, boolRaw]

/-- patch c02-1: an event that does not have the column satisfies `b != true` whether its block has the column (back-fill
record) or not (the reader hands out an empty record, for which `filterOpOnDataType` has always answered `!=` yes);
before, the back-fill record answered no and the answer depended on what else the block holds.  Records of another
type are untouched. -/
theorem boolRaw_backfill (eq lit : Bool) :
    boolRaw eq lit .backfill = !eq ∧ boolRawBackfillOld eq lit .backfill = false ∧
    (∀ v, v ≠ .backfill → boolRaw eq lit v = boolRawBackfillOld eq lit v) := by
  refine ⟨rfl, rfl, ?_⟩
  intro v hv
  cases v <;> simp_all [boolRaw, boolRawBackfillOld]

/-- the in-place variant `addToBlockBloomBothCases` (work buffer = the value; array-dict keys and values): each
lower-casing overwrites the head of the value, so the final "lower-cased full value" is wrong — for "Foo Bar" the key
"bar bar" is added instead of "foo bar", which the flush-path variant does add. -/
theorem inplace_variant_loses_lowercase_value :
    toLower [70, 111, 111, 32, 66, 97, 114] ∈ addedKeys [70, 111, 111, 32, 66, 97, 114] ∧
    toLower [70, 111, 111, 32, 66, 97, 114] ∉ (addedKeysInPlace [70, 111, 111, 32, 66, 97, 114]).1 ∧
    (addedKeysInPlace [70, 111, 111, 32, 66, 97, 114]).2 = [98, 97, 114, 32, 98, 97, 114] := by decide

/-- C03.4 the dictionary path (the predicate once per dictionary word, then all records pointing to the word) selects
exactly the records the per-record path selects, for every dictionary block, record count and predicate -/
theorem dictSearch_eq_perRecord (f : Bytes → Bool) (d : DictRd) (recCount : Nat) :
    dictSearch f d recCount = perRecordSearch f d recCount := by
  unfold dictSearch perRecordSearch
  rw [dictLoop_eq, perRecFrom_eq]
  apply mapIdxFrom_replicate_congr
  intro j; simp

/-- C03.4 for match filters: with at least one match word the two paths agree -/
theorem dictMatch_eq_perRecordMatch (mf : MatchFilter) (ci : Bool) (d : DictRd) (recCount : Nat) (h : mf.words ≠ []) :
    dictMatch mf ci d recCount = perRecordMatch mf ci d recCount := by
  unfold dictMatch perRecordMatch
  have : mf.words.isEmpty = false := by cases hw : mf.words <;> simp_all
  simp only [this, Bool.false_eq_true, if_false]
  exact dictSearch_eq_perRecord _ d recCount

/-- … and WITHOUT match words they do not: `ApplySearchToMatchFilterDictCsg` returns before the loop (nothing
selected) while `ApplySearchToMatchFilterRawCsg` answers true for every record -/
theorem dictMatch_no_words_counterexample :
    ¬ (∀ (mf : MatchFilter) (ci : Bool) (d : DictRd) (recCount : Nat),
        dictMatch mf ci d recCount = perRecordMatch mf ci d recCount) := by
  intro h
  have := h { wordFilter [] with words := [] } false { words := [[0]], recToWord := [0], badRec := false } 1
  revert this; decide

example : dictMatch (wordFilter [102, 111, 111]) false
    { words := [[SigModel.Tlv.tStr, 5, 0, 102, 111, 111, 32, 120], [SigModel.Tlv.tStr, 3, 0, 98, 97, 114]],
      recToWord := [0, 1, 0], badRec := false } 3 = [true, false, true] := by decide

theorem recLoop_no_plain (negate : Bool) (i : Nat) (bits : List Bool) :
    recLoop negate (fun _ => false) i bits = bits.map (fun b => b != negate) := by
  induction bits generalizing i with
  | nil => rfl
  | cons b r ih => cases negate <;> cases b <;> simp [recLoop, ih]

/-- C03.4 with negation (patch c03-D): a block whose searched column is dictionary-encoded gives, for a (possibly
NEGATED) match filter with words, exactly the records of the answer — each record tested on its own, then negated —
whether or not the block lies inside the query's time range -/
theorem filterDictBlock_eq_answer (mf : MatchFilter) (ci : Bool) (d : DictRd) (recCount : Nat) (enclosed : Bool)
    (h : mf.words ≠ []) :
    filterDictBlock mf ci d recCount enclosed = (perRecordMatch mf ci d recCount).map (fun m => m != mf.negate) := by
  unfold filterDictBlock
  simp only [dictMatch_eq_perRecordMatch mf ci d recCount h]
  split
  · exact recLoop_no_plain _ _ _
  · rename_i hc
    have hn : mf.negate = false := by
      cases hneg : mf.negate <;> simp_all
    simp [hn]

/-- OLD code (before c03-D): for a time-enclosed block the record loop — the only place where `NegateMatch` is
applied — was skipped: `NOT zzz` over the dictionary {"zzz" ↦ record 0, "aaa" ↦ record 1} returned record 0. -/
theorem filterDictBlockOld_negated_counterexample :
    filterDictBlockOld { wordFilter [122, 122, 122] with negate := true } false
      { words := [[SigModel.Tlv.tStr, 3, 0, 122, 122, 122], [SigModel.Tlv.tStr, 3, 0, 97, 97, 97]], recToWord := [0, 1], badRec := false } 2 true
      = [true, false] ∧
    filterDictBlock { wordFilter [122, 122, 122] with negate := true } false
      { words := [[SigModel.Tlv.tStr, 3, 0, 122, 122, 122], [SigModel.Tlv.tStr, 3, 0, 97, 97, 97]], recToWord := [0, 1], badRec := false } 2 true
      = [false, true] := by decide

end SigModel.Props.C03
