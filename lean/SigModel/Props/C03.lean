/-
C03 — Query answers do not depend on physical layout or acceleration path.  Property theorems only.

Decided by proof here (on kernels REGENERATED from /repo on every run, SigModel/Gen/Range.lean):
soundness of the range micro-index skip rule: if ANY value stored in the block (all stored values
lie within the block's [min, max]) satisfies the comparison, the block is NOT skipped — for all
six operators, all literals and all ranges, for signed, unsigned and float indexes.
The full-strength statement for `!=` must also cover records that LACK the column (they satisfy
`!=` under the engine's rules): that is false — `ne_prune_unsound_with_absent`.
Layout independence as a whole (flush/rotate histories, dictionary vs plain encoding) is decided by
the end-to-end differential (same events under different layouts vs the layout-free specification).
-/
import SigModel.Gen.Range
import SigModel.Lemmas.C03B
import SigModel.Lemmas.C03Bdict

namespace SigModel.Props.C03
open SigModel.Gen

/-- the comparison `value op literal` for the six operators, by operator code -/
def sat (op : Int) (v lit : Int) : Prop :=
  (op = FilterOperator_Equals ∧ v = lit) ∨ (op = FilterOperator_NotEquals ∧ v ≠ lit) ∨
  (op = FilterOperator_LessThan ∧ v < lit) ∨ (op = FilterOperator_LessThanOrEqualTo ∧ v ≤ lit) ∨
  (op = FilterOperator_GreaterThan ∧ v > lit) ∨ (op = FilterOperator_GreaterThanOrEqualTo ∧ v ≥ lit)

/-- C03.2 (signed) a block holding a satisfying value is never skipped -/
theorem int_range_prune_sound (op lit mn mx v : Int) (h1 : mn ≤ v) (h2 : v ≤ mx) (hs : sat op v lit) :
    doesIntPassRangeFilter op lit mn mx = true := by
  unfold doesIntPassRangeFilter
  unfold sat at hs
  simp only [FilterOperator_Equals, FilterOperator_NotEquals, FilterOperator_LessThan,
    FilterOperator_LessThanOrEqualTo, FilterOperator_GreaterThan, FilterOperator_GreaterThanOrEqualTo] at *
  rcases hs with ⟨ho, hv⟩ | ⟨ho, hv⟩ | ⟨ho, hv⟩ | ⟨ho, hv⟩ | ⟨ho, hv⟩ | ⟨ho, hv⟩ <;> subst ho <;> simp <;> omega

/-- C03.2 (unsigned) -/
theorem uint_range_prune_sound (op lit mn mx v : Int) (h1 : mn ≤ v) (h2 : v ≤ mx) (hs : sat op v lit) :
    doesUintPassRangeFilter op lit mn mx = true := by
  unfold doesUintPassRangeFilter
  unfold sat at hs
  simp only [FilterOperator_Equals, FilterOperator_NotEquals, FilterOperator_LessThan,
    FilterOperator_LessThanOrEqualTo, FilterOperator_GreaterThan, FilterOperator_GreaterThanOrEqualTo] at *
  rcases hs with ⟨ho, hv⟩ | ⟨ho, hv⟩ | ⟨ho, hv⟩ | ⟨ho, hv⟩ | ⟨ho, hv⟩ | ⟨ho, hv⟩ <;> subst ho <;> simp <;> omega

def satQ (op : Int) (v lit : Rat) : Prop :=
  (op = FilterOperator_Equals ∧ v = lit) ∨ (op = FilterOperator_NotEquals ∧ v ≠ lit) ∨
  (op = FilterOperator_LessThan ∧ v < lit) ∨ (op = FilterOperator_LessThanOrEqualTo ∧ v ≤ lit) ∨
  (op = FilterOperator_GreaterThan ∧ v > lit) ∨ (op = FilterOperator_GreaterThanOrEqualTo ∧ v ≥ lit)

/-- C03.2 (float index; finite doubles compare as their exact rational values) -/
theorem float_range_prune_sound (op : Int) (lit mn mx v : Rat) (h1 : mn ≤ v) (h2 : v ≤ mx) (hs : satQ op v lit) :
    doesFloatPassRangeFilter op lit mn mx = true := by
  unfold doesFloatPassRangeFilter
  unfold satQ at hs
  simp only [FilterOperator_Equals, FilterOperator_NotEquals, FilterOperator_LessThan,
    FilterOperator_LessThanOrEqualTo, FilterOperator_GreaterThan, FilterOperator_GreaterThanOrEqualTo] at *
  rcases hs with ⟨ho, hv⟩ | ⟨ho, hv⟩ | ⟨ho, hv⟩ | ⟨ho, hv⟩ | ⟨ho, hv⟩ | ⟨ho, hv⟩ <;> subst ho <;> simp <;> grind

/-- … and the rule is not vacuous: a block whose range excludes the literal IS skipped for `=` -/
example : doesIntPassRangeFilter FilterOperator_Equals 50 1 9 = false := by decide

/-- C03.2 full strength, records may LACK the column: a record without the column satisfies `!=`
(engine rule, see the end-to-end evidence), yet a block whose present values all equal the literal
is skipped.  So the `!=` skip rule can change which events match. -/
theorem ne_prune_unsound_with_absent :
    ¬ (∀ (lit mn mx : Int) (vals : List (Option Int)),
        (∀ v ∈ vals, ∀ x, v = some x → mn ≤ x ∧ x ≤ mx) →
        (∃ v ∈ vals, v = none ∨ ∃ x, v = some x ∧ x ≠ lit) →
        doesIntPassRangeFilter FilterOperator_NotEquals lit mn mx = true) := by
  intro h
  have := h 9 9 9 [some 9, none] (by simp) (by simp)
  revert this
  decide

end SigModel.Props.C03

/-!
## C03 kernel slice "bloom": the BLOOM skip rule and the DICTIONARY search path (Model/Bloom.lean)

The block bloom of a column holds, per stored string value, the keys `addedKeys v` (full value, pieces between single
spaces, ASCII-lower-cased copies).  A query probes the keys of `MatchFilter.probe` / `exprProbe`; the block is dropped
when the check (`passRotated` for rotated segments, `passUnrotated` for open ones) fails.  Soundness = a block that
holds a record of the answer is never dropped, for EVERY filter that behaves like a bloom (`BloomLike` holding at
least the added keys).  Decided here:
* single-token words (And/Or filters of any number of words), whole-value phrases, string equality: SOUND;
* a phrase of several tokens strictly inside a longer value: UNSOUND (`bloom_prune_phrase_counterexample`; replayed on
  the engine: `"foo bar"` misses m="x foo bar y" unless another record of the same block holds the phrase as a whole value);
* the empty phrase on a value ending in a space: UNSOUND (`bloom_prune_empty_needle_counterexample`);
* negated free text on OPEN segments: UNSOUND (`unrotated_negated_prune_counterexample`: `DoCMICheckForUnrotated` lacks
  the negate test that `doCmiChecks` has);
* the dictionary path selects exactly the records the per-record path selects (`dictSearch_eq_perRecord`), for a filter
  WITH words; a filter without words selects nothing through the dictionary and everything per record.
-/
namespace SigModel.Props.C03
open SigModel.Bloom
open SigModel.Tlv (Bytes DictRd)

/-- the match filter of a one-word free-text search (what `createMatchFilterCriteria` builds) -/
def wordFilter (w : Bytes) : MatchFilter :=
  { words := [w], wordsOrig := [], op := .and, phrase := [], phraseOrig := [], isPhrase := false, negate := false }

/-- the match filter of a quoted phrase (what `createMatchPhraseFilterCriteria` builds) -/
def phraseFilter (p : Bytes) : MatchFilter :=
  { words := splitSpace p, wordsOrig := [], op := .and, phrase := p, phraseOrig := [], isPhrase := true, negate := false }

/-- every word is one token: non-empty, no space, and (case-insensitive search) lower-cased as the grammar does -/
def SingleTokens (ci : Bool) (ws : List Bytes) : Prop :=
  ∀ w ∈ ws, w ≠ [] ∧ 32 ∉ w ∧ (ci = true → hasUpper w = false)

/-- C03.3 (words, full filter) a block holding a record that satisfies an And/Or filter of single-token words is kept,
on rotated and on open segments, whichever columns are consulted, for any bloom-like filter. -/
theorem bloom_prune_sound_words (mf : MatchFilter) (ci : Bool) (v : Bytes) (b : BloomLike) (cols : Cols) (allCols : Bool)
    (hb : b.holds (addedKeys v)) (hc : some b ∈ cols) (hph : mf.isPhrase = false)
    (hw : SingleTokens ci mf.words) (h : matchRaw mf ci (.str v) = true) :
    passRotated allCols cols (mf.probe ci) false = true ∧ passUnrotated cols (mf.probe ci) = true := by
  -- the probe
  have hp : mf.probe ci =
      { keys := (wordsLoop ci (mf.wordsOrig.length == mf.words.length) mf.wordsOrig mf.words 0 ([], [], false)).1,
        orig := (wordsLoop ci (mf.wordsOrig.length == mf.words.length) mf.wordsOrig mf.words 0 ([], [], false)).2.1,
        wildcard := (wordsLoop ci (mf.wordsOrig.length == mf.words.length) mf.wordsOrig mf.words 0 ([], [], false)).2.2,
        op := if (wordsLoop ci (mf.wordsOrig.length == mf.words.length) mf.wordsOrig mf.words 0 ([], [], false)).1.length == 1
              then .and else mf.op } := by
    simp [MatchFilter.probe, hph]
  obtain ⟨hwc, hks⟩ := wordsLoop_spec ci (mf.wordsOrig.length == mf.words.length) mf.wordsOrig mf.words 0 [] [] false
  generalize hr : wordsLoop ci (mf.wordsOrig.length == mf.words.length) mf.wordsOrig mf.words 0 ([], [], false) = r at hp hwc hks
  obtain ⟨ks, os, wc⟩ := r
  simp only at hp hwc hks
  rw [hp]
  cases hwcv : wc with
  | true => simp [passRotated, passUnrotated]
  | false =>
    rw [hwcv] at hwc
    have hnostar : ∀ x ∈ mf.words, hasStar x = false := by
      have : mf.words.any hasStar = false := by simpa using hwc.symm
      intro x hx
      have := List.any_eq_false.1 this x hx
      simpa using this
    have hmem : ∀ x, x ∈ ks ↔ x ∈ mf.words := by
      intro x; rw [hks x]; simp only [List.not_mem_nil, false_or]
      exact ⟨fun h => h.1, fun h => ⟨h, hnostar x h⟩⟩
    -- a word found in the value is found in the block
    have hE : ∀ k ∈ mf.words, subWord ci v k = true →
        needleInCols cols { keys := ks, orig := os, wildcard := false, op := if ks.length == 1 then Op.and else mf.op } k = true := by
      intro k hk hsub
      obtain ⟨h1, h2, h3⟩ := hw k hk
      exact needleInCols_of_test cols b _ k hc (hb k (key_added_token ci v k h1 h2 h3 hsub))
    simp only [passRotated, passUnrotated, Bool.false_or, Bool.false_eq_true, if_false]
    unfold matchRaw at h
    simp only [hph, Bool.false_eq_true, if_false] at h
    cases hop : mf.op with
    | and =>
      have hall : ∀ k ∈ mf.words, subWord ci v k = true := by
        by_cases he : mf.words.isEmpty = true
        · intro k hk; have : mf.words = [] := by simpa using he
          rw [this] at hk; simp at hk
        · have he' : mf.words.isEmpty = false := by simpa using he
          simp only [he', Bool.false_eq_true, if_false, hop, List.all_eq_true] at h
          exact h
      have hAll : ks.all (needleInCols cols { keys := ks, orig := os, wildcard := false, op := Op.and }) = true := by
        rw [List.all_eq_true]; intro k hk
        have := hE k ((hmem k).1 hk) (hall k ((hmem k).1 hk))
        simpa [hop] using this
      simp only [ite_self]
      rw [forColLoop_and, allColLoop_and]
      cases allCols <;> simp [hAll]
    | or =>
      by_cases he : mf.words.isEmpty = true
      · have hw0 : mf.words = [] := by simpa using he
        have hk0 : ks = [] := by
          cases ks with
          | nil => rfl
          | cons a r => have := (hmem a).1 (by simp); rw [hw0] at this; simp at this
        subst hk0
        cases allCols <;> simp [forColLoop, allColLoop]
      · have he' : mf.words.isEmpty = false := by simpa using he
        simp only [he', Bool.false_eq_true, if_false, hop, List.any_eq_true] at h
        obtain ⟨w0, hw0, hsub⟩ := h
        have hw0k : w0 ∈ ks := (hmem w0).2 hw0
        have hEw := hE w0 hw0 hsub
        by_cases h1 : (ks.length == 1) = true
        · -- one key: probed as And; the key is the matching word
          simp only [h1, if_true] at hEw ⊢
          have hAll : ks.all (needleInCols cols { keys := ks, orig := os, wildcard := false, op := Op.and }) = true := by
            rw [List.all_eq_true]; intro k hk
            have hlen : ks.length = 1 := by simpa using h1
            match ks, hlen, hk, hw0k with
            | [a], _, hk, hw0k =>
              simp at hk hw0k; subst hk; subst hw0k; exact hEw
          rw [forColLoop_and, allColLoop_and]
          cases allCols <;> simp [hAll]
        · have h1' : (ks.length == 1) = false := by simpa using h1
          simp only [h1', Bool.false_eq_true, if_false, hop] at hEw ⊢
          have hAny : ks.any (needleInCols cols { keys := ks, orig := os, wildcard := false, op := Op.or }) = true := by
            rw [List.any_eq_true]; exact ⟨w0, hw0k, hEw⟩
          rw [forColLoop_or, allColLoop_or_any _ _ _ hAny]
          cases allCols <;> simp

/-- C03.3 (one word, case-sensitive and case-insensitive) `IsSubWordPresent(v, w)` ⇒ the block is kept -/
theorem bloom_prune_sound_word (ci : Bool) (v w : Bytes) (b : BloomLike) (cols : Cols) (allCols : Bool)
    (hb : b.holds (addedKeys v)) (hc : some b ∈ cols)
    (hne : w ≠ []) (hsp : 32 ∉ w) (hlow : ci = true → hasUpper w = false)
    (h : subWord ci v w = true) :
    passRotated allCols cols ((wordFilter w).probe ci) false = true ∧
    passUnrotated cols ((wordFilter w).probe ci) = true := by
  apply bloom_prune_sound_words (wordFilter w) ci v b cols allCols hb hc rfl
  · intro x hx; simp [wordFilter] at hx; subst hx; exact ⟨hne, hsp, hlow⟩
  · simp [matchRaw, wordFilter, h]

/-- the case-insensitive rule needs the lower-cased needle the query grammar produces: a needle with upper-case bytes
that differs in case from the stored token is probed as is and missed -/
theorem bloom_ci_needs_lowered_needle :
    ¬ (∀ (v w : Bytes) (b : BloomLike), b.holds (addedKeys v) → subWord true v w = true →
        passRotated true [some b] ((wordFilter w).probe true) false = true) := by
  intro h
  -- v = "FOO", w = "Foo"
  have := h [70, 79, 79] [70, 111, 111] (exact (addedKeys [70, 79, 79])) (exact_holds _) (by decide)
  revert this; decide

/-- C03.3 (phrase) FULL strength: every phrase found in a stored value keeps the block.  FALSE, see below. -/
def PhrasePruneSound : Prop :=
  ∀ (ci : Bool) (v p : Bytes) (b : BloomLike), b.holds (addedKeys v) → (ci = true → hasUpper p = false) →
    subWord ci v p = true →
    passRotated true [some b] ((phraseFilter p).probe ci) false = true ∧ passUnrotated [some b] ((phraseFilter p).probe ci) = true

/-- the phrase "foo bar" is found by the record matcher in the value "x foo bar y", but it is probed as ONE key and the
writer added only the whole value and the single tokens: the block is dropped (rotated and open). -/
theorem bloom_prune_phrase_counterexample : ¬ PhrasePruneSound := by
  intro h
  have := (h false [120, 32, 102, 111, 111, 32, 98, 97, 114, 32, 121] [102, 111, 111, 32, 98, 97, 114]
    (exact (addedKeys [120, 32, 102, 111, 111, 32, 98, 97, 114, 32, 121])) (exact_holds _) (by simp) (by decide)).1
  revert this; decide

/-- the EMPTY phrase is "found" by `IsSubWordPresent` after a trailing space ("abc " — the engine answers `""` with such
events when the micro-index is unavailable), but the empty last piece is not added -/
theorem bloom_prune_empty_needle_counterexample :
    ¬ (∀ (v : Bytes) (b : BloomLike), b.holds (addedKeys v) → subWord false v [] = true →
        passRotated true [some b] ((phraseFilter []).probe false) false = true) := by
  intro h
  have := h [97, 98, 99, 32] (exact (addedKeys [97, 98, 99, 32])) (exact_holds _) (by decide)
  revert this; decide

/-- the phrases the add side covers: one token, or the whole value -/
def PhraseGuard (v p : Bytes) : Prop := (p ≠ [] ∧ 32 ∉ p) ∨ p.length = v.length

instance (v p : Bytes) : Decidable (PhraseGuard v p) := by unfold PhraseGuard; exact inferInstance

/-- C03.3 (phrase, partial) under the guard the phrase rule is sound — for every phrase filter (And or Or), rotated and open -/
theorem bloom_prune_phrase_partial (mf : MatchFilter) (ci : Bool) (v : Bytes) (b : BloomLike) (cols : Cols) (allCols : Bool)
    (hb : b.holds (addedKeys v)) (hc : some b ∈ cols) (hph : mf.isPhrase = true)
    (hg : PhraseGuard v mf.phrase) (hlow : ci = true → hasUpper mf.phrase = false)
    (h : subWord ci v mf.phrase = true) :
    passRotated allCols cols (mf.probe ci) false = true ∧ passUnrotated cols (mf.probe ci) = true := by
  have hkey : mf.phrase ∈ addedKeys v := by
    rcases hg with ⟨h1, h2⟩ | h1
    · exact key_added_token ci v mf.phrase h1 h2 hlow h
    · exact key_added_whole ci v mf.phrase h1 hlow h
  by_cases hs : hasStar mf.phrase = true
  · simp [MatchFilter.probe, hph, hs, passRotated, passUnrotated]
  · have hs' : hasStar mf.phrase = false := by simpa using hs
    simp only [MatchFilter.probe, hph, hs', if_true, Bool.false_eq_true, if_false, passRotated, passUnrotated, Bool.false_or]
    generalize hP : ({ keys := [mf.phrase], orig := if (ci && !mf.phraseOrig.isEmpty) = true then [(mf.phrase, mf.phraseOrig)] else [],
                       wildcard := false, op := mf.op } : Probe) = P
    have hE : needleInCols cols P mf.phrase = true := needleInCols_of_test cols b P _ hc (hb _ hkey)
    cases hop : mf.op with
    | and =>
      rw [forColLoop_and, allColLoop_and]
      cases allCols <;> simp [hE]
    | or =>
      rw [forColLoop_or, allColLoop_or_any _ _ _ (by simp [hE])]
      cases allCols <;> simp

/-- the guard is satisfiable on both sides: "foo" and the whole value in "x foo bar y" -/
example : PhraseGuard [120, 32, 102, 111, 111, 32, 98, 97, 114, 32, 121] [102, 111, 111] ∧
    subWord false [120, 32, 102, 111, 111, 32, 98, 97, 114, 32, 121] [102, 111, 111] = true := by decide
example : PhraseGuard [120, 32, 102, 111, 111] [120, 32, 102, 111, 111] ∧ subWord false [120, 32, 102, 111, 111] [120, 32, 102, 111, 111] = true := by decide
/-- … and it excludes the counterexample -/
example : ¬ PhraseGuard [120, 32, 102, 111, 111, 32, 98, 97, 114, 32, 121] [102, 111, 111, 32, 98, 97, 114] := by decide
/-- the rule is not vacuous: a block without the word IS dropped ("zzz" against a block holding "x foo bar y") -/
example : passRotated true [some (exact (addedKeys [120, 32, 102, 111, 111, 32, 98, 97, 114, 32, 121]))]
    ((wordFilter [122, 122, 122]).probe false) false = false := by decide

/-- C03.3 (string equality `col = "value"`) a block holding an equal value (equal up to ASCII case when the comparison
is case-insensitive) is kept -/
theorem bloom_prune_sound_eq (ci : Bool) (v val orig : Bytes) (hasOrig : Bool) (b : BloomLike) (cols : Cols) (allCols : Bool)
    (hb : b.holds (addedKeys v)) (hc : some b ∈ cols) (hlow : ci = true → hasUpper val = false)
    (h : exprRaw true ci val (.str v) = true) :
    passRotated allCols cols (exprProbe true (hasStar val) val hasOrig orig ci) false = true ∧
    passUnrotated cols (exprProbe true (hasStar val) val hasOrig orig ci) = true := by
  simp only [exprRaw, if_true, Bool.and_eq_true, beq_iff_eq] at h
  obtain ⟨_, hcs, hcis⟩ := bytesEq_spec ci v val h.2
  have hkey : val ∈ addedKeys v := by
    cases ci with
    | false => rw [← hcs rfl]; exact mem_addedKeys_self v
    | true =>
      have hw : toLower val = val := toLower_of_noUpper val (hlow rfl)
      by_cases hu : hasUpper v = true
      · rw [← hw, ← hcis rfl]; exact mem_addedKeys_lower_self v hu
      · have hu' : hasUpper v = false := by simpa using hu
        rw [← hw, ← hcis rfl, toLower_of_noUpper v hu']; exact mem_addedKeys_self v
  unfold exprProbe
  simp only [Bool.not_true, Bool.false_eq_true, if_false]
  by_cases hs : hasStar val = true
  · simp [hs, passRotated, passUnrotated]
  · have hs' : hasStar val = false := by simpa using hs
    simp only [hs', Bool.false_eq_true, if_false]
    by_cases he : val.isEmpty = true
    · cases allCols <;> simp [he, passRotated, passUnrotated, forColLoop, allColLoop]
    · simp only [he, if_false, passRotated, passUnrotated, Bool.false_or, Bool.false_eq_true]
      generalize hP : ({ keys := [val], orig := if (ci && hasOrig && !orig.isEmpty) = true then [(val, orig)] else [],
                         wildcard := false, op := Op.and } : Probe) = P
      have hE : needleInCols cols P val = true := needleInCols_of_test cols b P _ hc (hb _ hkey)
      rw [forColLoop_and, allColLoop_and]
      cases allCols <;> simp [hE]

/-- a record belongs to the answer of a (possibly negated) match filter -/
def inAnswer (mf : MatchFilter) (ci : Bool) (v : Bytes) : Bool := matchRaw mf ci (.str v) != mf.negate

/-- negated filters: the rotated-segment check never drops a block (`doCmiChecks` tests `NegateMatch`) -/
theorem bloom_prune_negated_rotated (allCols : Bool) (cols : Cols) (p : Probe) : passRotated allCols cols p true = true := by
  simp [passRotated]

/-- negated filters on OPEN segments: `DoCMICheckForUnrotated` has no such test; a block none of whose records holds the
word — every record of it belongs to the answer of `NOT zzz` — is dropped.  Replayed on the engine (plain, non-dictionary
columns): `NOT zzz` loses the events of such a block while the segment is open and finds them after rotation. -/
theorem unrotated_negated_prune_counterexample :
    ¬ (∀ (mf : MatchFilter) (ci : Bool) (v : Bytes) (b : BloomLike), b.holds (addedKeys v) → inAnswer mf ci v = true →
        passUnrotated [some b] (mf.probe ci) = true) := by
  intro h
  -- NOT zzz against a block holding "ccc"
  have := h { wordFilter [122, 122, 122] with negate := true } false [99, 99, 99] (exact (addedKeys [99, 99, 99]))
    (exact_holds _) (by decide)
  revert this; decide

/-- … sound on open segments too when the filter is not negated (the two theorems above give it for words and phrases) -/
example : inAnswer (wordFilter [99, 99, 99]) false [99, 99, 99] = true := by decide

/-- the in-place variant `addToBlockBloomBothCases` (work buffer = the value; array-dict keys and values): each
lower-casing overwrites the head of the value, so the final "lower-cased full value" is wrong — for "Foo Bar" the key
"bar bar" is added instead of "foo bar", which the flush-path variant does add. -/
theorem inplace_variant_loses_lowercase_value :
    toLower [70, 111, 111, 32, 66, 97, 114] ∈ addedKeys [70, 111, 111, 32, 66, 97, 114] ∧
    toLower [70, 111, 111, 32, 66, 97, 114] ∉ (addedKeysInPlace [70, 111, 111, 32, 66, 97, 114]).1 ∧
    (addedKeysInPlace [70, 111, 111, 32, 66, 97, 114]).2 = [98, 97, 114, 32, 98, 97, 114] := by decide

/-- C03.4 the dictionary path (the predicate once per dictionary word, then all records pointing to the word) selects
exactly the records the per-record path selects, for every dictionary block, record count and predicate -/
theorem dictSearch_eq_perRecord (f : Bytes → Bool) (d : DictRd) (recCount : Nat) :
    dictSearch f d recCount = perRecordSearch f d recCount := by
  unfold dictSearch perRecordSearch
  rw [dictLoop_eq, perRecFrom_eq]
  apply mapIdxFrom_replicate_congr
  intro j; simp

/-- C03.4 for match filters: with at least one match word the two paths agree -/
theorem dictMatch_eq_perRecordMatch (mf : MatchFilter) (ci : Bool) (d : DictRd) (recCount : Nat) (h : mf.words ≠ []) :
    dictMatch mf ci d recCount = perRecordMatch mf ci d recCount := by
  unfold dictMatch perRecordMatch
  have : mf.words.isEmpty = false := by cases hw : mf.words <;> simp_all
  simp only [this, Bool.false_eq_true, if_false]
  exact dictSearch_eq_perRecord _ d recCount

/-- … and WITHOUT match words they do not: `ApplySearchToMatchFilterDictCsg` returns before the loop (nothing
selected) while `ApplySearchToMatchFilterRawCsg` answers true for every record -/
theorem dictMatch_no_words_counterexample :
    ¬ (∀ (mf : MatchFilter) (ci : Bool) (d : DictRd) (recCount : Nat),
        dictMatch mf ci d recCount = perRecordMatch mf ci d recCount) := by
  intro h
  have := h { wordFilter [] with words := [] } false { words := [[0]], recToWord := [0], badRec := false } 1
  revert this; decide

/-- the guard of `dictMatch_eq_perRecordMatch` is satisfiable and the search is not vacuous: "foo" over the dictionary
{"foo x" ↦ records 0 and 2, "bar" ↦ record 1} -/
example : dictMatch (wordFilter [102, 111, 111]) false
    { words := [[SigModel.Tlv.tStr, 5, 0, 102, 111, 111, 32, 120], [SigModel.Tlv.tStr, 3, 0, 98, 97, 114]],
      recToWord := [0, 1, 0], badRec := false } 3 = [true, false, true] := by decide

end SigModel.Props.C03
