/-
C03 — Query answers do not depend on physical layout or acceleration path.  Property theorems only.

Decided by proof here (on kernels REGENERATED from /repo on every run, SigModel/Gen/Range.lean):
soundness of the range micro-index skip rule: if ANY value stored in the block (all stored values
lie within the block's [min, max]) satisfies the comparison, the block is NOT skipped — for all
six operators, all literals and all ranges, for signed, unsigned and float indexes.
The full-strength statement for `!=` must also cover records that LACK the column (they satisfy
`!=` under the engine's rules): that is false — `ne_prune_unsound_with_absent`.
Layout independence as a whole (flush/rotate histories, dictionary vs plain encoding) is decided by
the end-to-end differential (same events under different layouts vs the layout-free specification).
-/
import SigModel.Gen.Range

namespace SigModel.Props.C03
open SigModel.Gen

/-- the comparison `value op literal` for the six operators, by operator code -/
def sat (op : Int) (v lit : Int) : Prop :=
  (op = FilterOperator_Equals ∧ v = lit) ∨ (op = FilterOperator_NotEquals ∧ v ≠ lit) ∨
  (op = FilterOperator_LessThan ∧ v < lit) ∨ (op = FilterOperator_LessThanOrEqualTo ∧ v ≤ lit) ∨
  (op = FilterOperator_GreaterThan ∧ v > lit) ∨ (op = FilterOperator_GreaterThanOrEqualTo ∧ v ≥ lit)

/-- C03.2 (signed) a block holding a satisfying value is never skipped -/
theorem int_range_prune_sound (op lit mn mx v : Int) (h1 : mn ≤ v) (h2 : v ≤ mx) (hs : sat op v lit) :
    doesIntPassRangeFilter op lit mn mx = true := by
  unfold doesIntPassRangeFilter
  unfold sat at hs
  simp only [FilterOperator_Equals, FilterOperator_NotEquals, FilterOperator_LessThan,
    FilterOperator_LessThanOrEqualTo, FilterOperator_GreaterThan, FilterOperator_GreaterThanOrEqualTo] at *
  rcases hs with ⟨ho, hv⟩ | ⟨ho, hv⟩ | ⟨ho, hv⟩ | ⟨ho, hv⟩ | ⟨ho, hv⟩ | ⟨ho, hv⟩ <;> subst ho <;> simp <;> omega

/-- C03.2 (unsigned) -/
theorem uint_range_prune_sound (op lit mn mx v : Int) (h1 : mn ≤ v) (h2 : v ≤ mx) (hs : sat op v lit) :
    doesUintPassRangeFilter op lit mn mx = true := by
  unfold doesUintPassRangeFilter
  unfold sat at hs
  simp only [FilterOperator_Equals, FilterOperator_NotEquals, FilterOperator_LessThan,
    FilterOperator_LessThanOrEqualTo, FilterOperator_GreaterThan, FilterOperator_GreaterThanOrEqualTo] at *
  rcases hs with ⟨ho, hv⟩ | ⟨ho, hv⟩ | ⟨ho, hv⟩ | ⟨ho, hv⟩ | ⟨ho, hv⟩ | ⟨ho, hv⟩ <;> subst ho <;> simp <;> omega

def satQ (op : Int) (v lit : Rat) : Prop :=
  (op = FilterOperator_Equals ∧ v = lit) ∨ (op = FilterOperator_NotEquals ∧ v ≠ lit) ∨
  (op = FilterOperator_LessThan ∧ v < lit) ∨ (op = FilterOperator_LessThanOrEqualTo ∧ v ≤ lit) ∨
  (op = FilterOperator_GreaterThan ∧ v > lit) ∨ (op = FilterOperator_GreaterThanOrEqualTo ∧ v ≥ lit)

/-- C03.2 (float index; finite doubles compare as their exact rational values) -/
theorem float_range_prune_sound (op : Int) (lit mn mx v : Rat) (h1 : mn ≤ v) (h2 : v ≤ mx) (hs : satQ op v lit) :
    doesFloatPassRangeFilter op lit mn mx = true := by
  unfold doesFloatPassRangeFilter
  unfold satQ at hs
  simp only [FilterOperator_Equals, FilterOperator_NotEquals, FilterOperator_LessThan,
    FilterOperator_LessThanOrEqualTo, FilterOperator_GreaterThan, FilterOperator_GreaterThanOrEqualTo] at *
  rcases hs with ⟨ho, hv⟩ | ⟨ho, hv⟩ | ⟨ho, hv⟩ | ⟨ho, hv⟩ | ⟨ho, hv⟩ | ⟨ho, hv⟩ <;> subst ho <;> simp <;> grind

/-- … and the rule is not vacuous: a block whose range excludes the literal IS skipped for `=` -/
example : doesIntPassRangeFilter FilterOperator_Equals 50 1 9 = false := by decide

/-- C03.2 full strength, records may LACK the column: a record without the column satisfies `!=`
(engine rule, see the end-to-end evidence), yet a block whose present values all equal the literal
is skipped.  So the `!=` skip rule can change which events match. -/
theorem ne_prune_unsound_with_absent :
    ¬ (∀ (lit mn mx : Int) (vals : List (Option Int)),
        (∀ v ∈ vals, ∀ x, v = some x → mn ≤ x ∧ x ≤ mx) →
        (∃ v ∈ vals, v = none ∨ ∃ x, v = some x ∧ x ≠ lit) →
        doesIntPassRangeFilter FilterOperator_NotEquals lit mn mx = true) := by
  intro h
  have := h 9 9 9 [some 9, none] (by simp) (by simp)
  revert this
  decide

end SigModel.Props.C03
