/-
C18 — Damaged segment files are detected, never served as data.  Property theorems only.

Part proved here: the checksummed chunk reader (pkg/utils/checksumfile.go) for EVERY chunk list,
EVERY read range, EVERY single-byte change and EVERY truncation, for ANY checksum function.
The statement "an altered byte is detected or the original data is returned" is FALSE as it stands
for the 4 magic bytes of the chunk at file offset 0 (legacy fallback) — see `legacy_fallback_counterexample`
and known_findings.txt; the partial theorem excludes exactly that class.
-/
import SigModel.Model.Checksum
import SigModel.Lemmas.C18
import SigModel.Lemmas.C18b
import SigModel.Model.SegReader
import SigModel.Lemmas.C18E

namespace SigModel.Props.C18
open SigModel.Wal (Bytes le32 rd32 crc32)
open SigModel.Checksum

/-- chunks as the writer produces them -/
def wfChunks (crc : Bytes → Nat) (chunks : List Bytes) : Prop :=
  ∀ c ∈ chunks, c ≠ [] ∧ c.length < 4294967296 ∧ crc c < 4294967296 ∧ (∀ b ∈ c, b < 256)

/-- C18.1 intact file: one ReadAt over chunks [a, a+n) (n ≥ 1) returns exactly their bytes, no error -/
theorem readAt_intact (crc : Bytes → Nat) (chunks : List Bytes) (a n : Nat)
    (hwf : wfChunks crc chunks) (hn : 1 ≤ n) (ha : a + n ≤ chunks.length) :
    readAt crc (fileOf crc chunks) (((chunks.drop a).take n).flatten.length) (chunkStart chunks a)
      = (((chunks.drop a).take n).flatten, false) := by
  exact Lemmas.C18.readAt_intact' crc chunks a n hwf hn ha

/-- what the reader would accept at `off`: magic present and the stored checksum matches the bytes it reads -/
def crcAccident (crc : Bytes → Nat) (f : Bytes) (off : Nat) (orig : Bytes) : Prop :=
  ∃ sum len, readU32At f (off + 4) = some sum ∧ readU32At f (off + 8) = some len ∧
    crc ((f.drop (off + dataOffset)).take len) = sum ∧ (f.drop (off + dataOffset)).take len ≠ orig

/-- C18.2 (partial, guard = not the offset-0 magic): change ANY byte `i ≥ 4` … inside chunk `k`
(header or data).  Reading chunk `k` then fails, or returns the original bytes (only possible when the
new byte equals the old one), or there is a checksum accident. Never silently altered data. -/
theorem readChunk_corrupt_partial (crc : Bytes → Nat) (chunks : List Bytes) (k i b : Nat)
    (hwf : wfChunks crc chunks) (hk : k < chunks.length) (hb : b < 256)
    (hi : chunkStart chunks k ≤ i) (hi2 : i < chunkStart chunks (k + 1))
    (hguard : 4 ≤ i) :
    let f' := (fileOf crc chunks).set i b
    let r := readChunkAt crc f' (chunks[k]!).length (chunkStart chunks k)
    r = Rd.fail ∨ r = Rd.ok (chunks[k]!) ∨ crcAccident crc f' (chunkStart chunks k) (chunks[k]!) := by
  intro f' r
  exact Lemmas.C18.readChunk_corrupt_partial' crc chunks k i b hwf hk hguard r rfl

/-- C18.2 full-strength statement (no guard) is false: damaging the magic of the chunk at offset 0
makes the reader serve the raw header bytes as data, without an error. -/
theorem legacy_fallback_counterexample :
    ¬ (∀ (chunks : List Bytes) (k i b : Nat), wfChunks crc32 chunks → k < chunks.length → b < 256 →
        chunkStart chunks k ≤ i → i < chunkStart chunks (k + 1) →
        let f' := (fileOf crc32 chunks).set i b
        let r := readChunkAt crc32 f' (chunks[k]!).length (chunkStart chunks k)
        r = Rd.fail ∨ r = Rd.ok (chunks[k]!) ∨ crcAccident crc32 f' (chunkStart chunks k) (chunks[k]!)) := by
  intro h
  have hwf : wfChunks crc32 [[1, 2, 3]] := by
    intro c hc
    simp at hc; subst hc
    decide +kernel
  have h' := h [[1, 2, 3]] 0 0 0 hwf (by decide) (by decide) (by decide) (by decide)
  dsimp only at h'
  -- the reader returns `.ok` of the first three (damaged) header bytes
  have hread : readChunkAt crc32 ((fileOf crc32 [[1, 2, 3]]).set 0 0) ([[1, 2, 3]][0]!).length
      (chunkStart [[1, 2, 3]] 0) = Rd.ok [0, 0x43, 0x65] := by decide +kernel
  rw [hread] at h'
  rcases h' with h1 | h2 | ⟨sum, len, _, hl, _, hne⟩
  · exact absurd h1 (by decide)
  · exact absurd h2 (by decide)
  · have hl' : readU32At ((fileOf crc32 [[1, 2, 3]]).set 0 0) (chunkStart [[1, 2, 3]] 0 + 8) = some 3 := by
      decide +kernel
    rw [hl'] at hl
    cases hl
    exact hne (by decide +kernel)

/-- C18.3 truncation: cut the file anywhere strictly inside chunk `k` (so that chunk `k` is incomplete):
reading chunk `k` fails or there is a checksum accident; cutting inside the first 4 bytes of the file
also fails (no fallback: the magic cannot be read). -/
theorem readChunk_truncated (crc : Bytes → Nat) (chunks : List Bytes) (k n : Nat)
    (hwf : wfChunks crc chunks) (hk : k < chunks.length)
    (hn : n < chunkStart chunks (k + 1)) :
    let f' := (fileOf crc chunks).take n
    let r := readChunkAt crc f' (chunks[k]!).length (chunkStart chunks k)
    r = Rd.fail ∨ (∃ d, r = Rd.okEof d ∧ crcAccident crc f' (chunkStart chunks k) (chunks[k]!)) := by
  intro f' r
  exact Lemmas.C18.readChunk_truncated' crc chunks k n hwf hk hn r rfl

/-- C18.4 damage in one chunk does not affect reads of other chunks before it (same file) -/
theorem other_chunks_unaffected (crc : Bytes → Nat) (chunks : List Bytes) (k j i b : Nat)
    (hwf : wfChunks crc chunks) (hk : k < chunks.length) (hj : j < k)
    (hi : chunkStart chunks k ≤ i) (hi2 : i < chunkStart chunks (k + 1)) :
    readChunkAt crc ((fileOf crc chunks).set i b) (chunks[j]!).length (chunkStart chunks j) = Rd.ok (chunks[j]!) := by
  exact Lemmas.C18.other_chunks_unaffected' crc chunks k j i b hwf hk hj hi

/-- non-vacuity of the guard and hypotheses -/
example : wfChunks crc32 [[1, 2, 3], [9]] ∧ chunkStart [[1, 2, 3], [9]] 1 = 15 := by
  refine ⟨?_, by decide⟩
  intro c hc
  simp at hc
  rcases hc with rfl | rfl <;> decide +kernel


/-! ## The reader state above the chunk reader (SigModel.SegReader)

`SegmentFileReader` re-uses its buffers and skips the load when its state says "block b is loaded".  The chunk
reader theorems above say that a damaged chunk is not RETURNED as data; the theorems below say when the reader
that sits on top of it cannot serve one block's records as another block's.  `load b` is any function telling what
a load attempt of block `b` does (`loadOf` builds it from `readAt`); the statements hold for every file, every
damage, every decoder. -/
section ReaderState
open SigModel.SegReader

/-- FULL statement: for every load behaviour (every file, every damage) and every sequence of
`ValidateAndReadBlock` / `IsBlkDictEncoded` / `ReadRecord` calls on a fresh reader, a record read for block `b`
that returns bytes returns record `i` of the verified contents of block `b`. -/
def ReaderNeverServesOtherBlock (rb : (Nat → Load) → St → Nat → St × RB) : Prop :=
  ∀ (load : Nat → Load) (ops : List Op), ServesOnlyRequestedBlock (rb load) load St.init ops

/-- C18.5 the FULL statement holds for the code as it is: `readBlock` clears `isBlockLoaded` when the load fails
(repair c18-1), so whatever a failed attempt leaves in the re-used buffers is never served — the next request for
any block reads it again.  For every load behaviour (every file, damage, decoder, buffers clobbered by failed
attempts included) and EVERY call sequence.  The statement order of `readBlock` is tied to the source by the
fact `readBlock.order`. -/
theorem reader_never_serves_other_block : ReaderNeverServesOtherBlock readBlock := by
  intro load ops
  exact Lemmas.C18E.run_spec (Lemmas.C18E.readBlock_good load) ops St.init (Lemmas.C18E.inv_init load)

/-- C18.5 (Old) the full statement was FALSE before the repair: `loadBlockUsingBuffer` reads the chunk into the
re-used file buffer before the checksum is compared, dictionary words are slices of that buffer, and a failed
attempt left `isBlockLoaded`/`currBlockNum` pointing at the block loaded before.  Load block 0, fail on block 1,
ask for block 0 again: the load was skipped and the clobbered buffer served.  (Replayed on the real reader before
the repair: kernel suite `segreader`, class `segreader/stale-buffer-served-after-failed-load/dict`.) -/
theorem reader_never_serves_other_block_old_counterexample : ¬ ReaderNeverServesOtherBlock readBlockOld := by
  intro h
  let load : Nat → Load := fun b => if b = 1 then .fail (fun _ => [[9]]) else .ok [[1]]
  have hg := h load [.ld 0, .ld 1, .rd 0 0] 2 0 0 [9] rfl rfl
  obtain ⟨c, hc, hi⟩ := hg
  have : c = [[1]] := by
    have : load 0 = .ok [[1]] := rfl
    rw [this] at hc; cases hc; rfl
  subst this
  simp at hi

/-- C18.5 (Old, partial) what did hold before the repair: under the guard `noStaleReturn` (the sequence never asks
for the block recorded as loaded after a failed attempt on another block — what the search path does), for every
load behaviour. -/
theorem reader_never_serves_other_block_old_partial (load : Nat → Load) (ops : List Op)
    (hguard : noStaleReturn load St.init false ops = true) :
    ServesOnlyRequestedBlock (readBlockOld load) load St.init ops :=
  Lemmas.C18E.guarded_run load ops St.init false (by intro h; simp [St.init] at h) hguard

/-- C18.5 (Old) … and without a guard on the calls only when failed attempts left the served buffers alone. -/
theorem reader_never_serves_other_block_old_of_failKeeps (load : Nat → Load) (hkeep : FailKeeps load) (ops : List Op) :
    ServesOnlyRequestedBlock (readBlockOld load) load St.init ops :=
  Lemmas.C18E.run_spec (Lemmas.C18E.readBlockOld_good hkeep) ops St.init (Lemmas.C18E.inv_init load)

/-- C18.6 why the ORDER inside `readBlock` mattered in the old code: with the block number recorded before the
error check and `isBlockLoaded` left alone (seeded change on the old code), even a reader whose failed attempts
leave the buffers alone, on a call sequence that satisfies the guard, serves block 0's record as a record of the
damaged block 1 (probe, then read — what the filter path does for every block). -/
theorem record_before_check_counterexample :
    ¬ (∀ (load : Nat → Load), FailKeeps load → ∀ ops : List Op, noStaleReturn load St.init false ops = true →
        ServesOnlyRequestedBlock (readBlockEarly load) load St.init ops) := by
  intro h
  let load : Nat → Load := fun b => if b = 1 then .fail id else .ok [[7]]
  have hk : FailKeeps load := by
    intro b cl hb c
    by_cases h1 : b = 1
    · subst h1
      have : load 1 = .fail id := rfl
      rw [this] at hb; cases hb; rfl
    · have : load b = .ok [[7]] := by simp [load, h1]
      rw [this] at hb; cases hb
  have hg := h load hk [.ld 0, .pr 1, .rd 1 0] (by decide) 2 1 0 [7] rfl rfl
  obtain ⟨c, hc, _⟩ := hg
  have : load 1 = .fail id := rfl
  rw [this] at hc; cases hc

/-- C18.7 a record that `loadOf` hands to the reader state comes out of `decode` applied to bytes that the chunk
reader returned WITHOUT an error for exactly that block's offset and length (so that C18.2/C18.3 apply to it). -/
theorem served_record_is_from_verified_chunk (crc : Bytes → Nat) (f : Bytes) (metas : List BlkMeta)
    (decode : Bytes → Option Contents) (clob : Nat → Contents → Contents) (b i : Nat) (r : Bytes)
    (h : Genuine (loadOf crc f metas decode clob) b i r) :
    ∃ m d c, metas[b]? = some m ∧ readAt crc f m.len m.off = (d, false) ∧ decode d = some c ∧ c[i]? = some r := by
  obtain ⟨c, hc, hi⟩ := h
  unfold loadOf at hc
  cases hm : metas[b]? with
  | none => rw [hm] at hc; simp at hc
  | some m =>
    rw [hm] at hc
    simp only at hc
    by_cases hz : m.len = 0
    · simp [hz] at hc
    · rw [if_neg hz] at hc
      rcases hr : readAt crc f m.len m.off with ⟨d, e⟩
      rw [hr] at hc
      cases e with
      | true => simp at hc
      | false =>
        simp only at hc
        cases hd : decode d with
        | none => rw [hd] at hc; simp at hc
        | some c' =>
          rw [hd] at hc
          simp at hc
          subst hc
          exact ⟨m, d, c', rfl, hr, hd, hi⟩

/-- C18.8 timestamp reader: as long as the chunk reader never passes an `io.EOF` through (`NoEof`: it does not for
a truncated chunk, C18.3, modulo a checksum accident), every timestamp served for block `b` is a timestamp of the
verified contents of block `b`, for every sequence of `GetTimeStampForRecord` calls. -/
theorem timereader_never_serves_other_block (load : Nat → TLoad) (hne : NoEof load) (ops : List (Nat × Nat)) :
    TsServesOnlyRequestedBlock load TSt.init ops :=
  Lemmas.C18E.ts_run load hne ops TSt.init (by intro h; simp [TSt.init] at h)

/-- C18.8 the hypothesis is needed: `readAllTimestampsForBlock` treats `io.EOF` as success without decoding, so a
chunk reader that reports a cut-short chunk as `(n, io.EOF)` (seeded change) makes the reader serve the previously
loaded block's timestamps. -/
theorem timereader_eof_counterexample :
    ¬ (∀ (load : Nat → TLoad) (ops : List (Nat × Nat)), TsServesOnlyRequestedBlock load TSt.init ops) := by
  intro h
  let load : Nat → TLoad := fun b => if b = 1 then .eof else .ok [5]
  have hg := h load [(0, 0), (1, 0)] 1 1 0 5 rfl rfl
  obtain ⟨c, hc, _⟩ := hg
  have : load 1 = .eof := rfl
  rw [this] at hc; cases hc

/-- non-vacuity of the guard of the Old theorem: a sequence over a file with a damaged block 1 that probes and reads the damaged
block and later comes back to block 0 after another successful load satisfies it -/
example : noStaleReturn (fun b => if b = 1 then Load.fail (fun _ => [[9]]) else Load.ok [[b]]) St.init false
    [.ld 0, .pr 1, .rd 1 0, .rd 2 0, .rd 0 0] = true := by decide

/-- … and the guard is not always true: coming straight back to block 0 violates it -/
example : noStaleReturn (fun b => if b = 1 then Load.fail (fun _ => [[9]]) else Load.ok [[b]]) St.init false
    [.ld 0, .pr 1, .rd 0 0] = false := by decide

end ReaderState

end SigModel.Props.C18
