/-
C18 — Damaged segment files are detected, never served as data.  Property theorems only.

Part proved here: the checksummed chunk reader (pkg/utils/checksumfile.go) for EVERY chunk list,
EVERY read range, EVERY single-byte change and EVERY truncation, for ANY checksum function.
The statement "an altered byte is detected or the original data is returned" is FALSE as it stands
for the 4 magic bytes of the chunk at file offset 0 (legacy fallback) — see `legacy_fallback_counterexample`
and known_findings.txt; the partial theorem excludes exactly that class.
-/
import SigModel.Model.Checksum
import SigModel.Lemmas.C18
import SigModel.Lemmas.C18b

namespace SigModel.Props.C18
open SigModel.Wal (Bytes le32 rd32 crc32)
open SigModel.Checksum

/-- chunks as the writer produces them -/
def wfChunks (crc : Bytes → Nat) (chunks : List Bytes) : Prop :=
  ∀ c ∈ chunks, c ≠ [] ∧ c.length < 4294967296 ∧ crc c < 4294967296 ∧ (∀ b ∈ c, b < 256)

/-- C18.1 intact file: one ReadAt over chunks [a, a+n) (n ≥ 1) returns exactly their bytes, no error -/
theorem readAt_intact (crc : Bytes → Nat) (chunks : List Bytes) (a n : Nat)
    (hwf : wfChunks crc chunks) (hn : 1 ≤ n) (ha : a + n ≤ chunks.length) :
    readAt crc (fileOf crc chunks) (((chunks.drop a).take n).flatten.length) (chunkStart chunks a)
      = (((chunks.drop a).take n).flatten, false) := by
  exact Lemmas.C18.readAt_intact' crc chunks a n hwf hn ha

/-- what the reader would accept at `off`: magic present and the stored checksum matches the bytes it reads -/
def crcAccident (crc : Bytes → Nat) (f : Bytes) (off : Nat) (orig : Bytes) : Prop :=
  ∃ sum len, readU32At f (off + 4) = some sum ∧ readU32At f (off + 8) = some len ∧
    crc ((f.drop (off + dataOffset)).take len) = sum ∧ (f.drop (off + dataOffset)).take len ≠ orig

/-- C18.2 (partial, guard = not the offset-0 magic): change ANY byte `i ≥ 4` … inside chunk `k`
(header or data).  Reading chunk `k` then fails, or returns the original bytes (only possible when the
new byte equals the old one), or there is a checksum accident. Never silently altered data. -/
theorem readChunk_corrupt_partial (crc : Bytes → Nat) (chunks : List Bytes) (k i b : Nat)
    (hwf : wfChunks crc chunks) (hk : k < chunks.length) (hb : b < 256)
    (hi : chunkStart chunks k ≤ i) (hi2 : i < chunkStart chunks (k + 1))
    (hguard : 4 ≤ i) :
    let f' := (fileOf crc chunks).set i b
    let r := readChunkAt crc f' (chunks[k]!).length (chunkStart chunks k)
    r = Rd.fail ∨ r = Rd.ok (chunks[k]!) ∨ crcAccident crc f' (chunkStart chunks k) (chunks[k]!) := by
  intro f' r
  exact Lemmas.C18.readChunk_corrupt_partial' crc chunks k i b hwf hk hguard r rfl

/-- C18.2 full-strength statement (no guard) is false: damaging the magic of the chunk at offset 0
makes the reader serve the raw header bytes as data, without an error. -/
theorem legacy_fallback_counterexample :
    ¬ (∀ (chunks : List Bytes) (k i b : Nat), wfChunks crc32 chunks → k < chunks.length → b < 256 →
        chunkStart chunks k ≤ i → i < chunkStart chunks (k + 1) →
        let f' := (fileOf crc32 chunks).set i b
        let r := readChunkAt crc32 f' (chunks[k]!).length (chunkStart chunks k)
        r = Rd.fail ∨ r = Rd.ok (chunks[k]!) ∨ crcAccident crc32 f' (chunkStart chunks k) (chunks[k]!)) := by
  intro h
  have hwf : wfChunks crc32 [[1, 2, 3]] := by
    intro c hc
    simp at hc; subst hc
    decide +kernel
  have h' := h [[1, 2, 3]] 0 0 0 hwf (by decide) (by decide) (by decide) (by decide)
  dsimp only at h'
  -- the reader returns `.ok` of the first three (damaged) header bytes
  have hread : readChunkAt crc32 ((fileOf crc32 [[1, 2, 3]]).set 0 0) ([[1, 2, 3]][0]!).length
      (chunkStart [[1, 2, 3]] 0) = Rd.ok [0, 0x43, 0x65] := by decide +kernel
  rw [hread] at h'
  rcases h' with h1 | h2 | ⟨sum, len, _, hl, _, hne⟩
  · exact absurd h1 (by decide)
  · exact absurd h2 (by decide)
  · have hl' : readU32At ((fileOf crc32 [[1, 2, 3]]).set 0 0) (chunkStart [[1, 2, 3]] 0 + 8) = some 3 := by
      decide +kernel
    rw [hl'] at hl
    cases hl
    exact hne (by decide +kernel)

/-- C18.3 truncation: cut the file anywhere strictly inside chunk `k` (so that chunk `k` is incomplete):
reading chunk `k` fails or there is a checksum accident; cutting inside the first 4 bytes of the file
also fails (no fallback: the magic cannot be read). -/
theorem readChunk_truncated (crc : Bytes → Nat) (chunks : List Bytes) (k n : Nat)
    (hwf : wfChunks crc chunks) (hk : k < chunks.length)
    (hn : n < chunkStart chunks (k + 1)) :
    let f' := (fileOf crc chunks).take n
    let r := readChunkAt crc f' (chunks[k]!).length (chunkStart chunks k)
    r = Rd.fail ∨ (∃ d, r = Rd.okEof d ∧ crcAccident crc f' (chunkStart chunks k) (chunks[k]!)) := by
  intro f' r
  exact Lemmas.C18.readChunk_truncated' crc chunks k n hwf hk hn r rfl

/-- C18.4 damage in one chunk does not affect reads of other chunks before it (same file) -/
theorem other_chunks_unaffected (crc : Bytes → Nat) (chunks : List Bytes) (k j i b : Nat)
    (hwf : wfChunks crc chunks) (hk : k < chunks.length) (hj : j < k)
    (hi : chunkStart chunks k ≤ i) (hi2 : i < chunkStart chunks (k + 1)) :
    readChunkAt crc ((fileOf crc chunks).set i b) (chunks[j]!).length (chunkStart chunks j) = Rd.ok (chunks[j]!) := by
  exact Lemmas.C18.other_chunks_unaffected' crc chunks k j i b hwf hk hj hi

/-- non-vacuity of the guard and hypotheses -/
example : wfChunks crc32 [[1, 2, 3], [9]] ∧ chunkStart [[1, 2, 3], [9]] 1 = 15 := by
  refine ⟨?_, by decide⟩
  intro c hc
  simp at hc
  rcases hc with rfl | rfl <;> decide +kernel

end SigModel.Props.C18
