/-
C02 — Search filters select exactly the events that satisfy them.  Property theorems only.

Decided by proof here (on kernels REGENERATED from /repo on every run, SigModel/Gen/TimeRange.lean):
the query-time-range tests — a record is kept iff its timestamp lies in the inclusive query range,
and a block is visited iff its [earliest, latest] range intersects the query range — for ALL
timestamps and ranges.  The comparison/boolean part of C02 is decided by the end-to-end differential
against the Lean specification (SigModel/Spec/Logs.lean) — see evidence and known_findings.txt.
-/
import SigModel.Gen.TimeRange
import SigModel.Spec.Logs

namespace SigModel.Props.C02
open SigModel.Gen SigModel.Spec

/-- C02.4a record-level time filter = membership in the inclusive range -/
theorem checkInRange_iff (s e t : Int) :
    TimeRange_CheckInRange e s t = true ↔ (s ≤ t ∧ t ≤ e) := by
  unfold TimeRange_CheckInRange
  split <;> simp_all

/-- C02.4b block-level time filter = the block's range intersects the query range (never skips a
block that holds a record in range, never visits a disjoint one), for well-formed ranges -/
theorem overlap_iff (s e lo hi : Int) (hq : s ≤ e) (hb : lo ≤ hi) :
    TimeRange_CheckRangeOverLap e s lo hi = true ↔ ¬ (hi < s ∨ e < lo) := by
  unfold TimeRange_CheckRangeOverLap
  split <;> rename_i h <;> simp at h ⊢ <;> omega

/-- hence: a record in range forces its block to be visited (time pruning is sound) -/
theorem time_prune_sound (s e lo hi t : Int) (hb1 : lo ≤ t) (hb2 : t ≤ hi)
    (hin : TimeRange_CheckInRange e s t = true) :
    TimeRange_CheckRangeOverLap e s lo hi = true := by
  have h := (checkInRange_iff s e t).mp hin
  exact (overlap_iff s e lo hi (by omega) (by omega)).mpr (by omega)

/-- same for the metrics (second-resolution) ranges -/
theorem metrics_overlap_iff (s e lo hi : Int) (hq : s ≤ e) (hb : lo ≤ hi) :
    MetricsTimeRange_CheckRangeOverLap e s lo hi = true ↔ ¬ (hi < s ∨ e < lo) := by
  unfold MetricsTimeRange_CheckRangeOverLap
  split <;> rename_i h <;> simp at h ⊢ <;> omega

/-- SPEC-level facts used by the differential: on events that HAVE the compared fields the
specification's AND / OR / NOT are intersection / union / complement (two-valued). -/
theorem spec_and_or_not (e : Event) (a b : Filter) :
    (evalFilter e (.and a b)).1 = (evalFilter e a).1.and (evalFilter e b).1 ∧
    (evalFilter e (.or a b)).1 = (evalFilter e a).1.or (evalFilter e b).1 := by
  simp [evalFilter, evalFilterAux]

example : TimeRange_CheckRangeOverLap 20 10 5 12 = true ∧ TimeRange_CheckRangeOverLap 20 10 1 9 = false := by decide

end SigModel.Props.C02
