/-
C02 — Search filters select exactly the events that satisfy them.  Property theorems only.

Decided by proof here (on kernels REGENERATED from /repo on every run, SigModel/Gen/TimeRange.lean):
the query-time-range tests — a record is kept iff its timestamp lies in the inclusive query range,
and a block is visited iff its [earliest, latest] range intersects the query range — for ALL
timestamps and ranges.  The comparison/boolean part of C02 is decided by the end-to-end differential
against the Lean specification (SigModel/Spec/Logs.lean) — see evidence and known_findings.txt.
-/
import SigModel.Gen.TimeRange
import SigModel.Spec.Logs
import SigModel.Lemmas.C02Kd
import SigModel.Lemmas.C02Sub
import SigModel.Lemmas.SegSelect

namespace SigModel.Props.C02
open SigModel.Gen SigModel.Spec

/-- C02.4a record-level time filter = membership in the inclusive range -/
theorem checkInRange_iff (s e t : Int) :
    TimeRange_CheckInRange e s t = true ↔ (s ≤ t ∧ t ≤ e) := by
  unfold TimeRange_CheckInRange
  split <;> simp_all

/-- C02.4b block-level time filter = the block's range intersects the query range (never skips a
block that holds a record in range, never visits a disjoint one), for well-formed ranges -/
theorem overlap_iff (s e lo hi : Int) (hq : s ≤ e) (hb : lo ≤ hi) :
    TimeRange_CheckRangeOverLap e s lo hi = true ↔ ¬ (hi < s ∨ e < lo) := by
  unfold TimeRange_CheckRangeOverLap
  split <;> rename_i h <;> simp at h ⊢ <;> omega

/-- hence: a record in range forces its block to be visited (time pruning is sound) -/
theorem time_prune_sound (s e lo hi t : Int) (hb1 : lo ≤ t) (hb2 : t ≤ hi)
    (hin : TimeRange_CheckInRange e s t = true) :
    TimeRange_CheckRangeOverLap e s lo hi = true := by
  have h := (checkInRange_iff s e t).mp hin
  exact (overlap_iff s e lo hi (by omega) (by omega)).mpr (by omega)

/-- same for the metrics (second-resolution) ranges -/
theorem metrics_overlap_iff (s e lo hi : Int) (hq : s ≤ e) (hb : lo ≤ hi) :
    MetricsTimeRange_CheckRangeOverLap e s lo hi = true ↔ ¬ (hi < s ∨ e < lo) := by
  unfold MetricsTimeRange_CheckRangeOverLap
  split <;> rename_i h <;> simp at h ⊢ <;> omega

/-- SPEC-level facts used by the differential: on events that HAVE the compared fields the
specification's AND / OR / NOT are intersection / union / complement (two-valued). -/
theorem spec_and_or_not (e : Event) (a b : Filter) :
    (evalFilter e (.and a b)).1 = (evalFilter e a).1.and (evalFilter e b).1 ∧
    (evalFilter e (.or a b)).1 = (evalFilter e a).1.or (evalFilter e b).1 := by
  simp [evalFilter, evalFilterAux]

example : TimeRange_CheckRangeOverLap 20 10 5 12 = true ∧ TimeRange_CheckRangeOverLap 20 10 1 9 = false := by decide


/-! ## Kernel slice C02K: the typed comparison of a stored value with a numeric literal

Model `SigModel/Model/Cmp.lean` (mirrors rawchecker.go filterOpOnDataType → fopOnNumber → compareNumberDte,
segutils.go enclosureFromJsonNumber, metacheckers.go checkRangeIndexHelper, evaluationstructs.go / dtypeutils.go
where-stage comparison — the code AFTER the C02 repairs: exact float64 `=`/`!=`, unsigned literal above MaxInt64
against a signed record, ConvertToSameType keeping the values when a conversion fails, a string record that reads as a
number compared as that float64 (c02-4), a back-fill record against a string / bool literal treated like the empty
record of a block without the column (c02-1)), tied to the real code by the correspondence suite `cmpk`.  `rnd` is the float64 rounding (`strconv.ParseFloat`, `float64(int)`); the theorems
hold for EVERY `rnd` with `RndOk rnd` (rnd 0 = 0, idempotent, fixes binary64 values); exactness of `rnd` on a
converted integer is part of the guards and holds within ±2^53 (`Exact53`).  Counterexamples use the Oracle's
concrete round-to-nearest-even `roundF64` and are replayed on the real code (corpus/cmpk.ops).  Definitions named
`…Old` are the code before the repairs; their counterexample theorems are kept for the record. -/

section Kernel
open SigModel.Cmp SigModel.Tlv SigModel.Lemmas.C02K

/-- (1) FULL-strength statement: for every stored value `v` of the writer's kinds, every operator and every number
text `t`, the search-clause comparison on the record bytes answers without error exactly the comparison BY VALUE
(`specCmp`: integers and float64 records denote their exact values, a string in number syntax the float64 it
reads as, an integer literal its integer, any other literal the float64 it parses to; a value that is not a
number satisfies only `!=`). -/
def ImplEqSpec (rnd : Rat → Rat) : Prop :=
  ∀ (ci : Bool) (v : SVal) (op : Cmp.Op) (t : NumText), v.wf → t.wf →
    implCmp rnd ci v.enc op (mkLit rnd t) = .ok (specCmp rnd v op (mkLit rnd t))

/-- REFUTED, class B: the stored int64 2^53+1 is not `>` the literal 9007199254740992.0 in the code
(`float64(record)` drops the low bit). -/
theorem implCmp_eq_spec_counterexample_int_beyond_2_53 : ¬ ImplEqSpec roundF64 := by
  intro h
  have := h false (.int 9007199254740993) .gt ⟨false, none, none, 9007199254740992⟩ (by decide) (by decide)
  revert this; decide +kernel

/-- REFUTED, class C: the stored float64 2^63 `=` the integer literal 9223372036854775807 in the code
(the literal's FloatVal is rounded). -/
theorem implCmp_eq_spec_counterexample_lit_beyond_2_53 : ¬ ImplEqSpec roundF64 := by
  intro h
  have := h false (.float 0x43e0000000000000) .eq
    ⟨false, some 9223372036854775807, some 9223372036854775807, 9223372036854775807⟩ (by decide) (by decide)
  revert this; decide +kernel

/-- REFUTED, class D (latent: no ingest path stores uint64 records): the stored uint64 0 is `<` the literal -1000
in the code (`uint64(-1000)` wraps). -/
theorem implCmp_eq_spec_counterexample_uint_vs_negative : ¬ ImplEqSpec roundF64 := by
  intro h
  have := h false (.uint 0) .lt ⟨true, none, some (-1000), -1000⟩ (by decide) (by decide)
  revert this; decide +kernel

/-- class C on a numeric STRING (the record is the float64 the text reads as, since repair c02-4): the stored text
"9223372036854775808" `=` the integer literal 9223372036854775807 in the code. -/
theorem implCmp_eq_spec_counterexample_numeric_string_lit_beyond_2_53 : ¬ ImplEqSpec roundF64 := by
  intro h
  have := h false (.str [57, 50, 50, 51, 51, 55, 50, 48, 51, 54, 56, 53, 52, 55, 55, 53, 56, 48, 56]) .eq
    ⟨false, some 9223372036854775807, some 9223372036854775807, 9223372036854775807⟩ (by decide) (by decide)
  revert this; decide +kernel

/-- the decidable guard that excludes exactly the classes B, C, D (`cmpGuardQ`, SigModel/Lemmas/C02Kb.lean):
integers that float64 does not represent exactly when a float comparison is made (the record for a float-typed
literal; an integer literal for a float64 record or a numeric string), an unsigned record against a negative
integer literal -/
def CmpGuard (rnd : Rat → Rat) (v : SVal) (op : Cmp.Op) (t : NumText) : Bool := cmpGuardQ rnd v op (mkLit rnd t)

/-- (1) PROVED under the guard, for every rounding function with `RndOk`, every stored value, operator, literal
text and case-sensitivity flag: the search-clause comparison is the comparison by value. -/
theorem implCmp_eq_spec_partial (rnd : Rat → Rat) (hr : RndOk rnd) (ci : Bool) (v : SVal) (op : Cmp.Op) (t : NumText)
    (hv : v.wf) (ht : t.wf) (hg : CmpGuard rnd v op t = true) :
    implCmp rnd ci v.enc op (mkLit rnd t) = .ok (specCmp rnd v op (mkLit rnd t)) :=
  impl_eq_spec_q rnd hr ci v hv op _ (mkLit_ok rnd hr t ht) hg

/-- the case repaired by /repo ec0bd3f, at full generality: an integer record that float64 represents exactly
(every |i| ≤ 2^53) against ANY float-typed literal (2.5, 2.0, 1e3, +2, …) under all six operators is compared by
value. -/
theorem int_vs_decimal_by_value (rnd : Rat → Rat) (hr : RndOk rnd) (ci : Bool) (i : Int) (op : Cmp.Op) (t : NumText)
    (hv : (SVal.int i).wf) (ht : t.wf) (hex : rnd (i : Rat) = (i : Rat)) (hf : (mkLit rnd t).dtype = .float) :
    implCmp rnd ci (SVal.int i).enc op (mkLit rnd t) = .ok (specCmp rnd (.int i) op (mkLit rnd t)) := by
  apply implCmp_eq_spec_partial rnd hr ci _ op t hv ht
  simp [CmpGuard, cmpGuardQ, hf, hex]

/-- an int64 record against an integer literal of ANY size (negative, below 2^63, in [2^63, 2^64)) is compared by
value — no guard (the [2^63, 2^64) part is the C02 repair of the wrapped SignedVal). -/
theorem int_vs_int_literal_by_value (rnd : Rat → Rat) (hr : RndOk rnd) (ci : Bool) (i : Int) (op : Cmp.Op) (t : NumText)
    (hv : (SVal.int i).wf) (ht : t.wf) (hf : (mkLit rnd t).dtype ≠ .float) :
    implCmp rnd ci (SVal.int i).enc op (mkLit rnd t) = .ok (specCmp rnd (.int i) op (mkLit rnd t)) := by
  apply implCmp_eq_spec_partial rnd hr ci _ op t hv ht
  cases hd : (mkLit rnd t).dtype <;> simp_all [CmpGuard, cmpGuardQ]

/-- a float64 record against ANY float-typed literal is compared by value, `=` and `!=` included — no guard (the
C02 repair of the AlmostEquals tolerance). -/
theorem float_vs_decimal_by_value (rnd : Rat → Rat) (hr : RndOk rnd) (ci : Bool) (b : Nat) (op : Cmp.Op) (t : NumText)
    (hv : (SVal.float b).wf) (ht : t.wf) (hf : (mkLit rnd t).dtype = .float) :
    implCmp rnd ci (SVal.float b).enc op (mkLit rnd t) = .ok (specCmp rnd (.float b) op (mkLit rnd t)) := by
  apply implCmp_eq_spec_partial rnd hr ci _ op t hv ht
  simp [CmpGuard, cmpGuardQ, hf]

/-- repair c02-4, at full generality: a stored STRING — numeric text of any spelling the engine reads as a number,
or any other text — against ANY float-typed literal, and against every integer literal that float64 represents
exactly (every |n| ≤ 2^53), under all six operators: a numeric text is compared by the value it reads as, any other
text satisfies only `!=`. -/
theorem string_vs_number_by_value (rnd : Rat → Rat) (hr : RndOk rnd) (ci : Bool) (s : Bytes) (op : Cmp.Op) (t : NumText)
    (hv : (SVal.str s).wf) (ht : t.wf)
    (hex : (mkLit rnd t).dtype = .float ∨ rnd t.val = t.val) :
    implCmp rnd ci (SVal.str s).enc op (mkLit rnd t) = .ok (specCmp rnd (.str s) op (mkLit rnd t)) := by
  apply implCmp_eq_spec_partial rnd hr ci _ op t hv ht
  simp only [CmpGuard, cmpGuardQ]
  cases hn : numOfStr? s with
  | none => rfl
  | some a =>
    cases hd : (mkLit rnd t).dtype <;> simp [hd] at hex ⊢
    · rw [← mkLit_signed_val rnd t ht hd]; exact hex
    · rcases mkLit_unsigned_val rnd t ht hd with h0 | hval
      · rw [h0]; simpa using hr.zero
      · rw [← hval]; exact hex

/-- the assumptions on `rnd` are consistent, and the closed one holds for the Oracle's rounding -/
example : RndOk (fun x => x) := ⟨rfl, fun _ => rfl, fun _ _ => rfl⟩
theorem roundF64_zero : roundF64 0 = 0 := by decide +kernel

/-- the guard is satisfiable — including the inputs the repairs brought in: 2.00001 = 2 on a float64 record,
5 < 9223372036854775808 on an int64 record -/
example : CmpGuard roundF64 (.int 2) .lt ⟨false, none, none, 5 / 2⟩ = true ∧
    CmpGuard roundF64 (.int 2) .eq ⟨false, none, none, 2⟩ = true ∧
    CmpGuard roundF64 (.float 0x3fb999999999999a) .eq ⟨false, none, none, 1 / 10⟩ = true ∧
    CmpGuard roundF64 (.float 0x400000053e2d6239) .eq ⟨false, some 2, some 2, 2⟩ = true ∧
    CmpGuard roundF64 (.int 5) .lt ⟨false, some 9223372036854775808, none, 9223372036854775808⟩ = true := by
  decide +kernel

/-- regression witnesses of the two repaired search-clause classes on the fixed model -/
example : implCmp roundF64 false (SVal.float 0x400000053e2d6239).enc .eq (mkLit roundF64 ⟨false, some 2, some 2, 2⟩) = .ok false ∧
    implCmp roundF64 false (SVal.int 5).enc .lt
      (mkLit roundF64 ⟨false, some 9223372036854775808, none, 9223372036854775808⟩) = .ok true := by decide +kernel

/-- the search clause BEFORE the C02 repairs (tolerance-based float equality, wrapped literal in the signed branch) -/
def ImplEqSpecOld (rnd : Rat → Rat) : Prop :=
  ∀ (v : SVal) (op : Cmp.Op) (t : NumText), v.wf → t.wf →
    fopOnNumberOld rnd v.enc (mkLit rnd t) op = .ok (specCmp rnd v op (mkLit rnd t))

/-- for the record, class A (REPAIRED): the stored float64 2.00001 `=` literal 2 was true (AlmostEquals, 1e-4). -/
theorem implCmpOld_eq_spec_counterexample_tolerance : ¬ ImplEqSpecOld roundF64 := by
  intro h
  have := h (.float 0x400000053e2d6239) .eq ⟨false, some 2, some 2, 2⟩ (by decide) (by decide)
  revert this; decide +kernel

/-- for the record, class E (REPAIRED): the stored int64 5 was not `<` the literal 9223372036854775808
(`int64(2^63)` wraps to -2^63). -/
theorem implCmpOld_eq_spec_counterexample_lit_beyond_int64 : ¬ ImplEqSpecOld roundF64 := by
  intro h
  have := h (.int 5) .lt ⟨false, some 9223372036854775808, none, 9223372036854775808⟩ (by decide) (by decide)
  revert this; decide +kernel

/-- the search clause BEFORE repair c02-4 only (a string record is never a number) -/
def ImplEqSpecStrOld (rnd : Rat → Rat) : Prop :=
  ∀ (v : SVal) (op : Cmp.Op) (t : NumText), v.wf → t.wf →
    fopOnNumberStrOld rnd v.enc (mkLit rnd t) op = .ok (specCmp rnd v op (mkLit rnd t))

/-- for the record, class F (REPAIRED by c02-4): the stored string "2" was not `=` the literal 2 (numeric strings
were "not a number" for `fopOnNumber`: only `!=` held), while `| where` and the statistics read it as 2. -/
theorem implCmpStrOld_eq_spec_counterexample_numeric_string : ¬ ImplEqSpecStrOld roundF64 := by
  intro h
  have := h (.str [50]) .eq ⟨false, some 2, some 2, 2⟩ (by decide) (by decide)
  revert this; decide +kernel

/-- regression witnesses of repair c02-4 on the fixed model: "2" = 2, "2.5" > 2, "1.0" = 1, "1e3" = 1000, "+5" = 5,
"abc" satisfies only `!=` -/
example : implCmp roundF64 false (SVal.str [50]).enc .eq (mkLit roundF64 ⟨false, some 2, some 2, 2⟩) = .ok true ∧
    implCmp roundF64 false (SVal.str [50, 46, 53]).enc .gt (mkLit roundF64 ⟨false, some 2, some 2, 2⟩) = .ok true ∧
    implCmp roundF64 false (SVal.str [49, 46, 48]).enc .eq (mkLit roundF64 ⟨false, some 1, some 1, 1⟩) = .ok true ∧
    implCmp roundF64 false (SVal.str [49, 101, 51]).enc .eq (mkLit roundF64 ⟨false, some 1000, some 1000, 1000⟩) = .ok true ∧
    implCmp roundF64 false (SVal.str [43, 53]).enc .ne (mkLit roundF64 ⟨false, some 5, some 5, 5⟩) = .ok false ∧
    implCmp roundF64 false (SVal.str [97, 98, 99]).enc .ne (mkLit roundF64 ⟨false, some 5, some 5, 5⟩) = .ok true ∧
    implCmp roundF64 false (SVal.str [97, 98, 99]).enc .eq (mkLit roundF64 ⟨false, some 5, some 5, 5⟩) = .ok false := by
  decide +kernel

/-- repair c02-1: against a string or boolean literal a BACK-FILL record (the event does not have the column, the
block does) answers exactly like the empty record of a block that does not have the column at all — `=` no,
`!=` yes — so whether an event lacking the field satisfies `!=` no longer depends on what else its block holds. -/
theorem backfill_record_like_absent_column (rnd : Rat → Rat) (ci : Bool) (op : Cmp.Op) (q : Cmp.Lit)
    (hq : q.dtype = .str ∨ q.dtype = .bool) :
    implCmp rnd ci SVal.backfill.enc op q = implCmp rnd ci [] op q := by
  rcases hq with h | h <;> simp [implCmp, h, SVal.enc, SVal.toTlv, encTLV]

/-- … and for a numeric literal both satisfy exactly `!=` (unchanged code) -/
theorem backfill_record_like_absent_column_num (rnd : Rat → Rat) (ci : Bool) (op : Cmp.Op) (q : Cmp.Lit)
    (hq : q.dtype = .signed ∨ q.dtype = .unsigned ∨ q.dtype = .float) :
    implCmp rnd ci SVal.backfill.enc op q = .ok (op == .ne) ∧ implCmp rnd ci [] op q = .ok (op == .ne) := by
  have h0 : getNumberRecDte [] = .ok none := rfl
  have h1 : strRecNum? rnd [] = none := rfl
  rcases hq with h | h | h <;>
    simp only [implCmp, h, fopOnNumber, getNum_backfill, strRecNum_backfill, h0, h1, and_self]

/-- for the record (REPAIRED by c02-1): the back-fill record did not satisfy `g != "red"` although the empty
record did. -/
theorem backfill_record_like_absent_column_old_counterexample :
    ¬ (∀ (ci : Bool) (op : Cmp.Op) (q : Cmp.Lit), q.dtype = .str →
        implCmpBackfillOld ci SVal.backfill.enc op q = implCmpBackfillOld ci [] op q) := by
  intro h
  have := h false .ne (strLit [114, 101, 100]) rfl
  revert this; decide

/-- (2) FULL-strength statement: the block range-index check never skips a block whose range holds a value that
satisfies the comparison by value. -/
def RangeSound (rnd : Rat → Rat) : Prop :=
  ∀ (ri : Range) (v : SVal) (op : Cmp.Op) (t : NumText), v.wf → t.wf → ri.contains rnd v →
    specCmp rnd v op (mkLit rnd t) = true → rangeCheck rnd ri op t = true

/-- REFUTED (float fallback of an integer range, bounds beyond 2^53): a block holding only the int64 2^53+1 is
skipped for `> 9007199254740992.0`. -/
theorem range_check_sound_counterexample : ¬ RangeSound roundF64 := by
  intro h
  have := h (.s 9007199254740993 9007199254740993) (.int 9007199254740993) .gt
    ⟨false, none, none, 9007199254740992⟩ (by decide) (by decide) (by simp [Range.contains]) (by decide +kernel)
  revert this; decide +kernel

/-- REFUTED (float range, integer literal beyond 2^53 re-read with ParseFloat): a block holding only the float64
2^64 is skipped for `> 18446744073709551615`. -/
theorem range_check_sound_counterexample_float_range : ¬ RangeSound roundF64 := by
  intro h
  have := h (.f (f64val 0x43f0000000000000) (f64val 0x43f0000000000000)) (.float 0x43f0000000000000) .gt
    ⟨false, some 18446744073709551615, none, 18446744073709551615⟩ (by decide) (by decide)
    (by simp [Range.contains]) (by decide +kernel)
  revert this; decide +kernel

/-- (2) PROVED under the guard `rangeGuard` (every integer pushed through float64 by the fallback or by a float
range is represented exactly): for every range of every type that contains the stored value, every operator and
literal text, if the value satisfies the comparison by value the check does not skip — with the float fallback of
ec0bd3f as coded, on the REGENERATED does*PassRangeFilter kernels. -/
theorem range_check_sound_partial (rnd : Rat → Rat) (ri : Range) (v : SVal) (op : Cmp.Op) (t : NumText) (ht : t.wf)
    (hc : ri.contains rnd v) (hs : specCmp rnd v op (mkLit rnd t) = true) (hg : rangeGuard rnd ri v t = true) :
    rangeCheck rnd ri op t = true :=
  range_sound rnd ri v op t ht hc hs hg

/-- the range guard is satisfiable: int64 range [1,3] against 2.5 (float fallback) and against 2; float range -/
example : rangeGuard roundF64 (.s 1 3) (.int 2) ⟨false, none, none, 5 / 2⟩ = true ∧
    rangeGuard roundF64 (.s 1 3) (.int 2) ⟨false, some 2, some 2, 2⟩ = true ∧
    rangeGuard roundF64 (.f (1 / 2) 3) (.int 2) ⟨false, some 2, some 2, 2⟩ = true := by decide +kernel

/-- (3) FULL-strength statement: on a numeric field the search clause and the same comparison in a later `where`
stage give the same answer. -/
def SearchWhereAgree (rnd : Rat → Rat) : Prop :=
  ∀ (ci : Bool) (v : SVal) (op : Cmp.Op) (t : NumText) (b : Bool), v.wf → t.wf →
    whereCmp rnd v op t = some b → implCmp rnd ci v.enc op (mkLit rnd t) = .ok b

/-- REFUTED (the where stage compares every number as float64): the int64 2^53+1 `= 9007199254740992` is true in
the where stage, false in the search clause. -/
theorem search_where_agree_counterexample_beyond_2_53 : ¬ SearchWhereAgree roundF64 := by
  intro h
  have := h false (.int 9007199254740993) .eq
    ⟨false, some 9007199254740992, some 9007199254740992, 9007199254740992⟩ true (by decide) (by decide) (by decide +kernel)
  revert this; decide +kernel

/-- (3) PROVED under both guards (`CmpGuard` for the search clause, `whereGuard` for the where stage): on a numeric
field both stages compute the comparison by value, hence agree. -/
theorem search_where_agree_partial (rnd : Rat → Rat) (hr : RndOk rnd) (ci : Bool) (v : SVal) (op : Cmp.Op) (t : NumText)
    (b : Bool) (hv : v.wf) (ht : t.wf) (hg : CmpGuard rnd v op t = true) (hw : whereGuard rnd v op t = true)
    (h : whereCmp rnd v op t = some b) :
    implCmp rnd ci v.enc op (mkLit rnd t) = .ok b ∧ b = specCmp rnd v op (mkLit rnd t) := by
  have h1 := implCmp_eq_spec_partial rnd hr ci v op t hv ht hg
  cases hf : fieldFloat rnd v with
  | none => simp [whereCmp, whereCmpWith, hf] at h
  | some a =>
    have h2 := where_eq_spec rnd hr v hv op t ht a hf hw
    rw [h2] at h
    have hb : specCmp rnd v op (mkLit rnd t) = b := by simpa using h
    rw [h1, hb]; exact ⟨rfl, rfl⟩

/-- (3) WHAT REMAINS, stated without guards: whenever every integer involved — the stored integer and the literal's
value if it is an integer — is within ±2^53 (where float64 is exact, `Exact53`), the search clause and the where
stage agree on every int64 / float64 field, for all six operators and every spelling of the literal (the
tolerance and `where x=0` exceptions are gone with the C02 repairs); on a uint64 field provided the literal is not
a negative integer (latent class D). -/
theorem search_where_agree_within_2_53 (rnd : Rat → Rat) (hr : RndOk rnd) (hex : Exact53 rnd) (ci : Bool) (v : SVal)
    (op : Cmp.Op) (t : NumText) (b : Bool) (hv : v.wf) (ht : t.wf) (hin : Within53 v t)
    (hD : ∀ n, v = .uint n → (mkLit rnd t).dtype ≠ .signed) (h : whereCmp rnd v op t = some b) :
    implCmp rnd ci v.enc op (mkLit rnd t) = .ok b ∧ b = specCmp rnd v op (mkLit rnd t) := by
  have hnum : (fieldFloat rnd v).isSome = true := by
    cases hf : fieldFloat rnd v with
    | none => simp [whereCmp, whereCmpWith, hf] at h
    | some a => rfl
  have hg := guards_within_2_53 rnd hr hex v op t ht hin hnum hD
  exact search_where_agree_partial rnd hr ci v op t b hv ht hg.1 hg.2 h

/-- both guards are satisfiable together — including the inputs the repairs brought in (2.5 = 0, 2.00001 = 2) -/
example : (CmpGuard roundF64 (.int 2) .lt ⟨false, none, none, 5 / 2⟩ && whereGuard roundF64 (.int 2) .lt ⟨false, none, none, 5 / 2⟩) = true ∧
    (CmpGuard roundF64 (.float 0x4004000000000000) .eq ⟨false, some 0, some 0, 0⟩ &&
      whereGuard roundF64 (.float 0x4004000000000000) .eq ⟨false, some 0, some 0, 0⟩) = true ∧
    (CmpGuard roundF64 (.float 0x400000053e2d6239) .ne ⟨false, some 2, some 2, 2⟩ &&
      whereGuard roundF64 (.float 0x400000053e2d6239) .ne ⟨false, some 2, some 2, 2⟩) = true := by decide +kernel

/-- regression witnesses of the repaired where-stage class on the fixed model: `where x=0` is false for 2.5 -/
example : whereCmp roundF64 (.float 0x4004000000000000) .eq ⟨false, some 0, some 0, 0⟩ = some false ∧
    whereCmp roundF64 (.float 0x4004000000000000) .ne ⟨false, some 0, some 0, 0⟩ = some true := by decide +kernel

/-- the two stages BEFORE the C02 repairs -/
def SearchWhereAgreeOld (rnd : Rat → Rat) : Prop :=
  ∀ (v : SVal) (op : Cmp.Op) (t : NumText) (b : Bool), v.wf → t.wf →
    whereCmpOld rnd v op t = some b → fopOnNumberOld rnd v.enc (mkLit rnd t) op = .ok b

/-- for the record (REPAIRED, dtypeutils.ConvertToSameType): `where x=0` was TRUE for the float64 2.5. -/
theorem search_where_agree_old_counterexample_where_zero : ¬ SearchWhereAgreeOld roundF64 := by
  intro h
  have := h (.float 0x4004000000000000) .eq ⟨false, some 0, some 0, 0⟩ true (by decide) (by decide) (by decide +kernel)
  revert this; decide +kernel

/-- for the record (REPAIRED, tolerance): the float64 2.00001 `= 2` was true in the search clause, false in the
where stage. -/
theorem search_where_agree_old_counterexample_tolerance : ¬ SearchWhereAgreeOld roundF64 := by
  intro h
  have := h (.float 0x400000053e2d6239) .eq ⟨false, some 2, some 2, 2⟩ false (by decide) (by decide) (by decide +kernel)
  revert this; decide +kernel

/-- case-insensitive text equality of the kernel (`fopOnString`): `=` on a stored string against a string literal
of any length is ASCII case-folded equality when the flag is set, byte equality otherwise; `!=` is its negation. -/
theorem string_eq_ne (rnd : Rat → Rat) (ci : Bool) (s p : Bytes) (hs : s.length < 65536) :
    implCmp rnd ci (SVal.str s).enc .eq (strLit p) = .ok (bytesEq ci s p) ∧
    implCmp rnd ci (SVal.str s).enc .ne (strLit p) = .ok (!bytesEq ci s p) := by
  have hl : s.length % 65536 = s.length := Nat.mod_eq_of_lt hs
  have h3 : (leN 2 s.length).length = 2 := SigModel.Lemmas.C01.leN_length 2 _
  have hd : List.drop 3 (tStr :: (leN 2 s.length ++ s)) = s := by
    have : (tStr :: (leN 2 s.length ++ s)) = (tStr :: leN 2 s.length) ++ s := by simp
    rw [this, List.drop_left' (by simp [h3])]
  have hb : ¬ (tStr = tBackfill) := by decide
  constructor
  · simp only [implCmp, strLit, SVal.enc, SVal.toTlv, encTLV, hl, List.take_length, fopOnString]
    simp [h3, hd, hb]
    have h0 : ¬ (2 + s.length + 1 < 3) := by omega
    simp only [h0, if_false]
    by_cases hne : s.length = p.length
    · simp [hne]
    · simp only [hne, if_false]
      cases ci <;> simp [bytesEq]
      · intro he; rw [he] at hne; exact hne rfl
      · exact ciEqual_length_ne s p hne
  · simp only [implCmp, strLit, SVal.enc, SVal.toTlv, encTLV, hl, List.take_length, fopOnString]
    simp [h3, hd, hb]

/-- repair c02-5: against a string literal (no wildcard) a stored NUMBER or BOOLEAN is "not equal": `=` does not
match, `!=` does — for every value and every literal text.  The same number stored as TEXT (a block column that holds
numbers and text is stored as text) answers the same way unless its text IS the literal (`string_eq_ne`), so that
`t != "abc"` no longer depends on what else the block of the event holds. -/
theorem string_literal_vs_non_string (rnd : Rat → Rat) (ci : Bool) (v : SVal) (op : Cmp.Op) (p : Bytes)
    (hv : (∃ i, v = .int i) ∨ (∃ n, v = .uint n) ∨ (∃ b, v = .float b) ∨ (∃ b, v = .bool b)) :
    implCmp rnd ci v.enc op (strLit p) = .ok (op == .ne) := by
  have h1 : ¬ (NumKind.i64.tag = tBackfill) ∧ ¬ (NumKind.i64.tag = tStr) := by decide
  have h2 : ¬ (NumKind.u64.tag = tBackfill) ∧ ¬ (NumKind.u64.tag = tStr) := by decide
  have h3 : ¬ (NumKind.f64.tag = tBackfill) ∧ ¬ (NumKind.f64.tag = tStr) := by decide
  have h4 : ¬ (tBool = tBackfill) ∧ ¬ (tBool = tStr) := by decide
  rcases hv with ⟨i, rfl⟩ | ⟨n, rfl⟩ | ⟨b, rfl⟩ | ⟨b, rfl⟩ <;>
    simp [implCmp, strLit, SVal.enc, SVal.toTlv, encTLV, h1, h2, h3, h4]

/-- for the record (REPAIRED by c02-5): the number 7 satisfied neither `t = "abc"` nor `t != "abc"`, while the text
"7" — what the very same event is stored as when its block also holds text — satisfies `t != "abc"`. -/
theorem string_literal_vs_non_string_old_counterexample :
    implCmpNonStringOld (fun x => x) false (SVal.int 7).enc .ne (strLit [97, 98, 99]) = .ok false ∧
    implCmpNonStringOld (fun x => x) false (SVal.str [55]).enc .ne (strLit [97, 98, 99]) = .ok true ∧
    implCmp (fun x => x) false (SVal.int 7).enc .ne (strLit [97, 98, 99]) = .ok true := by
  decide

end Kernel

/-! ### free-text terms and phrases: the word matcher `utils.IsSubWordPresent` (model `Bloom.subWord`, tied by the suites
subword — C02 — and bloom — C03) -/
section FreeText
open SigModel.Bloom SigModel.Tlv

/-- the free-text matcher, for EVERY haystack and needle: the needle is present iff the haystack is `pre ++ mid ++ post`
where `mid` equals the needle (exactly, or up to ASCII case when the search is case-insensitive), `pre` is empty or ends
with a space and `post` is empty or starts with a space — the needle occurs between token boundaries, wherever: the first
occurrence need not be the one -/
theorem subWord_iff_token_rule (ci : Bool) (hay needle : Bytes) :
    subWord ci hay needle = true ↔
      ∃ pre mid post, hay = pre ++ mid ++ post ∧ mid.length = needle.length ∧ bytesEq ci mid needle = true ∧
        (pre = [] ∨ pre.getLast? = some 32) ∧ (post = [] ∨ post.head? = some 32) := by
  rw [subWord_iff_index]
  constructor
  · rintro ⟨i, hi, he, hb, ha⟩
    refine ⟨hay.take i, (hay.drop i).take needle.length, hay.drop (i + needle.length), ?_, ?_, he, ?_, ?_⟩
    · have h1 : hay = hay.take i ++ hay.drop i := (List.take_append_drop i hay).symm
      have h2 : hay.drop i = (hay.drop i).take needle.length ++ (hay.drop i).drop needle.length :=
        (List.take_append_drop needle.length (hay.drop i)).symm
      rw [List.drop_drop] at h2
      rw [List.append_assoc, ← h2]; exact h1
    · simp; omega
    · rcases hb with rfl | hb
      · left; simp
      · by_cases h0 : i = 0
        · left; simp [h0]
        · right
          rw [List.getLast?_take]
          have : ¬ i = 0 := h0
          simp [this, hb]
    · rcases ha with ha | ha
      · left; simp [ha]
      · right; simpa [List.head?_drop] using ha
  · rintro ⟨pre, mid, post, rfl, hl, he, hb, ha⟩
    refine ⟨pre.length, by simp; omega, ?_, ?_, ?_⟩
    · have : (List.drop pre.length (pre ++ mid ++ post)).take needle.length = mid := by
        rw [List.append_assoc, List.drop_left', ← hl, List.take_left']
        · rfl
        · rfl
      rw [this]; exact he
    · rcases hb with rfl | hb
      · left; rfl
      · by_cases h0 : pre.length = 0
        · left; exact h0
        · right
          have hlt : pre.length - 1 < pre.length := by omega
          rw [List.append_assoc, List.getElem?_append_left hlt]
          rw [List.getLast?_eq_getElem?] at hb
          exact hb
    · rcases ha with rfl | ha
      · left; simp; omega
      · right
        have : pre.length + needle.length = (pre ++ mid).length := by simp [hl]
        rw [this, List.getElem?_append_right (Nat.le_refl _)]
        simpa [List.head?_eq_getElem?] using ha

/-- exact case (SPL `CASE(…)`): `mid` IS the needle -/
theorem subWord_exact_iff_token_rule (hay needle : Bytes) :
    subWord false hay needle = true ↔
      ∃ pre post, hay = pre ++ needle ++ post ∧ (pre = [] ∨ pre.getLast? = some 32) ∧ (post = [] ∨ post.head? = some 32) := by
  rw [subWord_iff_token_rule]
  constructor
  · rintro ⟨pre, mid, post, h, _, he, hb, ha⟩
    have : mid = needle := by simpa [bytesEq] using he
    subst this
    exact ⟨pre, post, h, hb, ha⟩
  · rintro ⟨pre, post, h, hb, ha⟩
    exact ⟨pre, needle, post, h, rfl, by simp [bytesEq], hb, ha⟩

/-- the witness of seeded change C02-2: "xtimeout timeout" holds the word "timeout" (its FIRST occurrence is glued to x) -/
example : subWord false [120, 116, 105, 109, 101, 111, 117, 116, 32, 116, 105, 109, 101, 111, 117, 116] [116, 105, 109, 101, 111, 117, 116] = true := by decide

end FreeText

/-! ### Segment selection by time (Model/SegSelect.lean: bulkAddSegmentMicroIndex, FilterSegmentsByTime,
FilterUnrotatedSegmentsInQuery, getAllSegmentsInQuery / getAllSegmentsInAggs; tied by the suite `segsel`)

Before any block is looked at, a query decides by TIME which segments of the queried indexes it reads.  The segments of an
index may have any widths, overlap, be nested and be added in any order (several ingest streams, back-filled events). -/
section SegSelect
open SigModel.SegSelect

/-- C02.4d COMPLETE: a segment — rotated or open, of a queried index and the query's org — that holds an instant of the query
range is selected: by FilterSegmentsByTime when it is in its table's slice (whatever else the slice holds, in whatever
order), by FilterUnrotatedSegmentsInQuery when it is open, and the query's request list has a request for its key.  For all
ranges, bounds and lists; no assumption on order, widths or well-formedness. -/
theorem segment_select_complete (qs qe org t : Int) (indexes : List Nat) (tables : Nat → List Seg) (open_ : List Seg) (s : Seg)
    (hq1 : qs ≤ t) (hq2 : t ≤ qe) (hs1 : s.earliest ≤ t) (hs2 : t ≤ s.latest) (horg : s.org = org) (hix : s.table ∈ indexes) :
    (s ∈ tables s.table → s ∈ filterRotated qs qe org indexes tables) ∧
    (s ∈ open_ → s ∈ filterUnrotated qs qe org indexes open_) ∧
    ((s ∈ tables s.table ∨ s ∈ open_) →
      ∃ s' ∈ (collect qs qe org indexes tables open_).1 ++ (collect qs qe org indexes tables open_).2, s'.key = s.key) := by
  have hk := keep_of_point qs qe org t s hq1 hq2 hs1 hs2 horg
  have hr : s ∈ tables s.table → s ∈ filterRotated qs qe org indexes tables :=
    fun h => (mem_filterRotated ..).mpr ⟨s.table, hix, h, hk⟩
  have hu : s ∈ open_ → s ∈ filterUnrotated qs qe org indexes open_ :=
    fun h => (mem_filterUnrotated ..).mpr ⟨h, hix, hk⟩
  refine ⟨hr, hu, fun h => collect_has_key qs qe org indexes tables open_ s ?_⟩
  rcases h with h | h
  · exact Or.inl (hr h)
  · exact Or.inr (hu h)

/-- C02.4d for the tables as bulkAddSegmentMicroIndex builds them: the rotated segments added in ANY order, cut into ANY
bulks (each bulk re-sorts the slices by the segments' ends, descending), a segment whose key no other added segment carries
is selected when it holds an instant of the range -/
theorem segment_select_complete_any_order (qs qe org t : Int) (indexes : List Nat) (bulks : List (List Seg)) (s : Seg)
    (hq1 : qs ≤ t) (hq2 : t ≤ qe) (hs1 : s.earliest ≤ t) (hs2 : t ≤ s.latest) (horg : s.org = org) (hix : s.table ∈ indexes)
    (huniq : ∀ b ∈ bulks, ∀ y ∈ b, y.key = s.key → y = s) (hin : ∃ b ∈ bulks, s ∈ b) :
    s ∈ filterRotated qs qe org indexes (tableOf bulks) :=
  (segment_select_complete qs qe org t indexes (tableOf bulks) [] s hq1 hq2 hs1 hs2 horg hix).1 (mem_tableOf bulks s huniq hin)

/-- C02.4e SOUND: what is selected belongs to a queried index and to the query's org and — for a well-formed range and
segment — shares an instant with the range (nothing disjoint is read) -/
theorem segment_select_sound (qs qe org : Int) (indexes : List Nat) (tables : Nat → List Seg) (open_ : List Seg) (s : Seg)
    (hq : qs ≤ qe) (hs : s.earliest ≤ s.latest)
    (h : s ∈ filterRotated qs qe org indexes tables ∨ s ∈ filterUnrotated qs qe org indexes open_) :
    s.org = org ∧ ((∃ ix ∈ indexes, s ∈ tables ix) ∨ (s ∈ open_ ∧ s.table ∈ indexes)) ∧
      ∃ t, qs ≤ t ∧ t ≤ qe ∧ s.earliest ≤ t ∧ t ≤ s.latest := by
  have key : keep qs qe org s = true → s.org = org ∧ ∃ t, qs ≤ t ∧ t ≤ qe ∧ s.earliest ≤ t ∧ t ≤ s.latest := by
    intro hk
    unfold keep at hk
    simp at hk
    exact ⟨hk.2, point_of_overlaps qs qe s hq hs hk.1⟩
  rcases h with h | h
  · obtain ⟨ix, hix, hm, hk⟩ := (mem_filterRotated ..).mp h
    exact ⟨(key hk).1, Or.inl ⟨ix, hix, hm⟩, (key hk).2⟩
  · obtain ⟨hm, hix, hk⟩ := (mem_filterUnrotated ..).mp h
    exact ⟨(key hk).1, Or.inr ⟨hm, hix⟩, (key hk).2⟩

/-- the walk may NOT stop early: sorted by their ends (descending), the segments overlapping a range are not next to each
other when widths differ — a walk that stops at the first non-overlapping segment once it has seen an overlapping one
(`filterRotatedEarlyExit`, not the code) loses the segment [2000, 3000] for the range [1500, 5000] behind [1000, 9000] and
[7000, 7100] -/
theorem early_exit_counterexample :
    let segs := [⟨1, 0, 1000, 9000, 0⟩, ⟨2, 0, 7000, 7100, 0⟩, (⟨3, 0, 2000, 3000, 0⟩ : Seg)]
    let tables : Nat → List Seg := fun ix => if ix = 0 then sortDesc segs else []
    (⟨3, 0, 2000, 3000, 0⟩ : Seg) ∈ filterRotated 1500 5000 0 [0] tables ∧
    (⟨3, 0, 2000, 3000, 0⟩ : Seg) ∉ filterRotatedEarlyExit 1500 5000 0 [0] tables := by
  decide

/-- non-vacuity: the hypotheses of `segment_select_complete` hold for the segment of the counterexample -/
example : (1500 : Int) ≤ 2500 ∧ (2500 : Int) ≤ 5000 ∧ (⟨3, 0, 2000, 3000, 0⟩ : Seg).earliest ≤ 2500 ∧
    (2500 : Int) ≤ (⟨3, 0, 2000, 3000, 0⟩ : Seg).latest := by decide

end SegSelect

end SigModel.Props.C02
