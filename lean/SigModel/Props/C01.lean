/-
C01 — Log ingest→query round trip is lossless and exact.  Property theorems only (kernel part).

What is proved here, for ALL inputs, about the model `SigModel/Model/Tlv.lean` (tied to /repo by the
regenerated type tags and by the byte-for-byte correspondence run of suite `tlv`):
  1. one value:      decode (encode v ++ anything) = v                      (guard: string < 65536 bytes)
  2. one column:     any sequence of ReadRecord calls returns exactly the requested records
  3. the consistent-length shortcut agrees with the forward scan whenever the segment metadata may offer it
  4. dictionary:     ReadDictEnc (PackDictEnc d) gives every record number its word
  5. timestamps:     the block decodes to the timestamps written
and the composition 1–3 over the filling of a column with absent / null / late values (`column_roundtrip`);
  6. a SEGMENT OF SEVERAL BLOCKS (`Model/TlvSeg.lean`, suite `tlvseg`): the record length the segment finally
     advertises is sound for every block, for every segment and every sequence of seeks (`segment_roundtrip`);
     counterexample theorem for the writer before fix b7f8683 (`segment_roundtrip_old_counterexample`).
The unguarded statements are FALSE where the uint16 length wraps; the counterexample theorems record exactly
where, and `wf_of_max_record_size` shows the guard is implied by the ingest limit MAX_RECORD_SIZE.
The end-to-end part of C01 (flattening, type consolidation, block/segment layout) is decided by the
differential suite `e2e_c01`, not here.
-/
import SigModel.Model.Tlv
import SigModel.Lemmas.C01
import SigModel.Lemmas.C01b
import SigModel.Lemmas.C01c
import SigModel.Lemmas.C01d
import SigModel.Model.TlvSeg
import SigModel.Lemmas.C01seg

namespace SigModel.Props.C01
open SigModel.Tlv
open SigModel.Lemmas.C01 (wfDec dictKind EntryOk DictWordOk getB)

/-! ## 1. one value -/

/-- C01.1 Every well-formed value (string shorter than 65536 bytes, number within its width) is decoded back
exactly from the bytes the writer produced, whatever bytes follow it in the column. -/
theorem decTLV_encTLV (v : Val) (r : Bytes) (h : wf v) : decTLV (encTLV v ++ r) = some (v, r) :=
  Lemmas.C01.decTLV_encTLV v r h

/-- C01.1 without the guard is false: a string of 65536 bytes is written with length field 0 and NO payload
(`uint16(len)` in parseSingleString, `val[:n]` in doLogEventFilling) and reads back as the empty string. -/
theorem decTLV_encTLV_counterexample : ¬ (∀ (v : Val) (r : Bytes), decTLV (encTLV v ++ r) = some (v, r)) := by
  intro h
  have hlen : (List.replicate 65536 0).length = 65536 := List.length_replicate
  generalize List.replicate 65536 0 = s at hlen
  have h1 := h (.str s) []
  have h2 : encTLV (.str s) = [2, 0, 0] := by
    simp [encTLV, leN, Lemmas.C01.tStr_eq, hlen]
  rw [h2] at h1
  have h3 : decTLV ([2, 0, 0] ++ []) = some (.str [], []) := by decide
  rw [h3] at h1
  simp at h1
  subst h1
  simp at hlen

/-- the ingest limit implies the guard: a value inside a JSON document of at most MAX_RECORD_SIZE (= 63000)
bytes is well-formed (enforced by the Elasticsearch bulk / doc handlers; see the slice report for the entry
points that do not enforce it) -/
theorem wf_of_max_record_size (s : Bytes) (h : s.length ≤ maxRecordSize) : wf (.str s) := by
  have : maxRecordSize = 63000 := Lemmas.C01.maxRecordSize_eq
  show s.length < 65536
  omega

/-- C01.1 (query side) `GetCvalFromRec` returns the value's enclosure and the record length. Guard: the
string is at most 65532 bytes (the end index `strlen + 3` is a uint16). -/
theorem getCval_encTLV (v : Val) (r : Bytes) (h : wfDec v) :
    getCval (encTLV v ++ r) = .ok (cvalOf v, (encTLV v).length) :=
  Lemmas.C01.getCval_encTLV v r h

/-- …and without that guard it is false: a well-formed string of 65533 bytes makes `GetCvalFromRec` panic
(`rec[3:0]`). Such a string cannot be ingested through the size-checked entry points. -/
theorem getCval_wrap_counterexample :
    ¬ (∀ (v : Val) (r : Bytes), wf v → getCval (encTLV v ++ r) = .ok (cvalOf v, (encTLV v).length)) := by
  intro h
  have hlen : (List.replicate 65533 0).length = 65533 := List.length_replicate
  generalize List.replicate 65533 0 = s at hlen
  have hw : wf (.str s) := by show s.length < 65536; omega
  have h1 := h (.str s) [] hw
  have h2 : getCval (encTLV (.str s) ++ []) = .panic := by
    rw [Lemmas.C01.encTLV_str_wf s (by omega)]
    have hr : rdN 2 (leN 2 s.length ++ s) = some (s.length, s) := Lemmas.C01.rdN_leN 2 _ _ (by omega)
    simp [getCval, hr]
    simp [hlen]
  rw [h2] at h1
  cases h1

theorem wfDec_of_max_record_size (s : Bytes) (h : s.length ≤ maxRecordSize) : wfDec (.str s) := by
  have : maxRecordSize = 63000 := Lemmas.C01.maxRecordSize_eq
  show s.length + 3 < 65536
  omega

/-- the enclosure (dtype + int64/uint64/float bits/string/bool) determines the stored value within its kind:
nothing is lost by the sign extension of the narrow kinds -/
theorem cvalOf_injective (v w : Val) (hv : wf v) (hw : wf w)
    (hk : ∀ k bits k' bits', v = .num k bits → w = .num k' bits' → k = k') (h : cvalOf v = cvalOf w) : v = w :=
  Lemmas.C01.cvalOf_inj v w hv hw hk h

/-! ## 2. one column, any seek order -/

/-- C01.2 In a column of well-formed values, the forward scan finds record `i`: exactly the bytes written for
value `i`, for every column and every index. -/
theorem seek_encCol (vs : List Val) (i : Nat) (hi : i < vs.length) (hwf : ∀ v ∈ vs, wf v) :
    seek (encCol vs) i = some (encTLV vs[i]) := by
  have hl := Lemmas.C01.lenOk_scan vs 0 (by simp) hwf
  obtain ⟨st, hinit, g⟩ := Lemmas.C01.init_good hl (by omega)
  obtain ⟨st', hr, _, _⟩ := Lemmas.C01.readRecord_good hl g i hi
  unfold seek
  rw [hinit]
  simp only [hr]
  simp [hi]

/-- C01.2 (state-carrying) ANY sequence of `ReadRecord` calls on one reader — forward, backward, repeated —
returns exactly the requested records: no value migrates to another record. `c` is whatever hint the
reader was given that does not enable the shortcut (0 or INCONSISTENT). -/
theorem readMany_encCol (vs : List Val) (c : Nat) (hc : c = 0 ∨ c = inconsistent) (hwf : ∀ v ∈ vs, wf v)
    (ns : List Nat) (hns : ∀ n ∈ ns, n < vs.length) (hne : vs ≠ []) :
    ∃ st, Rd.init (encCol vs) c = .ok st ∧ st.readMany ns = ns.map (fun n => .ok (encTLV (vs[n]!))) := by
  have hl := Lemmas.C01.lenOk_scan vs c (by rcases hc with rfl | rfl <;> simp) hwf
  have h0 : 0 < vs.length := List.length_pos_iff.mpr hne
  obtain ⟨st, hinit, g⟩ := Lemmas.C01.init_good hl h0
  exact ⟨st, hinit, Lemmas.C01.readMany_good hl ns st g hns⟩

/-! ## 3. the consistent-length shortcut -/

/-- C01.3 If every record of the column has the same encoded length `c` (0 < c ≠ INCONSISTENT), the shortcut
(record `i` at offset `i*c`) returns record `i` — even without parsing any record. -/
theorem seekConst_sound (vs : List Val) (c i : Nat) (hc : 0 < c) (hc2 : c ≠ inconsistent)
    (hall : ∀ v ∈ vs, (encTLV v).length = c) (hi : i < vs.length) :
    seekConst c (encCol vs) i = some (encTLV vs[i]) := by
  have hl := Lemmas.C01.lenOk_const vs c ⟨hc, hc2⟩ hall
  obtain ⟨st, hinit, g⟩ := Lemmas.C01.init_good hl (by omega)
  obtain ⟨st', hr, _, _⟩ := Lemmas.C01.readRecord_good hl g i hi
  unfold seekConst
  rw [hinit]
  simp only [hr]
  simp [hi]

/-- hence the shortcut agrees with the forward scan -/
theorem seekConst_eq_seek (vs : List Val) (c i : Nat) (hc : 0 < c) (hc2 : c ≠ inconsistent)
    (hall : ∀ v ∈ vs, (encTLV v).length = c) (hwf : ∀ v ∈ vs, wf v) (hi : i < vs.length) :
    seekConst c (encCol vs) i = seek (encCol vs) i := by
  rw [seekConst_sound vs c i hc hc2 hall hi, seek_encCol vs i hi hwf]

/-- The READER's precondition "every record has length c" is necessary: handed a length that is not the length
of every record, the shortcut returns bytes that are not the record. (Witness: the stored column "abcdef",
"12", "ghijkl" with length 9.) The reader is unchanged by fix 59208af; what the fix establishes is that the
writer never advertises such a length — see `flush_roundtrip` and, for the behaviour before the fix,
`storedHintOld_counterexample`. -/
theorem seekConst_stale_hint_counterexample :
    ¬ (∀ (vs : List Val) (c i : Nat), 0 < c → c ≠ inconsistent → (∀ v ∈ vs, wf v) → i < vs.length →
        seekConst c (encCol vs) i = seek (encCol vs) i) := by
  intro h
  have := h [.str [97, 98, 99, 100, 101, 102], .str [49, 50], .str [103, 104, 105, 106, 107, 108]] 9 2
    (by decide) (by decide) (by intro v hv; simp at hv; rcases hv with rfl | rfl | rfl <;> decide) (by decide)
  revert this
  decide

/-- C01.3 (fix 42015c5) A WRONG hint whose value differs from the length of the block's FIRST record is harmless:
`unpackRawCsg` measures the first record by its own encoding, drops the hint and reads every record's length from
the record — the shortcut then returns exactly what the forward scan returns, for every column of well-formed
values, every usable `c` and every index.  (What remains is `seekConst_stale_hint_counterexample`: a wrong hint
that happens to be the length of the first record.) -/
theorem seekConst_wrong_hint_detected_at_first_record (vs : List Val) (c i : Nat) (hc : 0 < c) (hc2 : c ≠ inconsistent)
    (hwf : ∀ v ∈ vs, wf v) (hi : i < vs.length) (hne : (encTLV (vs[0]'(by omega))).length ≠ c) :
    seekConst c (encCol vs) i = seek (encCol vs) i ∧ seekConst c (encCol vs) i = some (encTLV vs[i]) := by
  have hl := Lemmas.C01.lenOk_scan vs inconsistent (by simp) hwf
  obtain ⟨st, hinit, g⟩ := Lemmas.C01.init_good_fallback ⟨hc, hc2⟩ hwf (by omega) hne
  obtain ⟨st', hr, _, _⟩ := Lemmas.C01.readRecord_good hl g i hi
  have h2 : seekConst c (encCol vs) i = some (encTLV vs[i]) := by
    unfold seekConst
    rw [hinit]
    simp only [hr]
    simp [hi]
  exact ⟨by rw [h2, seek_encCol vs i hi hwf], h2⟩

/-- before fix 42015c5 such a hint was used as it came: the shortcut of that time returns bytes that are not the
record (hint 5 on two 9-byte numbers) -/
example : seekConstOld 5 (encCol [.num .i64 1, .num .i64 2]) 1 ≠ seek (encCol [.num .i64 1, .num .i64 2]) 1 ∧
    seekConst 5 (encCol [.num .i64 1, .num .i64 2]) 1 = seek (encCol [.num .i64 1, .num .i64 2]) 1 := by decide

/-- what the writer's per-segment size says: a consistent size `c` is only ever reported when the column
existed from the segment's first record and every record appended had size `c` -/
theorem seenSize_consistent (firstRec : Nat) (sizes : List Nat) (c : Nat) (hc : c ≠ inconsistent)
    (h : seenSize firstRec sizes = some c) : firstRec = 0 ∧ ∀ s ∈ sizes, s = c :=
  Lemmas.C01.seenSize_consistent firstRec sizes c hc h

/-- C01.1–3 composed over the FILLING of a column: events that carry the value, carry null, or lack the column
(also a column that first appears late in the block) — the column bytes are exactly one record per event
(absent = null = back-fill), and reading with the size hint the writer recorded returns, for any sequence
of seeks, the record of the event asked for. -/
theorem column_roundtrip (lim : Nat) (evs : List (Option Val)) (hsome : ∃ v ∈ evs, v.isSome)
    (hwf : ∀ v ∈ evs, ∀ x, v = some x → wf x) (ns : List Nat) (hns : ∀ n ∈ ns, n < evs.length) :
    let st := fillCol lim evs
    let hint := (seenSize st.firstRec st.sizes).getD inconsistent
    st.buf = encCol (evs.map getB) ∧
    ∃ rd, Rd.init st.buf hint = .ok rd ∧
      rd.readMany ns = ns.map (fun n => .ok (encTLV (getB (evs[n]!)))) := by
  intro st hint
  have inv := Lemmas.C01.fillCol_inv lim evs
  have hseen := Lemmas.C01.fillCol_seen lim evs hsome
  have hbuf : st.buf = encCol (evs.map getB) := inv.seen hseen
  refine ⟨hbuf, ?_⟩
  have hlen : (evs.map getB).length = evs.length := by simp
  have h0 : 0 < (evs.map getB).length := by
    obtain ⟨v, hv, _⟩ := hsome
    rw [hlen]; exact List.length_pos_of_mem hv
  have hl : Lemmas.C01.LenOk (evs.map getB) hint := Lemmas.C01.lenOk_fillCol lim evs hsome hwf
  obtain ⟨rd, hinit, g⟩ := Lemmas.C01.init_good hl h0
  refine ⟨rd, by rw [hbuf]; exact hinit, ?_⟩
  rw [Lemmas.C01.readMany_good hl ns rd g (by intro n hn; rw [hlen]; exact hns n hn)]
  apply List.map_congr_left
  intro n hn
  have := hns n hn
  simp [this]

/-- C01.3 at FLUSH (fix 59208af mirrored): a column that has both a bloom and a range index in the block
(`mixed`) is rewritten by the type consolidation — and is first marked as having inconsistent record
lengths; any other column is stored as filled and keeps the size recorded at ingest. In both cases the
length the segment advertises (`storedHint`) is sound for the STORED records: any sequence of seeks over the
stored block returns exactly the stored record asked for, and the block has one record per event.
(`mixed` is universally quantified: the statement does not depend on how the block decides it.) -/
theorem flush_roundtrip (lim : Nat) (evs : List (Option Val)) (hsome : ∃ v ∈ evs, v.isSome)
    (hwf : ∀ v ∈ evs, ∀ x, v = some x → wf x) (mixed : Bool) (ns : List Nat) (hns : ∀ n ∈ ns, n < evs.length) :
    let st := fillCol lim evs
    let stored := storedVals mixed (evs.map getB)
    stored.length = evs.length ∧
    ∃ rd, Rd.init (encCol stored) (storedHint mixed st) = .ok rd ∧
      rd.readMany ns = ns.map (fun n => .ok (encTLV (stored[n]!))) := by
  intro st stored
  have hwf' : ∀ v ∈ evs.map getB, wf v := by
    intro v hv
    simp at hv
    obtain ⟨o, ho, rfl⟩ := hv
    cases o with
    | none => simp [getB, wf]
    | some x => exact hwf _ ho x rfl
  have hlen0 : (evs.map getB).length = evs.length := by simp
  have hpos : 0 < evs.length := by
    obtain ⟨v, hv, _⟩ := hsome
    exact List.length_pos_of_mem hv
  cases mixed with
  | false =>
    have hl : Lemmas.C01.LenOk (evs.map getB) (storedHint false st) := by
      simpa [storedHint] using Lemmas.C01.lenOk_fillCol lim evs hsome hwf
    obtain ⟨rd, hinit, g⟩ := Lemmas.C01.init_good hl (by omega)
    refine ⟨hlen0, rd, hinit, ?_⟩
    exact Lemmas.C01.readMany_good hl ns rd g (by intro n hn; rw [hlen0]; exact hns n hn)
  | true =>
    obtain ⟨hlen, hwfc⟩ := Lemmas.C01.consolidate_spec (evs.map getB)
    have hl : Lemmas.C01.LenOk (consolidate (evs.map getB)) (storedHint true st) :=
      Lemmas.C01.lenOk_scan _ _ (by simp [storedHint]) (hwfc hwf')
    have hlen' : (consolidate (evs.map getB)).length = evs.length := by rw [hlen, hlen0]
    obtain ⟨rd, hinit, g⟩ := Lemmas.C01.init_good hl (by omega)
    refine ⟨hlen', rd, hinit, ?_⟩
    exact Lemmas.C01.readMany_good hl ns rd g (by intro n hn; rw [hlen']; exact hns n hn)

/-- Before fix 59208af the size recorded at ingest was advertised unchanged (`storedHintOld`), and the statement
of `flush_roundtrip` was FALSE: "abcdef", 12, "ghijkl" are 9 bytes each at ingest, the consolidation stores
12 as the text "12" (5 bytes), and with the advertised length 9 record 2 is read from the wrong offset.
On the real code this was: a search clause on a rotated segment returned a different event or none. -/
theorem storedHintOld_counterexample :
    ¬ (∀ (lim : Nat) (evs : List (Option Val)) (mixed : Bool) (ns : List Nat),
        (∃ v ∈ evs, v.isSome) → (∀ v ∈ evs, ∀ x, v = some x → wf x) → (∀ n ∈ ns, n < evs.length) →
        ∃ rd, Rd.init (encCol (storedVals mixed (evs.map getB))) (storedHintOld mixed (fillCol lim evs)) = .ok rd ∧
          rd.readMany ns = ns.map (fun n => .ok (encTLV ((storedVals mixed (evs.map getB))[n]!)))) := by
  intro h
  obtain ⟨rd, h1, h2⟩ := h 501
    [some (.str [97, 98, 99, 100, 101, 102]), some (.num .i64 12), some (.str [103, 104, 105, 106, 107, 108])]
    true [2] ⟨_, List.mem_cons_self, rfl⟩
    (by intro v hv x hx; subst hx; simp at hv; rcases hv with rfl | rfl | rfl <;> decide)
    (by decide)
  have hinit : Rd.init (encCol (storedVals true
      ([some (.str [97, 98, 99, 100, 101, 102]), some (.num .i64 12), some (.str [103, 104, 105, 106, 107, 108])].map getB)))
      (storedHintOld true (fillCol 501
        [some (.str [97, 98, 99, 100, 101, 102]), some (.num .i64 12), some (.str [103, 104, 105, 106, 107, 108])]))
      = .ok { buf := [2, 6, 0, 97, 98, 99, 100, 101, 102, 2, 2, 0, 49, 50, 2, 6, 0, 103, 104, 105, 106, 107, 108],
              constLen := 9, recNum := 0, off := 0, recLen := 9 } := by decide
  rw [hinit] at h1
  cases h1
  revert h2
  decide

/-! ## 4. dictionary block -/

/-- every value kind the dictionary reader knows (string ≤ 65532 bytes, bool, int64, float64, back-fill) is
framed correctly as a dictionary word -/
theorem dictWordOk_encTLV (v : Val) (hk : dictKind v) (hw : wfDec v) : DictWordOk (encTLV v) :=
  Lemmas.C01.dictWordOk_encTLV v hk hw

/-- WITH patch c16-5 (the length of a string word is widened before 3 is added) the dictionary reader frames a string
word of EVERY length the two length bytes can say — also 65533..65535 bytes. -/
theorem dictWordOk_str_every_length (s : Bytes) (h : s.length < 65536) : DictWordOk (encTLV (.str s)) := by
  intro r
  rw [Lemmas.C01.encTLV_str_wf s h]
  have hr : rdN 2 (leN 2 s.length ++ (s ++ r)) = some (s.length, s ++ r) := Lemmas.C01.rdN_leN 2 _ _ (by simpa using h)
  simp [dictWordLen, hr, Lemmas.C01.leN_length]
  omega

/-- OLD behaviour (before patch c16-5) REFUTED: the sum `3 + length` was taken in uint16, so a string word of 65533
bytes was stepped over as a word of 0 bytes (the reader went on inside the word: the column came back empty, or the
process died with "slice bounds out of range"). -/
theorem dictWord_wrap_old_counterexample :
    ¬ (∀ (s r : Bytes), s.length < 65536 → dictWordLenOld (encTLV (.str s) ++ r) = .ok (encTLV (.str s)).length) := by
  intro h
  have hlen : (List.replicate 65533 0).length = 65533 := List.length_replicate
  generalize List.replicate 65533 0 = s at hlen
  have h1 := h s [] (by omega)
  rw [Lemmas.C01.encTLV_str_wf s (by omega)] at h1
  have hr : rdN 2 (leN 2 65533 ++ s) = some (65533, s) := Lemmas.C01.rdN_leN 2 _ _ (by omega)
  simp [dictWordLenOld, hlen, Lemmas.C01.leN_length] at h1
  rw [hr] at h1
  simp at h1

/-- C01.4 `ReadDictEnc (PackDictEnc d)`: the words come back in order; guards = what the 2-byte fields hold:
fewer than 65536 words, each with fewer than 65536 record numbers below 65536. -/
theorem readDict_packDict (d : Dict) (rc : Nat) (hn : d.length < 65536) (hes : ∀ e ∈ d, EntryOk e) :
    ∃ rd, readDict (packDict d) rc = .ok rd ∧ rd.words = d.map (·.1) ∧ rd.recToWord.length = rc ∧
      (rd.badRec = false ↔ ∀ e ∈ d, ∀ r ∈ e.2, r < rc) := by
  refine ⟨_, Lemmas.C01.readDict_packDict' d rc hn hes, rfl, ?_, ?_⟩
  · simp [Lemmas.C01.tableOf_length]
  · simp [Lemmas.C01.anyBad]

/-- C01.4 (records) if no record number is listed under two words, every record number listed under a word
reads back (`deGetRec`) as exactly that word -/
theorem dict_getRec (d : Dict) (rc : Nat) (hn : d.length < 65536) (hes : ∀ e ∈ d, EntryOk e)
    (j : Nat) (hj : j < d.length) (r : Nat) (hr : r ∈ d[j].2) (hrc : r < rc)
    (hdisj : ∀ j', j < j' → (hj' : j' < d.length) → r ∉ d[j'].2) :
    ∃ rd, readDict (packDict d) rc = .ok rd ∧ rd.getRec r = .ok d[j].1 := by
  refine ⟨_, Lemmas.C01.readDict_packDict' d rc hn hes, ?_⟩
  have hsplit : d = d.take j ++ d[j] :: d.drop (j + 1) := by
    rw [← List.drop_eq_getElem_cons hj, List.take_append_drop]
  have hpost : ∀ x ∈ d.drop (j + 1), r ∉ x.2 := by
    intro x hx
    obtain ⟨k, hk, rfl⟩ := List.getElem_of_mem hx
    simp at hk
    rw [List.getElem_drop]
    exact hdisj (j + 1 + k) (by omega) (by omega)
  have htbl := Lemmas.C01.tableOf_mem rc 0 (d.take j) d[j] (d.drop (j + 1)) (List.replicate rc 0) r hr hrc
    (by simp) hpost
  rw [← hsplit] at htbl
  have hlen : (d.take j).length = j := by simp; omega
  unfold DictRd.getRec
  simp only [htbl, hlen, Nat.zero_add]
  simp [hj]

/-- the guard of C01.4 follows from the block limit: record numbers of one word are appended in increasing
order and a block holds at most MAX_RECS_PER_WIP (= 65534) records -/
theorem entry_guard_of_block_limit (rs : List Nat) (rc : Nat) (hrc : rc ≤ maxRecsPerWip)
    (hsorted : rs.Pairwise (· < ·)) (hlt : ∀ r ∈ rs, r < rc) :
    rs.length < 65536 ∧ ∀ r ∈ rs, r < 65536 := by
  have hm : maxRecsPerWip = 65534 := Lemmas.C01.maxRecsPerWip_eq
  have key : ∀ (l : List Nat) (lo : Nat), l.Pairwise (· < ·) → lo ≤ rc → (∀ r ∈ l, lo ≤ r ∧ r < rc) →
      l.length + lo ≤ rc := by
    intro l
    induction l with
    | nil => intro lo _ h _; simpa using h
    | cons a t ih =>
      intro lo hp hlo hb
      obtain ⟨ha1, ha2⟩ := hb a (by simp)
      rw [List.pairwise_cons] at hp
      have := ih (a + 1) hp.2 (by omega) (fun r hr => ⟨by have := hp.1 r hr; omega, (hb r (by simp [hr])).2⟩)
      simp; omega
  have := key rs 0 hsorted (by omega) (fun r hr => ⟨by omega, hlt r hr⟩)
  refine ⟨by omega, fun r hr => ?_⟩
  have := hlt r hr
  omega

/-- latent asymmetry, recorded: the writer's filling code accepts uint64 values into the dictionary, the
dictionary reader has no uint64 case — such a block would be unreadable. (No ingest path produces uint64
records: JSON numbers become int64 or float64.) -/
theorem dict_uint64_unreadable :
    readDict (packDict [(encTLV (.num .u64 1), [0])]) 1 = .err "bad-encoding" := by decide

/-! ## 5. timestamp column -/

/-- C01.5 A block whose timestamps all lie between the summary's low and high decodes to exactly the
timestamps written, with the width chosen as the code chooses it. -/
theorem decTs_encTs (low high : Nat) (tss : List Nat) (hlh : low ≤ high) (hh : high < u64)
    (hn : tss.length < 65536) (hb : ∀ t ∈ tss, low ≤ t ∧ t ≤ high) :
    decTs (tsBlock low high tss) tss.length = .ok tss :=
  Lemmas.C01.decTs_tsBlock low high tss hlh hh hn hb

/-- the hypothesis of C01.5 is an invariant of the block summary: folding `adjustEarliestLatestTimes` over
positive timestamps yields bounds that contain every one of them -/
theorem blockLowHigh_bounds (tss : List Nat) (hne : tss ≠ []) (hpos : ∀ t ∈ tss, 0 < t) (hB : ∀ t ∈ tss, t < u64) :
    (blockLowHigh tss).1 ≤ (blockLowHigh tss).2 ∧ (blockLowHigh tss).2 < u64 ∧
      ∀ t ∈ tss, (blockLowHigh tss).1 ≤ t ∧ t ≤ (blockLowHigh tss).2 := by
  have := Lemmas.C01.blockLowHigh_bounds tss hne hpos u64 hB
  exact ⟨this.2.1, this.2.2.1, this.2.2.2⟩

/-- C01.5 composed: the timestamps of any block of positive uint64 timestamps (at most 65535 records) come back
exactly, in order -/
theorem ts_roundtrip (tss : List Nat) (hne : tss ≠ []) (hpos : ∀ t ∈ tss, 0 < t) (hB : ∀ t ∈ tss, t < u64)
    (hn : tss.length < 65536) :
    decTs (tsBlock (blockLowHigh tss).1 (blockLowHigh tss).2 tss) tss.length = .ok tss := by
  obtain ⟨a, b, c⟩ := blockLowHigh_bounds tss hne hpos hB
  exact decTs_encTs _ _ tss a b hn c

/-- without "positive" it is false: 0 means "not set" in the summary, so the history 5, 0, 3 ends with low = 3
although 0 is in the block. (Unreachable from ingest: `GetNewPLE` replaces a zero timestamp by "now".) -/
theorem ts_zero_counterexample :
    ¬ (∀ (tss : List Nat), tss ≠ [] → (∀ t ∈ tss, t < u64) → tss.length < 65536 →
        decTs (tsBlock (blockLowHigh tss).1 (blockLowHigh tss).2 tss) tss.length = .ok tss) := by
  intro h
  have := h [5, 0, 3] (by decide) (by decide) (by decide)
  revert this
  decide

/-! ## non-vacuity -/

example : wf (.str [104, 105]) ∧ wf (.num .i8 255) ∧ ¬ wf (.num .i8 256) ∧ wf .backfill := by decide

example : decTLV (encTLV (.num .i64 18446744073709551615) ++ [7]) = some (.num .i64 18446744073709551615, [7]) ∧
    cvalOf (.num .i64 18446744073709551615) = .signed (-1) := by decide

example : seek (encCol [.str [97], .backfill, .bool true, .num .f64 0]) 2 = some [1, 1] := by decide

example : seekConst 9 (encCol [.num .i64 1, .num .f64 2, .str [97, 98, 99, 100, 101, 102]]) 2
    = some (encTLV (.str [97, 98, 99, 100, 101, 102])) := by decide

example : (fillCol 501 [none, some (.num .i64 5), none]).buf = [19, 16, 5, 0, 0, 0, 0, 0, 0, 0, 19] ∧
    seenSize (fillCol 501 [none, some (.num .i64 5), none]).firstRec (fillCol 501 [none, some (.num .i64 5), none]).sizes
      = some inconsistent := by decide

example : consolidate [.str [97, 98, 99, 100, 101, 102], .num .i64 12, .backfill]
      = [.str [97, 98, 99, 100, 101, 102], .str [49, 50], .backfill] ∧
    consolidate [.str [45, 55], .num .i64 12] = [.num .i64 18446744073709551609, .num .i64 12] ∧
    isMixed [some (.str [97]), none, some (.num .i64 1)] = true ∧ isMixed [some (.str [97]), none] = false := by decide

example : storedHint true (fillCol 501 [some (.str [97, 98, 99, 100, 101, 102]), some (.num .i64 12)]) = inconsistent ∧
    storedHintOld true (fillCol 501 [some (.str [97, 98, 99, 100, 101, 102]), some (.num .i64 12)]) = 9 := by decide

example : EntryOk ([19], [0, 2]) ∧ EntryOk (encTLV (.bool true), [1]) := by
  refine ⟨⟨dictWordOk_encTLV .backfill trivial trivial, by decide, by decide⟩,
          ⟨dictWordOk_encTLV (.bool true) trivial trivial, by decide, by decide⟩⟩

example : readDict (packDict [([19], [0, 2]), ([1, 1], [1])]) 3
    = .ok { words := [[19], [1, 1]], recToWord := [0, 1, 0], badRec := false } := by decide

example : blockLowHigh [1000, 900, 1300] = (900, 1300) ∧
    decTs (tsBlock 900 1300 [1000, 900, 1300]) 3 = .ok [1000, 900, 1300] := by decide

/-! ## 6. a segment of several blocks

`Model/TlvSeg.lean`: a segment is a list of blocks, a block the list of the column's values, one per event
(`none` = the event lacks the column).  The record length the segment advertises (`SegSt.hint`, i.e.
`AllSeenColumnSizes[col]` → `SegMeta.ColumnNames[col].ConsistentCvalSize`) and the segment's `RecordCount` live
across the blocks; the column buffer, its dictionary, `columnsInBlock` and the block's record number are per block. -/

/-- The statement of C01.6 for a given writer `w` (the fixed one, `writeSeg`, or the one before fix b7f8683,
`writeSegOld`): for EVERY cardinality limit and EVERY segment of well-formed values — any number of blocks, the
column present, null, absent from single events, appearing late in a block, absent from whole blocks, with
records of equal or different lengths — EVERY block `j` in which the column occurs was handed to the block
writer as exactly one record per event of that block (`stored`: the values as filled, or their type consolidation
when the block was rewritten at its flush), and the raw reader, given that block and the record length the segment
FINALLY advertises, answers ANY sequence of record seeks with exactly the record of the event asked for. -/
def SegmentRoundtripWith (init : Bytes → Nat → Res Rd) (w : Nat → List (List (Option Val)) → SegSt) : Prop :=
  ∀ (lim : Nat) (seg : List (List (Option Val))), (∀ evs ∈ seg, ∀ v ∈ evs, ∀ x, v = some x → wf x) →
    ∀ (j : Nat) (hj : j < seg.length), (∃ v ∈ seg[j], v.isSome) →
    ∀ (ns : List Nat), (∀ n ∈ ns, n < seg[j].length) →
      ∃ blk, (w lim seg).blocks[j]? = some blk ∧
        (storedVals blk.mixed (seg[j].map getB)).length = seg[j].length ∧
        blk.buf = encCol (storedVals blk.mixed (seg[j].map getB)) ∧
        ∃ rd, init blk.buf (w lim seg).hint = .ok rd ∧
          rd.readMany ns = ns.map (fun n => .ok (encTLV ((storedVals blk.mixed (seg[j].map getB))[n]!)))

/-- … with the block reader as it is (`Rd.init` = `unpackRawCsg` since fix 42015c5) -/
def SegmentRoundtrip (w : Nat → List (List (Option Val)) → SegSt) : Prop := SegmentRoundtripWith Rd.init w

/-- C01.6 Multi-block round trip of a column (writer as it is after fix b7f8683): see `SegmentRoundtrip`.
Composition of C01.1–3 (`readMany`/`seekConst` lemmas) with an invariant over ALL events and flushes of the
segment: whenever the advertised length is a genuine size `c`, every record of every block that has the column
is `c` bytes long and no block was rewritten by the consolidation. -/
theorem segment_roundtrip (lim : Nat) (seg : List (List (Option Val)))
    (hwf : ∀ evs ∈ seg, ∀ v ∈ evs, ∀ x, v = some x → wf x)
    (j : Nat) (hj : j < seg.length) (hsome : ∃ v ∈ seg[j], v.isSome)
    (ns : List Nat) (hns : ∀ n ∈ ns, n < seg[j].length) :
    ∃ blk, (writeSeg lim seg).blocks[j]? = some blk ∧
      (storedVals blk.mixed (seg[j].map getB)).length = seg[j].length ∧
      blk.buf = encCol (storedVals blk.mixed (seg[j].map getB)) ∧
      ∃ rd, Rd.init blk.buf (writeSeg lim seg).hint = .ok rd ∧
        rd.readMany ns = ns.map (fun n => .ok (encTLV ((storedVals blk.mixed (seg[j].map getB))[n]!))) :=
  Lemmas.C01.segInv_read (Lemmas.C01.writeSeg_inv lim seg) hwf j hj hsome ns hns

/-- `segment_roundtrip` is the statement `SegmentRoundtrip` for the fixed writer -/
theorem segment_roundtrip_stmt : SegmentRoundtrip writeSeg :=
  fun lim seg hwf j hj hsome ns hns => segment_roundtrip lim seg hwf j hj hsome ns hns

/-- For a block that was not rewritten at its flush the record returned is the encoding of the event's own value
(absent = null = the back-fill record). -/
theorem segment_roundtrip_plain (lim : Nat) (seg : List (List (Option Val)))
    (hwf : ∀ evs ∈ seg, ∀ v ∈ evs, ∀ x, v = some x → wf x)
    (j : Nat) (hj : j < seg.length) (hsome : ∃ v ∈ seg[j], v.isSome)
    (ns : List Nat) (hns : ∀ n ∈ ns, n < seg[j].length) :
    ∃ blk, (writeSeg lim seg).blocks[j]? = some blk ∧ (blk.mixed = false →
      ∃ rd, Rd.init blk.buf (writeSeg lim seg).hint = .ok rd ∧
        rd.readMany ns = ns.map (fun n => .ok (encTLV (getB (seg[j][n]!))))) := by
  obtain ⟨blk, h1, _, _, rd, h4, h5⟩ := segment_roundtrip lim seg hwf j hj hsome ns hns
  refine ⟨blk, h1, fun hm => ⟨rd, h4, ?_⟩⟩
  rw [h5, hm]
  apply List.map_congr_left
  intro n hn
  have := hns n hn
  simp [storedVals, this]

/-- The same holds WHILE a further block is being filled (events `tail` after the last flush): the length
advertised at that moment is sound for every block flushed so far. -/
theorem segment_roundtrip_open (lim : Nat) (seg : List (List (Option Val))) (tail : List (Option Val))
    (hwf : ∀ evs ∈ seg, ∀ v ∈ evs, ∀ x, v = some x → wf x)
    (j : Nat) (hj : j < seg.length) (hsome : ∃ v ∈ seg[j], v.isSome)
    (ns : List Nat) (hns : ∀ n ∈ ns, n < seg[j].length) :
    ∃ blk, ((writeSeg lim seg).fillOpen lim tail).blocks[j]? = some blk ∧
      blk.buf = encCol (storedVals blk.mixed (seg[j].map getB)) ∧
      ∃ rd, Rd.init blk.buf ((writeSeg lim seg).fillOpen lim tail).hint = .ok rd ∧
        rd.readMany ns = ns.map (fun n => .ok (encTLV ((storedVals blk.mixed (seg[j].map getB))[n]!))) := by
  obtain ⟨blk, h1, _, h3, h4⟩ :=
    Lemmas.C01.segInv_read (Lemmas.C01.writeSeg_open_inv lim seg tail) hwf j hj hsome ns hns
  exact ⟨blk, h1, h3, h4⟩

/-- what a genuine advertised size means for the whole segment: every record of every block in which the column
occurs has that length, and none of these blocks was rewritten by the type consolidation -/
theorem segment_hint_consistent (lim : Nat) (seg : List (List (Option Val))) (c : Nat)
    (h : (writeSeg lim seg).size = some c) (hc : c ≠ inconsistent) :
    (∀ evs ∈ seg, (∃ v ∈ evs, v.isSome) → ∀ v ∈ evs, (encTLV (getB v)).length = c) ∧
    ∀ b ∈ (writeSeg lim seg).blocks, b.mixed = false := by
  have inv := Lemmas.C01.writeSeg_inv lim seg
  refine ⟨(inv.cons c h hc).1, fun b hb => ?_⟩
  cases hm : b.mixed with
  | false => rfl
  | true =>
    have := inv.mixedInc b hb hm
    rw [h] at this
    exact absurd (Option.some.inj this) hc

/-- a block in which no event carries the column has no bytes for it (AppendWipToSegfile does not write the
column for that block), and there is one entry per block -/
theorem segment_absent_block (lim : Nat) (seg : List (List (Option Val))) :
    (writeSeg lim seg).blocks.length = seg.length ∧
    ∀ (j : Nat) (hj : j < seg.length), (¬ ∃ v ∈ seg[j], v.isSome) →
      ∃ blk, (writeSeg lim seg).blocks[j]? = some blk ∧ blk.buf = [] := by
  have inv := Lemmas.C01.writeSeg_inv lim seg
  refine ⟨inv.nblocks, fun j hj hno => ?_⟩
  have hjb : j < (writeSeg lim seg).blocks.length := by rw [inv.nblocks]; exact hj
  have hmem : ((writeSeg lim seg).blocks[j], seg[j]) ∈ (writeSeg lim seg).blocks.zip seg := by
    rw [List.mem_iff_getElem]
    exact ⟨j, by simp; omega, by simp⟩
  exact ⟨_, by simp [hjb], ((inv.rel _ hmem).2 hno).1⟩

/-- Before fix b7f8683 the statement was FALSE (`writeSegOld`: backFillPastRecords did not report the 1-byte
back-fill records to AllSeenColumnSizes). Witness: cardinality limit 2 (so that block 2 is not dictionary
encoded), block 1 = [{x:2}], block 2 = [{}, {x:0}]. Block 1 gives x the record length 9; in block 2 x is new to
the BLOCK at block record 1, one back-fill byte is written for record 0 without telling the segment, the 9-byte
number agrees with the advertised 9 — the segment advertises 9, and record 1 of block 2 is sought at offset 9 of
a 10-byte block. On the real code: `x<3` on the rotated segment missed the event with x=0.
(Stated for the block reader of that time, `Rd.initOld`. The reader as it is since fix 42015c5 checks the advertised
length against the block's first record — here the 1-byte back-fill record — drops it and finds the record: see
the example below. A block that the old writer mis-advertised always STARTS with such a back-fill record.) -/
theorem segment_roundtrip_old_counterexample : ¬ SegmentRoundtripWith Rd.initOld writeSegOld := by
  intro h
  obtain ⟨blk, h1, _, _, rd, h2, h3⟩ := h 2 [[some (.num .i64 2)], [none, some (.num .i64 0)]]
    (by intro evs he v hv x hx; subst hx
        simp at he
        rcases he with rfl | rfl <;> simp at hv <;> subst hv <;> decide)
    1 (by decide) ⟨some (.num .i64 0), by decide, rfl⟩ [1] (by decide)
  have hb : (writeSegOld 2 [[some (.num .i64 2)], [none, some (.num .i64 0)]]).blocks[1]?
      = some { mixed := false, buf := [19, 16, 0, 0, 0, 0, 0, 0, 0, 0], de := 2 } := by decide
  have hh : (writeSegOld 2 [[some (.num .i64 2)], [none, some (.num .i64 0)]]).hint = 9 := by decide
  rw [hb] at h1
  cases h1
  rw [hh] at h2
  have hinit : Rd.initOld [19, 16, 0, 0, 0, 0, 0, 0, 0, 0] 9
      = .ok { buf := [19, 16, 0, 0, 0, 0, 0, 0, 0, 0], constLen := 9, recNum := 0, off := 0, recLen := 9 } := by
    decide
  rw [hinit] at h2
  cases h2
  revert h3
  decide

/-- the same witness with the reader as it is now: the stale length 9 of the old writer is dropped at the first
record (1 byte) and record 1 of block 2 is found -/
example : seekConst 9 [19, 16, 0, 0, 0, 0, 0, 0, 0, 0] 1 = some (encTLV (.num .i64 0)) ∧
    seekConstOld 9 [19, 16, 0, 0, 0, 0, 0, 0, 0, 0] 1 ≠ some (encTLV (.num .i64 0)) := by decide

/-- the fixed writer on the same witness: the segment advertises INCONSISTENT and record 1 of block 2 is found -/
example : (writeSeg 2 [[some (.num .i64 2)], [none, some (.num .i64 0)]]).hint = inconsistent ∧
    (writeSeg 2 [[some (.num .i64 2)], [none, some (.num .i64 0)]]).blocks.map (·.buf)
      = [[16, 2, 0, 0, 0, 0, 0, 0, 0], [19, 16, 0, 0, 0, 0, 0, 0, 0, 0]] ∧
    seekConst inconsistent [19, 16, 0, 0, 0, 0, 0, 0, 0, 0] 1 = some (encTLV (.num .i64 0)) := by decide

/-- non-vacuity, genuine consistent size over three blocks (numbers, then a block WITHOUT the column, then
6-byte strings: all records 9 bytes; the column starts every block it occurs in at record 0): the segment
advertises 9 and the shortcut finds record 1 of block 3 -/
example : (writeSeg 501 [[some (.num .i64 1), some (.num .i64 2)], [none, none],
        [some (.str [97, 98, 99, 100, 101, 102]), some (.str [103, 104, 105, 106, 107, 108])]]).hint = 9 ∧
    (writeSeg 501 [[some (.num .i64 1), some (.num .i64 2)], [none, none],
        [some (.str [97, 98, 99, 100, 101, 102]), some (.str [103, 104, 105, 106, 107, 108])]]).blocks.map (·.buf)
      = [[16, 1, 0, 0, 0, 0, 0, 0, 0, 16, 2, 0, 0, 0, 0, 0, 0, 0], [],
         [2, 6, 0, 97, 98, 99, 100, 101, 102, 2, 6, 0, 103, 104, 105, 106, 107, 108]] ∧
    seekConst 9 [2, 6, 0, 97, 98, 99, 100, 101, 102, 2, 6, 0, 103, 104, 105, 106, 107, 108] 1
      = some (encTLV (.str [103, 104, 105, 106, 107, 108])) := by decide

/-- non-vacuity, inconsistent size over two blocks: (a) the column disappears from the events of block 2 after its
first record, (b) a block with a string and a number is rewritten at its flush and marked — in both cases the
segment advertises INCONSISTENT -/
example : (writeSeg 501 [[some (.num .i64 1)], [some (.num .i64 2), none]]).hint = inconsistent ∧
    (writeSeg 501 [[some (.num .i64 1)], [some (.num .i64 2), none]]).blocks.map (·.buf)
      = [[16, 1, 0, 0, 0, 0, 0, 0, 0], [16, 2, 0, 0, 0, 0, 0, 0, 0, 19]] ∧
    (writeSeg 501 [[some (.num .i64 1)], [some (.str [97, 98, 99, 100, 101, 102]), some (.num .i64 12)]]).hint
      = inconsistent ∧
    (writeSeg 501 [[some (.num .i64 1)], [some (.str [97, 98, 99, 100, 101, 102]), some (.num .i64 12)]]).blocks.map
        (fun b => (b.mixed, b.buf))
      = [(false, [16, 1, 0, 0, 0, 0, 0, 0, 0]), (true, [2, 6, 0, 97, 98, 99, 100, 101, 102, 2, 2, 0, 49, 50])] := by
  decide

/-- the bloom of a column outlives the block (resetWipBlock keeps columnBlooms): a block of numbers after a block of
strings is treated as mixed at its flush (rewritten to itself, marked INCONSISTENT, bloom dropped); a third block
of numbers is not -/
example : (writeSeg 501 [[some (.str [97])], [some (.num .i64 5)], [some (.num .i64 6)]]).blocks.map (·.mixed)
      = [false, true, false] ∧
    (writeSeg 501 [[some (.str [97])], [some (.num .i64 5)], [some (.num .i64 6)]]).hint = inconsistent := by decide

/-! ### the block bookkeeping of the flush (every flush resets the block) -/

/-- The statement for a given step function `run` (fixed: `runBlk`, before the fix of FlushSegStats: `runBlkOld`):
for EVERY history of events (carrying nothing but a timestamp, only nulls, or values) and flushes, the entries of
the .bsu file are exactly the non-empty blocks cut by the flushes — block `b` at position `b`, under the number
`b`, with its record count, each once — `numBlocks` is their number and the open block holds the events since the
last effective flush. In particular the record count the searchers use for block `b` is that of block `b`. -/
def FlushBookkeeping (run : List BlkOp → BlkSt) : Prop :=
  ∀ ops : List BlkOp,
    (run ops).bsu = Lemmas.C01.enumBlocks (cutBlocks ops).1 ∧
    (run ops).numBlocks = (cutBlocks ops).1.length ∧
    (run ops).blkRec = (cutBlocks ops).2 ∧
    ∀ b, b < (cutBlocks ops).1.length → (run ops).readerRecCount b = (cutBlocks ops).1[b]?

/-- C01.6b No block is flushed twice and no flush is lost: `FlushBookkeeping` holds for AppendWipToSegfile as it
is now (step order: block summary, statistics, reset, `numBlocks += 1`; FlushSegStats has no "nothing to write"
error). -/
theorem flush_bookkeeping : FlushBookkeeping runBlk := by
  intro ops
  have inv := Lemmas.C01.runBlk_inv ops
  refine ⟨inv.bsu, inv.nb, inv.recs, fun b hb => ?_⟩
  unfold BlkSt.readerRecCount
  rw [inv.bsu, Lemmas.C01.enumBlocks_getElem?]
  cases (cutBlocks ops).1[b]? <;> simp

/-- Before the fix it was FALSE: FlushSegStats returned "no segstats to flush" while every event of the segment so
far carried only a timestamp, AppendWipToSegfile returned after writing the block summary but before
resetWipBlock / `numBlocks += 1`, and the same block was flushed again under the same number. Witness (replayed
end to end): two timestamp-only events, flush, two events with x, flush, one event with x, flush: the .bsu file
reads (0,2),(0,4),(1,1); the searchers take 2 records for block 0 (it has 4) and 4 for block 1 (it has 1): `*`
returned 2 of 5 events, `x=3` none, `stats count` 5. -/
theorem flush_bookkeeping_old_counterexample : ¬ FlushBookkeeping runBlkOld := by
  intro h
  have := (h [.ev .bare, .ev .bare, .flush, .ev .vals, .ev .vals, .flush, .ev .vals, .flush]).1
  revert this
  decide

example : (runBlkOld [.ev .bare, .ev .bare, .flush, .ev .vals, .ev .vals, .flush, .ev .vals, .flush]).bsu
      = [(0, 2), (0, 4), (1, 1)] ∧
    (runBlk [.ev .bare, .ev .bare, .flush, .ev .vals, .ev .vals, .flush, .ev .vals, .flush]).bsu
      = [(0, 2), (1, 2), (2, 1)] ∧
    cutBlocks [.ev .bare, .ev .bare, .flush, .flush, .ev .vals, .ev .vals, .flush, .ev .vals] = ([2, 2], 1) := by
  decide

end SigModel.Props.C01
