/-
C13 — Searches see only the requested indexes of the requesting tenant.  Property theorems only.

Scope of this slice (kernel level): the index-expression expansion `ExpandAndReturnIndexNames`, the
segment selection predicates (`FilterSegmentsByTime`, `FilterUnrotatedSegmentsInQuery`) and the
deletion steps on the table list (`vtable.DeleteVirtualTable`) and on the rotated-segment metadata
(`metadata.DeleteVirtualTable`).  The model is `SigModel.Tenant` (Model/Tenant.lean); it is tied to the
Go code by the correspondence suite `tenant`.

Results (all hold for the code as it is now; items 2 and 5 were FALSE before the two `fix:` commits of C13,
see known_findings.txt — the former behaviour is kept as `…Old` definitions with their counterexamples):
  1. `expand_only_own_org`        every returned name is a table or alias target of the requesting
                                  organisation, or text of the expression itself (characterised exactly).
  2. `expand_sound_glob`          every returned name is named by the expression under glob semantics
                                  (`*` = any string, every other character literal); key lemma `implMatch_eq_glob`;
                                  `implMatchOld_counterexample` (`logs.2*` matched `logsX2024` when unquoted).
  3. `select_only_named_org`, `select_only_named_org_unrotated`, `search_sees_only_own_org`.
  4. `delete_exact`, `delete_other_org_unaffected`  (table list).
  5. `delete_segments_exact`      deleting index t of org o removes exactly the segments of (o,t) from the
                                  rotated-segment view; `deleteTableOld_counterexample` (another organisation's
                                  index of the same name used to disappear too).
-/
import SigModel.Model.Tenant
import SigModel.Lemmas.C13

namespace SigModel.Props.C13
open SigModel.Tenant SigModel.Lemmas.C13

/-! ## 1. Expansion stays inside the requesting organisation -/

/-- `x` is an element of the comma list that has no wildcard and is not an alias of the organisation:
the code hands such an element through verbatim, whether or not a table of that name exists. -/
def Verbatim (expr : Name) (org : Org) (A : List AliasEntry) (x : Name) : Prop :=
  x ∈ splitOn ',' (stripColon expr) ∧ containsStar x = false ∧ aliasPresent org x A = false

/-- the documented fallback: nothing at all was collected (no element matched anything, or only aliases
without targets were named) and the expression is not an excluded internal index; then the whole
expression (after the `cluster:` prefix was stripped) is returned as the only name. -/
def Fallback (expr : Name) (org : Org) (es : Bool) (T : List (Org × Name)) (A : List AliasEntry) (x : Name) : Prop :=
  x = stripColon expr ∧ collect (stripColon expr) org es T A = some [] ∧ isExcluded (stripColon expr) = false

/-- C13.1 For EVERY table/alias state, organisation and expression: a returned name is a table of the
requesting organisation, or a target of one of ITS aliases, or a wildcard-free element of the expression
handed through verbatim, or the fallback (the whole expression).  Tables and alias targets of other
organisations are never produced from the state. -/
theorem expand_only_own_org (expr : Name) (org : Org) (es : Bool) (T : List (Org × Name)) (A : List AliasEntry)
    (x : Name) (hx : x ∈ expand expr org es T A) :
    (org, x) ∈ T ∨ (∃ e ∈ A, e.org = org ∧ x ∈ e.targets) ∨ Verbatim expr org A x ∨ Fallback expr org es T A x := by
  obtain ⟨l, hc, h⟩ := mem_expand expr org es T A x hx
  rcases h with ⟨rfl, hxe, hex⟩ | hxl
  · exact Or.inr (Or.inr (Or.inr ⟨hxe, hc, hex⟩))
  · unfold collect at hc
    by_cases hstar : stripColon expr = ['*']
    · simp only [hstar, if_true, Option.some.injEq] at hc
      subst hc
      exact Or.inl ((mem_tablesOf org T x).1 (List.mem_filter.1 hxl).1)
    · simp only [hstar, if_false] at hc
      obtain ⟨elem, helem, le, hle, hxle⟩ := (mem_collectElems _ _ l hc x).1 hxl
      rcases mem_expandElem org T A elem le hle x hxle with ⟨_, re, _, h | h⟩ | ⟨_, e, he, ho, _, hxt⟩ | ⟨hs, hp, rfl⟩
      · obtain ⟨e, he, ho, _, hxt⟩ := h
        exact Or.inr (Or.inl ⟨e, he, ho, hxt⟩)
      · exact Or.inl h.1
      · exact Or.inr (Or.inl ⟨e, he, ho, hxt⟩)
      · exact Or.inr (Or.inr (Or.inl ⟨helem, hs, hp⟩))

/-- the fallback fires exactly as described: whenever nothing was collected and the expression is not excluded -/
theorem fallback_returns_whole_expression (expr : Name) (org : Org) (es : Bool) (T : List (Org × Name)) (A : List AliasEntry)
    (hc : collect (stripColon expr) org es T A = some []) (hex : isExcluded (stripColon expr) = false) :
    expand expr org es T A = [stripColon expr] := by
  simp [expand, hc, hex]

/-- non-vacuity: two organisations hold an index of the same name and prefix-related names; `*` and
`logs*` of organisation 1 return only organisation 1's tables -/
example : expand "*".toList 1 false
    [(1, "logs".toList), (2, "logs".toList), (2, "logs2".toList), (1, "logs.2024".toList), (0, "logsX".toList)] []
    = ["logs".toList, "logs.2024".toList] := by decide +kernel
example : expand "remote:logs*".toList 1 false
    [(1, "logs".toList), (2, "logs".toList), (2, "logs2".toList), (1, "logs.2024".toList), (0, "logsX".toList)]
    [{ org := 2, alias := "logsall".toList, targets := ["secret".toList] }]
    = ["logs".toList, "logs.2024".toList] := by decide +kernel
/-- non-vacuity of the verbatim case: a plain name is returned even though only ANOTHER organisation has it
(harmless only because the segment selection filters on the organisation, theorem 3) -/
example : expand "secret".toList 1 false [(2, "secret".toList)] [] = ["secret".toList] := by decide +kernel

/-! ## 2. Every returned name is named by the expression (glob semantics) -/

/-- `x` is named by the expression when `*` is a wildcard and EVERY other character is literal: the
expression is `*`, or some element of the comma list glob-matches `x`, or glob-matches an alias of the
organisation one of whose targets is `x`. -/
def NamedByGlob (expr : Name) (org : Org) (A : List AliasEntry) (x : Name) : Prop :=
  stripColon expr = ['*'] ∨
  ∃ elem ∈ splitOn ',' (stripColon expr),
    globMatch elem x = true ∨ ∃ e ∈ A, e.org = org ∧ globMatch elem e.alias = true ∧ x ∈ e.targets

/-- table and alias names are lines of text (the table list is a line-oriented file) -/
def NoNewlines (T : List (Org × Name)) (A : List AliasEntry) : Prop :=
  (∀ p ∈ T, ∀ c ∈ p.2, c ≠ '\n') ∧ (∀ e ∈ A, ∀ c ∈ e.alias, c ≠ '\n')

/-- the full-strength statement -/
def ExpandSoundGlob : Prop :=
  ∀ (expr : Name) (org : Org) (es : Bool) (T : List (Org × Name)) (A : List AliasEntry), NoNewlines T A →
    ∀ x ∈ expand expr org es T A, NamedByGlob expr org A x ∨ Fallback expr org es T A x

/-- KEY LEMMA (re-stated from Lemmas.C13): for EVERY wildcard element — whatever characters it contains —
the code's regular expression, compiled from `"^" + Join(QuoteMeta(parts), ".*") + "$"` and used with
the unanchored `Match`, compiles and decides exactly the glob match. -/
theorem implMatch_eq_glob (elem name : Name) (hn : ∀ c ∈ name, c ≠ '\n') :
    implMatch elem name = some (globMatch elem name) :=
  Lemmas.C13.implMatch_eq_glob elem name hn

/-- C13.2 For EVERY state, organisation and expression, every returned name is named by the expression
under glob semantics (or is the fallback). -/
theorem expand_sound_glob : ExpandSoundGlob := by
  intro expr org es T A hnl x hx
  obtain ⟨l, hc, h⟩ := mem_expand expr org es T A x hx
  rcases h with ⟨rfl, hxe, hex⟩ | hxl
  · exact Or.inr ⟨hxe, hc, hex⟩
  · left
    unfold collect at hc
    by_cases hstar : stripColon expr = ['*']
    · exact Or.inl hstar
    · simp only [hstar, if_false] at hc
      obtain ⟨elem, helem, le, hle, hxle⟩ := (mem_collectElems _ _ l hc x).1 hxl
      refine Or.inr ⟨elem, helem, ?_⟩
      rcases mem_expandElem org T A elem le hle x hxle with ⟨_, re, hre, h | h⟩ | ⟨_, e, he, ho, ha, hxt⟩ | ⟨_, _, rfl⟩
      · -- wildcard element matching an alias
        obtain ⟨e, he, ho, hm, hxt⟩ := h
        have := Lemmas.C13.implMatch_eq_glob elem e.alias (hnl.2 e he)
        simp only [implMatch, hre, Option.map_some, Option.some.injEq] at this
        exact Or.inr ⟨e, he, ho, by rw [← this]; exact hm, hxt⟩
      · -- wildcard element matching a table
        have := Lemmas.C13.implMatch_eq_glob elem x (hnl.1 (org, x) h.1)
        simp only [implMatch, hre, Option.map_some, Option.some.injEq] at this
        exact Or.inl (by rw [← this]; exact h.2)
      · -- plain element that is an alias
        exact Or.inr ⟨e, he, ho, by rw [ha]; exact globMatch_self elem, hxt⟩
      · -- plain element handed through verbatim
        exact Or.inl (globMatch_self _)

/-- a wildcard element never fails to compile any more (before the fix `a(*` emptied the whole answer) -/
theorem wildcard_always_compiles (elem : Name) : (compile (regexSrc elem)).isSome = true := by
  simp [Lemmas.C13.compile_quoted]

/-- non-vacuity: metacharacters in the literal parts are literal now, prefix-related names are kept apart -/
example : expand "logs.2*".toList 1 false [(1, "logsX2024".toList), (1, "logs.2024".toList), (2, "logs.2".toList)] []
    = ["logs.2024".toList] := by decide +kernel
example : expand "logs*".toList 1 false
    [(1, "logs".toList), (1, "logs2".toList), (1, "logsX2024".toList), (1, "log".toList), (2, "logs3".toList)] []
    = ["logs".toList, "logs2".toList, "logsX2024".toList] := by decide +kernel
example : expand "logs,a(*".toList 1 false [(1, "logs".toList), (1, "a(b".toList)] [] = ["a(b".toList, "logs".toList] := by
  decide +kernel

/-- the behaviour BEFORE the fix (`regexSrcOld`: literal parts not quoted): the test for `logs.2*` accepted
`logsX2024`, which the glob pattern does not match; `zzz|*` accepted everything. -/
theorem implMatchOld_counterexample :
    implMatchOld "logs.2*".toList "logsX2024".toList = some true ∧ globMatch "logs.2*".toList "logsX2024".toList = false ∧
    implMatchOld "zzz|*".toList "prod".toList = some true ∧ globMatch "zzz|*".toList "prod".toList = false := by
  decide +kernel

/-! ## 3. Segment selection admits exactly the named tables of the requesting organisation -/

/-- distinct segment keys (segment keys are unique identifiers) -/
abbrev DistinctKeys := Lemmas.C13.DistinctKeys

/-- C13.3 (rotated segments, `FilterSegmentsByTime`) For every set of segments with distinct keys, the
selection for organisation `org` over the names `names` admits a segment iff it is one of the segments,
its table is among the names, its organisation is the requesting one, and it overlaps the time range. -/
theorem select_only_named_org (qlo qhi : Int) (names : List Name) (org : Org) (segs : List Seg)
    (hd : DistinctKeys segs) (s : Seg) :
    s ∈ selectRotated qlo qhi names org (Meta.ofList segs) ↔
      s ∈ segs ∧ s.table ∈ names ∧ s.org = org ∧ overlaps qlo qhi s = true := by
  exact mem_selectRotated_inv (inv_ofList segs hd) qlo qhi names org s

/-- C13.3 (unrotated segments, `FilterUnrotatedSegmentsInQuery`) -/
theorem select_only_named_org_unrotated (qlo qhi : Int) (names : List Name) (org : Org) (segs : List Seg) (s : Seg) :
    s ∈ selectUnrotated qlo qhi names org segs ↔
      s ∈ segs ∧ s.table ∈ names ∧ s.org = org ∧ overlaps qlo qhi s = true := by
  simp only [selectUnrotated, List.mem_filter, Bool.and_eq_true, List.contains_iff_mem, decide_eq_true_eq]
  constructor
  · rintro ⟨h1, h2, h3, h4⟩; exact ⟨h1, h2, h4, h3⟩
  · rintro ⟨h1, h2, h3, h4⟩; exact ⟨h1, h2, h4, h3⟩

/-- expansion and selection composed: whatever the expression and whatever other organisations own, a
search of organisation `org` is handed only segments OF `org`, of tables the expansion returned — in
particular the verbatim / fallback names of theorem 1 never reach another organisation's data. -/
theorem search_sees_only_own_org (expr : Name) (org : Org) (es : Bool) (T : List (Org × Name)) (A : List AliasEntry)
    (qlo qhi : Int) (rot unrot : List Seg) (hd : DistinctKeys rot) (s : Seg)
    (hs : s ∈ selectRotated qlo qhi (expand expr org es T A) org (Meta.ofList rot) ∨
          s ∈ selectUnrotated qlo qhi (expand expr org es T A) org unrot) :
    s.org = org ∧ s.table ∈ expand expr org es T A := by
  rcases hs with h | h
  · have := (select_only_named_org qlo qhi _ org rot hd s).1 h
    exact ⟨this.2.2.1, this.2.1⟩
  · have := (select_only_named_org_unrotated qlo qhi _ org unrot s).1 h
    exact ⟨this.2.2.1, this.2.1⟩

/-- non-vacuity: two organisations hold a table `logs`; organisation 2's query admits only its own segment -/
example : (selectRotated 0 100 ["logs".toList] 2
    (Meta.ofList [⟨1, "logs".toList, 1, 0, 10⟩, ⟨2, "logs".toList, 2, 0, 10⟩, ⟨3, "logs2".toList, 2, 0, 10⟩])).map (·.key) = [2] := by
  decide +kernel

/-! ## 4. Deleting an index from the table list removes exactly that (organisation, index) -/

/-- C13.4 `DeleteVirtualTable(name, org)`: exactly the pair `(org, name)` leaves the table list — other
organisations' tables of the same name and names that are prefixes/extensions of `name` stay. -/
theorem delete_exact (org : Org) (name : Name) (T : List (Org × Name)) (p : Org × Name) :
    p ∈ deleteTable org name T ↔ p ∈ T ∧ p ≠ (org, name) := by
  obtain ⟨o, n⟩ := p
  simp only [deleteTable, List.mem_filter, Bool.not_eq_true', Bool.and_eq_false_iff, decide_eq_false_iff_not,
    ne_eq, Prod.mk.injEq, not_and]
  constructor
  · rintro ⟨h1, h2⟩
    refine ⟨h1, fun ho hn => ?_⟩
    rcases h2 with h2 | h2
    · exact h2 ho
    · exact h2 hn
  · rintro ⟨h1, h2⟩
    refine ⟨h1, ?_⟩
    by_cases ho : o = org
    · exact Or.inr (h2 ho)
    · exact Or.inl ho

/-- the expansions of every OTHER organisation are unchanged by the deletion -/
theorem delete_other_org_unaffected (org : Org) (name : Name) (T : List (Org × Name)) (A : List AliasEntry)
    (o : Org) (ho : o ≠ org) (expr : Name) (es : Bool) :
    expand expr o es (deleteTable org name T) A = expand expr o es T A := by
  have ht : tablesOf o (deleteTable org name T) = tablesOf o T := by
    apply tablesOf_filter
    intro p _ hp
    have : ¬ p.1 = org := fun h => ho (hp.symm.trans h)
    simp [this]
  have he : expandElem o (deleteTable org name T) A = expandElem o T A := by
    funext elem
    simp only [expandElem, ht]
  simp only [expand, collect, ht, he]

/-- non-vacuity (names that are prefixes of each other, same name in another organisation) -/
example : deleteTable 1 "logs".toList [(1, "logs".toList), (1, "logs2".toList), (2, "logs".toList), (1, "log".toList)]
    = [(1, "logs2".toList), (2, "logs".toList), (1, "log".toList)] := by decide +kernel

/-! ## 5. Deleting an index from the rotated-segment metadata removes exactly that (organisation, index) -/

/-- the full-strength statement: after `metadata.DeleteVirtualTable(t, o)` a segment is selected iff it was
selected before and is not a segment of index `t` of organisation `o`.  (`t ≠ []`: an index has a name —
`deleteSegmentKeyWithLock` uses the empty table name as its "not found" marker.) -/
def DeleteSegmentsExact : Prop :=
  ∀ (segs : List Seg), DistinctKeys segs → ∀ (t : Name), t ≠ [] → ∀ (o : Org) (qlo qhi : Int) (names : List Name) (org : Org) (s : Seg),
    s ∈ selectRotated qlo qhi names org ((Meta.ofList segs).deleteTable t o) ↔
      (s ∈ selectRotated qlo qhi names org (Meta.ofList segs) ∧ ¬ (s.table = t ∧ s.org = o))

/-- C13.5 For every set of segments: the data of the deleted index is gone from the view, and every other
(organisation, index) — same-named indexes of other organisations and prefix-related names included — is
selected exactly as before. -/
theorem delete_segments_exact : DeleteSegmentsExact := by
  intro segs hd t ht o qlo qhi names org s
  have hi := inv_ofList segs hd
  have hdel := inv_deleteTable hi (keyInj_of_distinct hd) t ht o
  rw [mem_selectRotated_inv hdel, mem_selectRotated_inv hi]
  constructor
  · rintro ⟨⟨h1, h2⟩, h3, h4, h5⟩; exact ⟨⟨h1, h3, h4, h5⟩, h2⟩
  · rintro ⟨⟨h1, h3, h4, h5⟩, h2⟩; exact ⟨⟨h1, h2⟩, h3, h4, h5⟩

/-- non-vacuity: organisation 1 deletes `logs`; its `logs2` and `log` and organisation 2's `logs` stay visible -/
example : (selectRotated 0 100 ["logs".toList, "logs2".toList, "log".toList] 1
    ((Meta.ofList [⟨1, "logs".toList, 1, 0, 10⟩, ⟨2, "logs2".toList, 1, 0, 10⟩, ⟨3, "log".toList, 1, 0, 10⟩,
      ⟨4, "logs".toList, 2, 0, 10⟩]).deleteTable "logs".toList 1)).map (·.key) = [2, 3] := by decide +kernel
example : (selectRotated 0 100 ["logs".toList] 2
    ((Meta.ofList [⟨1, "logs".toList, 1, 0, 10⟩, ⟨4, "logs".toList, 2, 0, 10⟩]).deleteTable "logs".toList 1)).map (·.key) = [4] := by
  decide +kernel

/-- the behaviour BEFORE the fix (`Meta.deleteTableOld`: the table's whole name-keyed entry was dropped):
after organisation 1 deleted `logs`, organisation 2's `logs` segment was no longer selected. -/
theorem deleteTableOld_counterexample :
    selectRotated 0 100 ["logs".toList] 2
      ((Meta.ofList [⟨1, "logs".toList, 1, 0, 10⟩, ⟨4, "logs".toList, 2, 0, 10⟩]).deleteTableOld "logs".toList 1) = [] := by
  decide +kernel

/-! ## 6. Stream ids keep (organisation, index) pairs apart -/

/-- C13.6 The coded format `"<shard>-<org>-<hash(index)>"`, for EVERY hash function: two stream ids are the
same string only if shard, organisation and the hash of the index name agree — the organisation is
rendered OUTSIDE the hash and the string parses uniquely (decimal renderings contain no `-` except the
sign of the organisation, and are injective). -/
theorem stream_id_separates (H : Name → Nat) (s s' : Nat) (o o' : Org) (i i' : Name)
    (h : streamId H s o i = streamId H s' o' i') : s = s' ∧ o = o' ∧ H i = H i' :=
  streamId_parse H s s' o o' i i' h

/-- … hence, for a collision-free hash, only if (organisation, index) agree: an open segment store is never
shared between two organisations or two indexes. -/
theorem stream_id_injective (H : Name → Nat) (hH : ∀ a b, H a = H b → a = b) (s s' : Nat) (o o' : Org) (i i' : Name)
    (h : streamId H s o i = streamId H s' o' i') : o = o' ∧ i = i' :=
  let ⟨_, ho, hi⟩ := streamId_parse H s s' o o' i i' h
  ⟨ho, hH _ _ hi⟩

/-- the statement on the PRE-IMAGE (no assumption on the hash at all): the text outside the hash together
with the hashed string determines (organisation, index). -/
theorem stream_preimage_injective (o o' : Org) (i i' : Name) (h : streamPre o i = streamPre o' i') : o = o' ∧ i = i' := by
  simp only [streamPre, Prod.mk.injEq] at h
  exact ⟨decInt_injective h.1, h.2⟩

/-- why the organisation must stay outside: hashing `<org><index>` as ONE string makes different
(organisation, index) pairs share a pre-image — org 1 / `0app` and org 10 / `app`; org 2 / `17-logs` and
org 21 / `7-logs`. (`streamPreConcat` is NOT the code.) -/
theorem streamPreConcat_counterexample :
    streamPreConcat 1 "0app".toList = streamPreConcat 10 "app".toList ∧
    streamPreConcat 2 "17-logs".toList = streamPreConcat 21 "7-logs".toList := by
  simp [streamPreConcat, decInt, decNat, digitChar]

/-- non-vacuity: the coded ids of those pairs differ for any hash -/
example (H : Name → Nat) : streamId H 0 1 "0app".toList ≠ streamId H 0 10 "app".toList :=
  fun h => absurd (stream_id_separates H 0 0 1 10 _ _ h).2.1 (by decide)

/-! ## 7. End to end: a search returns only records of the requesting organisation in named indexes -/

/-- C13.7 (composition of 1–3 on the record level) whatever was ingested by whichever organisation, the
records visible to a search of `org` over `expr` were ingested by `org`, into an index that the expansion
of `expr` for `org` returned — hence (theorem 2) an index the expression names. -/
theorem visible_only_own_named (recs : List Rec) (org : Org) (expr : Name) (r : Rec) (h : r ∈ visible recs org expr) :
    r ∈ recs ∧ r.org = org ∧
    r.index ∈ expand expr org false (recs.foldl (fun acc r => addTable r.org r.index acc) []) [] := by
  simp only [visible, List.mem_filter, Bool.and_eq_true, decide_eq_true_eq, List.contains_iff_mem] at h
  exact ⟨h.1, h.2.1, h.2.2⟩

/-- non-vacuity: digit-prefixed and prefix-related names over multi-digit organisations -/
example : (visible [⟨1, 1, "0app".toList⟩, ⟨2, 10, "app".toList⟩, ⟨3, 1, "app".toList⟩, ⟨4, 1, "app2".toList⟩] 1 "*app".toList).map (·.id)
    = [1, 3] := by decide +kernel
example : (visible [⟨1, 1, "0app".toList⟩, ⟨2, 10, "app".toList⟩, ⟨3, 1, "app".toList⟩, ⟨4, 1, "app2".toList⟩] 10 "*".toList).map (·.id)
    = [2] := by decide +kernel

end SigModel.Props.C13
