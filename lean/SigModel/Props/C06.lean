/-
C06 — Pipeline commands mean the same however the stream is chunked.
Property theorems only.  Model: SigModel/Model/Pipe.lean (the DataProcessor.Fetch loop `pass` / `runBatches`
over the processors of head, tail, scroll-from, dedup, fillnull, rename, fields).

Every `chunk_invariant_*` theorem quantifies over EVERY list of batches `parts` (any table, any partition,
empty batches included): what the final consumer receives equals the documented meaning `sem` applied to
the concatenated input.  The model mirrors the code AFTER the C06 repairs (dedup key = digest of the sequence of
field hashes, dedup columns read with backfill, tail hands out a copy of its result).  `kf` is the key of a
tuple of field values; in the code `digestKey h combine` with `h` the hash of a single value and `combine`
the digest of the sequence of hashes (both xxhash) — parameters.

Section `plan` (model: SigModel/Model/PipePlan.lean, lemmas: Lemmas/C06P.lean, suite pipeplan): which commands
CanParallelSearch / SetupQueryParallelism clone into parallel chains, `sort` under any batching, the merge of the chains'
sorted results under the merge limit (numReturned), and the second read of the merger after DataProcessor.Rewind.
-/
import SigModel.Model.Pipe
import SigModel.Lemmas.C06
import SigModel.Lemmas.C06b
import SigModel.Lemmas.C06c
import SigModel.Model.PipePlan
import SigModel.Lemmas.C06P
import SigModel.Lemmas.C06MS

namespace SigModel.Props.C06
open SigModel.Pipe SigModel.Lemmas.C06

/-! ### commands whose processors are chunk-invariant without any condition -/

/-- `head n`: the counter kept between batches makes the limit global; the early EOF drops nothing that
the full-stream meaning keeps. -/
theorem chunk_invariant_head (n : Nat) (parts : List Table) :
    runBatched (headProc n) parts = sem (.head n) parts.flatten := by
  simp only [runBatched, runBatches, headProc, Bool.false_eq_true, ↓reduceIte, Bool.not_false, sem]
  exact head_pass n parts 0

/-- `tail n` (a bottleneck: everything is withheld until the upstream's EOF): the last n rows of the whole
stream, in reverse order, whatever the batch sizes. -/
theorem chunk_invariant_tail (n : Nat) (parts : List Table) :
    runBatched (tailProc n) parts = sem (.tail n) parts.flatten := by
  simp only [runBatched, runBatches, tailProc, Bool.false_eq_true, ↓reduceIte, Bool.not_true, sem]
  have := tail_pass n parts none [] (by simp [lastN])
  simpa [lastN, tailProc] using this

/-- the `scroll from` processor skips exactly the first `from` rows of the whole stream -/
theorem chunk_invariant_scroll (n : Nat) (parts : List Table) :
    runBatched (scrollProc n) parts = sem (.scroll n) parts.flatten := by
  simp only [runBatched, runBatches, scrollProc, Bool.false_eq_true, ↓reduceIte, Bool.not_false, sem]
  exact scroll_pass n parts n

/-- `rename old as new` -/
theorem chunk_invariant_rename (a b : String) (parts : List Table) :
    runBatched (rowwiseProc (renameTable a b)) parts = sem (.rename a b) parts.flatten := by
  exact rowwise_run _ (by simp [renameTable, dropEmpty]) (by intro x y; simp [renameTable, dropEmpty]) parts

/-- `fields + …` / `fields - …` (literal names) -/
theorem chunk_invariant_fields (inc : Bool) (fs : List String) (parts : List Table) :
    runBatched (rowwiseProc (fieldsTable inc fs)) parts = sem (.fields inc fs) parts.flatten := by
  exact rowwise_run _ (by simp [fieldsTable, dropEmpty]) (by intro x y; simp [fieldsTable, dropEmpty]) parts

/-- `fillnull value=v f1 …` (with a field list: streaming) -/
theorem chunk_invariant_fillnull_fields (v : String) (f : String) (fs : List String) (parts : List Table) :
    runBatched (rowwiseProc (fillTable (f :: fs) v)) parts = sem (.fillnull v (f :: fs)) parts.flatten := by
  exact rowwise_run _ (by simp [fillTable]) (by intro x y; simp [fillTable]) parts

/-- `fillnull value=v` without a field list — the two-pass command: the first read collects the columns of
the whole stream, `Rewind`, the second read fills.  Stated for two DIFFERENT partitions of the same rows
in the two passes ("in one or two passes"). -/
theorem two_pass_fillnull_all (v : String) (parts1 parts2 : List Table) (hsame : parts1.flatten = parts2.flatten) :
    runTwoPass (fillAllProc v) parts1 parts2 = sem (.fillnull v []) parts1.flatten := by
  unfold runTwoPass
  rw [show (fillAllProc v).init = { known := [], second := false } from rfl, fillAll_pass1]
  rw [show (fillAllProc v).rewind { known := parts1.foldl addCols [], second := false }
        = { known := parts1.foldl addCols [], second := true } from rfl, fillAll_pass2]
  rw [map_flatten_of_hom _ (by simp [fillTable]) (by intro x y; simp [fillTable]) parts2, addCols_flatten, ← hsame]
  rfl

theorem chunk_invariant_fillnull_all (v : String) (parts : List Table) :
    runBatched (fillAllProc v) parts = sem (.fillnull v []) parts.flatten :=
  two_pass_fillnull_all v parts parts rfl

/-! ### composition -/

/-- If two processors are chunk-invariant, so is the second one fed with whatever batches the first one
emits: the chain means the composition of the two meanings. -/
theorem compose {σ τ : Type} (p : Proc σ) (q : Proc τ) (f g : Table → Table)
    (hp : ∀ parts, runBatched p parts = f parts.flatten)
    (hq : ∀ parts, runBatched q parts = g parts.flatten) (parts : List Table) :
    runBatched q (runBatches p parts) = g (f parts.flatten) := by
  rw [hq, ← hp]; rfl

/-- a chunk-invariant stage: a processor together with its meaning -/
structure Stage where
  σ : Type
  proc : Proc σ
  meaning : Table → Table
  inv : ∀ parts, runBatched proc parts = meaning parts.flatten

/-- each stage is fed the batches the previous one emits -/
def runStages : List Stage → List Table → List Table
  | [], parts => parts
  | s :: ss, parts => runStages ss (runBatches s.proc parts)

/-- every chain of chunk-invariant stages means the composition of the stage meanings on the whole input,
for every partition of the input (induction on the chain) -/
theorem chain_invariant (ss : List Stage) : ∀ (parts : List Table),
    (runStages ss parts).flatten = ss.foldl (fun t s => s.meaning t) parts.flatten := by
  induction ss with
  | nil => intro parts; rfl
  | cons s ss ih =>
    intro parts
    simp only [runStages, List.foldl_cons]
    rw [ih, ← s.inv]; rfl

/-- the chain reader the Oracle runs (`Chain.read`, which re-reads a rewound upstream for two-pass
commands) is `runBatches` for one DataProcessor over the replayed source … -/
theorem read_single {σ : Type} (p : Proc σ) (parts : List Table) (n : Nat) :
    (Chain.read (n + 2) (.dp (.src parts) p p.init false)).2 = runBatches p parts := by
  simp only [Chain.read, runBatches, Chain.rewind]
  cases p.twoPass <;> simp

/-- … and `runBatches` of `runBatches` for a single-pass command on top of any command. -/
theorem read_pair {σ τ : Type} (p : Proc σ) (q : Proc τ) (hq : q.twoPass = false) (parts : List Table) (n : Nat) :
    (Chain.read (n + 3) (.dp (.dp (.src parts) p p.init false) q q.init false)).2 = runBatches q (runBatches p parts) := by
  have h1 := read_single p parts n
  simp only [Chain.read, Chain.rewind, runBatches, hq, Bool.false_and, Bool.false_eq_true, ↓reduceIte, Bool.or_false] at h1 ⊢
  cases hp : p.twoPass <;> simp [hp] at h1 ⊢

/-! ### dedup -/

/-- What the CODE computes, for EVERY key function on value tuples, every option set (limit, consecutive,
keepempty, keepevents) and every partition — whatever columns the batches carry (an absent column reads
as nulls): dedup of the whole stream under that key.  The seen-map survives batch boundaries exactly. -/
theorem chunk_invariant_dedup_code (kf : List Val → Nat) (o : DedupOpts) (parts : List Table)
    (hf : o.fields ≠ []) :
    runBatched (dedupProc kf o) parts = dedupSpec (rowKey kf o.fields) o parts.flatten := by
  show (if (dedupProc kf o).twoPass then _ else
      (pass (dedupProc kf o) (!(dedupProc kf o).bottleneck) (dedupProc kf o).init parts).2).flatten = _
  rw [show (dedupProc kf o).twoPass = false from rfl, show (dedupProc kf o).bottleneck = false from rfl,
    show (dedupProc kf o).init = [] from rfl]
  simp only [Bool.false_eq_true, ↓reduceIte, Bool.not_false]
  rw [dedup_pass kf o hf parts [], dedupRows_spec kf o parts.flatten [] [] (rel_init _)]
  rfl

/-- assumption on the single-value hash: no collisions -/
def HashInjective (h : Val → Nat) : Prop := ∀ v w, h v = h w → v = w
/-- assumption on the digest: no collisions between hash sequences of the same length (the digest input is
the concatenation of fixed-width 8-byte hashes of the same number of fields) -/
def DigestInjective (combine : List Nat → Nat) : Prop :=
  ∀ a b : List Nat, a.length = b.length → combine a = combine b → a = b

/-- FULL STATEMENT about the key: tuples of the same length with different values get different keys —
modulo exactly the two collision-freeness assumptions above. -/
theorem dedup_key_injective (h : Val → Nat) (combine : List Nat → Nat)
    (hinj : HashInjective h) (cinj : DigestInjective combine) (vs ws : List Val)
    (hl : vs.length = ws.length) (e : digestKey h combine vs = digestKey h combine ws) : vs = ws := by
  unfold digestKey at e
  exact map_injective_of_injective h hinj vs ws (cinj _ _ (by simp [hl]) e)

/-- C06 for dedup at full strength: for every partition, every column layout of the batches and every
option set, the code's dedup is the documented dedup (key = the TUPLE of field values) of the whole
stream.  Residual assumptions: the two hashes are collision-free. -/
theorem chunk_invariant_dedup (h : Val → Nat) (combine : List Nat → Nat)
    (hinj : HashInjective h) (cinj : DigestInjective combine) (o : DedupOpts) (parts : List Table)
    (hf : o.fields ≠ []) :
    runBatched (dedupProc (digestKey h combine) o) parts = sem (.dedup o) parts.flatten := by
  rw [chunk_invariant_dedup_code _ o parts hf]
  simp only [sem, dedupSpec]
  have hkey : (rowKey (digestKey h combine) o.fields)
      = fun r => (rowKey (fun vs => vs) o.fields r).map (digestKey h combine) := by
    funext r; exact rowKey_map _ _ _
  rw [hkey]
  have := spec_congr (digestKey h combine) (rowKey (fun vs => vs) o.fields) o parts.flatten [] (by
    intro x y hx hy e
    rcases hx with hx | ⟨r, _, hx⟩
    · exact absurd hx (by simp)
    rcases hy with hy | ⟨r', _, hy⟩
    · exact absurd hy (by simp)
    exact dedup_key_injective h combine hinj cinj x y
      (by rw [rowKey_length _ _ _ hx, rowKey_length _ _ _ hy]) e)
  simpa using this

/-- decidable, table-local form of the collision assumption: on the rows of THIS table the key separates
what the value tuples separate (Bool) -/
def keyFaithful (kf : List Val → Nat) (fs : List String) (t : Table) : Bool :=
  t.all (fun r => t.all (fun r' =>
    match rowKey (fun vs => vs) fs r, rowKey (fun vs => vs) fs r' with
    | some vs, some ws => kf vs != kf ws || vs == ws
    | _, _ => true))

/-- the same theorem for ANY key function under the table-local, checkable assumption (no global
injectivity needed; see the `example` at the end for a concrete instance) -/
theorem chunk_invariant_dedup_local (kf : List Val → Nat) (o : DedupOpts) (parts : List Table)
    (hf : o.fields ≠ []) (hk : keyFaithful kf o.fields parts.flatten = true) :
    runBatched (dedupProc kf o) parts = sem (.dedup o) parts.flatten := by
  rw [chunk_invariant_dedup_code kf o parts hf]
  simp only [sem, dedupSpec]
  have hkey : (rowKey kf o.fields) = fun r => (rowKey (fun vs => vs) o.fields r).map kf := by
    funext r; exact rowKey_map _ _ _
  rw [hkey]
  have := spec_congr kf (rowKey (fun vs => vs) o.fields) o parts.flatten [] (by
    intro x y hx hy e
    rcases hx with hx | ⟨r, hr, hx⟩
    · exact absurd hx (by simp)
    rcases hy with hy | ⟨r', hr', hy⟩
    · exact absurd hy (by simp)
    have h1 := (List.all_eq_true.mp ((List.all_eq_true.mp hk) r hr)) r' hr'
    rw [hx, hy] at h1
    simp only [Bool.or_eq_true, bne_iff_ne, ne_eq, beq_iff_eq] at h1
    rcases h1 with h1 | h1
    · exact absurd e h1
    · exact h1)
  simpa using this

/-- The code BEFORE the repair combined the field hashes with XOR: for EVERY hash (1,2) and (2,1) collide … -/
theorem dedup_key_counterexample_old (h : Val → Nat) :
    xorKeyOld h [.int 1, .int 2] = xorKeyOld h [.int 2, .int 1] := xorKeyOld_swap h _ _

/-- … and so do (1,1) and (2,2) (every pair of equal values has key 0). -/
theorem dedup_key_counterexample_cancel_old (h : Val → Nat) :
    xorKeyOld h [.int 1, .int 1] = xorKeyOld h [.int 2, .int 2] := by
  rw [xorKeyOld_pair_self, xorKeyOld_pair_self]

/-- with that key the code's dedup is NOT the documented one (same theorem `chunk_invariant_dedup_code`,
instantiated with the old key): (a=1,b=2), (a=2,b=1) come out as one row, for every hash. -/
theorem chunk_invariant_dedup_counterexample_old (h : Val → Nat) :
    runBatched (dedupProc (xorKeyOld h) { fields := ["a", "b"] })
        [[[("a", .int 1), ("b", .int 2)], [("a", .int 2), ("b", .int 1)]]]
      ≠ sem (.dedup { fields := ["a", "b"] }) [[("a", .int 1), ("b", .int 2)], [("a", .int 2), ("b", .int 1)]] := by
  rw [chunk_invariant_dedup_code _ _ _ (by simp)]
  intro e
  have hl := congrArg List.length e
  simp [sem, dedupSpec, dedupSpecFrom, rowKey, Row.get, List.lookup_cons, Val.isNull, emitRow, xorKeyOld, Nat.xor_comm] at hl

/-! ### a two-pass command on top of a stateful command (the upstream is rewound and read again) -/

/-- the single-pass processor `p`, rewound after a complete read of `parts`, yields its meaning again -/
def RereadableOn {σ : Type} (p : Proc σ) (f : Table → Table) (parts : List Table) : Prop :=
  ((pass p (!p.bottleneck) (p.rewind (pass p (!p.bottleneck) p.init parts).1) parts).2).flatten = f parts.flatten

/-- `head`'s Rewind resets the counter -/
theorem rereadable_head (n : Nat) (parts : List Table) : RereadableOn (headProc n) (sem (.head n)) parts := by
  have := chunk_invariant_head n parts
  simpa [RereadableOn, runBatched, runBatches, headProc] using this

/-- `dedup`'s Rewind drops the seen-map -/
theorem rereadable_dedup (h : Val → Nat) (combine : List Nat → Nat)
    (hinj : HashInjective h) (cinj : DigestInjective combine) (o : DedupOpts) (parts : List Table)
    (hf : o.fields ≠ []) :
    RereadableOn (dedupProc (digestKey h combine) o) (sem (.dedup o)) parts := by
  have := chunk_invariant_dedup h combine hinj cinj o parts hf
  unfold RereadableOn
  rw [show (dedupProc (digestKey h combine) o).rewind _ = (dedupProc (digestKey h combine) o).init from rfl]
  simpa [runBatched, runBatches, dedupProc] using this

/-- `tail` does not rewind anything: it answers with (a copy of) the final result it already has -/
theorem rereadable_tail (n : Nat) (parts : List Table) : RereadableOn (tailProc n) (sem (.tail n)) parts := by
  have := chunk_invariant_tail n parts
  unfold RereadableOn
  rw [show (tailProc n).bottleneck = true from rfl]
  simp only [Bool.not_true]
  rw [tail_reread]
  simpa [runBatched, runBatches, tailProc] using this

/-- the row-wise commands have no state -/
theorem rereadable_rowwise (f : Table → Table) (h0 : f [] = []) (happ : ∀ a b, f (a ++ b) = f a ++ f b)
    (parts : List Table) : RereadableOn (rowwiseProc f) f parts := by
  have := rowwise_run f h0 happ parts
  unfold RereadableOn
  rw [show (rowwiseProc f).rewind _ = (rowwiseProc f).init from rfl]
  simpa [runBatched, runBatches, rowwiseProc] using this

/-- The two-pass `fillnull` on top of any single-pass command that is chunk-invariant and re-readable:
first read, Rewind of the whole chain, second read — the chain means fillnull of the upstream's meaning,
for every partition of the source.  (`Chain.read` is what the Oracle runs.) -/
theorem two_pass_over {σ : Type} (p : Proc σ) (hp2 : p.twoPass = false) (f : Table → Table) (parts : List Table)
    (n : Nat) (v : String) (h1 : runBatched p parts = f parts.flatten) (h2 : RereadableOn p f parts) :
    ((Chain.read (n + 3) (.dp (.dp (.src parts) p p.init false) (fillAllProc v) (fillAllProc v).init false)).2).flatten
      = sem (.fillnull v []) (f parts.flatten) := by
  simp only [Chain.read, Chain.rewind, hp2, show (fillAllProc v).twoPass = true from rfl,
    Bool.false_and, Bool.or_false, Bool.not_false, Bool.and_true, Bool.false_eq_true, ↓reduceIte]
  have hx1 : ((pass p (!p.bottleneck) p.init parts).2).flatten = f parts.flatten := by
    simpa [runBatched, runBatches, hp2] using h1
  have := two_pass_fillnull_all v (pass p (!p.bottleneck) p.init parts).2
    (pass p (!p.bottleneck) (p.rewind (pass p (!p.bottleneck) p.init parts).1) parts).2 (by rw [hx1]; exact h2.symm)
  rw [hx1] at this
  exact this

/-- "in one or two passes", the chain that lost a column before the repair (tail answered the second pass
with the very object `rename` had already renamed in place): with tail handing out copies it means the
composition of the three meanings. -/
theorem two_pass_reread_repaired (kf : List Val → Nat) :
    runChain kf [.tail 1, .rename "b" "e", .fillnull "30" []] [[[("a", .int 1), ("b", .int 7)]]]
      = sem (.fillnull "30" []) (sem (.rename "b" "e") (sem (.tail 1) [[("a", .int 1), ("b", .int 7)]])) := rfl

/-! ### the whole command set -/

/-- the only condition left: dedup names at least one field (the parser guarantees it) -/
def Guard : Cmd → Prop
  | .dedup o => o.fields ≠ []
  | _ => True

/-- C06 for every modelled command: one DataProcessor of the command over ANY partition of ANY table, with
any column layout of the batches, yields the documented meaning on the whole ordered input (dedup: assuming
collision-free hashes). -/
theorem chunk_invariant (h : Val → Nat) (combine : List Nat → Nat)
    (hinj : HashInjective h) (cinj : DigestInjective combine) (c : Cmd) (parts : List Table) (hg : Guard c) :
    runCmd (digestKey h combine) c parts = sem c parts.flatten := by
  cases c with
  | head n => exact chunk_invariant_head n parts
  | tail n => exact chunk_invariant_tail n parts
  | scroll n => exact chunk_invariant_scroll n parts
  | dedup o => exact chunk_invariant_dedup h combine hinj cinj o parts hg
  | fillnull v fs =>
    cases fs with
    | nil => exact chunk_invariant_fillnull_all v parts
    | cons f fs => exact chunk_invariant_fillnull_fields v f fs parts
  | rename a b => exact chunk_invariant_rename a b parts
  | fields inc fs => exact chunk_invariant_fields inc fs parts

/-- what the Oracle runs for a one-command op line is `runCmd` -/
theorem runChain_single (kf : List Val → Nat) (c : Cmd) (parts : List Table) :
    runChain kf [c] parts = runCmd kf c parts := by
  cases c with
  | fillnull v fs => cases fs <;> simp only [runChain, List.foldl, Cmd.stage, List.length, runCmd, runBatched] <;> rw [read_single]
  | _ => simp only [runChain, List.foldl, Cmd.stage, List.length, runCmd, runBatched]; rw [read_single]

/-! ### the plan / parallelism layer (Model/PipePlan.lean): which commands are cloned into parallel chains -/

section plan
open SigModel.PipePlan SigModel.Lemmas.C06P

/-- every DataProcessor kind: a two-pass command is a bottleneck, a command that ignores its input order is a bottleneck,
and only commands that ignore their input order are mergeable (the flag literals of dataprocessor.go, tied by the
correspondence run of suite pipeplan) -/
theorem kinds_flags_consistent : ∀ d, d ∈ allKinds →
    (d.twoPass = true → d.bottleneck = true) ∧ (d.ignoresOrder = true → d.bottleneck = true) ∧
      (d.mergeable = true → d.ignoresOrder = true) := by
  decide

/-- CanParallelSearch as coded: when it answers (true, i), position i is the FIRST bottleneck of the chain, no command up
to and including it depends on the order of its input or generates data, and some command up to it ignores its input order -/
theorem can_parallel_sound (dps : List Flags) (i : Nat) (h : canParallelSearch dps = (true, i)) :
    (∃ d, dps[i]? = some d ∧ d.bottleneck = true ∧ d.orderMatters = false ∧ d.generates = false) ∧
    (∀ j d, j < i → dps[j]? = some d → d.bottleneck = false ∧ d.orderMatters = false ∧ d.generates = false) ∧
    (∃ j d, j ≤ i ∧ dps[j]? = some d ∧ d.ignoresOrder = true) := by
  obtain ⟨k, hk, hb, hpre, hign⟩ := canParallelGo_sound dps false 0 i h
  have : i = k := by omega
  subst this
  refine ⟨hb, hpre, ?_⟩
  rcases hign with hc | hi
  · exact absurd hc (by simp)
  · exact hi

/-- C06 for the planner: NO two-pass command and no bottleneck is ever cloned into the parallel chains (every chain would
derive its first-pass state from its own share only), and the command the chains are merged at ignores its input order
(so it does not matter which rows reach which chain, nor in which order the chains deliver). -/
theorem cloned_commands_stream (dps : List Flags) (hk : ∀ d, d ∈ dps → d ∈ allKinds) (i : Nat)
    (h : canParallelSearch dps = (true, i)) :
    (∀ j d, j < i → dps[j]? = some d → d.twoPass = false ∧ d.bottleneck = false ∧ d.orderMatters = false) ∧
    (∃ d, dps[i]? = some d ∧ d.ignoresOrder = true ∧ d.bottleneck = true) := by
  obtain ⟨⟨d, hd, hdb, _, _⟩, hpre, ⟨j, dj, hj, hdj, hi⟩⟩ := can_parallel_sound dps i h
  refine ⟨?_, ?_⟩
  · intro j d hj hd
    have hp := hpre j d hj hd
    have hw := kinds_flags_consistent d (hk d (List.mem_of_getElem? hd))
    refine ⟨?_, hp.1, hp.2.1⟩
    cases ht : d.twoPass with
    | false => rfl
    | true => have := hw.1 ht; rw [hp.1] at this; exact absurd this (by simp)
  · have hw := kinds_flags_consistent dj (hk dj (List.mem_of_getElem? hdj))
    have hbj := hw.2.1 hi
    by_cases hji : j < i
    · have := (hpre j dj hji hdj).1
      rw [this] at hbj
      exact absurd hbj (by simp)
    · have : j = i := by omega
      subst this
      have e : dj = d := Option.some.inj (hdj.symm.trans hd)
      exact ⟨d, hd, e ▸ hi, hdb⟩

/-- the commands of the plan grammar with a meaning in the model -/
def InGrammar : PCmd → Prop
  | .base (.scroll _) => False
  | .shapeOnly _ _ => False
  | _ => True

/-- a command is chunk-local when its output on a union of inputs is the concatenation of its outputs -/
def RowLocal (c : PCmd) : Prop :=
  ∃ f : Table → Table, (∀ t, semP c t = some (f t)) ∧ f [] = [] ∧ ∀ a b, f (a ++ b) = f a ++ f b

/-- every command that CAN be cloned into parallel chains (its DataProcessors are no bottleneck and do not depend on the
input order) is chunk-local: where, eval, rename, fields, fillnull with a field list, bin with a span — what a chain
computes on its share is its part of the whole answer -/
theorem cloned_commands_row_local (c : PCmd) (hg : InGrammar c)
    (h : ∀ d, d ∈ c.dps → d.bottleneck = false ∧ d.orderMatters = false) : RowLocal c := by
  cases c with
  | base b =>
    cases b with
    | head n => exact absurd (h headDP (by simp [PCmd.dps])).2 (by simp [headDP])
    | tail n => exact absurd (h tailDP (by simp [PCmd.dps])).1 (by simp [tailDP])
    | scroll n => exact absurd hg (by simp [InGrammar])
    | dedup o => exact absurd (h (dedupDP false) (by simp [PCmd.dps])).2 (by simp [dedupDP])
    | fillnull v fs =>
      cases fs with
      | nil => exact absurd (h (fillnullDP false) (by simp [PCmd.dps])).1 (by simp [fillnullDP])
      | cons f fs => exact ⟨fillTable (f :: fs) v, fun t => rfl, by simp [fillTable], by intro a b; simp [fillTable]⟩
    | rename a b => exact ⟨renameTable a b, fun t => rfl, by simp [renameTable, dropEmpty], by intro x y; simp [renameTable, dropEmpty]⟩
    | fields inc fs => exact ⟨fieldsTable inc fs, fun t => rfl, by simp [fieldsTable, dropEmpty], by intro x y; simp [fieldsTable, dropEmpty]⟩
  | sort l ks => exact absurd (h sortDP (by simp [PCmd.dps])).1 (by simp [sortDP])
  | bin f span bins =>
    cases span with
    | zero => exact absurd (h (binDP false) (by simp [PCmd.dps])).1 (by simp [binDP])
    | succ sp => exact ⟨binSpanSem f (sp + 1), fun t => rfl, by simp [binSpanSem], by intro a b; simp [binSpanSem]⟩
  | stats aggs by_ => exact absurd (h statsDP (by simp [PCmd.dps])).1 (by simp [statsDP])
  | where_ f op c => exact ⟨whereSem f op c, fun t => rfl, by simp [whereSem], by intro a b; simp [whereSem]⟩
  | eval n f op c => exact ⟨evalSem n f op c, fun t => rfl, by simp [evalSem], by intro a b; simp [evalSem]⟩
  | shapeOnly d fs => exact absurd hg (by simp [InGrammar])

/-! ### sort: batches, parallel chains, merge limit, Rewind -/

/-- the rows are told apart by the sort keys (the op format makes the last key row-unique) -/
def KeysSeparate (ks : List (String × Bool)) (t : Table) : Prop := AS (leKeys ks) t

/-- `sort <limit> <keys>` under the Fetch loop, for EVERY partition of the input into batches: the first `limit` rows of
the sorted input (sortProcessor.Process merges every sorted batch into resultsSoFar and cuts at the limit) -/
theorem chunk_invariant_sort (l : Nat) (ks : List (String × Bool)) (parts : List Table)
    (hu : KeysSeparate ks parts.flatten) :
    runBatched (sortProc l ks) parts = sortSem l ks parts.flatten :=
  sort_runBatched (leKeys_trans ks) (leKeys_total ks) (sortLimit l) parts hu

/-- PARALLEL CHAINS + MERGE LIMIT: however the rows are dealt to the chains (`shares`, one table per chain that takes
part), when every chain sorts its share under the limit and the merger merges the chains' results under the same limit
(rounds of MergeIQRs, each until a chain is drained; DiscardAfter(limit - numReturned)), the consumer receives exactly
`sort <limit> <keys>` of the whole input. -/
theorem parallel_sort_is_sort (l : Nat) (ks : List (String × Bool)) (shares : List Table)
    (hu : KeysSeparate ks shares.flatten) :
    (mergerBatches (lessKeys ks) (sortLimit l) (shares.map (sortSem l ks))).flatten = sortSem l ks shares.flatten :=
  parallel_sort_merge (leKeys_trans ks) (leKeys_total ks) (lessKeys_eq ks) (sortLimit l) shares hu

/-- LIMITS ARE EXACT (C05): the consumer of parallel `sort <limit>` chains receives exactly min(limit, rows) rows -/
theorem parallel_sort_row_count (l : Nat) (ks : List (String × Bool)) (shares : List Table)
    (hu : KeysSeparate ks shares.flatten) :
    (mergerBatches (lessKeys ks) (sortLimit l) (shares.map (sortSem l ks))).flatten.length
      = min (sortLimit l) shares.flatten.length := by
  rw [parallel_sort_is_sort l ks shares hu]
  simp [sortSem, sortL, List.length_take, List.length_mergeSort]

/-- … in particular the answer does not depend on how many chains there are nor on which rows reach which chain: any two
dealings of the same rows (permutations of each other) give the same answer -/
theorem parallel_sort_independent_of_dealing (l : Nat) (ks : List (String × Bool)) (sh₁ sh₂ : List Table)
    (hp : sh₁.flatten.Perm sh₂.flatten) (hu : KeysSeparate ks sh₁.flatten) :
    (mergerBatches (lessKeys ks) (sortLimit l) (sh₁.map (sortSem l ks))).flatten
      = (mergerBatches (lessKeys ks) (sortLimit l) (sh₂.map (sortSem l ks))).flatten := by
  have hu2 : KeysSeparate ks sh₂.flatten := hu.mono (fun x hx => hp.symm.subset hx)
  rw [parallel_sort_is_sort l ks sh₁ hu, parallel_sort_is_sort l ks sh₂ hu2]
  unfold sortSem sortL
  rw [mergeSort_perm_eq (leKeys_trans ks) (leKeys_total ks) hu hp]

/-- the merger hands out, in total, the first `limit - numReturned` rows of the sorted union of what the chains still
have to deliver: the counter is what makes the limit global across merge rounds -/
theorem merger_limit_global (l : Nat) (ks : List (String × Bool)) (s : MergerSt) (fuel : Nat)
    (hs : ∀ q, q ∈ s.queues → q.Pairwise (fun a b => leKeys ks a b = true)) (hu : KeysSeparate ks s.queues.flatten)
    (hf : totalLen s.queues < fuel) :
    (mergerRun (lessKeys ks) l fuel s).2.flatten = (s.queues.flatten.mergeSort (leKeys ks)).take (l - s.numReturned) :=
  mergerRun_spec (leKeys_trans ks) (leKeys_total ks) (lessKeys_eq ks) l fuel s hs hu hf

/-- REWIND ("in one or two passes"): DataProcessor.Rewind resets numReturned and rewinds the streams, so a two-pass command
downstream reads from the merger, the second time, exactly what it read the first time -/
theorem merger_second_pass_same (less : Row → Row → Bool) (limit fuel : Nat) (full : List Table) (s : MergerSt) :
    (mergerRun less limit fuel (mergerRewind full s)).2 = (mergerRun less limit fuel { queues := full }).2 := rfl

/-- a Rewind that kept the counter (as if only the merger's own second pass reset it) would make the second read come up
short: here empty, although the first read delivered a row -/
theorem merger_second_pass_needs_reset :
    let q : List Table := [[[("id", .int 1)]], [[("id", .int 2)]]]
    let ks := [("id", true)]
    let first := mergerRun (lessKeys ks) 1 5 { queues := q }
    (first.2.flatten = [[("id", .int 1)]]) ∧
      (mergerRun (lessKeys ks) 1 5 { queues := q, numReturned := first.1.numReturned }).2.flatten = [] := by
  decide

/-- decidable form of `KeysSeparate` (what the op format guarantees by a row-unique last key) -/
def keysSeparateB (ks : List (String × Bool)) (t : Table) : Bool :=
  t.all (fun a => t.all (fun b => !(leKeys ks a b && leKeys ks b a) || a == b))

theorem keysSeparate_of_B (ks : List (String × Bool)) (t : Table) (h : keysSeparateB ks t = true) : KeysSeparate ks t := by
  intro a b ha hb h1 h2
  have := List.all_eq_true.mp (List.all_eq_true.mp h a ha) b hb
  simpa [h1, h2] using this

/-- setMergeSettings as coded: when a sort is followed by a command that ignores its input order (a second sort, stats), the
merge settings of the first sort are overwritten with the always-true comparator — while a limit stays in place … -/
theorem merge_settings_later_sort_drops_order :
    (mergeSettingsOf [sortDP, sortDP] (fun i => if i = 0 then 3 else 10000)).getD 0 {} = { less := .always, limit := some 3 } ∧
    (mergeSettingsOf [sortDP, evalDP, sortDP, statsDP] (fun i => if i = 0 then 3 else 10000)).getD 0 {}
      = { less := .always, limit := some 10000 } ∧
    (mergeSettingsOf [sortDP, headDP, sortDP] (fun i => if i = 0 then 3 else 10000)).getD 0 {} = { less := .sortAt 0, limit := some 3 } := by
  decide

/-- … which is why the merger of parallel sort chains must not take them: SetupQueryParallelism (after the repair) gives it the
comparator and the limit of the sort it merges, whatever follows in the chain -/
theorem merger_takes_sort_order (k : Nat) (dps : List Flags) (limitAt : Nat → Nat) (lk : LessKind) (l : Option Nat)
    (h : (setup k false dps limitAt).merger = .limit lk l) :
    lk = .sortAt (canParallelSearch dps).2 ∧ l = some (limitAt (canParallelSearch dps).2) := by
  simp only [setup, setupWith, Bool.false_eq_true, ↓reduceIte] at h
  split at h
  · split at h
    · exact absurd h (by simp)
    · simp only [Merger.limit.injEq] at h
      exact ⟨h.1.symm, h.2.symm⟩
  · exact absurd h (by simp)

/-- the code BEFORE the repair (setupOld: less and limit from the sort's propagated mergeSettings): `sort 3 … | sort …` on
two CPUs gets a merger with the always-true comparator and limit 3; after the repair the sort's own order -/
theorem setupOld_merger_order_dropped :
    (setupOld 2 false [sortDP, sortDP] (fun i => if i = 0 then 3 else 10000)).merger = .limit .always (some 3) ∧
    (setup 2 false [sortDP, sortDP] (fun i => if i = 0 then 3 else 10000)).merger = .limit (.sortAt 0) (some 3) := by
  decide

/-- … and a merger with the always-true comparator under a limit does NOT deliver the first rows of the sorted whole
(IndexOfMin with an always-true `less` picks the last stream): of the two chains' sorted results [id=1] and [id=2] under
limit 1 it passes on id=2.  `parallel_sort_is_sort` needs the sort's own comparator (fixed: old sig
plan-parallel/sort/order-dropped-limit-kept) -/
theorem parallel_sort_order_dropped_counterexample_old :
    (mergerBatches (fun _ _ => true) 1 [[[("id", .int 1)]], [[("id", .int 2)]]]).flatten = [[("id", .int 2)]] ∧
    (mergerBatches (lessKeys [("id", true)]) 1 [[[("id", .int 1)]], [[("id", .int 2)]]]).flatten = [[("id", .int 1)]] := by
  decide

/-! ### a DataProcessor with several input streams (getStreamInput; Model/PipePlan.lean §6, Lemmas/C06MS.lean, op `planms`) -/

open SigModel.Lemmas.C06MS in
/-- NO two-pass command takes the fast path of getStreamInput (`IgnoresInputOrder() && IsBottleneckCmd()`: whole batches from
whichever stream answers first): over the flag literals of every DataProcessor kind.  A two-pass command hands its input on in
input order in its second pass, so it must read the record-level merge. -/
theorem two_pass_never_reads_unmerged : ∀ d, d ∈ allKinds → d.twoPass = true → d.readsUnmerged = false := by
  decide

/-- every kind that does take the fast path ignores the order of its input (f(p(rows)) = f(rows)) and is not marked
order-dependent: sort, stats, timechart, top, rare — and nothing else -/
theorem unmerged_readers_ignore_order : ∀ d, d ∈ allKinds → d.readsUnmerged = true →
    d.ignoresOrder = true ∧ d.orderMatters = false ∧ d.twoPass = false ∧ d.name ∈ ["sort", "stats", "timechart", "top", "rare"] := by
  decide

/-- the condition seed C06-5 widened the fast path to (`!DoesInputOrderMatter() && IsBottleneckCmd()`) WOULD admit the two-pass
bottlenecks, which do not ignore their input order: `bin` without span and `fillnull` without field list -/
theorem widened_fast_path_admits_two_pass_counterexample :
    ¬ (∀ d, d ∈ allKinds → d.twoPass = true → d.readsUnmergedWidened = false) ∧
    (binDP false).readsUnmergedWidened = true ∧ (binDP false).ignoresOrder = false ∧
    (fillnullDP false).readsUnmergedWidened = true ∧ (fillnullDP false).ignoresOrder = false := by
  decide

/-- every stream is sorted in merge order (each is the output of a sorted upstream chain) -/
def StreamsSorted (ks : List (String × Bool)) (streams : List (List Table)) : Prop :=
  ∀ s, s ∈ streams → s.flatten.Pairwise (fun a b => leKeys ks a b = true)

/-- C06 for several input streams: a DataProcessor whose flags do NOT satisfy the fast-path condition, reading k ≥ 2 sorted
streams, hands its processor — in total, over all calls of getStreamInput until EOF — exactly the MERGE of the streams by the
comparator, cut at the merge limit: whatever the batch boundaries of the streams (each round merges the current batches until
one is drained, the rest goes back to its stream), whatever the arrival schedule. -/
theorem multi_stream_input_is_merge (d : Flags) (hd : d.readsUnmerged = false) (ks : List (String × Bool)) (limit : Option Nat)
    (sched : List Nat) (s₁ s₂ : List Table) (rest : List (List Table))
    (hs : StreamsSorted ks (s₁ :: s₂ :: rest)) (hu : KeysSeparate ks ((s₁ :: s₂ :: rest).map List.flatten).flatten) :
    (streamInput d (lessKeys ks) limit sched (s₁ :: s₂ :: rest)).flatten
      = takeOpt limit ((((s₁ :: s₂ :: rest).map List.flatten).flatten).mergeSort (leKeys ks)) := by
  simp only [streamInput, hd, Bool.false_eq_true, ↓reduceIte]
  rw [SigModel.Lemmas.C06MS.msRun_spec (leKeys_trans ks) (leKeys_total ks) (lessKeys_eq ks) limit _ _ 0
    (by
      intro s hm
      rcases List.mem_map.mp hm with ⟨s0, hs0, rfl⟩
      simpa [MStream.rows] using hs s0 hs0)
    (by rw [SigModel.Lemmas.C06MS.fresh_rows]; exact hu)
    (by unfold msFuel; omega)]
  rw [SigModel.Lemmas.C06MS.fresh_rows]
  cases limit <;> simp [takeOpt]

/-- … hence the answer does not depend on how the rows are split over the streams nor on how the streams are cut into batches:
two sets of sorted streams holding the same rows feed the processor the same sequence of rows.  With
`two_pass_never_reads_unmerged` this covers every two-pass command, and with the flag table head, tail, dedup, streamstats,
transaction and every row-wise command. -/
theorem multi_stream_input_independent_of_split (d : Flags) (hd : d.readsUnmerged = false) (ks : List (String × Bool))
    (limit : Option Nat) (sched₁ sched₂ : List Nat) (a₁ a₂ : List Table) (as : List (List Table)) (b₁ b₂ : List Table)
    (bs : List (List Table))
    (hp : ((a₁ :: a₂ :: as).map List.flatten).flatten.Perm ((b₁ :: b₂ :: bs).map List.flatten).flatten)
    (ha : StreamsSorted ks (a₁ :: a₂ :: as)) (hb : StreamsSorted ks (b₁ :: b₂ :: bs))
    (hu : KeysSeparate ks ((a₁ :: a₂ :: as).map List.flatten).flatten) :
    (streamInput d (lessKeys ks) limit sched₁ (a₁ :: a₂ :: as)).flatten
      = (streamInput d (lessKeys ks) limit sched₂ (b₁ :: b₂ :: bs)).flatten := by
  have hu2 : KeysSeparate ks ((b₁ :: b₂ :: bs).map List.flatten).flatten := hu.mono (fun x hx => hp.symm.subset hx)
  rw [multi_stream_input_is_merge d hd ks limit sched₁ a₁ a₂ as ha hu,
    multi_stream_input_is_merge d hd ks limit sched₂ b₁ b₂ bs hb hu2,
    mergeSort_perm_eq (leKeys_trans ks) (leKeys_total ks) hu hp]

/-- … and equals what ONE stream holding the merged rows (under the limit) delivers -/
theorem multi_stream_input_eq_single_stream (d : Flags) (hd : d.readsUnmerged = false) (ks : List (String × Bool))
    (limit : Option Nat) (sched : List Nat) (s₁ s₂ : List Table) (rest : List (List Table))
    (hs : StreamsSorted ks (s₁ :: s₂ :: rest)) (hu : KeysSeparate ks ((s₁ :: s₂ :: rest).map List.flatten).flatten) :
    (streamInput d (lessKeys ks) limit sched (s₁ :: s₂ :: rest)).flatten
      = (streamInput d (lessKeys ks) limit sched
          [[takeOpt limit ((((s₁ :: s₂ :: rest).map List.flatten).flatten).mergeSort (leKeys ks))]]).flatten := by
  rw [multi_stream_input_is_merge d hd ks limit sched s₁ s₂ rest hs hu]
  simp [streamInput]

/-- the fast path (fetchFromAnyStream), for EVERY arrival schedule: every row of every stream reaches the processor exactly once
(a permutation of the input).  That the answer of the commands that take it does not depend on this permutation is their flag
ignoresInputOrder (`unmerged_readers_ignore_order`); for sort that is `chunk_invariant_sort` + `mergeSort_perm_eq`, for stats it is
tied by the correspondence run only. -/
theorem fast_path_delivers_a_permutation (d : Flags) (hd : d.readsUnmerged = true) (less : Row → Row → Bool) (limit : Option Nat)
    (sched : List Nat) (s₁ s₂ : List Table) (rest : List (List Table)) :
    (streamInput d less limit sched (s₁ :: s₂ :: rest)).flatten.Perm (s₁ :: s₂ :: rest).flatten.flatten := by
  simp only [streamInput, hd, ↓reduceIte]
  exact SigModel.Lemmas.C06MS.anyRun_perm _ sched _ (by omega)

/-- what the widened condition costs, on the model: the two-pass `fillnull` reading whole batches in arrival order from the streams
(ts 10,8 | 6,4) and (ts 9,7 | 5,3), answering in turn, hands on 10,8,9,7,… — not the merge 10,9,8,7,… it hands on as coded -/
theorem widened_fast_path_order_counterexample :
    let r (n : Int) : Row := [("timestamp", .int n)]
    let streams : List (List Table) := [[[r 10, r 8], [r 6, r 4]], [[r 9, r 7], [r 5, r 3]]]
    (streamInput (fillnullDP false) (lessKeys [("timestamp", false)]) none [] streams).flatten
        = [r 10, r 9, r 8, r 7, r 6, r 5, r 4, r 3] ∧
      (anyRun 5 [0, 1, 0, 1] streams).flatten = [r 10, r 8, r 9, r 7, r 6, r 4, r 5, r 3] := by
  decide

end plan

/-! ### non-vacuity -/

/-- the table-local assumption is satisfiable, with duplicates and permuted tuples present, for a concrete
(hash, digest) pair: value hash = the number itself, digest = decimal positional encoding -/
example : keyFaithful (digestKey (fun v => match v with | .int i => i.toNat | _ => 0) (fun l => l.foldl (fun a x => 10 * a + x) 0))
    ["a", "b"]
    [[("a", .int 1), ("b", .int 2)], [("a", .int 2), ("b", .int 1)], [("a", .int 1), ("b", .int 2)], [("a", .int 1), ("b", .int 1)]] = true := by
  simp [keyFaithful, rowKey, Row.get, List.lookup_cons, Val.isNull, digestKey]

/-- … and it separates the pair the old key confused -/
example : digestKey (fun v => match v with | .int i => i.toNat | _ => 0) (fun l => l.foldl (fun a x => 10 * a + x) 0)
    [.int 1, .int 2] ≠ digestKey (fun v => match v with | .int i => i.toNat | _ => 0) (fun l => l.foldl (fun a x => 10 * a + x) 0)
    [.int 2, .int 1] := by decide

/-- the guard of the sort theorems is satisfiable with ties on the leading keys: the last key is row-unique -/
example : keysSeparateB [("x", false), ("id", true)]
    [[("id", .int 1), ("x", .int 5)], [("id", .int 2), ("x", .int 5)], [("id", .int 3), ("x", .null)], [("id", .int 4), ("x", .str "6162")]] = true := by
  decide

end SigModel.Props.C06
