/-
C06 — Pipeline commands mean the same however the stream is chunked.
Property theorems only.  Model: SigModel/Model/Pipe.lean (the DataProcessor.Fetch loop `pass` / `runBatches`
over the processors of head, tail, scroll-from, dedup, fillnull, rename, fields).

Every `chunk_invariant_*` theorem quantifies over EVERY list of batches `parts` (any table, any partition,
empty batches included): what the final consumer receives equals the documented meaning `sem` applied to
the concatenated input.  `h` is the hash of a single value (xxhash in the code) and is arbitrary.
-/
import SigModel.Model.Pipe
import SigModel.Lemmas.C06
import SigModel.Lemmas.C06b
import SigModel.Lemmas.C06c

namespace SigModel.Props.C06
open SigModel.Pipe SigModel.Lemmas.C06

/-! ### commands whose processors are chunk-invariant without any condition -/

/-- `head n`: the counter kept between batches makes the limit global; the early EOF drops nothing that
the full-stream meaning keeps. -/
theorem chunk_invariant_head (n : Nat) (parts : List Table) :
    runBatched (headProc n) parts = sem (.head n) parts.flatten := by
  simp only [runBatched, runBatches, headProc, Bool.false_eq_true, ↓reduceIte, Bool.not_false, sem]
  exact head_pass n parts 0

/-- `tail n` (a bottleneck: everything is withheld until the upstream's EOF): the last n rows of the whole
stream, in reverse order, whatever the batch sizes. -/
theorem chunk_invariant_tail (n : Nat) (parts : List Table) :
    runBatched (tailProc n) parts = sem (.tail n) parts.flatten := by
  simp only [runBatched, runBatches, tailProc, Bool.false_eq_true, ↓reduceIte, Bool.not_true, sem]
  have := tail_pass n parts none [] (by simp [lastN])
  simpa [lastN, tailProc] using this

/-- the `scroll from` processor skips exactly the first `from` rows of the whole stream -/
theorem chunk_invariant_scroll (n : Nat) (parts : List Table) :
    runBatched (scrollProc n) parts = sem (.scroll n) parts.flatten := by
  simp only [runBatched, runBatches, scrollProc, Bool.false_eq_true, ↓reduceIte, Bool.not_false, sem]
  exact scroll_pass n parts n

/-- `rename old as new` -/
theorem chunk_invariant_rename (a b : String) (parts : List Table) :
    runBatched (rowwiseProc (renameTable a b)) parts = sem (.rename a b) parts.flatten := by
  exact rowwise_run _ (by simp [renameTable, dropEmpty]) (by intro x y; simp [renameTable, dropEmpty]) parts

/-- `fields + …` / `fields - …` (literal names) -/
theorem chunk_invariant_fields (inc : Bool) (fs : List String) (parts : List Table) :
    runBatched (rowwiseProc (fieldsTable inc fs)) parts = sem (.fields inc fs) parts.flatten := by
  exact rowwise_run _ (by simp [fieldsTable, dropEmpty]) (by intro x y; simp [fieldsTable, dropEmpty]) parts

/-- `fillnull value=v f1 …` (with a field list: streaming) -/
theorem chunk_invariant_fillnull_fields (v : String) (f : String) (fs : List String) (parts : List Table) :
    runBatched (rowwiseProc (fillTable (f :: fs) v)) parts = sem (.fillnull v (f :: fs)) parts.flatten := by
  exact rowwise_run _ (by simp [fillTable]) (by intro x y; simp [fillTable]) parts

/-- `fillnull value=v` without a field list — the two-pass command: the first read collects the columns of
the whole stream, `Rewind`, the second read fills.  Stated for two DIFFERENT partitions of the same rows
in the two passes ("in one or two passes"). -/
theorem two_pass_fillnull_all (v : String) (parts1 parts2 : List Table) (hsame : parts1.flatten = parts2.flatten) :
    runTwoPass (fillAllProc v) parts1 parts2 = sem (.fillnull v []) parts1.flatten := by
  unfold runTwoPass
  rw [show (fillAllProc v).init = { known := [], second := false } from rfl, fillAll_pass1]
  rw [show (fillAllProc v).rewind { known := parts1.foldl addCols [], second := false }
        = { known := parts1.foldl addCols [], second := true } from rfl, fillAll_pass2]
  rw [map_flatten_of_hom _ (by simp [fillTable]) (by intro x y; simp [fillTable]) parts2, addCols_flatten, ← hsame]
  rfl

theorem chunk_invariant_fillnull_all (v : String) (parts : List Table) :
    runBatched (fillAllProc v) parts = sem (.fillnull v []) parts.flatten :=
  two_pass_fillnull_all v parts parts rfl

/-! ### composition -/

/-- If two processors are chunk-invariant, so is the second one fed with whatever batches the first one
emits: the chain means the composition of the two meanings. -/
theorem compose {σ τ : Type} (p : Proc σ) (q : Proc τ) (f g : Table → Table)
    (hp : ∀ parts, runBatched p parts = f parts.flatten)
    (hq : ∀ parts, runBatched q parts = g parts.flatten) (parts : List Table) :
    runBatched q (runBatches p parts) = g (f parts.flatten) := by
  rw [hq, ← hp]; rfl

/-- a chunk-invariant stage: a processor together with its meaning -/
structure Stage where
  σ : Type
  proc : Proc σ
  meaning : Table → Table
  inv : ∀ parts, runBatched proc parts = meaning parts.flatten

/-- each stage is fed the batches the previous one emits -/
def runStages : List Stage → List Table → List Table
  | [], parts => parts
  | s :: ss, parts => runStages ss (runBatches s.proc parts)

/-- every chain of chunk-invariant stages means the composition of the stage meanings on the whole input,
for every partition of the input (induction on the chain) -/
theorem chain_invariant (ss : List Stage) : ∀ (parts : List Table),
    (runStages ss parts).flatten = ss.foldl (fun t s => s.meaning t) parts.flatten := by
  induction ss with
  | nil => intro parts; rfl
  | cons s ss ih =>
    intro parts
    simp only [runStages, List.foldl_cons]
    rw [ih, ← s.inv]; rfl

/-- the chain reader the Oracle runs (`Chain.read`, which re-reads a rewound upstream for two-pass
commands) is `runBatches` for one DataProcessor over the replayed source … -/
theorem read_single {σ : Type} (p : Proc σ) (parts : List Table) (n : Nat) :
    (Chain.read (n + 2) (.dp (.src parts) p p.init false)).2 = runBatches p parts := by
  simp only [Chain.read, runBatches, Chain.rewind, Chain.writeBack]
  cases p.twoPass <;> simp

/-- … and `runBatches` of `runBatches` for a single-pass command on top of any command. -/
theorem read_pair {σ τ : Type} (p : Proc σ) (q : Proc τ) (hq : q.twoPass = false) (parts : List Table) (n : Nat) :
    (Chain.read (n + 3) (.dp (.dp (.src parts) p p.init false) q q.init false)).2 = runBatches q (runBatches p parts) := by
  have h1 := read_single p parts n
  simp only [Chain.read, Chain.writeBack, Chain.rewind, runBatches, hq, Bool.false_and, Bool.false_eq_true, ↓reduceIte, Bool.or_false] at h1 ⊢
  cases hp : p.twoPass <;> simp [hp] at h1 ⊢

/-! ### dedup -/

/-- guard: every non-empty batch carries every dedup field as a column (Bool, decidable) -/
def colsOK (fs : List String) (parts : List Table) : Bool :=
  parts.all (fun b => b.isEmpty || fs.all (hasCol b))

/-- What the CODE computes, for every hash function, every option set (limit, consecutive, keepempty,
keepevents) and every partition whose batches carry the dedup columns: dedup of the whole stream under
the key "XOR of the per-field hashes".  The seen-map survives batch boundaries exactly. -/
theorem chunk_invariant_dedup_code (h : Val → Nat) (o : DedupOpts) (parts : List Table)
    (hf : o.fields ≠ []) (hc : colsOK o.fields parts = true) :
    runBatched (dedupProc h o) parts = dedupSpec (rowKey (xorKey h) o.fields) o parts.flatten := by
  obtain ⟨f0, fs, hfs⟩ : ∃ f0 fs, o.fields = f0 :: fs := by
    cases hfl : o.fields with
    | nil => exact absurd hfl hf
    | cons a l => exact ⟨a, l, rfl⟩
  have hok : firstColOK f0 parts := by
    intro b hb hne
    have := (List.all_eq_true.mp hc) b hb
    rw [hne, Bool.false_or, hfs] at this
    exact (List.all_eq_true.mp this) f0 List.mem_cons_self
  show (if (dedupProc h o).twoPass then _ else
      (pass (dedupProc h o) (!(dedupProc h o).bottleneck) (dedupProc h o).init parts).2).flatten = _
  rw [show (dedupProc h o).twoPass = false from rfl, show (dedupProc h o).bottleneck = false from rfl,
    show (dedupProc h o).init = [] from rfl]
  simp only [Bool.false_eq_true, ↓reduceIte, Bool.not_false]
  rw [dedup_pass h o f0 fs hfs parts [] hok, dedupRows_spec h o parts.flatten [] [] (rel_init _)]
  rfl

/-- FULL STATEMENT one would like about the key: rows with different value tuples get different keys
(granting that the single-value hash is collision-free on the values involved). -/
def KeyInjective (h : Val → Nat) : Prop :=
  ∀ vs ws : List Val, vs.length = ws.length →
    (∀ v w, v ∈ vs ++ ws → w ∈ vs ++ ws → h v = h w → v = w) →
    xorKey h vs = xorKey h ws → vs = ws

/-- The combination is commutative: for EVERY hash function (1,2) and (2,1) get the same key … -/
theorem dedup_key_counterexample (h : Val → Nat) :
    xorKey h [.int 1, .int 2] = xorKey h [.int 2, .int 1] := xorKey_swap h _ _

/-- … and every pair of equal values gets key 0: (1,1) and (2,2) collide as well. -/
theorem dedup_key_counterexample_cancel (h : Val → Nat) :
    xorKey h [.int 1, .int 1] = xorKey h [.int 2, .int 2] := by
  rw [xorKey_pair_self, xorKey_pair_self]

/-- so the full statement is FALSE for every hash that tells 1 from 2 -/
theorem dedup_key_not_injective (h : Val → Nat) (h12 : h (.int 1) ≠ h (.int 2)) : ¬ KeyInjective h := by
  intro hinj
  have := hinj [.int 1, .int 2] [.int 2, .int 1] rfl (by
    intro v w hv hw e
    simp at hv hw
    rcases hv with rfl | rfl | rfl | rfl <;> rcases hw with rfl | rfl | rfl | rfl <;>
      first | rfl | exact absurd e h12 | exact absurd e.symm h12) (dedup_key_counterexample h)
  simp at this

/-- partial: with a single field the key is the hash of the value, injective when the hash is -/
theorem dedup_key_injective_single (h : Val → Nat) (hinj : ∀ v w, h v = h w → v = w) (v w : Val)
    (e : xorKey h [v] = xorKey h [w]) : v = w := by
  rw [xorKey_single, xorKey_single] at e; exact hinj v w e

/-- guard: on the rows of this table the XOR key separates what the value tuples separate (Bool) -/
def keyFaithful (h : Val → Nat) (fs : List String) (t : Table) : Bool :=
  t.all (fun r => t.all (fun r' =>
    match rowKey (fun vs => vs) fs r, rowKey (fun vs => vs) fs r' with
    | some vs, some ws => xorKey h vs != xorKey h ws || vs == ws
    | _, _ => true))

/-- PARTIAL: under the column guard and the key guard the code's dedup IS the documented dedup (key = the
tuple of field values) of the whole stream, for every partition. -/
theorem chunk_invariant_dedup_partial (h : Val → Nat) (o : DedupOpts) (parts : List Table)
    (hf : o.fields ≠ []) (hc : colsOK o.fields parts = true)
    (hk : keyFaithful h o.fields parts.flatten = true) :
    runBatched (dedupProc h o) parts = sem (.dedup o) parts.flatten := by
  rw [chunk_invariant_dedup_code h o parts hf hc]
  simp only [sem, dedupSpec]
  have hkey : (rowKey (xorKey h) o.fields) = fun r => (rowKey (fun vs => vs) o.fields r).map (xorKey h) := by
    funext r; exact rowKey_map _ _ _
  rw [hkey]
  have := spec_congr (xorKey h) (rowKey (fun vs => vs) o.fields) o parts.flatten [] (by
    intro x y hx hy e
    rcases hx with hx | ⟨r, hr, hx⟩
    · exact absurd hx (by simp)
    rcases hy with hy | ⟨r', hr', hy⟩
    · exact absurd hy (by simp)
    have h1 := (List.all_eq_true.mp ((List.all_eq_true.mp hk) r hr)) r' hr'
    rw [hx, hy] at h1
    simp only [Bool.or_eq_true, bne_iff_ne, ne_eq, beq_iff_eq] at h1
    rcases h1 with h1 | h1
    · exact absurd e h1
    · exact h1)
  simpa using this

/-- the key guard holds for every single-field dedup when the hash is collision-free -/
theorem dedup_single_field_faithful (h : Val → Nat) (hinj : ∀ v w, h v = h w → v = w) (f : String) (t : Table) :
    keyFaithful h [f] t = true := by
  unfold keyFaithful
  refine List.all_eq_true.mpr (fun r _ => List.all_eq_true.mpr (fun r' _ => ?_))
  cases h1 : rowKey (fun vs => vs) [f] r with
  | none => rfl
  | some vs =>
    cases h2 : rowKey (fun vs => vs) [f] r' with
    | none => rfl
    | some ws =>
      simp only [Bool.or_eq_true, bne_iff_ne, ne_eq, beq_iff_eq]
      have e1 : vs = [r.get f] := by
        simp only [rowKey, List.map_cons, List.map_nil] at h1
        split at h1 <;> simp_all
      have e2 : ws = [r'.get f] := by
        simp only [rowKey, List.map_cons, List.map_nil] at h2
        split at h2 <;> simp_all
      subst e1 e2
      by_cases e : xorKey h [r.get f] = xorKey h [r'.get f]
      · right; rw [dedup_key_injective_single h hinj _ _ e]
      · left; exact e

theorem chunk_invariant_dedup_single_field (h : Val → Nat) (hinj : ∀ v w, h v = h w → v = w)
    (o : DedupOpts) (f : String) (hf : o.fields = [f]) (parts : List Table) (hc : colsOK o.fields parts = true) :
    runBatched (dedupProc h o) parts = sem (.dedup o) parts.flatten :=
  chunk_invariant_dedup_partial h o parts (by simp [hf]) hc (by rw [hf]; exact dedup_single_field_faithful h hinj f _)

/-- COUNTEREXAMPLE to the full statement "dedup a b means dedup on the pair (a, b)": for EVERY hash function
the rows (a=1,b=2), (a=2,b=1) in one dense batch come out as one row. -/
theorem chunk_invariant_dedup_counterexample (h : Val → Nat) :
    ¬ (∀ (o : DedupOpts) (parts : List Table), o.fields ≠ [] → colsOK o.fields parts = true →
        runBatched (dedupProc h o) parts = sem (.dedup o) parts.flatten) := by
  intro hall
  have := hall { fields := ["a", "b"] }
    [[[("a", .int 1), ("b", .int 2)], [("a", .int 2), ("b", .int 1)]]] (by simp) (by simp [colsOK, hasCol, Row.hasKey])
  rw [chunk_invariant_dedup_code h _ _ (by simp) (by simp [colsOK, hasCol, Row.hasKey])] at this
  have hl := congrArg List.length this
  simp [sem, dedupSpec, dedupSpecFrom, rowKey, Row.get, List.lookup_cons, Val.isNull, emitRow, xorKey, Nat.xor_comm] at hl

/-- COUNTEREXAMPLE, column missing in one batch: the same two rows, delivered as one batch or as two,
give different outputs — for every hash function (the second row has no `a`; alone in a batch that has no
column `a` it passes, next to a row that has `a` it is dropped). -/
theorem dedup_missing_column_counterexample (h : Val → Nat) :
    ∃ (o : DedupOpts) (parts1 parts2 : List Table), o.fields ≠ [] ∧ parts1.flatten = parts2.flatten ∧
      runBatched (dedupProc h o) parts1 ≠ runBatched (dedupProc h o) parts2 := by
  refine ⟨{ fields := ["a"] }, [[[("a", .int 1), ("b", .int 1)], [("b", .int 2)]]],
    [[[("a", .int 1), ("b", .int 1)]], [[("b", .int 2)]]], by simp, by simp, ?_⟩
  intro e
  have hl := congrArg List.length e
  simp [runBatched, runBatches, dedupProc, pass, otl, hasCol, Row.hasKey, dedupRows, dedupRow, rowKey, Row.get,
    List.lookup_cons, Val.isNull, emitRow, seenBump, seenSet] at hl


/-! ### a two-pass command on top of a stateful command (the upstream is rewound and read again) -/

/-- the single-pass processor `p`, rewound after a complete read of `parts`, yields its meaning again -/
def RereadableOn {σ : Type} (p : Proc σ) (f : Table → Table) (parts : List Table) : Prop :=
  ((pass p (!p.bottleneck) (p.rewind (pass p (!p.bottleneck) p.init parts).1) parts).2).flatten = f parts.flatten

/-- `head`'s Rewind resets the counter -/
theorem rereadable_head (n : Nat) (parts : List Table) : RereadableOn (headProc n) (sem (.head n)) parts := by
  have := chunk_invariant_head n parts
  simpa [RereadableOn, runBatched, runBatches, headProc] using this

/-- `dedup`'s Rewind drops the seen-map -/
theorem rereadable_dedup (h : Val → Nat) (o : DedupOpts) (parts : List Table) (hf : o.fields ≠ [])
    (hc : colsOK o.fields parts = true) (hk : keyFaithful h o.fields parts.flatten = true) :
    RereadableOn (dedupProc h o) (sem (.dedup o)) parts := by
  have := chunk_invariant_dedup_partial h o parts hf hc hk
  unfold RereadableOn
  rw [show (dedupProc h o).rewind _ = (dedupProc h o).init from rfl]
  simpa [runBatched, runBatches, dedupProc] using this

/-- `tail` does not rewind anything: it answers with the final result it already has -/
theorem rereadable_tail (n : Nat) (parts : List Table) : RereadableOn (tailProc n) (sem (.tail n)) parts := by
  have := chunk_invariant_tail n parts
  unfold RereadableOn
  rw [show (tailProc n).bottleneck = true from rfl]
  simp only [Bool.not_true]
  rw [tail_reread]
  simpa [runBatched, runBatches, tailProc] using this

/-- the row-wise commands have no state -/
theorem rereadable_rowwise (f : Table → Table) (h0 : f [] = []) (happ : ∀ a b, f (a ++ b) = f a ++ f b)
    (parts : List Table) : RereadableOn (rowwiseProc f) f parts := by
  have := rowwise_run f h0 happ parts
  unfold RereadableOn
  rw [show (rowwiseProc f).rewind _ = (rowwiseProc f).init from rfl]
  simpa [runBatched, runBatches, rowwiseProc] using this

/-- tail keeps a reference to the result it emitted; with nothing in between that is what it already has -/
theorem retain_tail_noop (n : Nat) (parts : List Table) :
    (tailProc n).retain (pass (tailProc n) false (tailProc n).init parts).1 (pass (tailProc n) false (tailProc n).init parts).2
      = (pass (tailProc n) false (tailProc n).init parts).1 := by
  obtain ⟨g, hg⟩ := tail_pass_state n parts none
  rw [show (tailProc n).init = { fin := none, eof := false } from rfl, hg]
  cases g <;> simp [tailProc, otl]

/-- The two-pass `fillnull` on top of any single-pass command that is chunk-invariant and re-readable:
first read, Rewind of the whole chain, second read — the chain means fillnull of the upstream's meaning,
for every partition of the source.  (`Chain.read` is what the Oracle runs; `hret`: see `Proc.retain` —
holds by `rfl` for every processor but tail, and for tail by `retain_tail_noop`.) -/
theorem two_pass_over {σ : Type} (p : Proc σ) (hp2 : p.twoPass = false) (f : Table → Table) (parts : List Table)
    (n : Nat) (v : String) (h1 : runBatched p parts = f parts.flatten) (h2 : RereadableOn p f parts)
    (hret : p.retain (pass p (!p.bottleneck) p.init parts).1 (pass p (!p.bottleneck) p.init parts).2
              = (pass p (!p.bottleneck) p.init parts).1) :
    ((Chain.read (n + 3) (.dp (.dp (.src parts) p p.init false) (fillAllProc v) (fillAllProc v).init false)).2).flatten
      = sem (.fillnull v []) (f parts.flatten) := by
  simp only [Chain.read, Chain.rewind, Chain.writeBack, hp2, show (fillAllProc v).twoPass = true from rfl,
    Bool.false_and, Bool.or_false, Bool.not_false, Bool.and_true, Bool.false_eq_true, ↓reduceIte]
  rw [hret]
  have hx1 : ((pass p (!p.bottleneck) p.init parts).2).flatten = f parts.flatten := by
    simpa [runBatched, runBatches, hp2] using h1
  have := two_pass_fillnull_all v (pass p (!p.bottleneck) p.init parts).2
    (pass p (!p.bottleneck) (p.rewind (pass p (!p.bottleneck) p.init parts).1) parts).2 (by rw [hx1]; exact h2.symm)
  rw [hx1] at this
  exact this

/-- COUNTEREXAMPLE, "in one or two passes": `tail 1 | rename b as e | fillnull value=0`.  tail answers the
second pass with the very result object of the first pass, which `rename` has already renamed in place;
renaming it again deletes the target column (RenameColumn deletes `e` first, and `b` is gone), and fillnull
then fills the column it saw in the first pass.  The values of `b` are lost — for every hash, in ONE batch.
(With `head`, `dedup`, `fields`, `fillnull <fields>` in the middle the second application changes nothing;
with nothing in the middle see `two_pass_over` + `rereadable_tail`.) -/
theorem two_pass_reread_counterexample (h : Val → Nat) :
    runChain h [.tail 1, .rename "b" "e", .fillnull "30" []] [[[("a", .int 1), ("b", .int 7)]]]
      ≠ sem (.fillnull "30" []) (sem (.rename "b" "e") (sem (.tail 1) [[("a", .int 1), ("b", .int 7)]])) := by
  have e1 : runChain h [.tail 1, .rename "b" "e", .fillnull "30" []] [[[("a", .int 1), ("b", .int 7)]]]
      = [[("e", .str "30"), ("a", .int 1)]] := rfl
  have e2 : sem (.fillnull "30" []) (sem (.rename "b" "e") (sem (.tail 1) [[("a", .int 1), ("b", .int 7)]]))
      = [[("e", .int 7), ("a", .int 1)]] := rfl
  rw [e1, e2]; decide

/-! ### the whole command set -/

/-- the condition under which a command is proved chunk-invariant AND equal to its documented meaning -/
def Guard (h : Val → Nat) : Cmd → List Table → Prop
  | .dedup o, parts => o.fields ≠ [] ∧ colsOK o.fields parts = true ∧ keyFaithful h o.fields parts.flatten = true
  | _, _ => True

/-- C06 for every modelled command: one DataProcessor of the command over ANY partition of ANY table yields
the documented meaning on the whole ordered input (dedup: under its guard). -/
theorem chunk_invariant (h : Val → Nat) (c : Cmd) (parts : List Table) (hg : Guard h c parts) :
    runCmd h c parts = sem c parts.flatten := by
  cases c with
  | head n => exact chunk_invariant_head n parts
  | tail n => exact chunk_invariant_tail n parts
  | scroll n => exact chunk_invariant_scroll n parts
  | dedup o => exact chunk_invariant_dedup_partial h o parts hg.1 hg.2.1 hg.2.2
  | fillnull v fs =>
    cases fs with
    | nil => exact chunk_invariant_fillnull_all v parts
    | cons f fs => exact chunk_invariant_fillnull_fields v f fs parts
  | rename a b => exact chunk_invariant_rename a b parts
  | fields inc fs => exact chunk_invariant_fields inc fs parts

/-- what the Oracle runs for a one-command op line is `runCmd` -/
theorem runChain_single (h : Val → Nat) (c : Cmd) (parts : List Table) :
    runChain h [c] parts = runCmd h c parts := by
  cases c with
  | fillnull v fs => cases fs <;> simp only [runChain, List.foldl, Cmd.stage, List.length, runCmd, runBatched] <;> rw [read_single]
  | _ => simp only [runChain, List.foldl, Cmd.stage, List.length, runCmd, runBatched]; rw [read_single]

/-! ### non-vacuity -/

/-- a hash that tells 1 from 2 exists (so `dedup_key_not_injective` is not vacuous) -/
example : ∃ h : Val → Nat, h (.int 1) ≠ h (.int 2) :=
  ⟨fun v => match v with | .int i => i.toNat | _ => 0, by decide⟩

/-- the dedup guards are satisfiable on a table with duplicates, split in two batches -/
example : Guard (fun v => match v with | .int i => i.toNat | _ => 0)
    (.dedup { fields := ["a", "b"] })
    [[[("a", .int 1), ("b", .int 2)]], [[("a", .int 1), ("b", .int 2)], [("a", .int 4), ("b", .int 2)]]] := by
  refine ⟨by simp, by simp [colsOK, hasCol, Row.hasKey], ?_⟩
  simp [keyFaithful, rowKey, Row.get, List.lookup_cons, Val.isNull, xorKey]

end SigModel.Props.C06
