/-
C06 — Pipeline commands mean the same however the stream is chunked.
Property theorems only.  Model: SigModel/Model/Pipe.lean (the DataProcessor.Fetch loop `pass` / `runBatches`
over the processors of head, tail, scroll-from, dedup, fillnull, rename, fields).

Every `chunk_invariant_*` theorem quantifies over EVERY list of batches `parts` (any table, any partition,
empty batches included): what the final consumer receives equals the documented meaning `sem` applied to
the concatenated input.  `h` is the hash of a single value (xxhash in the code) and is arbitrary.
-/
import SigModel.Model.Pipe
import SigModel.Lemmas.C06
import SigModel.Lemmas.C06b

namespace SigModel.Props.C06
open SigModel.Pipe SigModel.Lemmas.C06

/-! ### commands whose processors are chunk-invariant without any condition -/

/-- `head n`: the counter kept between batches makes the limit global; the early EOF drops nothing that
the full-stream meaning keeps. -/
theorem chunk_invariant_head (n : Nat) (parts : List Table) :
    runBatched (headProc n) parts = sem (.head n) parts.flatten := by
  simp only [runBatched, runBatches, headProc, Bool.false_eq_true, ↓reduceIte, Bool.not_false, sem]
  exact head_pass n parts 0

/-- `tail n` (a bottleneck: everything is withheld until the upstream's EOF): the last n rows of the whole
stream, in reverse order, whatever the batch sizes. -/
theorem chunk_invariant_tail (n : Nat) (parts : List Table) :
    runBatched (tailProc n) parts = sem (.tail n) parts.flatten := by
  simp only [runBatched, runBatches, tailProc, Bool.false_eq_true, ↓reduceIte, Bool.not_true, sem]
  have := tail_pass n parts none [] (by simp [lastN])
  simpa [lastN, tailProc] using this

/-- the `scroll from` processor skips exactly the first `from` rows of the whole stream -/
theorem chunk_invariant_scroll (n : Nat) (parts : List Table) :
    runBatched (scrollProc n) parts = sem (.scroll n) parts.flatten := by
  simp only [runBatched, runBatches, scrollProc, Bool.false_eq_true, ↓reduceIte, Bool.not_false, sem]
  exact scroll_pass n parts n

/-- `rename old as new` -/
theorem chunk_invariant_rename (a b : String) (parts : List Table) :
    runBatched (rowwiseProc (renameTable a b)) parts = sem (.rename a b) parts.flatten := by
  simp only [runBatched, runBatches, rowwiseProc, Bool.false_eq_true, ↓reduceIte, Bool.not_false, sem]
  rw [show (pass (rowwiseProc (renameTable a b)) true () parts).2 = _ from rowwise_pass _ parts]
  exact map_flatten_of_hom _ (by simp [renameTable, dropEmpty]) (by intro x y; simp [renameTable, dropEmpty]) parts

/-- `fields + …` / `fields - …` (literal names) -/
theorem chunk_invariant_fields (inc : Bool) (fs : List String) (parts : List Table) :
    runBatched (rowwiseProc (fieldsTable inc fs)) parts = sem (.fields inc fs) parts.flatten := by
  simp only [runBatched, runBatches, rowwiseProc, Bool.false_eq_true, ↓reduceIte, Bool.not_false, sem]
  rw [show (pass (rowwiseProc (fieldsTable inc fs)) true () parts).2 = _ from rowwise_pass _ parts]
  exact map_flatten_of_hom _ (by simp [fieldsTable, dropEmpty]) (by intro x y; simp [fieldsTable, dropEmpty]) parts

/-- `fillnull value=v f1 …` (with a field list: streaming) -/
theorem chunk_invariant_fillnull_fields (v : String) (f : String) (fs : List String) (parts : List Table) :
    runBatched (rowwiseProc (fillTable (f :: fs) v)) parts = sem (.fillnull v (f :: fs)) parts.flatten := by
  simp only [runBatched, runBatches, rowwiseProc, Bool.false_eq_true, ↓reduceIte, Bool.not_false, sem]
  rw [show (pass (rowwiseProc (fillTable (f :: fs) v)) true () parts).2 = _ from rowwise_pass _ parts]
  exact map_flatten_of_hom _ (by simp [fillTable]) (by intro x y; simp [fillTable]) parts

/-- `fillnull value=v` without a field list — the two-pass command: the first read collects the columns of
the whole stream, `Rewind`, the second read fills.  Stated for two DIFFERENT partitions of the same rows
in the two passes ("in one or two passes"). -/
theorem two_pass_fillnull_all (v : String) (parts1 parts2 : List Table) (hsame : parts1.flatten = parts2.flatten) :
    runTwoPass (fillAllProc v) parts1 parts2 = sem (.fillnull v []) parts1.flatten := by
  unfold runTwoPass
  rw [show (fillAllProc v).init = { known := [], second := false } from rfl, fillAll_pass1]
  rw [show (fillAllProc v).rewind { known := parts1.foldl addCols [], second := false }
        = { known := parts1.foldl addCols [], second := true } from rfl, fillAll_pass2]
  rw [map_flatten_of_hom _ (by simp [fillTable]) (by intro x y; simp [fillTable]) parts2, addCols_flatten, ← hsame]
  rfl

theorem chunk_invariant_fillnull_all (v : String) (parts : List Table) :
    runBatched (fillAllProc v) parts = sem (.fillnull v []) parts.flatten :=
  two_pass_fillnull_all v parts parts rfl

/-! ### composition -/

/-- If two processors are chunk-invariant, so is the second one fed with whatever batches the first one
emits: the chain means the composition of the two meanings. -/
theorem compose {σ τ : Type} (p : Proc σ) (q : Proc τ) (f g : Table → Table)
    (hp : ∀ parts, runBatched p parts = f parts.flatten)
    (hq : ∀ parts, runBatched q parts = g parts.flatten) (parts : List Table) :
    runBatched q (runBatches p parts) = g (f parts.flatten) := by
  rw [hq, ← hp]; rfl

/-- a chunk-invariant stage: a processor together with its meaning -/
structure Stage where
  σ : Type
  proc : Proc σ
  meaning : Table → Table
  inv : ∀ parts, runBatched proc parts = meaning parts.flatten

/-- each stage is fed the batches the previous one emits -/
def runStages : List Stage → List Table → List Table
  | [], parts => parts
  | s :: ss, parts => runStages ss (runBatches s.proc parts)

/-- every chain of chunk-invariant stages means the composition of the stage meanings on the whole input,
for every partition of the input (induction on the chain) -/
theorem chain_invariant (ss : List Stage) : ∀ (parts : List Table),
    (runStages ss parts).flatten = ss.foldl (fun t s => s.meaning t) parts.flatten := by
  induction ss with
  | nil => intro parts; rfl
  | cons s ss ih =>
    intro parts
    simp only [runStages, List.foldl_cons]
    rw [ih, ← s.inv]; rfl

/-- the chain reader the Oracle runs (`Chain.read`, which re-reads a rewound upstream for two-pass
commands) is `runBatches` for one DataProcessor over the replayed source … -/
theorem read_single {σ : Type} (p : Proc σ) (parts : List Table) (n : Nat) :
    (Chain.read (n + 2) (.dp (.src parts) p p.init false)).2 = runBatches p parts := by
  simp only [Chain.read, runBatches, Chain.rewind]
  cases p.twoPass <;> simp

/-- … and `runBatches` of `runBatches` for a single-pass command on top of any command. -/
theorem read_pair {σ τ : Type} (p : Proc σ) (q : Proc τ) (hq : q.twoPass = false) (parts : List Table) (n : Nat) :
    (Chain.read (n + 3) (.dp (.dp (.src parts) p p.init false) q q.init false)).2 = runBatches q (runBatches p parts) := by
  have h1 := read_single p parts n
  simp only [Chain.read, runBatches, hq, Bool.false_and, Bool.false_eq_true, ↓reduceIte, Bool.or_false] at h1 ⊢
  cases hp : p.twoPass <;> simp [hp] at h1 ⊢

end SigModel.Props.C06
