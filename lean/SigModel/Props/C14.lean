/-
C14 — Retention and deletion remove exactly what is expired.  Property theorems only.

Model: SigModel/Model/Retention.lean (pkg/retention/retention.go as it is).  For EVERY set of segment
metas, clock reading and retention:
  1. the time-based pass selects exactly the segments of its org whose newest event is not newer than
     now − retention (guard: sane retention, i.e. no int64/uint64 wrap; the wrap branch — horizon before
     the epoch — is characterised separately: it deletes everything);
  2. the delete protocol, cut after ANY number of micro-steps, touches nothing that belongs to a
     surviving segment, in any of the five stores;
  3. a pass interrupted after ANY prefix of its step list and then repeated ends in exactly the state of
     the uninterrupted pass in ALL five stores — because segmeta.json, from which the repeated pass
     re-reads its victims, is rewritten last, and (after the repair c14-6) the empty-PQ meta files are
     cleaned FIRST, while the victims' .sfm files — the only place their pqids are recorded — still
     exist: whenever a victim's files are gone, its empty-PQ entries are gone already.  With
     segmeta.json rewritten FIRST there is a crash point after which files are orphaned forever; with
     the empty-PQ phase behind the files phase (the order before the repair, `deleteOrderOld`) a crash
     between the two leaves the victim's entries for ever (counterexample theorem).  This is why the
     order is tied to the source by call-order facts;
  4. after a pass nothing of a victim is left in blob store, local files, in-memory metadata and
     segmeta.json, and (after the repair of DeleteSegmentData, which now reads the victims' pqids from
     their .sfm files) the empty-PQ meta files list only segments that are still in segmeta.json, for
     every store in which each empty-PQ entry is recorded in its segment's .sfm file (what the writer
     does at rotation).  The behaviour before the repair (`passOld`: step 4 was dead code) is kept with
     its counterexample theorem; an empty result recorded AFTER a pass (a rotation records one for every
     persistent query without a match) is listed, whatever the pass removed — the pqmeta files afterwards
     hold exactly the survivors' entries and the records made since (after the repair c14-5: the writer
     re-creates the pqmeta directory, which goes with its last file; before, every record after a pass that
     removed the last entry was dropped: `recordAllOld`, counterexample theorem);
  5. the volume pass deletes oldest-first and stops at the first segment that does not fit: the marked
     segments are a prefix of the age-sorted candidates, nothing strictly older than a deleted segment
     stays, and it never deletes as much as the excess — at full strength, for all inputs (only
     hypothesis: LatestEpochSec is a uint32).  This was false before two repairs in /repo (the `break`
     left only the `switch`; the metrics sort key was a wrapped uint32 product): the old behaviour is kept
     as `volPassOld` with its two counterexample theorems.
  6. the rewrite of segmeta.json itself (`removeSegmetas`, model `smRemove`), for a file of ANY number of
     lines: the entries listed afterwards are exactly the entries whose key was not to be removed — same
     order, each as often as before, contents untouched; two rewrites compose to the union; a repeated
     rewrite changes nothing; index deletion keeps exactly the other indexes' entries;
     `AddOrReplaceRotatedSegmeta` leaves exactly one entry of its key, the new one, last.  Guard: every
     line is shorter than the scanner's 1 MiB limit (a line holds two paths and an index name); without
     the guard the statement is false (counterexample; characterised: such a file is never rewritten).
     For EVERY file (no guard): the file afterwards is untouched or exactly its preserved entries, no
     survivor is ever dropped (segmeta_rewrite_all_or_nothing, _keeps_survivors).
     The line-level rewrite refines the `segmeta` step of the protocol in 2.–4.; written-then-scanned
     files deliver exactly the written lines (bufio.ScanLines mirrored).
  7. metricmeta.json (`ReadMetricsMeta`, `removeMetricsSegmentsByList`, the metrics half of every pass), after
     two repairs in /repo (both functions scanned with a DEFAULT bufio.Scanner, 64 KiB, although a
     MetricsMeta line carries the segment's whole tag-key set; and the rewrite only logged the scanner's
     error and rewrote the file from the part it had read): at full strength, for every file, NO survivor
     is ever dropped and the file afterwards is either untouched or exactly the surviving entries
     (metricsmeta_rewrite_keeps_survivors, _all_or_nothing, _unchanged_on_read_error); for lines shorter than
     the new 64 MiB limit the rewrite and the pass are exact (metricsmeta_rewrite_exact, metrics_pass_exact);
     what is left: a line of ≥ 64 MiB still blocks the passes (metrics_pass_blocked_by_long_line, counterexample).
     The behaviour before the repairs is kept as `mmReadOld` / `mmRemoveOld` / `mmPassOld` with its
     counterexample theorems (…_old_…).
-/
import SigModel.Model.Retention
import SigModel.Lemmas.C14
import SigModel.Lemmas.C14Sm
import SigModel.Lemmas.C14Conc
import SigModel.Lemmas.C14Dir

namespace SigModel.Props.C14
open SigModel.Retention SigModel.Lemmas.C14

/-! ### 1. victim selection -/

/-- a sane configuration: retention between 0 and 2 562 046 hours (292 years: `time.Duration` does not
wrap), not reaching back before the epoch, clock before the year 2255 -/
def SaneRetention (nowMs : Nat) (hours : Int) : Prop :=
  0 ≤ hours ∧ hours < 2562047 ∧ hours * 3600000 ≤ (nowMs : Int) ∧ nowMs < 9000000000000

/-- field widths of the Go structs: `LatestEpochSec` is a uint32 -/
def WellTyped (metas : List Meta) : Prop := ∀ m ∈ metas, m.kind = .metrics → m.latest < two32

example : SaneRetention 1790000000000 360 := by unfold SaneRetention; omega
example : WellTyped [{ key := 1, latest := 1789000000, kind := .metrics }] := by
  intro m hm; simp at hm; subst hm; intro _; decide

/-- C14.1 — deleted ⇔ of the pass's org and newest event ≤ now − retention; in particular no segment
containing a newer event is selected and no expired one is left out. -/
theorem victims_exact (nowMs : Nat) (hours : Int) (org : Nat) (metas : List Meta)
    (hs : SaneRetention nowMs hours) (ht : WellTyped metas) (m : Meta) :
    m ∈ victims nowMs hours org metas ↔
      (m ∈ metas ∧ m.org = org ∧ (trueTimeMs m : Int) ≤ (nowMs : Int) - hours * 3600000) := by
  obtain ⟨h0, h1, h2, h3⟩ := hs
  have hh := horizon_eq nowMs hours h0 h1 h2 h3
  unfold victims expired
  simp only [List.mem_filter, Bool.and_eq_true, decide_eq_true_eq]
  constructor
  · rintro ⟨hm, ho, he⟩
    rw [timeMs_eq_trueTime m (ht m hm)] at he
    exact ⟨hm, ho, by omega⟩
  · rintro ⟨hm, ho, he⟩
    refine ⟨hm, ho, ?_⟩
    rw [timeMs_eq_trueTime m (ht m hm)]
    omega

/-- C14.1 (wrap branch) — a retention that reaches back before the epoch makes `uint64(UnixMilli())` wrap:
the pass then selects EVERY segment of its org, however new. -/
theorem victims_all_when_horizon_wraps (nowMs : Nat) (hours : Int) (org : Nat) (metas : List Meta)
    (h0 : 0 ≤ hours) (h1 : hours < 2562047) (h2 : (nowMs : Int) < hours * 3600000) (h3 : nowMs < 9000000000000)
    (ht : WellTyped metas) (hl : ∀ m ∈ metas, m.kind = .log → m.latest < two63) (m : Meta) :
    m ∈ victims nowMs hours org metas ↔ (m ∈ metas ∧ m.org = org) := by
  have hw := horizon_wrapped nowMs hours h0 h1 h2 h3
  unfold victims expired
  simp only [List.mem_filter, Bool.and_eq_true, decide_eq_true_eq]
  constructor
  · rintro ⟨hm, ho, _⟩; exact ⟨hm, ho⟩
  · rintro ⟨hm, ho⟩
    refine ⟨hm, ho, ?_⟩
    rw [timeMs_eq_trueTime m (ht m hm)]
    unfold trueTimeMs
    cases hk : m.kind with
    | log => have := hl m hm hk; simp only [] ; omega
    | metrics => have := ht m hm hk; simp only [two32, two63] at *; omega

/-- the wrap branch is reachable: 60 years of retention in 2026 -/
example : (1790000000000 : Int) < 525600 * 3600000 := by decide

/-! ### 2. survivors are not touched -/

/-- C14.2 — for every phase order, victim list and cut point, everything that belongs to a key outside the
victim list is exactly as before, in each of the five stores. -/
theorem survivors_intact (order : List Phase) (vs : List Meta) (s : Store) (cut : Nat) :
    SameOutside (vs.map (·.key)) s (deleteSegmentData order vs s cut) := by
  unfold deleteSegmentData
  split
  · exact SameOutside.refl _ s
  · exact sameOutside_foldl _ _ s
      (fun t ht => withSfmPqids_keys s vs ▸ targets_stepsFor order (withSfmPqids s vs) t (List.mem_of_mem_take ht))

/-- … in particular for the pass itself: a segment that is not selected keeps its blob objects, files,
in-memory entry, empty-PQ entries and segmeta.json line, wherever the pass is cut. -/
theorem survivors_intact_pass (nowMs : Nat) (hours : Int) (s : Store) (cut : Nat) :
    SameOutside ((victims nowMs hours 0 (readLocal s)).map (·.key)) s (passCut deleteOrder nowMs hours s cut) :=
  survivors_intact deleteOrder _ s cut

/-! ### 3. interrupted and repeated -/

/-- C14.3 — at full strength: for EVERY store, clock, retention and EVERY cut point of the step list, the
interrupted pass followed by a full pass ends in exactly the state of the uninterrupted pass — blob store,
local files, in-memory metadata, empty-PQ meta files and segmeta.json.  (After the repair c14-6; false for
the order before it: `interrupt_repeat_pq_old_counterexample`.) -/
theorem interrupt_repeat_converges (nowMs : Nat) (hours : Int) (s : Store) (cut : Nat) :
    pass deleteOrder nowMs hours (passCut deleteOrder nowMs hours s cut) = pass deleteOrder nowMs hours s :=
  interrupt_repeat_full nowMs hours s cut

/-- … so whatever a pass leaves behind when it is cut, the next pass removes: nothing of a victim survives
an interrupted and repeated pass, in any store the uninterrupted pass would have cleaned (corollary). -/
theorem interrupt_repeat_converges_without_pq (nowMs : Nat) (hours : Int) (s : Store) (cut : Nat) :
    withoutPq (pass deleteOrder nowMs hours (passCut deleteOrder nowMs hours s cut))
      = withoutPq (pass deleteOrder nowMs hours s) :=
  congrArg withoutPq (interrupt_repeat_converges nowMs hours s cut)

/-- C14.3 (record of the repaired defect) — with the phase order before the repair (empty-PQ meta files
AFTER the local files) the equality did not hold for every cut: one expired segment with an empty-PQ entry,
crash after its blob objects and local files are gone (cut 2): the repeated pass cannot read the .sfm file
any more and leaves the entry for ever, the uninterrupted pass removes it.  With the repaired order the same
store and every cut up to the end converge. -/
theorem interrupt_repeat_pq_old_counterexample :
    (¬ ∀ nowMs hours s cut, pass deleteOrderOld nowMs hours (passCut deleteOrderOld nowMs hours s cut)
        = pass deleteOrderOld nowMs hours s) ∧
    (∀ cut ∈ [0, 1, 2, 3, 4, 5, 6],
      (pass deleteOrder 1790000000000 24 (passCut deleteOrder 1790000000000 24
        { blob := [1], files := [1], memMeta := [1], segmetaJson := [{ key := 1, latest := 1000, kind := .log }],
          pqMeta := [(7, 1)], sfmPq := [(7, 1)] } cut)).pqMeta = []) := by
  refine ⟨?_, by decide⟩
  intro h
  have := h 1790000000000 24
    { blob := [1], files := [1], memMeta := [1], segmetaJson := [{ key := 1, latest := 1000, kind := .log }],
      pqMeta := [(7, 1)], sfmPq := [(7, 1)] } 2
  revert this
  decide

/-- … and a completed pass is a fixed point: running it again changes nothing. -/
theorem pass_idempotent (nowMs : Nat) (hours : Int) (s : Store) :
    pass deleteOrder nowMs hours (pass deleteOrder nowMs hours s) = pass deleteOrder nowMs hours s := by
  have hnil := victims_after_pass nowMs hours s
  generalize pass deleteOrder nowMs hours s = s1 at hnil
  unfold pass deleteSegmentData
  simp only [hnil, List.isEmpty_nil, if_true]

/-- the store of the design counterexample: one expired segment, present everywhere -/
def orphanWitness : Store :=
  { blob := [1], files := [1], memMeta := [1], segmetaJson := [{ key := 1, latest := 1000, kind := .log }] }

/-- C14.3 (why the order matters) — with segmeta.json rewritten FIRST, a crash right after that step leaves
the segment's files behind, and the repeated pass — which finds its victims through segmeta.json — never
removes them.  With the order of the source the same crash point is harmless. -/
theorem segmeta_first_leaves_orphans :
    orphans orphanWitness = [] ∧
    orphans (pass segmetaFirstOrder 1790000000000 24 (passCut segmetaFirstOrder 1790000000000 24 orphanWitness 1)) = [1] ∧
    orphans (pass deleteOrder 1790000000000 24 (passCut deleteOrder 1790000000000 24 orphanWitness 1)) = [] := by
  decide

/-! ### 4. after the pass -/

/-- C14.4 — after an uninterrupted pass no victim is left in the blob store, on disk, in the in-memory
metadata or in segmeta.json (so segmeta.json lists exactly the survivors, by C14.2). -/
theorem pass_removes_victims (nowMs : Nat) (hours : Int) (s : Store) (v : Meta)
    (hv : v ∈ victims nowMs hours 0 (readLocal s)) :
    let s' := pass deleteOrder nowMs hours s
    v.key ∉ s'.blob ∧ v.key ∉ s'.files ∧ v.key ∉ s'.memMeta ∧ ∀ m ∈ s'.segmetaJson, m.key ≠ v.key := by
  intro s'
  have hne : (victims nowMs hours 0 (readLocal s)).isEmpty = false := by
    cases h : victims nowMs hours 0 (readLocal s) with
    | nil => rw [h] at hv; cases hv
    | cons _ _ => rfl
  have hs' : s' = (stepsFor deleteOrder (withSfmPqids s (victims nowMs hours 0 (readLocal s)))).foldl applyStep s :=
    pass_eq_foldl nowMs hours s hne
  have hkey : v.key ∈ (withSfmPqids s (victims nowMs hours 0 (readLocal s))).map (·.key) := by
    rw [withSfmPqids_keys]; exact List.mem_map.mpr ⟨v, hv, rfl⟩
  obtain ⟨w, hw, hwk⟩ := List.mem_map.mp hkey
  generalize withSfmPqids s (victims nowMs hours 0 (readLocal s)) = vs at hs' hw
  have hL := stepsFor_deleteOrder vs
  have mem_of : ∀ t, t ∈ stepsFor deleteOrder vs → applyStep s' t = s' := by
    intro t ht; rw [hs']; exact absorb_after _ s t ht
  refine ⟨?_, ?_, ?_, ?_⟩
  · intro hk
    have h := mem_of (Step.blob v.key) (by rw [hL]; simp only [List.mem_append, List.mem_map, List.mem_singleton]; exact Or.inl (Or.inl (Or.inl (Or.inr ⟨w, hw, by rw [hwk]⟩))))
    have : v.key ∈ (applyStep s' (Step.blob v.key)).blob := by rw [h]; exact hk
    simp [applyStep] at this
  · intro hk
    have h := mem_of (Step.files v.key) (by rw [hL]; simp only [List.mem_append, List.mem_map, List.mem_singleton]; exact Or.inl (Or.inl (Or.inr ⟨w, hw, by rw [hwk]⟩)))
    have : v.key ∈ (applyStep s' (Step.files v.key)).files := by rw [h]; exact hk
    simp [applyStep] at this
  · intro hk
    have h := mem_of (Step.mem v.key) (by rw [hL]; simp only [List.mem_append, List.mem_map, List.mem_singleton]; exact Or.inl (Or.inr ⟨w, hw, by rw [hwk]⟩))
    have : v.key ∈ (applyStep s' (Step.mem v.key)).memMeta := by rw [h]; exact hk
    simp [applyStep] at this
  · intro m hm hk
    have h := mem_of (Step.segmeta (vs.map (·.key))) (by rw [hL]; simp)
    have : m ∈ (applyStep s' (Step.segmeta (vs.map (·.key)))).segmetaJson := by rw [h]; exact hm
    simp only [applyStep, List.mem_filter, decide_eq_true_eq] at this
    exact this.2 (List.mem_map.mpr ⟨w, hw, by rw [hwk, hk]⟩)

/-- the full statement for the empty-PQ meta files: after a pass they only mention listed segments -/
def PqMetaClean (nowMs : Nat) (hours : Int) (s : Store) : Prop :=
  ∀ e ∈ (pass deleteOrder nowMs hours s).pqMeta, e.2 ∈ (pass deleteOrder nowMs hours s).segmetaJson.map (·.key)

/-- what the writer maintains (rotation writes the segment's pqids into its .sfm file and the empty ones
into the pqmeta files; pkg/segment/writer/segstore.go): every empty-PQ entry is recorded in the .sfm
file of its segment, and that file exists -/
def PqEntriesInSfm (s : Store) : Prop := ∀ e ∈ s.pqMeta, e ∈ s.sfmPq ∧ e.2 ∈ s.files

example : PqEntriesInSfm { orphanWitness with pqMeta := [(7, 1)], sfmPq := [(7, 1), (8, 1)] } := by
  unfold PqEntriesInSfm; decide

/-- C14.4 (empty-PQ meta files, after the repair) — for EVERY store the writer can have produced (and
whose empty-PQ files mentioned only listed segments before), clock and retention: after the pass the
empty-PQ meta files mention only segments that are still listed in segmeta.json — the entries of every
victim are gone. -/
theorem pqmeta_clean (nowMs : Nat) (hours : Int) (s : Store)
    (hsfm : PqEntriesInSfm s)
    (hpre : ∀ e ∈ s.pqMeta, e.2 ∈ s.segmetaJson.map (·.key)) :
    PqMetaClean nowMs hours s := by
  intro e he
  have hso := survivors_intact deleteOrder (victims nowMs hours 0 (readLocal s)) s
    (stepsFor deleteOrder (victims nowMs hours 0 (readLocal s))).length
  have hpass : pass deleteOrder nowMs hours s = deleteSegmentData deleteOrder (victims nowMs hours 0 (readLocal s)) s
      (stepsFor deleteOrder (victims nowMs hours 0 (readLocal s))).length := rfl
  -- filters only remove
  have hsub : ∀ (L : List Step) (s0 : Store), e ∈ (L.foldl applyStep s0).pqMeta → e ∈ s0.pqMeta := by
    intro L
    induction L with
    | nil => intro s0 h; exact h
    | cons t L ih =>
      intro s0 h
      have := ih _ h
      cases t <;> first | exact this | exact (List.mem_filter.mp this).1
  have he0 : e ∈ s.pqMeta := by
    rw [hpass] at he
    unfold deleteSegmentData at he
    split at he
    · exact he
    · exact hsub _ s he
  by_cases hk : e.2 ∈ (victims nowMs hours 0 (readLocal s)).map (·.key)
  · -- a victim: its pq step carries the pqid (read from the .sfm file) and removed the entry
    exfalso
    obtain ⟨v, hv, hvk⟩ := List.mem_map.mp hk
    have hne : (victims nowMs hours 0 (readLocal s)).isEmpty = false := by
      cases h : victims nowMs hours 0 (readLocal s) with
      | nil => rw [h] at hv; cases hv
      | cons _ _ => rfl
    have hs' := pass_eq_foldl nowMs hours s hne
    have hvp : v.pqids = [] := by
      obtain ⟨m, _, rfl⟩ := List.mem_map.mp (List.mem_filter.mp hv).1
      rfl
    have hstep : Step.pq v.key (sfmPqids s v.key) ∈
        stepsFor deleteOrder (withSfmPqids s (victims nowMs hours 0 (readLocal s))) := by
      rw [stepsFor_deleteOrder]
      simp only [List.mem_append, List.mem_map, List.mem_singleton]
      refine Or.inl (Or.inl (Or.inl (Or.inl ⟨{ v with pqids := sfmPqids s v.key }, ?_, rfl⟩)))
      unfold withSfmPqids
      exact List.mem_map.mpr ⟨v, hv, by simp [hvp]⟩
    have habs := absorb_after _ s _ hstep
    rw [← hs'] at habs
    have : e ∈ (applyStep (pass deleteOrder nowMs hours s) (Step.pq v.key (sfmPqids s v.key))).pqMeta := by
      rw [habs]; exact he
    simp only [applyStep, List.mem_filter, Bool.not_eq_true', Bool.and_eq_false_imp, decide_eq_true_eq,
      decide_eq_false_iff_not] at this
    apply this.2 hvk.symm
    obtain ⟨h1, h2⟩ := hsfm e he0
    unfold sfmPqids
    rw [hvk] at *
    simp only [h2, if_true, List.mem_map, List.mem_filter, decide_eq_true_eq]
    exact ⟨e, ⟨h1, rfl⟩, rfl⟩
  · -- a survivor: untouched, and still listed
    obtain ⟨m, hm, hmk⟩ := List.mem_map.mp (hpre e he0)
    have : m ∈ (deleteSegmentData deleteOrder (victims nowMs hours 0 (readLocal s)) s
        (stepsFor deleteOrder (victims nowMs hours 0 (readLocal s))).length).segmetaJson :=
      (hso.segmeta m (by rw [hmk]; exact hk)).mpr hm
    rw [hpass]
    exact List.mem_map.mpr ⟨m, this, hmk⟩

/-- the regression witness of the repaired defect: segment 1 expired, pqid 7 has an empty-results entry
for it; after the pass the entry is gone -/
example : (pass deleteOrder 1790000000000 24 { orphanWitness with pqMeta := [(7, 1)], sfmPq := [(7, 1)] }).pqMeta = [] := by
  decide

/-- the same statement for the pass BEFORE the repair … -/
def PqMetaCleanOld (nowMs : Nat) (hours : Int) (s : Store) : Prop :=
  ∀ e ∈ (passOld deleteOrderOld nowMs hours s).pqMeta, e.2 ∈ (passOld deleteOrderOld nowMs hours s).segmetaJson.map (·.key)

/-- … was false on stores the writer produces: `ReadLocalSegmeta(false)` yields metas without pqids, so
step 4 of the old `DeleteSegmentData` had nothing to iterate over and the entry of a deleted segment
stayed for ever. -/
theorem pqmeta_clean_old_counterexample :
    ¬ ∀ nowMs hours s, PqEntriesInSfm s → (∀ e ∈ s.pqMeta, e.2 ∈ s.segmetaJson.map (·.key)) → PqMetaCleanOld nowMs hours s := by
  intro h
  have := h 1790000000000 24 { orphanWitness with pqMeta := [(7, 1)], sfmPq := [(7, 1)] }
    (by unfold PqEntriesInSfm; decide) (by decide)
  revert this
  unfold PqMetaCleanOld
  decide

/-- the hypothesis `PqEntriesInSfm` cannot be dropped: an empty-PQ entry that the segment's .sfm file does
not record (or whose .sfm file is gone, as after a crash in the files phase: C14.3) is not found -/
theorem pqmeta_clean_needs_sfm : ¬ ∀ nowMs hours s, PqMetaClean nowMs hours s := by
  intro h
  have := h 1790000000000 24 { orphanWitness with pqMeta := [(7, 1)] }
  revert this
  unfold PqMetaClean
  decide

/-! #### records after the pass -/

/-- C14.4 (records) — for EVERY store, clock, retention and list of records: an empty result recorded after
the pass is listed in the empty-PQ meta files, whatever the pass removed (also when it removed the last
entry, and with it the pqmeta directory). -/
theorem record_after_pass_listed (nowMs : Nat) (hours : Int) (s : Store) (es : List (Nat × Nat)) (e : Nat × Nat)
    (he : e ∈ es) : e ∈ (recordAll (pass deleteOrder nowMs hours s) es).pqMeta :=
  (mem_recordAll _ es e).mpr (Or.inr he)

/-- … recording touches nothing but the empty-PQ meta files, and there it only adds -/
theorem record_only_adds (s : Store) (es : List (Nat × Nat)) :
    withoutPq (recordAll s es) = withoutPq s ∧ ∀ x, x ∈ (recordAll s es).pqMeta ↔ x ∈ s.pqMeta ∨ x ∈ es :=
  ⟨withoutPq_recordAll s es, mem_recordAll s es⟩

/-- C14.4 (the empty-PQ meta files list exactly the survivors' entries and the records made since) — for every
store the writer can have produced: after a pass and any records, an entry is listed iff it was listed before
for a segment the pass did not select, or it was recorded after the pass. -/
theorem pqmeta_exact_after_pass_and_records (nowMs : Nat) (hours : Int) (s : Store) (es : List (Nat × Nat))
    (hsfm : PqEntriesInSfm s) (hpre : ∀ e ∈ s.pqMeta, e.2 ∈ s.segmetaJson.map (·.key)) (p k : Nat) :
    (p, k) ∈ (recordAll (pass deleteOrder nowMs hours s) es).pqMeta ↔
      ((p, k) ∈ s.pqMeta ∧ k ∉ (victims nowMs hours 0 (readLocal s)).map (·.key)) ∨ (p, k) ∈ es := by
  rw [mem_recordAll]
  have hso := survivors_intact deleteOrder (victims nowMs hours 0 (readLocal s)) s
    (stepsFor deleteOrder (victims nowMs hours 0 (readLocal s))).length
  have hpass : pass deleteOrder nowMs hours s = deleteSegmentData deleteOrder (victims nowMs hours 0 (readLocal s)) s
      (stepsFor deleteOrder (victims nowMs hours 0 (readLocal s))).length := rfl
  constructor
  · rintro (h | h)
    · left
      have hk : k ∉ (victims nowMs hours 0 (readLocal s)).map (·.key) := by
        intro hk
        obtain ⟨v, hv, hvk⟩ := List.mem_map.mp hk
        have hclean := pqmeta_clean nowMs hours s hsfm hpre (p, k) h
        obtain ⟨m, hm, hmk⟩ := List.mem_map.mp hclean
        exact (pass_removes_victims nowMs hours s v hv).2.2.2 m hm (by rw [hmk, hvk])
      refine ⟨?_, hk⟩
      rw [hpass] at h
      exact (hso.pq p k hk).mp h
    · exact Or.inr h
  · rintro (⟨h, hk⟩ | h)
    · left
      rw [hpass]
      exact (hso.pq p k hk).mpr h
    · exact Or.inr h

/-- (record of the repaired defect) before the repair a record made after a pass that removed the LAST
empty-PQ entry was dropped — `removePqmrFilesAndDirectory` removes the pqmeta directory with its last file and
`writeEmptyPqsMapToFile` did not create it: segment 1 expired, pqid 7 lists it (the only entry); after the
pass an empty result of pqid 7 for segment 2 is recorded and not listed.  The repaired writer lists it. -/
theorem record_after_pass_old_counterexample :
    (¬ ∀ nowMs hours s es e, e ∈ es →
        e ∈ (recordAllOld (pqDirRemovedOld s (pass deleteOrder nowMs hours s)) (pass deleteOrder nowMs hours s) es).pqMeta) ∧
    (recordAll (pass deleteOrder 1790000000000 24 { orphanWitness with pqMeta := [(7, 1)], sfmPq := [(7, 1)] }) [(7, 2)]).pqMeta
      = [(7, 2)] := by
  refine ⟨?_, by decide⟩
  intro h
  have := h 1790000000000 24 { orphanWitness with pqMeta := [(7, 1)], sfmPq := [(7, 1)] } [(7, 2)] (7, 2) (by simp)
  revert this
  decide

/-! ### 5. the volume pass -/

/-- oldest first: the marked segments come in non-decreasing age order, and nothing strictly older than a
marked segment is left (so marking stops at the first segment that is not marked) -/
def OldestFirst (all deleted : List Meta) : Prop :=
  deleted.Pairwise (fun a b => trueTimeMs a ≤ trueTimeMs b) ∧
  ∀ a ∈ deleted, ∀ b ∈ all, trueTimeMs b < trueTimeMs a → b ∈ deleted

/-- the sort key of the pass is the segment's true newest-event time (only hypothesis: the field width of
`LatestEpochSec`, a uint32) -/
theorem volKey_eq_trueTime (l : List Meta) (hw : WellTyped l) (m : Meta) (hm : m ∈ l) : volKey m = trueTimeMs m :=
  timeMs_eq_trueTime m (hw m hm)

/-- C14.5 — for EVERY limit, warning counter and set of segments (no guard beyond the uint32 width of
`LatestEpochSec`): the volume pass marks oldest-first and stops at the first segment it does not mark — no
segment is deleted while a strictly older one stays.  (False before the two fixes, see the `…_old_…`
theorems below.) -/
theorem vol_oldest_first (limitGB counter : Nat) (metrics logs : List Meta) (hw : WellTyped (metrics ++ logs)) :
    OldestFirst (metrics ++ logs) (volPass limitGB counter metrics logs) := by
  unfold volPass
  simp only []
  split
  · exact ⟨List.Pairwise.nil, fun a ha => (by cases ha)⟩
  · have hsorted : (volSort (metrics ++ logs)).Pairwise (fun a b => trueTimeMs a ≤ trueTimeMs b) := by
      refine (pairwise_volSort (metrics ++ logs)).imp_of_mem ?_
      intro a b ha hb hab
      rw [← volKey_eq_trueTime _ hw a ((mem_volSort a _).mp ha), ← volKey_eq_trueTime _ hw b ((mem_volSort b _).mp hb)]
      exact hab
    refine ⟨hsorted.sublist (volLoop_sublist _ _), ?_⟩
    intro a ha b hb hlt
    exact volLoop_closed trueTimeMs _ _ hsorted a ha b ((mem_volSort b _).mpr hb) hlt

/-- C14.5 — the marked segments are exactly the first n of the age-sorted candidate list, for some n. -/
theorem vol_deletes_prefix (limitGB counter : Nat) (metrics logs : List Meta) :
    ∃ n, volPass limitGB counter metrics logs = (volSort (metrics ++ logs)).take n := by
  unfold volPass
  simp only []
  split
  · exact ⟨0, rfl⟩
  · exact volLoop_prefix _ _

/-- C14.5 — the pass only marks existing segments and never marks as much as the excess: it cannot delete
more than asked for (and, the comparison being strict, never quite reaches the limit). -/
theorem vol_never_overdeletes (limitGB counter : Nat) (metrics logs : List Meta) :
    (∀ a ∈ volPass limitGB counter metrics logs, a ∈ metrics ++ logs) ∧
    (volPass limitGB counter metrics logs = [] ∨
      totalSize (volPass limitGB counter metrics logs) < volExcess limitGB counter (volSystem metrics logs)) := by
  unfold volPass
  simp only []
  split
  · exact ⟨fun a ha => (by cases ha), Or.inl rfl⟩
  · rename_i hex
    refine ⟨fun a ha => (mem_volSort a _).mp ((volLoop_sublist _ _).subset ha), Or.inr ?_⟩
    exact volLoop_total_lt _ _ (Nat.pos_of_ne_zero hex)

/-- (record of repaired defect 1) the pass as it was — `break` leaving only the `switch` — was not
oldest-first even for log segments alone: a 2 GB segment from 2023 does not fit into the 1 GB + 1 excess and
the 1-byte segment from 2026 was deleted instead.  The repaired pass deletes nothing on that input. -/
theorem vol_oldest_first_old_counterexample :
    (¬ ∀ limitGB counter metrics logs, OldestFirst (metrics ++ logs) (volPassOld limitGB counter metrics logs)) ∧
    volPass 1 5 [] [{ key := 1, latest := 1700000000000, kind := .log, size := 2000000000 },
                    { key := 2, latest := 1790000000000, kind := .log, size := 1 }] = [] := by
  refine ⟨?_, by decide⟩
  intro h
  have := (h 1 5 [] [{ key := 1, latest := 1700000000000, kind := .log, size := 2000000000 },
                     { key := 2, latest := 1790000000000, kind := .log, size := 1 }]).2
  revert this
  decide

/-- (record of repaired defect 2) the old sort key `uint64(LatestEpochSec * 1000)` was a wrapped uint32
product: today's metrics segment sorted before a log segment from 2023 and was deleted while the old log
segment stayed.  The repaired pass deletes the 2023 log segment on that input. -/
theorem vol_oldest_first_old_counterexample_overflow :
    (¬ ∀ limitGB counter metrics logs, OldestFirst (metrics ++ logs) (volPassOld limitGB counter metrics logs)) ∧
    (volPass 0 5 [{ key := 2, latest := 1789990000, kind := .metrics, size := 5 }]
                 [{ key := 1, latest := 1700000000000, kind := .log, size := 5 }]).map (·.key) = [1] := by
  refine ⟨?_, by decide⟩
  intro h
  have := (h 0 5 [{ key := 2, latest := 1789990000, kind := .metrics, size := 5 }]
                 [{ key := 1, latest := 1700000000000, kind := .log, size := 5 }]).2
  revert this
  decide

/-! ### 6. the rewrite of segmeta.json (`removeSegmetas`, `AddOrReplaceRotatedSegmeta`) -/

/-- the arguments the retention passes hand to `removeSegmetas` (through `RemoveSegMetas`): a non-nil map
with at least one well-formed segment key, no index name -/
def keyArgs (victim : Nat → Bool) : SmArgs := { victim := victim, anyValid := true }

/-- the arguments of an index deletion (`DeleteSegmentsForIndex`): nil map, index name -/
def indexArgs (i : Nat) : SmArgs := { nilMap := true, victim := fun _ => false, anyValid := false, index := some i }

/-- the entries a rewrite has to keep: the parsed lines whose key is not to be removed, in file order -/
def survivors (victim : Nat → Bool) (ls : List SmLine) : List SmLine :=
  (ls.filter (·.isEntry)).filter (fun l => !victim l.key)

theorem removes_keyArgs (victim : Nat → Bool) (l : SmLine) (h : l.isEntry = true) :
    (keyArgs victim).removes l = victim l.key := by
  cases l with
  | entry k i u n => rfl
  | junk u n => simp [SmLine.isEntry] at h

/-- **The metadata file lists exactly the survivors**, for a segmeta.json of ANY size (any number of lines;
each line shorter than the scanner's 1 MiB limit): after `removeSegmetas` the entries of the file are
exactly the entries whose key was not to be removed — as a list: same order, same multiplicity, same
contents (`uid`).  (When nothing survives the file is removed: no entries.) -/
theorem segmeta_rewrite_exact (victim : Nat → Bool) (ls : List SmLine) (h : AllShort ls) :
    smEntries (smRemove (keyArgs victim) (.lines ls)).1 = survivors victim ls := by
  rw [smRemove_short (keyArgs victim) ls h rfl (by simp [smHasDirs, keyArgs]), smPreserved_eq]
  unfold survivors
  apply List.filter_congr
  intro l hl
  rw [removes_keyArgs victim l (List.mem_filter.mp hl).2]

/-- every surviving entry is listed exactly as often as before (once, for a file without duplicates), no
entry of a removed key is listed -/
theorem segmeta_rewrite_each_once (victim : Nat → Bool) (ls : List SmLine) (h : AllShort ls) (l : SmLine)
    (he : l.isEntry = true) :
    (smEntries (smRemove (keyArgs victim) (.lines ls)).1).count l = if victim l.key then 0 else ls.count l := by
  rw [segmeta_rewrite_exact victim ls h]
  unfold survivors
  by_cases hv : victim l.key = true
  · simp only [hv, if_true]
    apply List.count_eq_zero.mpr
    intro hm
    have := (List.mem_filter.mp hm).2
    simp [hv] at this
  · simp only [hv]
    rw [List.count_filter (by simp [hv]), List.count_filter he]
    simp

/-- the order of the surviving lines is the order they had -/
theorem segmeta_rewrite_order (victim : Nat → Bool) (ls : List SmLine) (h : AllShort ls) :
    (smEntries (smRemove (keyArgs victim) (.lines ls)).1).Sublist ls := by
  rw [segmeta_rewrite_exact victim ls h]
  exact List.Sublist.trans List.filter_sublist List.filter_sublist

/-- rewriting twice with the same key set is the same as rewriting once; two rewrites in a row remove the
union of the two key sets -/
theorem segmeta_rewrite_compose (v1 v2 : Nat → Bool) (ls : List SmLine) (h : AllShort ls) :
    smEntries (smRemove (keyArgs v2) (smRemove (keyArgs v1) (.lines ls)).1).1
      = survivors (fun k => v1 k || v2 k) ls := by
  have hs := smRemove_fileShort (keyArgs v1) (.lines ls) h
  have h1 := segmeta_rewrite_exact v1 ls h
  cases hf : (smRemove (keyArgs v1) (.lines ls)).1 with
  | missing =>
    rw [hf] at h1
    have : smRemove (keyArgs v2) SmFile.missing = (SmFile.missing, SmRet.dirs) := rfl
    rw [this]
    simp only [smEntries] at h1 ⊢
    unfold survivors at h1 ⊢
    rw [← filter_union, ← h1]; rfl
  | lines ms =>
    rw [hf] at h1 hs
    rw [segmeta_rewrite_exact v2 ms hs]
    have hm : ms.filter (·.isEntry) = survivors v1 ls := by
      rw [← h1, smEntries_short ms hs]
    unfold survivors at hm ⊢
    rw [hm, filter_union]

theorem segmeta_rewrite_idempotent (victim : Nat → Bool) (ls : List SmLine) (h : AllShort ls) :
    smEntries (smRemove (keyArgs victim) (smRemove (keyArgs victim) (.lines ls)).1).1
      = smEntries (smRemove (keyArgs victim) (.lines ls)).1 := by
  rw [segmeta_rewrite_compose victim victim ls h, segmeta_rewrite_exact victim ls h]
  unfold survivors
  apply List.filter_congr; intro l _; simp

/-- The full statement (no bound on the length of a line) is false for the code as it is: one line the
scanner cannot deliver (≥ 1 MiB) and nothing is rewritten — the victim stays listed. -/
theorem segmeta_rewrite_exact_counterexample :
    ¬ ∀ (victim : Nat → Bool) (ls : List SmLine),
        smEntries (smRemove (keyArgs victim) (.lines ls)).1 = survivors victim ls := by
  intro h
  have := h (fun k => k == 1) [.entry 1 0 1 300, .entry 2 0 2 smScanLimit]
  revert this
  decide

/-- … and characterised: such a file is never changed by `removeSegmetas` -/
theorem segmeta_rewrite_too_long_line_unchanged (a : SmArgs) (ls : List SmLine) (h : ∃ l ∈ ls, smScanLimit ≤ l.len) :
    (smRemove a (.lines ls)).1 = .lines ls := by
  apply smRemove_tooLong
  obtain ⟨l, hl, hn⟩ := h
  exact ⟨l, hl, by simp [SmLine.tooLong, hn]⟩

example : AllShort [.entry 1 0 1 300, .junk 7 0, .entry 2 1 2 1048575] := by
  intro l hl; simp at hl; rcases hl with rfl | rfl | rfl <;> decide

theorem removes_indexArgs (i : Nat) (l : SmLine) : (indexArgs i).removes l = (l.isEntry && decide (l.idx = i)) := by
  cases l <;> simp [SmArgs.removes, indexArgs, SmLine.isEntry, SmLine.idx] <;> rfl

/-- index deletion (`DeleteSegmentsForIndex` → `removeSegmetas(nil, index)`), for a file of any size: exactly
the entries of the other indexes stay, in order -/
theorem segmeta_index_rewrite_exact (i : Nat) (ls : List SmLine) (h : AllShort ls) :
    smEntries (smRemove (indexArgs i) (.lines ls)).1 = (ls.filter (·.isEntry)).filter (fun l => !decide (l.idx = i)) := by
  by_cases hd : smHasDirs (indexArgs i) ls = true
  · rw [smRemove_short (indexArgs i) ls h rfl hd, smPreserved_eq]
    apply List.filter_congr
    intro l hl
    rw [removes_indexArgs, (List.mem_filter.mp hl).2]
    simp
  · simp only [Bool.not_eq_true] at hd
    rw [smRemove_noDirs (indexArgs i) ls h hd, smEntries_short ls h]
    symm
    apply List.filter_eq_self.mpr
    intro l hl
    have hl' := List.mem_filter.mp hl
    simp only [smHasDirs, Bool.false_or, Option.isSome_some, Bool.true_and,
      show (indexArgs i).anyValid = false from rfl, show (indexArgs i).index = some i from rfl] at hd
    have := (List.any_eq_false.mp hd) l hl'.1
    rw [removes_indexArgs] at this
    simp [hl'.2] at this
    simp [this]

/-- `AddOrReplaceRotatedSegmeta`, for a file of any size: the other segments' entries stay as they are and
in order, the new entry is the last line -/
theorem segmeta_add_or_replace (key idx uid len : Nat) (hl : len < smScanLimit) (ls : List SmLine) (h : AllShort ls) :
    smEntries (smAddOrReplace key idx uid len (.lines ls))
      = survivors (fun k => decide (k = key)) ls ++ [.entry key idx uid len] := by
  have h1 := segmeta_rewrite_exact (fun k => decide (k = key)) ls h
  have hs := smRemove_fileShort (keyArgs (fun k => decide (k = key))) (.lines ls) h
  have hnew : AllShort [SmLine.entry key idx uid len] := by
    intro l hl'; simp at hl'; subst hl'; exact hl
  show smEntries (smAppend _ (smRemove (keyArgs (fun k => decide (k = key))) (.lines ls)).1) = _
  cases hf : (smRemove (keyArgs (fun k => decide (k = key))) (.lines ls)).1 with
  | missing =>
    rw [hf] at h1
    rw [← h1]
    simp only [smAppend]
    rw [smEntries_short _ hnew]
    rfl
  | lines ms =>
    rw [hf] at h1 hs
    rw [← h1]
    simp only [smAppend]
    have hall : AllShort (ms ++ [SmLine.entry key idx uid len]) := by
      intro l hl'
      rcases List.mem_append.mp hl' with hm | hm
      · exact hs l hm
      · exact hnew l hm
    rw [smEntries_short _ hall, smEntries_short ms hs, List.filter_append]
    rfl

/-- … so afterwards exactly one entry carries the key: the new one -/
theorem segmeta_add_or_replace_unique (key idx uid len : Nat) (hl : len < smScanLimit) (ls : List SmLine) (h : AllShort ls) :
    (smEntries (smAddOrReplace key idx uid len (.lines ls))).filter (fun l => decide (l.key = key))
      = [.entry key idx uid len] := by
  rw [segmeta_add_or_replace key idx uid len hl ls h, List.filter_append]
  have : (survivors (fun k => decide (k = key)) ls).filter (fun l => decide (l.key = key)) = [] := by
    apply List.filter_eq_nil_iff.mpr
    intro l hm
    have := (List.mem_filter.mp hm).2
    simpa using this
  rw [this]
  simp [SmLine.key]

/-- the line-level rewrite refines the `segmeta` step of the delete protocol above (`applyStep (.segmeta ks)`):
the keys listed afterwards are the same -/
theorem segmeta_step_refines (ks : List Nat) (ms : List Meta) (s : Store) (hs : s.segmetaJson = ms) :
    (smEntries (smRemove (keyArgs (fun k => decide (k ∈ ks))) (smOfMetas ms)).1).map (·.key)
      = ((applyStep s (.segmeta ks)).segmetaJson).map (·.key) := by
  have hshort : AllShort (ms.map (fun m => SmLine.entry m.key m.org m.key 300)) := by
    intro l hl
    obtain ⟨m, _, rfl⟩ := List.mem_map.mp hl
    show 300 < smScanLimit
    decide
  unfold smOfMetas
  rw [segmeta_rewrite_exact _ _ hshort]
  simp only [applyStep, hs]
  unfold survivors
  induction ms generalizing s with
  | nil => rfl
  | cons m r ih =>
    have ih' := ih (s := { s with segmetaJson := r }) rfl (by
      intro l hl; exact hshort l (by simp [List.mem_map] at hl ⊢; rcases hl with ⟨a, ha, rfl⟩; exact Or.inr ⟨a, ha, rfl⟩))
    by_cases hk : m.key ∈ ks
    · simp [SmLine.isEntry, SmLine.key, hk] at ih' ⊢
      exact ih'
    · simp [SmLine.isEntry, SmLine.key, hk] at ih' ⊢
      exact ih'

/-- written, then scanned: the scanner delivers exactly the lines that were written, for a file of any
length — provided no line contains a newline or ends in '\r' (json.Marshal escapes both) -/
theorem segmeta_file_lines_roundtrip (ls : List (List Nat)) (h : ∀ l ∈ ls, 10 ∉ l ∧ l.getLast? ≠ some 13) :
    smSplitLines (smJoinLines ls) = ls := by
  unfold smSplitLines
  induction ls with
  | nil => rfl
  | cons l r ih =>
    have hl := h l (by simp)
    have : smJoinLines (l :: r) = l ++ 10 :: smJoinLines r := by simp [smJoinLines]
    rw [this, smSplitAux_line l _ [] hl.1, ih (fun x hx => h x (by simp [hx]))]
    simp [smDropCR, hl.2]


/-- At full strength, for EVERY segmeta.json (lines of any length, junk, duplicates) and every argument of
`removeSegmetas`: the file afterwards is the file before, or exactly its preserved entries — the function
never rewrites from a partial read (`reader.Err() != nil` → `return nil`). -/
theorem segmeta_rewrite_all_or_nothing (a : SmArgs) (ls : List SmLine) :
    (smRemove a (.lines ls)).1 = .lines ls ∨ (smRemove a (.lines ls)).1.lineList = smPreserved a ls := by
  unfold smRemove
  split
  · exact Or.inl rfl
  · simp only
    split
    · exact Or.inl rfl
    · rename_i herr
      simp only [Bool.not_eq_true] at herr
      have hsc : (smScan ls).1 = ls := smScanWith_noErr smScanLimit ls herr
      rw [hsc]
      split
      · exact Or.inl rfl
      · right
        split
        · rename_i hemp
          rw [List.isEmpty_iff.mp hemp]
          rfl
        · rfl

/-- … so no entry that was not to be removed is ever dropped from segmeta.json, whatever the file looks like -/
theorem segmeta_rewrite_keeps_survivors (a : SmArgs) (ls : List SmLine) (l : SmLine)
    (hl : l ∈ ls) (he : l.isEntry = true) (hr : a.removes l = false) :
    l ∈ (smRemove a (.lines ls)).1.lineList := by
  rcases segmeta_rewrite_all_or_nothing a ls with h | h
  · rw [h]; exact hl
  · rw [h]
    exact List.mem_filter.mpr ⟨hl, by simp [he, hr]⟩

/-! ### 7. metricmeta.json (after the two repairs: 64 MiB scanner, no rewrite after a read error) -/

/-- the rewrite of metricmeta.json, for a file of any number of lines, each shorter than the scanner's
64 MiB: what `ReadMetricsMeta` finds afterwards is exactly the entries whose key was not to be removed, in
order, and it reports no error -/
theorem metricsmeta_rewrite_exact (victim : Nat → Bool) (ls : List SmLine) (h : AllShorter mmScanLimit ls) :
    mmRead (mmRemove false victim (.lines ls)) = (survivors victim ls, false) := by
  unfold mmRemove mmRead
  simp only [Bool.false_eq_true, if_false, smScanWith_allShorter mmScanLimit ls h]
  by_cases hv : ((ls.filter (·.isEntry)).any (fun l => victim l.key)) = true
  · simp only [hv, Bool.not_true, Bool.false_eq_true, if_false]
    by_cases he : ((ls.filter (·.isEntry)).filter (fun l => !victim l.key)).isEmpty = true
    · simp only [he, if_true, mmReadWith]
      unfold survivors
      rw [List.isEmpty_iff.mp he]
    · simp only [he, Bool.false_eq_true, if_false, mmReadWith]
      have hs : AllShorter mmScanLimit ((ls.filter (·.isEntry)).filter (fun l => !victim l.key)) :=
        fun l hl => h l (List.mem_filter.mp (List.mem_filter.mp hl).1).1
      rw [smScanWith_allShorter mmScanLimit _ hs]
      unfold survivors
      congr 1
      apply List.filter_eq_self.mpr
      intro l hl
      exact (List.mem_filter.mp (List.mem_filter.mp hl).1).2
  · simp only [Bool.not_eq_true] at hv
    simp only [hv, Bool.not_false, if_true, mmReadWith, smScanWith_allShorter mmScanLimit ls h]
    unfold survivors
    congr 1
    symm
    apply List.filter_eq_self.mpr
    intro l hl
    have := (List.any_eq_false.mp hv) l hl
    simpa using this

/-- **No survivor is ever dropped from metricmeta.json** — at full strength, for EVERY file (lines of any
length, junk, duplicates) and every key set: an entry whose key was not to be removed is still a line of the
file afterwards.  (False before the repair: `metricsmeta_rewrite_old_drops_tail`.) -/
theorem metricsmeta_rewrite_keeps_survivors (nilMap : Bool) (victim : Nat → Bool) (ls : List SmLine) (l : SmLine)
    (hl : l ∈ ls) (he : l.isEntry = true) (hv : victim l.key = false) :
    l ∈ (mmRemove nilMap victim (.lines ls)).lineList := by
  unfold mmRemove
  split
  · exact hl
  · simp only
    split
    · exact hl
    · rename_i herr
      simp only [Bool.not_eq_true] at herr
      rw [smScanWith_noErr mmScanLimit ls herr]
      split
      · exact hl
      · have hk : l ∈ (ls.filter (·.isEntry)).filter (fun l => !victim l.key) :=
          List.mem_filter.mpr ⟨List.mem_filter.mpr ⟨hl, he⟩, by simp [hv]⟩
        split
        · rename_i hemp
          rw [List.isEmpty_iff.mp hemp] at hk
          simp at hk
        · exact hk

/-- … and nothing but victims is ever removed: the file afterwards is the file before, or exactly its
surviving entries (the scan was complete) -/
theorem metricsmeta_rewrite_all_or_nothing (nilMap : Bool) (victim : Nat → Bool) (ls : List SmLine) :
    mmRemove nilMap victim (.lines ls) = .lines ls
      ∨ (mmRemove nilMap victim (.lines ls)).lineList = survivors victim ls := by
  unfold mmRemove
  split
  · exact Or.inl rfl
  · simp only
    split
    · exact Or.inl rfl
    · rename_i herr
      simp only [Bool.not_eq_true] at herr
      rw [smScanWith_noErr mmScanLimit ls herr]
      split
      · exact Or.inl rfl
      · right
        split
        · rename_i hemp
          unfold survivors
          rw [List.isEmpty_iff.mp hemp]
          rfl
        · rfl

/-- a file the scanner cannot read to its end is left exactly as it is -/
theorem metricsmeta_rewrite_unchanged_on_read_error (nilMap : Bool) (victim : Nat → Bool) (ls : List SmLine)
    (h : ∃ l ∈ ls, mmScanLimit ≤ l.len) : mmRemove nilMap victim (.lines ls) = .lines ls := by
  unfold mmRemove
  split
  · rfl
  · simp [smScanWith_tooLong mmScanLimit ls h]

/-- the metrics half of a pass over a file of lines shorter than 64 MiB: exactly the entries whose key's (last)
entry is expired are gone afterwards -/
theorem metrics_pass_exact (expired : SmLine → Bool) (ls : List SmLine) (h : AllShorter mmScanLimit ls) :
    mmRead (mmPass expired (.lines ls)) = (survivors (mmExpiredKey expired (ls.filter (·.isEntry))) ls, false) := by
  unfold mmPass
  simp only [mmRead, mmReadWith, smScanWith_allShorter mmScanLimit ls h, Bool.false_eq_true, if_false]
  exact metricsmeta_rewrite_exact _ ls h

/-- the line that stopped all retention before the repair (65536 bytes: some 2700 tag keys) is handled now -/
example : mmRead (mmPass (fun l => l.key == 1) (.lines [.entry 1 0 1 300, .entry 2 0 2 mmScanLimitOld]))
    = ([.entry 2 0 2 mmScanLimitOld], false) := by decide

/-- What is left of the defect: a line of ≥ 64 MiB (millions of tag keys in one segment) still makes
`ReadMetricsMeta` fail, and then no pass deletes anything — but nothing is lost. -/
theorem metrics_pass_blocked_by_long_line (expired : SmLine → Bool) (ls : List SmLine)
    (h : ∃ l ∈ ls, mmScanLimit ≤ l.len) : mmPass expired (.lines ls) = .lines ls := by
  unfold mmPass
  simp [mmRead, mmReadWith, smScanWith_tooLong mmScanLimit ls h]

/-- so "every expired metrics segment is deleted" needs the (now 64 MiB) bound on the line length -/
theorem metrics_pass_deletes_expired_counterexample :
    ¬ ∀ (expired : SmLine → Bool) (ls : List SmLine) (l : SmLine),
        l ∈ ls → l.isEntry = true → expired l = true → l ∉ (mmRead (mmPass expired (.lines ls))).1 := by
  intro h
  have := h (fun l => l.key == 1) [.entry 1 0 1 300, .entry 2 0 2 mmScanLimit] (.entry 1 0 1 300)
    (by simp) rfl rfl
  revert this
  decide

example : AllShorter mmScanLimit [.entry 1 0 1 300, .entry 2 1 2 65536, .entry 3 0 3 2000000] := by
  intro l hl; simp at hl; rcases hl with rfl | rfl | rfl <;> decide

/-! #### the behaviour before the repairs (`mmReadOld`, `mmRemoveOld`, `mmPassOld`: 64 KiB scanner, rewrite from a partial read) -/

/-- before the repair the exactness statement was false for lines of any length: the rewrite went on after
the scanner's error with the lines it had got -/
theorem metricsmeta_rewrite_exact_old_counterexample :
    ¬ ∀ (victim : Nat → Bool) (ls : List SmLine),
        (mmReadOld (mmRemoveOld false victim (.lines ls))).1 = survivors victim ls := by
  intro h
  have := h (fun k => k == 1) [.entry 1 0 1 300, .entry 2 0 2 300, .entry 3 0 3 mmScanLimitOld, .entry 4 0 4 300]
  revert this
  decide

/-- … characterised: with a victim before the first line of ≥ 64 KiB, the rewritten file listed the survivors
among the lines BEFORE it and nothing else — every entry from that line on was dropped, survivors included -/
theorem metricsmeta_rewrite_old_drops_tail (victim : Nat → Bool) (pre post : List SmLine) (long : SmLine)
    (hp : AllShorter mmScanLimitOld pre) (hl : mmScanLimitOld ≤ long.len)
    (hv : ((pre.filter (·.isEntry)).any (fun l => victim l.key)) = true) :
    (mmRemoveOld false victim (.lines (pre ++ long :: post))).lineList = survivors victim pre := by
  have hsc := smScanWith_prefix mmScanLimitOld pre post long hp hl
  unfold mmRemoveOld
  simp only [Bool.false_eq_true, if_false, hsc, hv, Bool.not_true]
  split
  · rename_i hemp
    unfold survivors
    rw [List.isEmpty_iff.mp hemp]
    rfl
  · rfl

/-- "no survivor is ever dropped" was false before the repair -/
theorem metricsmeta_rewrite_keeps_survivors_old_counterexample :
    ¬ ∀ (victim : Nat → Bool) (ls : List SmLine) (l : SmLine), l ∈ ls → l.isEntry = true → victim l.key = false →
        l ∈ (mmRemoveOld false victim (.lines ls)).lineList := by
  intro h
  have := h (fun k => k == 1) [.entry 1 0 1 300, .entry 2 0 2 300, .entry 3 0 3 mmScanLimitOld, .entry 4 0 4 300]
    (.entry 4 0 4 300) (by simp) rfl rfl
  revert this
  decide

/-- before the repair one line of ≥ 64 KiB in metricmeta.json and no pass deleted anything any more -/
theorem metrics_pass_old_blocked_by_long_line (expired : SmLine → Bool) (ls : List SmLine)
    (h : ∃ l ∈ ls, mmScanLimitOld ≤ l.len) : mmPassOld expired (.lines ls) = .lines ls := by
  unfold mmPassOld
  simp [mmReadOld, mmReadWith, smScanWith_tooLong mmScanLimitOld ls h]

/-! ### 8. metricmeta.json: one retention pass against concurrent rotations and readers (`MmConc`)

The machine interleaves, in ANY order, the steps of one pass (`RemoveMetricsSegments`: lock, scan, one directory removal
per removed entry, rewrite + unlock), of any number of rotations (`AddMetricsMetaEntry`: lock, append + unlock) and of any
number of readers; a step that would wait for `mMetaLock` is not taken.  `victim` = the pass's list, `key i` = the entry
rotation `i` appends; a freshly rotated segment is not on the list (`hk`).  Tied to the code by suite `retmmc` (replay of
generated schedules on the real functions, stopped at pause points) and the call-order facts `C14.RemoveMetricsSegments.order`,
`C14.removeMetricsSegmentsByList.order`, `C14.AddMetricsMetaEntry.order`, `C14.ReadMetricsMeta.order`. -/
section MmConcProps
open SigModel.Retention.MmConc SigModel.Lemmas.C14Conc

/-- the state every schedule starts from: the file as it is, nobody has started -/
def mmcInit (f0 d0 : List Nat) : MmConc.St := { file := f0, dirs := d0 }

/-- NO ROTATION IS LOST: after any schedule, the entry of every rotation that has returned is listed in metricmeta.json -/
theorem mmc_no_rotation_lost (victim : Nat → Bool) (key : Nat → Nat) (hk : ∀ i, victim (key i) = false)
    (f0 d0 : List Nat) (sched : List MmConc.Tid) (i : Nat)
    (h : MmConc.acked (MmConc.run victim key (mmcInit f0 d0) sched) i = true) :
    key i ∈ (MmConc.run victim key (mmcInit f0 d0) sched).file := by
  have inv : Inv victim key f0 (MmConc.run victim key (mmcInit f0 d0) sched) :=
    inv_run victim key hk f0 sched _ (inv_init victim key f0 d0)
  apply inv.ack i
  simpa [MmConc.acked] using h

/-- after any schedule every entry that was not to be removed is still listed -/
theorem mmc_survivors_listed (victim : Nat → Bool) (key : Nat → Nat) (hk : ∀ i, victim (key i) = false)
    (f0 d0 : List Nat) (sched : List MmConc.Tid) (k : Nat) (h0 : k ∈ f0) (hv : victim k = false) :
    k ∈ (MmConc.run victim key (mmcInit f0 d0) sched).file :=
  (inv_run victim key hk f0 sched _ (inv_init victim key f0 d0)).surv k h0 hv

/-- THE PASS IS ATOMIC WITH RESPECT TO ROTATIONS: once the pass has returned — whatever was interleaved with it, and
whatever ran afterwards — metricmeta.json lists exactly the initial entries that were not to be removed and the entries
of the rotations that have returned -/
theorem mmc_pass_exact (victim : Nat → Bool) (key : Nat → Nat) (hk : ∀ i, victim (key i) = false)
    (f0 d0 : List Nat) (sched : List MmConc.Tid)
    (hd : (MmConc.run victim key (mmcInit f0 d0) sched).ppc = .done) (k : Nat) :
    k ∈ (MmConc.run victim key (mmcInit f0 d0) sched).file ↔
      (k ∈ f0 ∧ victim k = false) ∨ ∃ i, k = key i ∧ MmConc.acked (MmConc.run victim key (mmcInit f0 d0) sched) i = true := by
  have inv : Inv victim key f0 (MmConc.run victim key (mmcInit f0 d0) sched) :=
    inv_run victim key hk f0 sched _ (inv_init victim key f0 d0)
  constructor
  · intro hf
    rcases inv.only k hf with h0 | ⟨i, hi, ha⟩
    · exact Or.inl ⟨h0, inv.clean hd k hf⟩
    · exact Or.inr ⟨i, hi, by simp [MmConc.acked, ha]⟩
  · intro h
    rcases h with ⟨h0, hv⟩ | ⟨i, hi, ha⟩
    · exact inv.surv k h0 hv
    · rw [hi]
      apply inv.ack i
      simpa [MmConc.acked] using ha

/-- between its scan and its rewrite the pass holds the lock: a rotation that arrives then waits (its step is not
taken), in every reachable state -/
theorem mmc_rotation_waits_for_pass (victim : Nat → Bool) (key : Nat → Nat) (hk : ∀ i, victim (key i) = false)
    (f0 d0 : List Nat) (sched : List MmConc.Tid) (i : Nat)
    (hp : (MmConc.run victim key (mmcInit f0 d0) sched).ppc = .scan ∨ (MmConc.run victim key (mmcInit f0 d0) sched).ppc = .rmdir
      ∨ (MmConc.run victim key (mmcInit f0 d0) sched).ppc = .rewrite)
    (ha : (MmConc.run victim key (mmcInit f0 d0) sched).apc i = .lock) :
    MmConc.step victim key (MmConc.run victim key (mmcInit f0 d0) sched) (.app i)
      = (MmConc.run victim key (mmcInit f0 d0) sched, .blocked) := by
  have inv : Inv victim key f0 (MmConc.run victim key (mmcInit f0 d0) sched) :=
    inv_run victim key hk f0 sched _ (inv_init victim key f0 d0)
  have hw : (MmConc.run victim key (mmcInit f0 d0) sched).writer = some .pass := by
    rcases hp with h | h | h
    · exact inv.scanning h
    · exact (inv.region (Or.inl h)).1
    · exact (inv.region (Or.inr h)).1
  simp [MmConc.step, ha, hw]

/-- non-vacuity: a rotation that tries to get in after the scan and after the directory removal, then gets in:
the pass returns, the rotation returns, the file lists the survivors and the rotated segment -/
example :
    let s := MmConc.run (fun k => k == 1) (fun i => 101 + i) (mmcInit [1, 2, 3] [1, 2, 3, 101])
      [.pass, .pass, .app 0, .pass, .app 0, .pass, .app 0, .app 0]
    s.ppc = .done ∧ MmConc.acked s 0 = true ∧ s.file = [2, 3, 101] ∧ s.dirs = [2, 3, 101] := by
  decide

end MmConcProps

/-! ### 9. the directory of a segment from its key (`utils.GetSegBaseDirFromFilename`)

`DeleteSegmentData` and `removeSegmetas` find the directory of a victim from its segment key.  Tied to the code by suite
`retsbd` (the real function on generated keys) and, end to end, by suite `ret`, whose victims' index names are drawn from the
words of the data layout. -/
section SegDirProps
open SigModel.Retention.SegDir SigModel.Lemmas.C14Dir

/-- for every segment key in the writer's layout `<pre>/final/<index>/<stream>/<suffix>/<suffix>` (`config.GetSegKey`),
whatever the index is called — `final` included —, the result is the segment's directory `<pre>/final/<index>/<stream>/<suffix>/`
(`config.GetBaseSegDir`).  Hypotheses: index name, stream id and suffix hold no "/" (index names: `vtable.IsValidIndexName`),
and the data path + host id `pre` do not themselves hold a "/final/" (stated so that an occurrence straddling the end of `pre`
is excluded too) — the code's own note: the function is coupled to getBaseSegDir -/
theorem segBaseDir_of_writer_layout (pre index stream suffix : List Char)
    (hpre : findSub finalStr (pre ++ "/final".toList) = none)
    (hi : '/' ∉ index) (hs : '/' ∉ stream) (hx : '/' ∉ suffix) :
    segBaseDir (segKey pre index stream suffix) = some (baseSegDir pre index stream suffix) := by
  have hfind : findSub finalStr (pre ++ finalStr ++ (index ++ ['/'] ++ stream ++ ['/'] ++ suffix ++ ['/'] ++ suffix))
      = some pre.length :=
    findSub_behind "/final".toList '/' _ pre hpre
  have hkey : segKey pre index stream suffix
      = (pre ++ finalStr) ++ (index ++ '/' :: (stream ++ '/' :: (suffix ++ '/' :: suffix))) := by
    simp [segKey]
  have hfind' : findSub finalStr (segKey pre index stream suffix) = some pre.length := by
    rw [← hfind]
    simp [segKey]
  have hlen : (pre ++ finalStr).length = pre.length + finalStr.length := by simp
  unfold segBaseDir
  rw [hfind']
  simp only
  rw [hkey, ← hlen, List.drop_left, List.take_left]
  rw [show depthAfterFinal = 2 + 1 from rfl, takeParts_component 2 _ index hi,
    takeParts_component 1 _ stream hs, takeParts_component 0 _ suffix hx]
  simp [takeParts, baseSegDir]

/-- non-vacuity, and the case that matters: an index called `final` -/
example : segBaseDir "/data/host1/final/final/123/7/7".toList = some "/data/host1/final/final/123/7/".toList := by
  decide

/-- the hypothesis on `pre` cannot be dropped: under a data path that holds a `/final/` the function answers with a
directory of the data path -/
theorem segBaseDir_data_path_with_final_counterexample :
    segBaseDir (segKey "/mnt/final/sig/h".toList "app".toList "1".toList "7".toList)
      ≠ some (baseSegDir "/mnt/final/sig/h".toList "app".toList "1".toList "7".toList) := by
  decide

end SegDirProps

end SigModel.Props.C14
