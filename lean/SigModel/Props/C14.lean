/-
C14 — Retention and deletion remove exactly what is expired.  Property theorems only.

Model: SigModel/Model/Retention.lean (pkg/retention/retention.go as it is).  For EVERY set of segment
metas, clock reading and retention:
  1. the time-based pass selects exactly the segments of its org whose newest event is not newer than
     now − retention (guard: sane retention, i.e. no int64/uint64 wrap; the wrap branch — horizon before
     the epoch — is characterised separately: it deletes everything);
  2. the delete protocol, cut after ANY number of micro-steps, touches nothing that belongs to a
     surviving segment, in any of the five stores;
  3. a pass interrupted after ANY prefix of its step list and then repeated ends in exactly the state of
     the uninterrupted pass in blob store, local files, in-memory metadata and segmeta.json — because
     segmeta.json, from which the repeated pass re-reads its victims, is rewritten last; with
     segmeta.json rewritten FIRST there is a crash point after which files are orphaned forever (this
     is why the order is tied to the source by a call-order fact).  For the empty-PQ meta files the
     equality holds when the cut lies before any local file was removed, and fails in general
     (counterexample): the pqids are read from the victim's .sfm file, which is gone once the files
     phase has passed — the repeated pass then leaves the victim's entries behind;
  4. after a pass nothing of a victim is left in blob store, local files, in-memory metadata and
     segmeta.json, and (after the repair of DeleteSegmentData, which now reads the victims' pqids from
     their .sfm files) the empty-PQ meta files list only segments that are still in segmeta.json, for
     every store in which each empty-PQ entry is recorded in its segment's .sfm file (what the writer
     does at rotation).  The behaviour before the repair (`passOld`: step 4 was dead code) is kept with
     its counterexample theorem;
  5. the volume pass deletes oldest-first and stops at the first segment that does not fit: the marked
     segments are a prefix of the age-sorted candidates, nothing strictly older than a deleted segment
     stays, and it never deletes as much as the excess — at full strength, for all inputs (only
     hypothesis: LatestEpochSec is a uint32).  This was false before two repairs in /repo (the `break`
     left only the `switch`; the metrics sort key was a wrapped uint32 product): the old behaviour is kept
     as `volPassOld` with its two counterexample theorems.
-/
import SigModel.Model.Retention
import SigModel.Lemmas.C14

namespace SigModel.Props.C14
open SigModel.Retention SigModel.Lemmas.C14

/-! ### 1. victim selection -/

/-- a sane configuration: retention between 0 and 2 562 046 hours (292 years: `time.Duration` does not
wrap), not reaching back before the epoch, clock before the year 2255 -/
def SaneRetention (nowMs : Nat) (hours : Int) : Prop :=
  0 ≤ hours ∧ hours < 2562047 ∧ hours * 3600000 ≤ (nowMs : Int) ∧ nowMs < 9000000000000

/-- field widths of the Go structs: `LatestEpochSec` is a uint32 -/
def WellTyped (metas : List Meta) : Prop := ∀ m ∈ metas, m.kind = .metrics → m.latest < two32

example : SaneRetention 1790000000000 360 := by unfold SaneRetention; omega
example : WellTyped [{ key := 1, latest := 1789000000, kind := .metrics }] := by
  intro m hm; simp at hm; subst hm; intro _; decide

/-- C14.1 — deleted ⇔ of the pass's org and newest event ≤ now − retention; in particular no segment
containing a newer event is selected and no expired one is left out. -/
theorem victims_exact (nowMs : Nat) (hours : Int) (org : Nat) (metas : List Meta)
    (hs : SaneRetention nowMs hours) (ht : WellTyped metas) (m : Meta) :
    m ∈ victims nowMs hours org metas ↔
      (m ∈ metas ∧ m.org = org ∧ (trueTimeMs m : Int) ≤ (nowMs : Int) - hours * 3600000) := by
  obtain ⟨h0, h1, h2, h3⟩ := hs
  have hh := horizon_eq nowMs hours h0 h1 h2 h3
  unfold victims expired
  simp only [List.mem_filter, Bool.and_eq_true, decide_eq_true_eq]
  constructor
  · rintro ⟨hm, ho, he⟩
    rw [timeMs_eq_trueTime m (ht m hm)] at he
    exact ⟨hm, ho, by omega⟩
  · rintro ⟨hm, ho, he⟩
    refine ⟨hm, ho, ?_⟩
    rw [timeMs_eq_trueTime m (ht m hm)]
    omega

/-- C14.1 (wrap branch) — a retention that reaches back before the epoch makes `uint64(UnixMilli())` wrap:
the pass then selects EVERY segment of its org, however new. -/
theorem victims_all_when_horizon_wraps (nowMs : Nat) (hours : Int) (org : Nat) (metas : List Meta)
    (h0 : 0 ≤ hours) (h1 : hours < 2562047) (h2 : (nowMs : Int) < hours * 3600000) (h3 : nowMs < 9000000000000)
    (ht : WellTyped metas) (hl : ∀ m ∈ metas, m.kind = .log → m.latest < two63) (m : Meta) :
    m ∈ victims nowMs hours org metas ↔ (m ∈ metas ∧ m.org = org) := by
  have hw := horizon_wrapped nowMs hours h0 h1 h2 h3
  unfold victims expired
  simp only [List.mem_filter, Bool.and_eq_true, decide_eq_true_eq]
  constructor
  · rintro ⟨hm, ho, _⟩; exact ⟨hm, ho⟩
  · rintro ⟨hm, ho⟩
    refine ⟨hm, ho, ?_⟩
    rw [timeMs_eq_trueTime m (ht m hm)]
    unfold trueTimeMs
    cases hk : m.kind with
    | log => have := hl m hm hk; simp only [] ; omega
    | metrics => have := ht m hm hk; simp only [two32, two63] at *; omega

/-- the wrap branch is reachable: 60 years of retention in 2026 -/
example : (1790000000000 : Int) < 525600 * 3600000 := by decide

/-! ### 2. survivors are not touched -/

/-- C14.2 — for every phase order, victim list and cut point, everything that belongs to a key outside the
victim list is exactly as before, in each of the five stores. -/
theorem survivors_intact (order : List Phase) (vs : List Meta) (s : Store) (cut : Nat) :
    SameOutside (vs.map (·.key)) s (deleteSegmentData order vs s cut) := by
  unfold deleteSegmentData
  split
  · exact SameOutside.refl _ s
  · exact sameOutside_foldl _ _ s
      (fun t ht => withSfmPqids_keys s vs ▸ targets_stepsFor order (withSfmPqids s vs) t (List.mem_of_mem_take ht))

/-- … in particular for the pass itself: a segment that is not selected keeps its blob objects, files,
in-memory entry, empty-PQ entries and segmeta.json line, wherever the pass is cut. -/
theorem survivors_intact_pass (nowMs : Nat) (hours : Int) (s : Store) (cut : Nat) :
    SameOutside ((victims nowMs hours 0 (readLocal s)).map (·.key)) s (passCut deleteOrder nowMs hours s cut) :=
  survivors_intact deleteOrder _ s cut

/-! ### 3. interrupted and repeated -/

/-- C14.3 — for EVERY store, clock, retention and EVERY cut point of the step list: the interrupted pass
followed by a full pass ends in the state of the uninterrupted pass in the blob store, the local files,
the in-memory metadata and segmeta.json (`withoutPq` = the store minus its empty-PQ meta files). -/
theorem interrupt_repeat_converges (nowMs : Nat) (hours : Int) (s : Store) (cut : Nat) :
    withoutPq (pass deleteOrder nowMs hours (passCut deleteOrder nowMs hours s cut))
      = withoutPq (pass deleteOrder nowMs hours s) :=
  interrupt_repeat nowMs hours s cut

/-- … and in ALL five stores when the cut lies inside the blob phase (no local file has been removed
yet, so the repeated pass reads the same pqids from the .sfm files). -/
theorem interrupt_repeat_converges_blob_phase (nowMs : Nat) (hours : Int) (s : Store) (cut : Nat)
    (hc : cut ≤ (victims nowMs hours 0 (readLocal s)).length) :
    pass deleteOrder nowMs hours (passCut deleteOrder nowMs hours s cut) = pass deleteOrder nowMs hours s := by
  generalize hvs : victims nowMs hours 0 (readLocal s) = vs at hc
  by_cases he : vs.isEmpty = true
  · unfold passCut deleteSegmentData; simp only [hvs, he, if_true]
  · -- the steps that ran are blob steps: files, .sfm contents and segmeta.json are as before
    have hL := stepsFor_deleteOrder (withSfmPqids s vs)
    have hblob : ∀ t ∈ (stepsFor deleteOrder (withSfmPqids s vs)).take cut, ∃ k, t = Step.blob k := by
      intro t ht
      rw [hL] at ht
      have hlen : cut ≤ ((withSfmPqids s vs).map (fun v => Step.blob v.key)).length := by
        rw [List.length_map, ← List.length_map (f := (·.key)), withSfmPqids_keys, List.length_map]; exact hc
      rw [List.append_assoc, List.append_assoc, List.append_assoc, List.take_append_of_le_length hlen] at ht
      obtain ⟨v, _, rfl⟩ := List.mem_map.mp (List.mem_of_mem_take ht)
      exact ⟨_, rfl⟩
    have hsame : ∀ (L : List Step) (s0 : Store), (∀ t ∈ L, ∃ k, t = Step.blob k) →
        (L.foldl applyStep s0).files = s0.files ∧ (L.foldl applyStep s0).sfmPq = s0.sfmPq ∧
        (L.foldl applyStep s0).segmetaJson = s0.segmetaJson := by
      intro L
      induction L with
      | nil => intro s0 _; exact ⟨rfl, rfl, rfl⟩
      | cons t L ih =>
        intro s0 h
        obtain ⟨k, rfl⟩ := h _ List.mem_cons_self
        have := ih (applyStep s0 (Step.blob k)) (fun x hx => h x (List.mem_cons_of_mem _ hx))
        simpa [applyStep] using this
    have hs1 : passCut deleteOrder nowMs hours s cut = runSteps s ((stepsFor deleteOrder (withSfmPqids s vs)).take cut) := by
      unfold passCut deleteSegmentData; simp only [hvs, he, if_false, Bool.false_eq_true]
    obtain ⟨hf, hq, hm⟩ := hsame _ s hblob
    have hrl : readLocal (passCut deleteOrder nowMs hours s cut) = readLocal s := by
      rw [hs1]; unfold readLocal runSteps; rw [hm]
    have hw : withSfmPqids (passCut deleteOrder nowMs hours s cut) vs = withSfmPqids s vs := by
      rw [hs1]; exact withSfmPqids_congr s _ hf hq vs
    unfold pass
    simp only [hrl, hvs]
    unfold deleteSegmentData
    simp only [he, if_false, Bool.false_eq_true, hw]
    rw [hs1]
    have hlen := stepsFor_withSfm_length deleteOrder s vs
    rw [← hlen, List.take_length]
    unfold runSteps
    exact absorb_before _ _ s (fun t ht => List.mem_of_mem_take ht)

/-- C14.3 (empty-PQ meta files) — the equality in all five stores does NOT hold for every cut: one
expired segment with an empty-PQ entry, crash after its blob objects and local files are gone (cut 2):
the repeated pass cannot read the .sfm file any more and leaves the entry, the uninterrupted pass
removes it.  (Harm: a stale line in a pqmeta file; the same state as after every pass before the
repair.) -/
theorem interrupt_repeat_pq_counterexample :
    ¬ ∀ nowMs hours s cut, pass deleteOrder nowMs hours (passCut deleteOrder nowMs hours s cut) = pass deleteOrder nowMs hours s := by
  intro h
  have := h 1790000000000 24
    { blob := [1], files := [1], memMeta := [1], segmetaJson := [{ key := 1, latest := 1000, kind := .log }],
      pqMeta := [(7, 1)], sfmPq := [(7, 1)] } 2
  revert this
  decide

/-- … and a completed pass is a fixed point: running it again changes nothing. -/
theorem pass_idempotent (nowMs : Nat) (hours : Int) (s : Store) :
    pass deleteOrder nowMs hours (pass deleteOrder nowMs hours s) = pass deleteOrder nowMs hours s := by
  have hnil := victims_after_pass nowMs hours s
  generalize pass deleteOrder nowMs hours s = s1 at hnil
  unfold pass deleteSegmentData
  simp only [hnil, List.isEmpty_nil, if_true]

/-- the store of the design counterexample: one expired segment, present everywhere -/
def orphanWitness : Store :=
  { blob := [1], files := [1], memMeta := [1], segmetaJson := [{ key := 1, latest := 1000, kind := .log }] }

/-- C14.3 (why the order matters) — with segmeta.json rewritten FIRST, a crash right after that step leaves
the segment's files behind, and the repeated pass — which finds its victims through segmeta.json — never
removes them.  With the order of the source the same crash point is harmless. -/
theorem segmeta_first_leaves_orphans :
    orphans orphanWitness = [] ∧
    orphans (pass segmetaFirstOrder 1790000000000 24 (passCut segmetaFirstOrder 1790000000000 24 orphanWitness 1)) = [1] ∧
    orphans (pass deleteOrder 1790000000000 24 (passCut deleteOrder 1790000000000 24 orphanWitness 1)) = [] := by
  decide

/-! ### 4. after the pass -/

/-- C14.4 — after an uninterrupted pass no victim is left in the blob store, on disk, in the in-memory
metadata or in segmeta.json (so segmeta.json lists exactly the survivors, by C14.2). -/
theorem pass_removes_victims (nowMs : Nat) (hours : Int) (s : Store) (v : Meta)
    (hv : v ∈ victims nowMs hours 0 (readLocal s)) :
    let s' := pass deleteOrder nowMs hours s
    v.key ∉ s'.blob ∧ v.key ∉ s'.files ∧ v.key ∉ s'.memMeta ∧ ∀ m ∈ s'.segmetaJson, m.key ≠ v.key := by
  intro s'
  have hne : (victims nowMs hours 0 (readLocal s)).isEmpty = false := by
    cases h : victims nowMs hours 0 (readLocal s) with
    | nil => rw [h] at hv; cases hv
    | cons _ _ => rfl
  have hs' : s' = (stepsFor deleteOrder (withSfmPqids s (victims nowMs hours 0 (readLocal s)))).foldl applyStep s :=
    pass_eq_foldl nowMs hours s hne
  have hkey : v.key ∈ (withSfmPqids s (victims nowMs hours 0 (readLocal s))).map (·.key) := by
    rw [withSfmPqids_keys]; exact List.mem_map.mpr ⟨v, hv, rfl⟩
  obtain ⟨w, hw, hwk⟩ := List.mem_map.mp hkey
  generalize withSfmPqids s (victims nowMs hours 0 (readLocal s)) = vs at hs' hw
  have hL := stepsFor_deleteOrder vs
  have mem_of : ∀ t, t ∈ stepsFor deleteOrder vs → applyStep s' t = s' := by
    intro t ht; rw [hs']; exact absorb_after _ s t ht
  refine ⟨?_, ?_, ?_, ?_⟩
  · intro hk
    have h := mem_of (Step.blob v.key) (by rw [hL]; simp only [List.mem_append, List.mem_map, List.mem_singleton]; exact Or.inl (Or.inl (Or.inl (Or.inl ⟨w, hw, by rw [hwk]⟩))))
    have : v.key ∈ (applyStep s' (Step.blob v.key)).blob := by rw [h]; exact hk
    simp [applyStep] at this
  · intro hk
    have h := mem_of (Step.files v.key) (by rw [hL]; simp only [List.mem_append, List.mem_map, List.mem_singleton]; exact Or.inl (Or.inl (Or.inl (Or.inr ⟨w, hw, by rw [hwk]⟩))))
    have : v.key ∈ (applyStep s' (Step.files v.key)).files := by rw [h]; exact hk
    simp [applyStep] at this
  · intro hk
    have h := mem_of (Step.mem v.key) (by rw [hL]; simp only [List.mem_append, List.mem_map, List.mem_singleton]; exact Or.inl (Or.inl (Or.inr ⟨w, hw, by rw [hwk]⟩)))
    have : v.key ∈ (applyStep s' (Step.mem v.key)).memMeta := by rw [h]; exact hk
    simp [applyStep] at this
  · intro m hm hk
    have h := mem_of (Step.segmeta (vs.map (·.key))) (by rw [hL]; simp)
    have : m ∈ (applyStep s' (Step.segmeta (vs.map (·.key)))).segmetaJson := by rw [h]; exact hm
    simp only [applyStep, List.mem_filter, decide_eq_true_eq] at this
    exact this.2 (List.mem_map.mpr ⟨w, hw, by rw [hwk, hk]⟩)

/-- the full statement for the empty-PQ meta files: after a pass they only mention listed segments -/
def PqMetaClean (nowMs : Nat) (hours : Int) (s : Store) : Prop :=
  ∀ e ∈ (pass deleteOrder nowMs hours s).pqMeta, e.2 ∈ (pass deleteOrder nowMs hours s).segmetaJson.map (·.key)

/-- what the writer maintains (rotation writes the segment's pqids into its .sfm file and the empty ones
into the pqmeta files; pkg/segment/writer/segstore.go): every empty-PQ entry is recorded in the .sfm
file of its segment, and that file exists -/
def PqEntriesInSfm (s : Store) : Prop := ∀ e ∈ s.pqMeta, e ∈ s.sfmPq ∧ e.2 ∈ s.files

example : PqEntriesInSfm { orphanWitness with pqMeta := [(7, 1)], sfmPq := [(7, 1), (8, 1)] } := by
  unfold PqEntriesInSfm; decide

/-- C14.4 (empty-PQ meta files, after the repair) — for EVERY store the writer can have produced (and
whose empty-PQ files mentioned only listed segments before), clock and retention: after the pass the
empty-PQ meta files mention only segments that are still listed in segmeta.json — the entries of every
victim are gone. -/
theorem pqmeta_clean (nowMs : Nat) (hours : Int) (s : Store)
    (hsfm : PqEntriesInSfm s)
    (hpre : ∀ e ∈ s.pqMeta, e.2 ∈ s.segmetaJson.map (·.key)) :
    PqMetaClean nowMs hours s := by
  intro e he
  have hso := survivors_intact deleteOrder (victims nowMs hours 0 (readLocal s)) s
    (stepsFor deleteOrder (victims nowMs hours 0 (readLocal s))).length
  have hpass : pass deleteOrder nowMs hours s = deleteSegmentData deleteOrder (victims nowMs hours 0 (readLocal s)) s
      (stepsFor deleteOrder (victims nowMs hours 0 (readLocal s))).length := rfl
  -- filters only remove
  have hsub : ∀ (L : List Step) (s0 : Store), e ∈ (L.foldl applyStep s0).pqMeta → e ∈ s0.pqMeta := by
    intro L
    induction L with
    | nil => intro s0 h; exact h
    | cons t L ih =>
      intro s0 h
      have := ih _ h
      cases t <;> first | exact this | exact (List.mem_filter.mp this).1
  have he0 : e ∈ s.pqMeta := by
    rw [hpass] at he
    unfold deleteSegmentData at he
    split at he
    · exact he
    · exact hsub _ s he
  by_cases hk : e.2 ∈ (victims nowMs hours 0 (readLocal s)).map (·.key)
  · -- a victim: its pq step carries the pqid (read from the .sfm file) and removed the entry
    exfalso
    obtain ⟨v, hv, hvk⟩ := List.mem_map.mp hk
    have hne : (victims nowMs hours 0 (readLocal s)).isEmpty = false := by
      cases h : victims nowMs hours 0 (readLocal s) with
      | nil => rw [h] at hv; cases hv
      | cons _ _ => rfl
    have hs' := pass_eq_foldl nowMs hours s hne
    have hvp : v.pqids = [] := by
      obtain ⟨m, _, rfl⟩ := List.mem_map.mp (List.mem_filter.mp hv).1
      rfl
    have hstep : Step.pq v.key (sfmPqids s v.key) ∈
        stepsFor deleteOrder (withSfmPqids s (victims nowMs hours 0 (readLocal s))) := by
      rw [stepsFor_deleteOrder]
      simp only [List.mem_append, List.mem_map, List.mem_singleton]
      refine Or.inl (Or.inr ⟨{ v with pqids := sfmPqids s v.key }, ?_, rfl⟩)
      unfold withSfmPqids
      exact List.mem_map.mpr ⟨v, hv, by simp [hvp]⟩
    have habs := absorb_after _ s _ hstep
    rw [← hs'] at habs
    have : e ∈ (applyStep (pass deleteOrder nowMs hours s) (Step.pq v.key (sfmPqids s v.key))).pqMeta := by
      rw [habs]; exact he
    simp only [applyStep, List.mem_filter, Bool.not_eq_true', Bool.and_eq_false_imp, decide_eq_true_eq,
      decide_eq_false_iff_not] at this
    apply this.2 hvk.symm
    obtain ⟨h1, h2⟩ := hsfm e he0
    unfold sfmPqids
    rw [hvk] at *
    simp only [h2, if_true, List.mem_map, List.mem_filter, decide_eq_true_eq]
    exact ⟨e, ⟨h1, rfl⟩, rfl⟩
  · -- a survivor: untouched, and still listed
    obtain ⟨m, hm, hmk⟩ := List.mem_map.mp (hpre e he0)
    have : m ∈ (deleteSegmentData deleteOrder (victims nowMs hours 0 (readLocal s)) s
        (stepsFor deleteOrder (victims nowMs hours 0 (readLocal s))).length).segmetaJson :=
      (hso.segmeta m (by rw [hmk]; exact hk)).mpr hm
    rw [hpass]
    exact List.mem_map.mpr ⟨m, this, hmk⟩

/-- the regression witness of the repaired defect: segment 1 expired, pqid 7 has an empty-results entry
for it; after the pass the entry is gone -/
example : (pass deleteOrder 1790000000000 24 { orphanWitness with pqMeta := [(7, 1)], sfmPq := [(7, 1)] }).pqMeta = [] := by
  decide

/-- the same statement for the pass BEFORE the repair … -/
def PqMetaCleanOld (nowMs : Nat) (hours : Int) (s : Store) : Prop :=
  ∀ e ∈ (passOld deleteOrder nowMs hours s).pqMeta, e.2 ∈ (passOld deleteOrder nowMs hours s).segmetaJson.map (·.key)

/-- … was false on stores the writer produces: `ReadLocalSegmeta(false)` yields metas without pqids, so
step 4 of the old `DeleteSegmentData` had nothing to iterate over and the entry of a deleted segment
stayed for ever. -/
theorem pqmeta_clean_old_counterexample :
    ¬ ∀ nowMs hours s, PqEntriesInSfm s → (∀ e ∈ s.pqMeta, e.2 ∈ s.segmetaJson.map (·.key)) → PqMetaCleanOld nowMs hours s := by
  intro h
  have := h 1790000000000 24 { orphanWitness with pqMeta := [(7, 1)], sfmPq := [(7, 1)] }
    (by unfold PqEntriesInSfm; decide) (by decide)
  revert this
  unfold PqMetaCleanOld
  decide

/-- the hypothesis `PqEntriesInSfm` cannot be dropped: an empty-PQ entry that the segment's .sfm file does
not record (or whose .sfm file is gone, as after a crash in the files phase: C14.3) is not found -/
theorem pqmeta_clean_needs_sfm : ¬ ∀ nowMs hours s, PqMetaClean nowMs hours s := by
  intro h
  have := h 1790000000000 24 { orphanWitness with pqMeta := [(7, 1)] }
  revert this
  unfold PqMetaClean
  decide

/-! ### 5. the volume pass -/

/-- oldest first: the marked segments come in non-decreasing age order, and nothing strictly older than a
marked segment is left (so marking stops at the first segment that is not marked) -/
def OldestFirst (all deleted : List Meta) : Prop :=
  deleted.Pairwise (fun a b => trueTimeMs a ≤ trueTimeMs b) ∧
  ∀ a ∈ deleted, ∀ b ∈ all, trueTimeMs b < trueTimeMs a → b ∈ deleted

/-- the sort key of the pass is the segment's true newest-event time (only hypothesis: the field width of
`LatestEpochSec`, a uint32) -/
theorem volKey_eq_trueTime (l : List Meta) (hw : WellTyped l) (m : Meta) (hm : m ∈ l) : volKey m = trueTimeMs m :=
  timeMs_eq_trueTime m (hw m hm)

/-- C14.5 — for EVERY limit, warning counter and set of segments (no guard beyond the uint32 width of
`LatestEpochSec`): the volume pass marks oldest-first and stops at the first segment it does not mark — no
segment is deleted while a strictly older one stays.  (False before the two fixes, see the `…_old_…`
theorems below.) -/
theorem vol_oldest_first (limitGB counter : Nat) (metrics logs : List Meta) (hw : WellTyped (metrics ++ logs)) :
    OldestFirst (metrics ++ logs) (volPass limitGB counter metrics logs) := by
  unfold volPass
  simp only []
  split
  · exact ⟨List.Pairwise.nil, fun a ha => (by cases ha)⟩
  · have hsorted : (volSort (metrics ++ logs)).Pairwise (fun a b => trueTimeMs a ≤ trueTimeMs b) := by
      refine (pairwise_volSort (metrics ++ logs)).imp_of_mem ?_
      intro a b ha hb hab
      rw [← volKey_eq_trueTime _ hw a ((mem_volSort a _).mp ha), ← volKey_eq_trueTime _ hw b ((mem_volSort b _).mp hb)]
      exact hab
    refine ⟨hsorted.sublist (volLoop_sublist _ _), ?_⟩
    intro a ha b hb hlt
    exact volLoop_closed trueTimeMs _ _ hsorted a ha b ((mem_volSort b _).mpr hb) hlt

/-- C14.5 — the marked segments are exactly the first n of the age-sorted candidate list, for some n. -/
theorem vol_deletes_prefix (limitGB counter : Nat) (metrics logs : List Meta) :
    ∃ n, volPass limitGB counter metrics logs = (volSort (metrics ++ logs)).take n := by
  unfold volPass
  simp only []
  split
  · exact ⟨0, rfl⟩
  · exact volLoop_prefix _ _

/-- C14.5 — the pass only marks existing segments and never marks as much as the excess: it cannot delete
more than asked for (and, the comparison being strict, never quite reaches the limit). -/
theorem vol_never_overdeletes (limitGB counter : Nat) (metrics logs : List Meta) :
    (∀ a ∈ volPass limitGB counter metrics logs, a ∈ metrics ++ logs) ∧
    (volPass limitGB counter metrics logs = [] ∨
      totalSize (volPass limitGB counter metrics logs) < volExcess limitGB counter (volSystem metrics logs)) := by
  unfold volPass
  simp only []
  split
  · exact ⟨fun a ha => (by cases ha), Or.inl rfl⟩
  · rename_i hex
    refine ⟨fun a ha => (mem_volSort a _).mp ((volLoop_sublist _ _).subset ha), Or.inr ?_⟩
    exact volLoop_total_lt _ _ (Nat.pos_of_ne_zero hex)

/-- (record of repaired defect 1) the pass as it was — `break` leaving only the `switch` — was not
oldest-first even for log segments alone: a 2 GB segment from 2023 does not fit into the 1 GB + 1 excess and
the 1-byte segment from 2026 was deleted instead.  The repaired pass deletes nothing on that input. -/
theorem vol_oldest_first_old_counterexample :
    (¬ ∀ limitGB counter metrics logs, OldestFirst (metrics ++ logs) (volPassOld limitGB counter metrics logs)) ∧
    volPass 1 5 [] [{ key := 1, latest := 1700000000000, kind := .log, size := 2000000000 },
                    { key := 2, latest := 1790000000000, kind := .log, size := 1 }] = [] := by
  refine ⟨?_, by decide⟩
  intro h
  have := (h 1 5 [] [{ key := 1, latest := 1700000000000, kind := .log, size := 2000000000 },
                     { key := 2, latest := 1790000000000, kind := .log, size := 1 }]).2
  revert this
  decide

/-- (record of repaired defect 2) the old sort key `uint64(LatestEpochSec * 1000)` was a wrapped uint32
product: today's metrics segment sorted before a log segment from 2023 and was deleted while the old log
segment stayed.  The repaired pass deletes the 2023 log segment on that input. -/
theorem vol_oldest_first_old_counterexample_overflow :
    (¬ ∀ limitGB counter metrics logs, OldestFirst (metrics ++ logs) (volPassOld limitGB counter metrics logs)) ∧
    (volPass 0 5 [{ key := 2, latest := 1789990000, kind := .metrics, size := 5 }]
                 [{ key := 1, latest := 1700000000000, kind := .log, size := 5 }]).map (·.key) = [1] := by
  refine ⟨?_, by decide⟩
  intro h
  have := (h 0 5 [{ key := 2, latest := 1789990000, kind := .metrics, size := 5 }]
                 [{ key := 1, latest := 1700000000000, kind := .log, size := 5 }]).2
  revert this
  decide

end SigModel.Props.C14
