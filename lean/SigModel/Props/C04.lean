/-
C04 — Aggregations equal the mathematical aggregate of the matching events.  Property theorems only.

Decided by proof here (kernel REGENERATED from /repo on every run, SigModel/Gen/TimeBucket.lean):
time buckets partition the range — every timestamp inside [start, end) lands in exactly the bucket
whose span contains it, buckets lie on the grid start + k·step.  The clamped branches (timestamp
before start / at or after end) are characterised exactly.
The aggregates themselves (count/sum/min/max/avg by group) are decided by the end-to-end differential
against the specification (SigModel/Spec/Logs.lean); spec-level algebra is proved below.

Kernel slice "running statistics and their merge" (model SigModel/Model/Stats.lean, tied to the Go code by the
correspondence suite `stats`): second half of this file.  The model mirrors the code with the repairs c04-1..4
(build/patches, commits pending); the behaviour as found is kept under `…Old` definitions.  Decided by proof there,
for ALL value lists, under exact arithmetic (`rnd = exact`: the rounding latitude the statement grants to floating
sums): the folded per-column statistics equal the mathematical count / sum / min / max of the numeric values unless
the int64 sum can wrap (guard explicit, wrap branch characterised, still a known finding); merging the statistics
of any split, in any association and order, gives the statistics of the whole list (as found: false when a merged
part was text-only, `merge_hom_old_counterexample`); avg of the no-group path divides by the number of NUMERIC
values, avg of the group-by bucket by the number of RECORDS (counterexample theorem, exact characterisation,
partial theorem for dense fields: still a known finding); ingest-time and query-time statistics coincide on every
list (as found: not on digit-less strings such as "-", `ingest_stats_old_counterexample`); the group-by min/max
`Reduce` agrees with `ReduceMinMax` (as found: order dependent, `rb_minmax_order_old_counterexample`).
-/
import SigModel.Gen.TimeBucket
import SigModel.Gen.BinAlign
import SigModel.Model.BinAlign
import SigModel.Lemmas.C04B
import SigModel.Spec.Logs
import SigModel.Lemmas.C04Se
import SigModel.Lemmas.C04Tc
import SigModel.Model.HllKey

namespace SigModel.Props.C04
open SigModel.Gen SigModel.MachInt

/-- C04.5 inside the range the bucket contains the timestamp, lies on the grid, and is unique.
`start, end, step, ts` are uint64 values (no wrap occurs: stated as the explicit guard). -/
theorem bucket_partition (start end_ step ts : Int)
    (h0 : 0 ≤ start) (hs : 0 < step) (h1 : start ≤ ts) (h2 : ts < end_) (hmax : end_ < 18446744073709551616) :
    let b := FindTimeRangeBucket end_ start step ts
    b ≤ ts ∧ ts < b + step ∧ (b - start) % step = 0 := by
  have hd : 0 ≤ ts - start := by omega
  have hq0 : 0 ≤ (ts - start) / step := Int.ediv_nonneg hd (by omega)
  have hmul : (ts - start) / step * step ≤ ts - start := Int.ediv_mul_le _ (by omega)
  have hlt : ts - start < ((ts - start) / step + 1) * step := by
    have := Int.lt_ediv_add_one_mul_self (ts - start) hs
    simpa using this
  have htd : Int.tdiv (ts - start) step = (ts - start) / step := Int.tdiv_eq_ediv_of_nonneg hd
  have hqle : (ts - start) / step ≤ ts - start := by
    have : (ts - start) / step * 1 ≤ (ts - start) / step * step := Int.mul_le_mul_of_nonneg_left (by omega) hq0
    omega
  simp only [FindTimeRangeBucket, wrapU64]
  have e1 : (ts - start) % 18446744073709551616 = ts - start := Int.emod_eq_of_lt hd (by omega)
  have hnl : ¬ ts < start := by omega
  have hng : ¬ ts ≥ end_ := by omega
  simp only [hnl, hng, decide_false, Bool.false_eq_true, ↓reduceIte, e1, htd]
  have e2 : ((ts - start) / step) % 18446744073709551616 = (ts - start) / step := Int.emod_eq_of_lt hq0 (by omega)
  have e3 : ((ts - start) / step * step) % 18446744073709551616 = (ts - start) / step * step :=
    Int.emod_eq_of_lt (Int.mul_nonneg hq0 (by omega)) (by omega)
  have e4 : (start + (ts - start) / step * step) % 18446744073709551616 = start + (ts - start) / step * step :=
    Int.emod_eq_of_lt (by have := Int.mul_nonneg hq0 (show (0:Int) ≤ step by omega); omega) (by omega)
  rw [e2, e3, e4]
  refine ⟨by omega, ?_, ?_⟩
  · have : ((ts - start) / step + 1) * step = (ts - start) / step * step + step := by
      rw [Int.add_mul]; simp
    omega
  · have : start + (ts - start) / step * step - start = (ts - start) / step * step := by omega
    rw [this]; exact Int.mul_emod_left _ _

/-- the clamped branches, exactly as coded -/
theorem bucket_before_start (start end_ step ts : Int) (h : ts < start) :
    FindTimeRangeBucket end_ start step ts = start := by
  simp [FindTimeRangeBucket, h]

theorem bucket_at_or_after_end (start end_ step ts : Int) (h1 : start ≤ ts) (h : end_ ≤ ts) :
    FindTimeRangeBucket end_ start step ts =
      if end_ ≤ start then start
      else wrapU64 (start + wrapU64 (wrapU64 (Int.tdiv (wrapU64 (wrapU64 (end_ - 1) - start)) step) * step)) := by
  have : ¬ ts < start := by omega
  simp [FindTimeRangeBucket, this, h]

example : FindTimeRangeBucket 100 10 20 55 = 50 := by decide

/-! the cells of the SPECIFICATION's timechart (Spec/Logs.lean `bucketOf`, `tcBucket`) and their tie to the kernel -/
section SpecCells
open SigModel.Spec

/-- C04.5 (specification side) the cell `bucketOf` of the layout-free specification (Spec/Logs.lean, what the end-to-end
differential compares timecharts with) contains the timestamp and lies on the grid `start + k·span` -/
theorem spec_bucket_partition (start span ts : Nat) (hs : 0 < span) (h1 : start ≤ ts) :
    bucketOf start span ts ≤ ts ∧ ts < bucketOf start span ts + span ∧ (bucketOf start span ts - start) % span = 0 := by
  unfold bucketOf
  have a := Nat.div_mul_le_self (ts - start) span
  have b := Nat.lt_div_mul_add (a := ts - start) hs
  refine ⟨by omega, by omega, ?_⟩
  rw [Nat.add_sub_cancel_left]; exact Nat.mul_mod_left _ _

/-- … and it is the ONLY cell of the grid that contains the timestamp: every event is counted in exactly one cell -/
theorem spec_bucket_unique (start span ts k : Nat) (h1 : start + k * span ≤ ts) (h2 : ts < start + k * span + span) :
    start + k * span = bucketOf start span ts := by
  unfold bucketOf
  have : (ts - start) / span = k := by
    apply Nat.div_eq_of_lt_le
    · omega
    · rw [Nat.add_mul]; omega
  rw [this]

/-- tie, inside the range: the regenerated kernel FindTimeRangeBucket computes exactly the specification's grid cell -/
theorem kernel_bucket_eq_spec_inside (start end_ step ts : Nat) (_hs : 0 < step) (h1 : start ≤ ts) (h2 : ts < end_)
    (hmax : end_ < 18446744073709551616) :
    FindTimeRangeBucket end_ start step ts = ((bucketOf start step ts : Nat) : Int) := by
  have hq : (ts - start) / step * step ≤ ts - start := Nat.div_mul_le_self _ _
  have hdl : (ts - start) / step ≤ ts - start := Nat.div_le_self _ _
  simp only [FindTimeRangeBucket, wrapU64, bucketOf]
  have hnl : ¬ ((ts : Int) < start) := by omega
  have hng : ¬ ((ts : Int) ≥ end_) := by omega
  simp only [hnl, hng, decide_false, Bool.false_eq_true, ↓reduceIte]
  have c1 : ((ts : Int) - start) = ((ts - start : Nat) : Int) := by omega
  rw [c1]
  have e1 : ((ts - start : Nat) : Int) % 18446744073709551616 = ((ts - start : Nat) : Int) := Int.emod_eq_of_lt (by omega) (by omega)
  rw [e1]
  have htd : Int.tdiv ((ts - start : Nat) : Int) (step : Int) = (((ts - start) / step : Nat) : Int) := by
    rw [Int.tdiv_eq_ediv_of_nonneg (by omega)]; exact (Int.natCast_ediv _ _).symm
  rw [htd]
  clear htd
  generalize (ts - start) / step = q at *
  have e2 : ((q : Nat) : Int) % 18446744073709551616 = ((q : Nat) : Int) := Int.emod_eq_of_lt (by omega) (by omega)
  rw [e2]
  have c2 : ((q : Nat) : Int) * (step : Int) = ((q * step : Nat) : Int) := by simp
  rw [c2]
  have e3 : ((q * step : Nat) : Int) % 18446744073709551616 = ((q * step : Nat) : Int) := Int.emod_eq_of_lt (by omega) (by omega)
  rw [e3]
  have c3 : (start : Int) + ((q * step : Nat) : Int) = ((start + q * step : Nat) : Int) := by simp
  rw [c3]
  exact Int.emod_eq_of_lt (by omega) (by omega)

/-- a timestamp exactly ON the end bound (the search stage matches `ts ≤ end`) is answered like `end − 1`: it lands in the
last cell of the grid (repair c04-8) -/
theorem kernel_end_eq_last (start end_ step : Nat) (h1 : start < end_) (hmax : end_ < 18446744073709551616) :
    FindTimeRangeBucket end_ start step end_ = FindTimeRangeBucket end_ start step ((end_ - 1 : Nat) : Int) := by
  have c : ((end_ - 1 : Nat) : Int) = (end_ : Int) - 1 := by omega
  have w : ((end_ : Int) - 1) % 18446744073709551616 = (end_ : Int) - 1 := Int.emod_eq_of_lt (by omega) (by omega)
  have a1 : ¬ ((end_ : Int) < start) := by omega
  have a3 : ¬ ((end_ : Int) ≤ start) := by omega
  have b1 : ¬ ((end_ : Int) - 1 < start) := by omega
  have b2 : ¬ ((end_ : Int) - 1 ≥ end_) := by omega
  rw [c]
  simp only [FindTimeRangeBucket, wrapU64, a1, a3, b1, b2, ge_iff_le, Int.le_refl, decide_true, decide_false,
    Bool.false_eq_true, ↓reduceIte, w]

/-- C04.5 tie on the CLOSED range (full statement, holds since the repair c04-8): for every timestamp the search stage can
hand over, `start ≤ ts ≤ end`, the regenerated kernel computes exactly the specification's cell `tcBucket` — the grid cell
of `ts`, and for `ts = end` the last cell of the grid -/
theorem kernel_bucket_eq_spec (start end_ step ts : Nat) (hs : 0 < step) (h1 : start ≤ ts) (h2 : ts ≤ end_)
    (hmax : end_ < 18446744073709551616) :
    FindTimeRangeBucket end_ start step ts = ((tcBucket start end_ step ts : Nat) : Int) := by
  by_cases hlt : ts < end_
  · have hne : (ts == end_) = false := by simp; omega
    simp only [tcBucket, hne, Bool.false_and, Bool.false_eq_true, ↓reduceIte]
    exact kernel_bucket_eq_spec_inside start end_ step ts hs h1 hlt hmax
  · have he : ts = end_ := by omega
    subst he
    by_cases hse : start < ts
    · simp only [tcBucket, beq_self_eq_true, hse, decide_true, Bool.and_self, ↓reduceIte]
      rw [kernel_end_eq_last start ts step hse hmax]
      exact kernel_bucket_eq_spec_inside start ts step (ts - 1) hs (by omega) (by omega) hmax
    · have hst : start = ts := by omega
      subst hst
      have hnl : ¬ ((start : Int) < start) := by omega
      simp [tcBucket, bucketOf, FindTimeRangeBucket]

/-- every matched event is therefore counted by the kernel in a cell of the grid that contains it or, for the end bound,
in the last cell of the grid: the kernel's answer is on the grid for the whole closed range -/
theorem kernel_bucket_on_grid (start end_ step ts : Nat) (hs : 0 < step) (h1 : start ≤ ts) (h2 : ts ≤ end_)
    (hmax : end_ < 18446744073709551616) :
    ∃ k : Nat, FindTimeRangeBucket end_ start step ts = ((start + k * step : Nat) : Int) := by
  rw [kernel_bucket_eq_spec start end_ step ts hs h1 h2 hmax]
  unfold tcBucket bucketOf
  split
  · exact ⟨_, rfl⟩
  · exact ⟨_, rfl⟩

/-- an end bound ON the grid: the last cell is `[end − step, end]` (the end point does not open a cell of its own) -/
theorem kernel_end_on_grid (start end_ step : Nat) (hs : 0 < step) (h1 : start < end_) (hg : (end_ - start) % step = 0)
    (hmax : end_ < 18446744073709551616) :
    FindTimeRangeBucket end_ start step end_ = ((end_ - step : Nat) : Int) := by
  rw [kernel_bucket_eq_spec start end_ step end_ hs (by omega) (by omega) hmax]
  have hle : step ≤ end_ - start := Nat.le_of_dvd (by omega) (Nat.dvd_of_mod_eq_zero hg)
  obtain ⟨k, hk⟩ := Nat.dvd_of_mod_eq_zero hg
  have hk1 : 1 ≤ k := by
    rcases k with _ | k
    · simp at hk; omega
    · omega
  simp only [tcBucket, beq_self_eq_true, h1, decide_true, Bool.and_self, ↓reduceIte, bucketOf]
  have e : end_ - 1 - start = step * (k - 1) + (step - 1) := by
    have : step * k = step * (k - 1) + step := by
      have : k = (k - 1) + 1 := by omega
      conv => lhs; rw [this, Nat.mul_add, Nat.mul_one]
    omega
  have d : (end_ - 1 - start) / step = k - 1 := by
    rw [e, Nat.mul_add_div hs]
    have : (step - 1) / step = 0 := Nat.div_eq_of_lt (by omega)
    omega
  rw [d]
  have : (k - 1) * step = step * k - step := by
    rw [Nat.mul_comm, Nat.mul_sub, Nat.mul_one]
  congr 1
  omega

/-- AS FOUND (before the repair c04-8) the clamped branch answered `end − step` whatever the grid: when the end bound does
not lie on the grid that is no cell of the grid, and its span `[end − step, end)` does not contain the timestamp: witness
range [1, 11], step 3 → 8 (cells 1, 4, 7, 10).  Was replayed end to end as e2e/timechart/event-at-end-bound-off-grid. -/
theorem kernel_end_off_grid_old_counterexample :
    ¬ (∀ start end_ step : Nat, 0 < step → start < end_ → end_ < 18446744073709551616 →
        (FindTimeRangeBucketOld end_ start step end_ - start) % step = 0 ∧
        FindTimeRangeBucketOld end_ start step end_ ≤ end_ ∧ (end_ : Int) < FindTimeRangeBucketOld end_ start step end_ + step) := by
  intro h
  have := (h 1 11 3 (by decide) (by decide) (by decide)).1
  revert this
  decide

/-- the same witness on the repaired kernel -/
example : FindTimeRangeBucket 11 1 3 11 = 10 ∧ FindTimeRangeBucket 10 1 3 10 = 7 ∧ FindTimeRangeBucket 5 5 3 5 = 5 := by decide

example : tcBucket 1 10 3 10 = 7 ∧ bucketOf 1 3 10 = 10 ∧ tcBucket 1 11 3 11 = 10 ∧ tcBucket 5 5 3 5 = 5 := by decide

end SpecCells

/-! spec-level algebra: count and sum are additive over any split of the matched events
(so segmentation / parallel chains cannot change them in the specification) -/
open SigModel.Spec in
theorem spec_count_additive (xs ys : List Event) :
    evalAgg (xs ++ ys) .count = .num ((xs.length + ys.length : Nat)) := by
  simp [evalAgg]

/-! ## bin span=<n><unit> aligntime=T on the timestamp field (new pipeline)

Kernel REGENERATED on every run from pkg/segment/query/processor/bincommand.go `getTimeBucketWithAlign`
(SigModel/Gen/BinAlign.lean; float64 steps read as exact rationals, time.Time as nanoseconds — SigModel/Model/TimePrims.lean);
specification SigModel/Model/BinAlign.lean (`bucket`: floor semantics on the grid T + k·span); the real function and
performBinWithSpanTime are compared with it by suite `binalign` (timestamps below / at / above the align time). -/
section BinAlign
open SigModel.BinAlign SigModel.TimePrims SigModel.Lemmas.C04B

theorem bin_align_kernel_eq_model (ts T n m : Int)
    (hn : 0 < n) (hm : 0 < m) (hspan : n * m * 1000000 < 9223372036854775808)
    (hT0 : 0 ≤ T) (hT : T < 4611686018427387904) (hts0 : -4611686018427387904 < ts) (hts : ts < 4611686018427387904) :
    getTimeBucketWithAlign (timeOfUnixMilli ts) (m * 1000000) ((n : Int) : Rat) false T = bucket (n * m) T ts := by
  have hnm : 0 < n * m := Int.mul_pos hn hm
  have hn1 : n ≤ n * m := by
    have := Int.mul_le_mul_of_nonneg_left (show 1 ≤ m by omega) (show 0 ≤ n by omega); omega
  have e0 : wrapS64 n = n := wrapS64_id n (by omega) (by omega)
  have e1 : n * (m * 1000000) = n * m * 1000000 := by rw [Int.mul_assoc]
  have e2 : wrapS64 (n * m * 1000000) = n * m * 1000000 := wrapS64_id _ (by omega) (by omega)
  have e3 : Int.tdiv (n * m * 1000000) 1000000 = n * m := by
    rw [Int.tdiv_eq_ediv_of_nonneg (by omega)]; omega
  have e4 : wrapS64 (n * m) = n * m := wrapS64_id _ (by omega) (by omega)
  have hmul : (ts - T) / (n * m) * (n * m) ≤ ts - T := Int.ediv_mul_le _ (by omega)
  have hlt : ts - T < ((ts - T) / (n * m) + 1) * (n * m) := Int.lt_ediv_add_one_mul_self _ hnm
  have hlt' : ts - T < (ts - T) / (n * m) * (n * m) + n * m := by
    rw [Int.add_mul, Int.one_mul] at hlt; exact hlt
  have eq : ((T : Int) : Rat) + (((Rat.floor ((((ts : Int) : Rat) - ((T : Int) : Rat)) / (((n * m : Int)) : Rat)) : Int) : Rat) * ((n * m : Int) : Rat))
      = ((T + (ts - T) / (n * m) * (n * m) : Int) : Rat) := by
    rw [← Rat.intCast_sub, ratFloor_div _ _ hnm, ← Rat.intCast_mul, ← Rat.intCast_add]
  unfold getTimeBucketWithAlign
  simp only [Bool.false_eq_true, if_false, ratTrunc_intCast, timeUnixMilli_ofMilli, e0, e1, e2, e3, e4, eq]
  have e5 : wrapS64 (T + (ts - T) / (n * m) * (n * m)) = T + (ts - T) / (n * m) * (n * m) := wrapS64_id _ (by omega) (by omega)
  rw [e5]
  unfold bucket gridPoint
  by_cases h : T + (ts - T) / (n * m) * (n * m) < 0 <;> simp [h]

/-- the model bucket: containment, grid alignment (unless clamped to 0), and uniqueness of the cell -/
theorem bin_align_model_partition (span T ts : Int) (hs : 0 < span) (hts : 0 ≤ ts) :
    let b := bucket span T ts
    b ≤ ts ∧ ts < b + span ∧ ((b - T) % span = 0 ∨ (b = 0 ∧ gridPoint span T ts < 0)) ∧
    (∀ g : Int, (g - T) % span = 0 → g ≤ ts → ts < g + span → b = if g < 0 then 0 else g) := by
  have hmul : (ts - T) / span * span ≤ ts - T := Int.ediv_mul_le _ (by omega)
  have hlt : ts - T < ((ts - T) / span + 1) * span := Int.lt_ediv_add_one_mul_self _ hs
  rw [Int.add_mul, Int.one_mul] at hlt
  have hg : (gridPoint span T ts - T) % span = 0 := by
    unfold gridPoint
    have : T + (ts - T) / span * span - T = (ts - T) / span * span := by omega
    rw [this]; exact Int.mul_emod_left _ _
  have huniq : ∀ g : Int, (g - T) % span = 0 → g ≤ ts → ts < g + span → g = gridPoint span T ts := by
    intro g h1 h2 h3
    unfold gridPoint
    have hk : (g - T) / span * span = g - T := Int.ediv_mul_cancel (Int.dvd_of_emod_eq_zero h1)
    have hq : (ts - T) / span = (g - T) / span := by
      rcases Int.lt_trichotomy ((ts - T) / span) ((g - T) / span) with h | h | h
      · have := Int.mul_le_mul_of_nonneg_right (show (ts - T) / span + 1 ≤ (g - T) / span by omega) (show 0 ≤ span by omega)
        rw [Int.add_mul, Int.one_mul] at this; omega
      · exact h
      · have := Int.mul_le_mul_of_nonneg_right (show (g - T) / span + 1 ≤ (ts - T) / span by omega) (show 0 ≤ span by omega)
        rw [Int.add_mul, Int.one_mul] at this; omega
    rw [hq, hk]; omega
  have hle : gridPoint span T ts ≤ ts := by unfold gridPoint; omega
  have hub : ts < gridPoint span T ts + span := by unfold gridPoint; omega
  intro b
  show bucket span T ts ≤ ts ∧ ts < bucket span T ts + span ∧ ((bucket span T ts - T) % span = 0 ∨ (bucket span T ts = 0 ∧ gridPoint span T ts < 0)) ∧
    (∀ g : Int, (g - T) % span = 0 → g ≤ ts → ts < g + span → bucket span T ts = if g < 0 then 0 else g)
  unfold bucket
  by_cases hneg : gridPoint span T ts < 0
  · simp only [hneg, if_true]
    refine ⟨hts, by omega, Or.inr (by simp), ?_⟩
    intro g h1 h2 h3
    rw [huniq g h1 h2 h3]; simp [hneg]
  · simp only [hneg, if_false]
    refine ⟨hle, hub, Or.inl hg, ?_⟩
    intro g h1 h2 h3
    rw [huniq g h1 h2 h3]; simp [hneg]

/-- C04 (bin with align time; kernel REGENERATED from bincommand.go getTimeBucketWithAlign on every run): for a span of n units
of m milliseconds (time scales ms … h of performBinWithSpanTime: durationScale = m·10⁶ ns), every align time T and every
timestamp ts — BEFORE, AT or AFTER the align time — the bucket b the code computes satisfies b ≤ ts < b + span, lies on the grid
T + k·span (k any integer: floor semantics below T; the one cell whose left edge would be negative is reported as 0), and is the
only such cell: the buckets partition the time line, each event is counted in the bucket whose span contains its timestamp.
Guards: magnitudes below 2^62 (so that the int64 casts do not wrap; float64 steps are read exactly, see trusted base). -/
theorem bin_align_partition (ts T n m : Int)
    (hn : 0 < n) (hm : 0 < m) (hspan : n * m * 1000000 < 9223372036854775808)
    (hT0 : 0 ≤ T) (hT : T < 4611686018427387904) (hts0 : 0 ≤ ts) (hts : ts < 4611686018427387904) :
    let span := n * m
    let b := getTimeBucketWithAlign (timeOfUnixMilli ts) (m * 1000000) ((n : Int) : Rat) false T
    b ≤ ts ∧ ts < b + span ∧ ((b - T) % span = 0 ∨ (b = 0 ∧ gridPoint span T ts < 0)) ∧
    (∀ g : Int, (g - T) % span = 0 → g ≤ ts → ts < g + span → b = if g < 0 then 0 else g) := by
  intro span b
  have hb : b = bucket span T ts := bin_align_kernel_eq_model ts T n m hn hm hspan hT0 hT (by omega) hts
  rw [hb]
  exact bin_align_model_partition span T ts (Int.mul_pos hn hm) hts0

/-- two timestamps get the same bucket iff they lie in the same grid cell (same floor quotient) — or both in the clamped cell -/
theorem bin_align_same_bucket_close (span T t1 t2 : Int) (hs : 0 < span) (h1 : 0 ≤ t1) (h2 : 0 ≤ t2)
    (he : bucket span T t1 = bucket span T t2) : t1 - t2 < span ∧ t2 - t1 < span := by
  have a := bin_align_model_partition span T t1 hs h1
  have b := bin_align_model_partition span T t2 hs h2
  simp only at a b
  omega

/-- the integer-division variant (Go's `/` on int64 rounds toward zero) does NOT satisfy the partition: a timestamp before
the align time is put into the NEXT cell, whose span does not contain it -/
theorem bin_align_trunc_counterexample :
    ¬ (∀ span T ts : Int, 0 < span → 0 ≤ ts → bucketTrunc span T ts ≤ ts) := by
  intro h
  have := h 10 100 95 (by decide) (by decide)
  revert this; decide

/-- the guards of bin_align_partition are satisfiable with a timestamp before the align time, and the kernel floors there -/
example : getTimeBucketWithAlign (timeOfUnixMilli 1720311600000) (3600000 * 1000000) ((1 : Int) : Rat) false 1720312800000 = 1720309200000 := by
  rw [bin_align_kernel_eq_model _ _ 1 3600000 (by decide) (by decide) (by decide) (by decide) (by decide) (by decide) (by decide)]
  decide

/-- without an align time the regenerated kernel (time.Truncate: multiples of the span counted from Go's zero time) equals the
model `bucketNoAlign`, and the bucket contains the timestamp: b ≤ ts < b + span -/
theorem bin_noalign_kernel_eq_model (ts T n m : Int)
    (hn : 0 < n) (hm : 0 < m) (hspan : n * m * 1000000 < 9223372036854775808)
    (hts0 : 0 ≤ ts) (hts : ts < 4611686018427387904) :
    let b := getTimeBucketWithAlign (timeOfUnixMilli ts) (m * 1000000) ((n : Int) : Rat) true T
    b = bucketNoAlign (n * m) ts ∧ b ≤ ts ∧ ts < b + n * m := by
  have hnm : 0 < n * m := Int.mul_pos hn hm
  have hn1 : n ≤ n * m := by
    have := Int.mul_le_mul_of_nonneg_left (show 1 ≤ m by omega) (show 0 ≤ n by omega); omega
  have e0 : wrapS64 n = n := wrapS64_id n (by omega) (by omega)
  have e1 : n * (m * 1000000) = n * m * 1000000 := by rw [Int.mul_assoc]
  have e2 : wrapS64 (n * m * 1000000) = n * m * 1000000 := wrapS64_id _ (by omega) (by omega)
  have hr0 : 0 ≤ (ts + zeroOffsetMs) % (n * m) := Int.emod_nonneg _ (by omega)
  have hr1 : (ts + zeroOffsetMs) % (n * m) < n * m := Int.emod_lt_of_pos _ hnm
  have hz : zeroOffsetNs = zeroOffsetMs * 1000000 := by decide
  have et : timeTruncate (timeOfUnixMilli ts) (n * m * 1000000) = (ts - (ts + zeroOffsetMs) % (n * m)) * 1000000 := by
    unfold timeTruncate timeOfUnixMilli
    have hd : ¬ (n * m * 1000000 ≤ 0) := by omega
    rw [if_neg hd, hz, ← Int.add_mul, Int.mul_comm (ts + zeroOffsetMs) 1000000, Int.mul_comm (n * m) 1000000,
      Int.mul_emod_mul_of_pos _ _ (by decide : (0:Int) < 1000000), Int.sub_mul]
    omega
  have hzv : zeroOffsetMs = 62135596800000 := rfl
  intro b
  have hb : b = bucketNoAlign (n * m) ts := by
    show getTimeBucketWithAlign (timeOfUnixMilli ts) (m * 1000000) ((n : Int) : Rat) true T = _
    unfold getTimeBucketWithAlign
    simp only [if_true, ratTrunc_intCast, e0, e1, e2, et]
    have : timeUnixMilli ((ts - (ts + zeroOffsetMs) % (n * m)) * 1000000) = ts - (ts + zeroOffsetMs) % (n * m) := by
      unfold timeUnixMilli; omega
    rw [this, wrapS64_id _ (by omega) (by omega)]
    rfl
  refine ⟨hb, ?_, ?_⟩ <;> rw [hb] <;> unfold bucketNoAlign <;> omega

end BinAlign

end SigModel.Props.C04

/-! ## Kernel slice: running statistics of a measure field and their merge

Model: SigModel/Model/Stats.lean (query-time adders `foldQ`, ingest-time adders `foldI`, `mergeO` = MergeSegStats on one
column, `derive` = the answers GetSegCount/Sum/Avg/Min/Max give, group-by bucket `foldRB` / `resultRB`).  All theorems
are for `rnd = exact` (exact float arithmetic) and for EVERY list of values: absent fields, ints, floats, strings.
Vocabulary (SigModel/Lemmas/C04Se.lean): `numbers vs` = the numeric values as exact rationals (numeric strings included),
`total` = their mathematical sum, `present vs` = number of events having the field,
`NoInt64Overflow vs` = Σ|int values| < 2^63, `IsMinOf c xs` = cell `c` holds the least element of `xs` (no number when
`xs = []`). -/
namespace SigModel.Props.C04
open SigModel.Stats SigModel.MachInt

/-- C04.1 `stats_fold_eq_spec`: for every list of values the folded statistics hold exactly the mathematical
aggregates of the numeric values — count of events having the field, number of numeric values, their sum, least and
greatest.  No guard: since patch c04-15 an integer sum that leaves int64 is continued as a float64 (for the code as found
the statement needed `NoInt64Overflow`, see `stats_fold_int_sum_wraps_old` / `stats_fold_eq_spec_counterexample_old`). -/
theorem stats_fold_eq_spec (vs : List Val) :
    match foldQ exact vs with
    | none => present vs = 0
    | some st =>
      st.count = present vs ∧
      st.isNumeric = !(numbers vs).isEmpty ∧
      (match st.num with
        | none => numbers vs = []
        | some ns => ns.ncount = (numbers vs).length ∧ ns.sum.toRat = total (numbers vs) ∧ numbers vs ≠ []) ∧
      IsMinOf st.min (numbers vs) ∧ IsMaxOf st.max (numbers vs) := by
  rw [foldQ_eq_build]
  by_cases h0 : present vs = 0
  · simp [build, h0]
  · rw [build_of_present_pos _ vs h0]
    have hmin := minCell_isMin (parseFast exact) vs
    have hmax := maxCell_isMax (parseFast exact) vs
    rw [← numbers_eq] at hmin hmax
    refine ⟨rfl, ?_, ?_, hmin, hmax⟩
    · rw [numbers_eq]; simp [ratVals]
    · by_cases he : (nums (parseFast exact) vs).isEmpty
      · simp only [he, if_true]
        exact (numbers_nil_iff vs).mpr (List.isEmpty_iff.mp he)
      · simp only [he]
        refine ⟨(numbers_length vs).symm, ?_, ?_⟩
        · rw [sumCell_toRat, numbers_eq, total_ratVals]
        · intro hn; exact he (by rw [(numbers_nil_iff vs).mp hn]; rfl)

/-- the code AS FOUND (`addSumOld` / `sumCellOld`, the running sum before patch c04-15): as long as no float (or numeric
string) had arrived the sum cell was ALWAYS the mathematical sum wrapped to int64 — every list of numeric values -/
theorem stats_fold_int_sum_wraps_old (ns : List Num) (h : anyFlt ns = false) :
    sumCellOld ns = .int (wrapS64 (intSum ns)) :=
  sumCellOld_of_ints ns h

/-- … so 2^62 + 2^62 was reported as −2^63 (recorded as stats/int64-sum-overflow, repaired by patch c04-15: the sum cell
of the fixed code holds 2^63 as a float64) -/
theorem stats_fold_eq_spec_counterexample_old :
    sumCellOld [.int 4611686018427387904, .int 4611686018427387904] = .int (-9223372036854775808) ∧
    (sumCellOld [.int 4611686018427387904, .int 4611686018427387904]).toRat
      ≠ ratSum [.int 4611686018427387904, .int 4611686018427387904] ∧
    (sumCell [.int 4611686018427387904, .int 4611686018427387904]).toRat
      = ratSum [.int 4611686018427387904, .int 4611686018427387904] := by
  have e : sumCellOld [.int 4611686018427387904, .int 4611686018427387904] = .int (-9223372036854775808) := by decide
  refine ⟨e, ?_, sumCell_toRat _⟩
  rw [e]; simp [ratSum, Num.toRat, Rat.add_zero]; grind

/-- range (getRange as fixed by patch c04-15): for int64 max ≥ min the answer is max − min as a number, an int64 when it
fits and the float64 otherwise; before, 2^62 − (−2^62) was answered −2^63 (stats/int64-range-overflow) -/
theorem range_eq_max_minus_min (a b : Int) (hab : b ≤ a)
    (ha : a ≤ 9223372036854775807) (hb : -9223372036854775808 ≤ b) :
    ∃ c, rangeOf exact (.int a) (.int b) = some c ∧ c.rat? = some ((a : Rat) - (b : Rat)) := by
  unfold rangeOf
  by_cases hd : wrapS64 (a - b) < 0
  · exact ⟨.flt ((a : Rat) - (b : Rat)), by simp [hd], by simp [CV.rat?]⟩
  · have hw : wrapS64 (a - b) = a - b := by unfold wrapS64 at *; omega
    have hd' : ¬ (a - b < 0) := by omega
    exact ⟨.int (a - b), by simp [hw, hd'], by simp [CV.rat?, Rat.intCast_sub]⟩

theorem range_old_counterexample :
    rangeOfOld exact (.int 4611686018427387904) (.int (-4611686018427387904)) = some (.int (-9223372036854775808)) := by
  decide

example : NoInt64Overflow [.int 5, .absent, .flt 3, .str [49, 50], .str [97]] := by decide

/-- C04.3a `avg_eq_sum_div_numeric_count` (no group-by path: GetSegAvg → getAverage(Sum, NumericCount)): the average
answered is the mathematical sum of the numeric values divided by THEIR number — events lacking the field and text
values do not enter the denominator; without a numeric value there is no answer. -/
theorem avg_eq_sum_div_numeric_count (vs : List Val) :
    (derive exact (foldQ exact vs)).avg =
      if numbers vs = [] then none else some (.flt (total (numbers vs) / ((numbers vs).length : Rat))) := by
  rw [foldQ_eq_build]
  by_cases h0 : present vs = 0
  · have := (of_present_zero (parseFast exact) vs h0).1
    simp [build, h0, derive, (numbers_nil_iff vs).mpr this]
  · rw [build_of_present_pos _ vs h0]
    by_cases he : (nums (parseFast exact) vs).isEmpty
    · have hn := List.isEmpty_iff.mp he
      simp [derive, he, (numbers_nil_iff vs).mpr hn]
    · have hne : numbers vs ≠ [] := by
        intro hn; exact he (by rw [(numbers_nil_iff vs).mp hn]; rfl)
      have hlen : (nums (parseFast exact) vs).length ≠ 0 := by
        intro hl; exact he (by rw [List.length_eq_zero_iff.mp hl]; rfl)
      have hs : (sumCell (nums (parseFast exact) vs)).toRat = total (numbers vs) := by
        rw [sumCell_toRat, numbers_eq, total_ratVals]
      have hnn : nums (parseFast exact) vs ≠ [] := fun hx => hlen (by rw [hx]; rfl)
      simp only [derive, he, hne, if_false, Bool.not_false, if_true, Option.bind, Option.map, avgOf]
      rw [← hs, numbers_length]
      cases sumCell (nums (parseFast exact) vs) <;> simp [Num.toRat, hnn]

/-- count(x) of the no-group path is the number of events that have the field -/
theorem count_eq_present (vs : List Val) :
    (derive exact (foldQ exact vs)).count = if present vs = 0 then none else some (.int (present vs)) := by
  rw [foldQ_eq_build]
  by_cases h0 : present vs = 0 <;> simp [build, h0, derive]

/-- C04.2 `merge_hom`: the statistics of a concatenation are the merge of the statistics of its two halves, for every
split of every list, NO guard (patches c04-1 and c04-15).  `oview` reads the sum cell as the number it denotes: a sum
that left int64 on one way of computing it and not on the other is the float64 4.611686018427388e18 here and the int64
4611686018427387904 there — the same number; everything else (IsNumeric, counts, min, max) is equal as it stands.
(`merge_hom_exact`: while no int64 sum can leave its range the two sides are identical, cell types included.) -/
theorem merge_hom (xs ys : List Val) :
    oview (mergeO exact (foldQ exact xs) (foldQ exact ys)) = oview (foldQ exact (xs ++ ys)) := by
  rw [foldQ_eq_build, foldQ_eq_build, foldQ_eq_build]
  exact mergeO_build_view _ xs ys

theorem merge_hom_exact (xs ys : List Val) (hov : NoInt64Overflow (xs ++ ys)) :
    mergeO exact (foldQ exact xs) (foldQ exact ys) = foldQ exact (xs ++ ys) := by
  rw [foldQ_eq_build, foldQ_eq_build, foldQ_eq_build]
  exact mergeO_build _ xs ys hov

/-- why `oview`: the TYPE of the sum cell may depend on the split once a partial sum leaves int64 — the value does not -/
theorem merge_cell_type_example :
    (foldQ exact [.int 4611686018427387904, .int 4611686018427387904, .int (-4611686018427387904)]).map
        (fun s => s.num.map (fun n => n.sum.isFlt)) = some (some true) ∧
    (mergeO exact (foldQ exact [.int 4611686018427387904])
        (foldQ exact [.int 4611686018427387904, .int (-4611686018427387904)])).map
        (fun s => s.num.map (fun n => n.sum.isFlt)) = some (some false) := by
  constructor <;> decide

/-- the code AS FOUND (`mergeOOld`): `SegStats.Merge` kept the IsNumeric flag of its receiver, so a first part holding
only text made the merged statistics non-numeric although the second part has the number 5; GetSegSum / GetSegAvg
then refused to answer (structs/segstructs.go Merge, segstatsreader.go:437, 625).  Recorded as
stats/MergeSegStats/first-part-text-only, repaired by patch c04-1. -/
theorem merge_hom_old_counterexample :
    ¬ (∀ xs ys : List Val, NoInt64Overflow (xs ++ ys) →
        mergeOOld exact (foldQ exact xs) (foldQ exact ys) = foldQ exact (xs ++ ys)) := by
  intro hall
  have h := hall [.str [97]] [.int 5] (by decide)
  have h1 : (mergeOOld exact (foldQ exact [.str [97]]) (foldQ exact [.int 5])).map (·.isNumeric) = some false := by decide
  have h2 : (foldQ exact ([.str [97]] ++ [.int 5])).map (·.isNumeric) = some true := by decide
  rw [h] at h1
  rw [h1] at h2
  exact absurd h2 (by decide)

/-- … with the visible consequence: the old merge lost sum (and avg) that the unsplit list reports; the fixed one keeps it -/
theorem merge_old_loses_sum_example :
    (derive exact (mergeOOld exact (foldQ exact [.str [97]]) (foldQ exact [.int 5]))).sum = none ∧
    (derive exact (mergeO exact (foldQ exact [.str [97]]) (foldQ exact [.int 5]))).sum = some (.int 5) ∧
    (derive exact (foldQ exact [.str [97], .int 5])).sum = some (.int 5) := by
  refine ⟨?_, ?_, ?_⟩ <;> decide

/-- merge is commutative on reachable statistics (no guard) -/
theorem merge_comm (xs ys : List Val) :
    oview (mergeO exact (foldQ exact xs) (foldQ exact ys)) = oview (mergeO exact (foldQ exact ys) (foldQ exact xs)) := by
  rw [merge_hom xs ys, merge_hom ys xs, foldQ_eq_build, foldQ_eq_build]
  exact build_comm_view _ xs ys

/-- merge is associative on reachable statistics (no guard) -/
theorem merge_assoc (xs ys zs : List Val) :
    oview (mergeO exact (mergeO exact (foldQ exact xs) (foldQ exact ys)) (foldQ exact zs)) =
      oview (mergeO exact (foldQ exact xs) (mergeO exact (foldQ exact ys) (foldQ exact zs))) := by
  rw [mergeO_view_congr _ _ _ _ (merge_hom xs ys) rfl, merge_hom (xs ++ ys) zs,
    mergeO_view_congr _ _ _ _ rfl (merge_hom ys zs), merge_hom xs (ys ++ zs), List.append_assoc]

/-- any segmentation: merging the statistics of the parts of ANY split of the events, batch after batch, gives the
statistics of the unsplit list (with `merge_comm` / `merge_assoc`: in any order and association, i.e. for any
parallel schedule) — no guard -/
theorem merge_segmentation (ps : List (List Val)) : oview (mergeAll ps) = oview (foldQ exact ps.flatten) := by
  induction ps using snocInd with
  | nil => rfl
  | append_singleton ps p ih =>
    have hfl : (ps ++ [p]).flatten = ps.flatten ++ p := by simp
    rw [hfl, mergeAll_snoc, mergeO_view_congr _ _ _ _ ih rfl]
    exact merge_hom _ _

/-- C04.4 `ingest_stats_eq_query_stats`: the ingest-time adders (what the .sst fast path and unrotated segments serve)
and the query-time adders leave the SAME statistics on the same values, for EVERY list — numeric strings included.
(Code as FIXED by patches c04-2 and c04-4: both paths use FastParseFloat, which now wants a mantissa digit.) -/
theorem ingest_stats_eq_query_stats (vs : List Val) : foldI exact vs = foldQ exact vs := by
  rw [foldI_eq_build, foldQ_eq_build]

/-- the code AS FOUND: the paths agreed only when no string was a digit-less FastParseFloat form … -/
theorem ingest_stats_old_partial (vs : List Val) (h : NoDigitlessForm vs) : foldIOld exact vs = foldQOld exact vs := by
  rw [foldIOld_eq_build, foldQOld_eq_build]
  exact build_congr _ _ vs (fun s hs => parseFastOld_eq_parseStd s (h s hs))

/-- … and the excluded class was real: the single value "-" (45) was a NUMBER (0) for the ingest-time statistics and text
for the query-time statistics (utils/numutils.go FastParseFloat accepted an empty digit string; packer.go:1635).
Recorded as stats/addSegStatsStrIngestion/no-digit-string, repaired by patch c04-2. -/
theorem ingest_stats_old_counterexample : ¬ (∀ vs : List Val, foldIOld exact vs = foldQOld exact vs) := by
  intro hall
  have h := hall [.str [45]]
  have h1 : (foldIOld exact [.str [45]]).map (·.isNumeric) = some true := by decide
  have h2 : (foldQOld exact [.str [45]]).map (·.isNumeric) = some false := by decide
  rw [h] at h1
  rw [h1] at h2
  exact absurd h2 (by decide)

/-- the string rules: the fixed FastParseFloat is strconv.ParseFloat on the decimal alphabet (same strings, same value);
the old one computed the same VALUE on everything it scanned but also accepted the digit-less forms -/
theorem numeric_string_rules (s : Str) :
    parseFast exact s = parseStd exact s ∧
    (HasMantissaDigit s → parseFastOld exact s = parseStd exact s) ∧
    (∀ d, scanDec s = some d → d.ip = [] ∧ d.fp = [] →
      (parseFastOld exact s).isSome = true ∧ parseStd exact s = none ∧ parseFast exact s = none) :=
  ⟨parseFast_eq_parseStd s, parseFastOld_eq_parseStd s, fun d hs h0 => parse_differ_of_no_digit s d hs h0⟩

example : NoDigitlessForm [.str [49, 50], .str [51, 46, 53], .str [97, 98], .int 3, .absent] := by
  intro s hs
  simp at hs
  rcases hs with rfl | rfl | rfl <;> intro d hd <;> simp [scanDec, takeDigits, isDigit] at hd <;> subst hd <;> simp

/-- C04.3b `rb_avg_eq_sum_div_numeric_count`, the group-by bucket (`stats avg(x), count(x) by g`), code as FIXED by the
patches c04-7, c04-11 and c04-13: for every list of records the bucket's Sum cell is the mathematical sum of the values
that are numbers — int, float and, like in the statistics without a by clause, strings that FastParseFloat reads as
numbers — the average it answers is that sum divided by the number of records that HAVE such a value (events lacking x and
text values do not enter the denominator), and count(x) is the number of records that have a value for x. -/
theorem rb_avg_eq_sum_div_numeric_count (vs : List Val) (hne : nums (parseFast exact) vs ≠ []) :
    ∃ b, foldRB exact vs = some b ∧
      (resultRB exact b).avg = .flt (ratSum (nums (parseFast exact) vs) / ((nums (parseFast exact) vs).length : Rat)) ∧
      (resultRB exact b).count = present vs := by
  rcases foldRBWith_val (parseFast exact) vs with ⟨hnil, _⟩ | ⟨b, hb, hn, hvne, hs, hc, hx⟩
  · subst hnil; exact absurd rfl hne
  · refine ⟨b, hb, ?_, by simp [resultRB, hx]⟩
    have hlen : (nums (parseFast exact) vs).length ≠ 0 := by
      intro hl; exact hne (List.length_eq_zero_iff.mp hl)
    rcases hs with ⟨hnil, _⟩ | ⟨_, hr⟩
    · exact absurd hnil hne
    · have hf : b.sum.float? exact = some (ratSum (nums (parseFast exact) vs)) := by
        rw [← hr]; cases b.sum <;> rfl
      simp [resultRB, hf, hc, hlen]

/-- C04.3c `rb_count_eq_present` (patch c04-11), full strength — no guard at all: count(x) of a group is the number of its
records that have a value for x (a number, numeric text or text), whatever the values are; same number as the statistics
without a by clause report (`count_eq_present`) -/
theorem rb_count_eq_present (vs : List Val) (hne : vs ≠ []) :
    ∃ b, foldRB exact vs = some b ∧ (resultRB exact b).count = present vs ∧ b.n = vs.length := by
  have key : ∀ vs : List Val, (vs = [] ∧ foldRB exact vs = none) ∨
      (∃ b, foldRB exact vs = some b ∧ b.cx = present vs ∧ b.n = vs.length) := by
    intro vs
    induction vs using snocInd with
    | nil => left; exact ⟨rfl, rfl⟩
    | append_singleton vs v ih =>
      right
      have hstep : foldRB exact (vs ++ [v]) = stepRB exact (foldRB exact vs) v := by
        simp [foldRB, foldRBWith, stepRB, List.foldl_append]
      have hv : (if v.isAbsent then 0 else 1) = (if isPresent v then 1 else 0) := by cases v <;> rfl
      rw [hstep, present_snoc]
      rcases ih with ⟨rfl, hnone⟩ | ⟨b, hb, hx, hn⟩
      · rw [hnone]; exact ⟨_, rfl, by simp [newRB, hv], by simp [newRB]⟩
      · rw [hb]; exact ⟨_, rfl, by simp [hx, hv], by simp [hn]⟩
  rcases key vs with ⟨hnil, _⟩ | ⟨b, hb, hx, hn⟩
  · exact absurd hnil hne
  · exact ⟨b, hb, by simp [resultRB, hx], hn⟩

/-- the code AS FOUND (`resultRBOld`): the average was the sum divided by the number of RECORDS of the group
(blockresult.go `sumRawVal / float64(bucket.count)`), exact characterisation … -/
theorem rb_avg_old_divides_by_record_count (vs : List Val) (hne : nums (parseFast exact) vs ≠ []) :
    ∃ b, foldRB exact vs = some b ∧
      (resultRBOld exact b).avg = .flt (ratSum (nums (parseFast exact) vs) / (vs.length : Rat)) := by
  rcases foldRBWith_val (parseFast exact) vs with ⟨hnil, _⟩ | ⟨b, hb, hn, hvne, hs, _, _⟩
  · subst hnil; exact absurd rfl hne
  · refine ⟨b, hb, ?_⟩
    have hlen : vs.length ≠ 0 := by intro hl; exact hvne (List.length_eq_zero_iff.mp hl)
    rcases hs with ⟨hnil, _⟩ | ⟨_, hr⟩
    · exact absurd hnil hne
    · have hf : b.sum.float? exact = some (ratSum (nums (parseFast exact) vs)) := by
        rw [← hr]; cases b.sum <;> rfl
      simp [resultRBOld, hf, hn, hlen]

/-- … so over the two events `x = 5` and `x absent` it answered 5/2, the fixed code answers 5; count(x) was 2 — the records
of the group (`resultRBCountOld`) — and is 1 since patch c04-11 (recorded as stats/groupby-avg-count/record-count; the avg
part repaired by patch c04-7, the count part by c04-11) -/
theorem rb_avg_old_counterexample :
    ∃ b, foldRB exact [.int 5, .absent] = some b ∧ (resultRBOld exact b).avg = .flt (5 / 2) ∧
      (resultRB exact b).avg = .flt 5 ∧ (resultRB exact b).count = 1 ∧ (resultRBCountOld exact b).count = 2 ∧
      (5 : Rat) / 2 ≠ total (numbers [.int 5, .absent]) / ((numbers [.int 5, .absent]).length : Rat) := by
  have e1 : nums (parseFast exact) [.int 5, .absent] = [.int 5] := rfl
  obtain ⟨b, hb, ha⟩ := rb_avg_old_divides_by_record_count [.int 5, .absent] (by rw [e1]; simp)
  obtain ⟨b', hb', ha', hc'⟩ := rb_avg_eq_sum_div_numeric_count [.int 5, .absent] (by rw [e1]; simp)
  obtain ⟨b'', hb'', _, hn''⟩ := rb_count_eq_present [.int 5, .absent] (by simp)
  have hbb : b' = b := by rw [hb] at hb'; exact (Option.some.inj hb').symm
  have hbb2 : b'' = b := by rw [hb] at hb''; exact (Option.some.inj hb'').symm
  subst hbb; subst hbb2
  have e2 : numbers [.int 5, .absent] = [(5 : Rat)] := rfl
  have e3 : present [.int 5, .absent] = 1 := rfl
  refine ⟨b'', hb, ?_, ?_, by rw [hc', e3], by simp [resultRBCountOld, hn''], ?_⟩
  · rw [ha, e1]; simp [ratSum, Num.toRat, Rat.add_zero]
  · rw [ha', e1]; simp [ratSum, Num.toRat, Rat.add_zero]; grind
  · rw [e2]; simp [total, Rat.add_zero]; grind

/-- C04.3d (patch c04-13) the group-by bucket and the statistics without a by clause take the SAME values for numbers:
the Sum cell of a group is the sum over `nums (parseFast exact)`, the very list `stats_fold_eq_spec` is about — numeric
text included.  BEFORE the patch (`foldRBStrOld`) the bucket summed over `nums noParse`: no string counted, so
`stats sum(x) by g` and `stats sum(x)` disagreed on a group that holds numeric text … -/
theorem rb_sum_same_numbers_as_no_group (vs : List Val) (h : absIntSum (nums (parseFast exact) vs) < 9223372036854775808)
    (hne : vs ≠ []) :
    ∃ b, foldRB exact vs = some b ∧ b.sum = rbSum (nums (parseFast exact) vs) ∧ b.nc = (nums (parseFast exact) vs).length := by
  rcases foldRB_sum vs h with ⟨hnil, _⟩ | ⟨b, hb, _, _, hs, hc, _⟩
  · exact absurd hnil hne
  · exact ⟨b, hb, hs, hc⟩

theorem rb_sum_old_ignores_strings (vs : List Val) (h : absIntSum (nums noParse vs) < 9223372036854775808) (hne : vs ≠ []) :
    ∃ b, foldRBStrOld exact vs = some b ∧ b.sum = rbSum (nums noParse vs) := by
  rcases foldRBWith_sum noParse vs h with ⟨hnil, _⟩ | ⟨b, hb, _, _, hs, _, _⟩
  · exact absurd hnil hne
  · exact ⟨b, hb, hs⟩

/-- … witness: the records `x = "5"` (text that is a number) and `x = 7`: the old bucket reports the sum 7 (and the
average 7), the fixed one 12 (and 6), which is what `stats sum(x), avg(x)` without by reports -/
theorem rb_numeric_string_old_counterexample :
    (foldRBStrOld exact [.str [53], .int 7]).map (·.sum) = some (.int 7) ∧
    (foldRB exact [.str [53], .int 7]).map (·.sum) = some (.flt 12) ∧
    (foldRB exact [.str [53], .int 7]).map (·.nc) = some 2 ∧
    (foldRBStrOld exact [.str [53], .int 7]).map (·.nc) = some 1 := by
  have hp : parseFast exact [53] = some 5 := by
    simp [parseFast, scanDec, takeDigits, isDigit, valFast, exact]; grind
  refine ⟨by decide, ?_, ?_, by decide⟩
  · simp [foldRB, foldRBWith, stepRBWith, Val.toCVWith, hp, newRB, sumStep, exact]; grind
  · simp [foldRB, foldRBWith, stepRBWith, Val.toCVWith, hp, newRB, CV.isNumeric]

/-- merge of group-by buckets (`MergeRunningBuckets`, what joins the per-segment / per-batch buckets of one group): the
record count, the Sum cell read as a number, its numeric count and the Count cell of the merged bucket are those of the
unsplit list, for every split of every list, no guard (patch c04-15: an int64 sum that leaves its range becomes a float64,
so only the TYPE of the Sum cell may depend on the split) — sum, count(x) and average of a group do not depend on the
segmentation -/
theorem rb_merge_hom_count_sum (xs ys : List Val) :
    (mergeRB exact (foldRB exact xs) (foldRB exact ys)).map (fun b => (b.n, b.sum.rat?, b.nc, b.cx)) =
      (foldRB exact (xs ++ ys)).map (fun b => (b.n, b.sum.rat?, b.nc, b.cx)) := by
  rcases mergeRBWith_val (parseFast exact) xs ys with ⟨hnil, hm⟩ | ⟨m, w, hm, hw, h1, h2, h3, hs1, hs2⟩
  · have : foldRB exact (xs ++ ys) = none := by rw [hnil]; rfl
    unfold foldRB at *
    rw [hm, this]
  · unfold foldRB at *
    rw [hm, hw]
    have hsum : m.sum.rat? = w.sum.rat? := by
      rcases hs1 with ⟨hn1, e1⟩ | ⟨hne, e1⟩
      · rcases hs2 with ⟨_, e2⟩ | ⟨hne2, _⟩
        · rw [e1, e2]
        · exact absurd hn1 hne2
      · rcases hs2 with ⟨hn2, _⟩ | ⟨_, e2⟩
        · exact absurd hn2 hne
        · rw [e1, e2]
    simp [h1, h2, h3, hsum]

/-- … identical, cell types included, while no int64 sum can leave its range -/
theorem rb_merge_hom_count_sum_exact (xs ys : List Val) (h : absIntSum (nums (parseFast exact) (xs ++ ys)) < 9223372036854775808) :
    (mergeRB exact (foldRB exact xs) (foldRB exact ys)).map (fun b => (b.n, b.sum, b.nc, b.cx)) =
      (foldRB exact (xs ++ ys)).map (fun b => (b.n, b.sum, b.nc, b.cx)) :=
  mergeRB_n_sum xs ys h

/-- the code AS FOUND (`foldRBOld` / `mergeRBOld`): the group-by bucket's min / max over a measure field of mixed type
depended on the ORDER of the events: once the cell held a string, `sutils.Reduce` rejected every number
(aggutils.go returned an error for a string e1, ProcessReduce kept the cell), while a number that came first beat every
later string.  Recorded as stats/groupby-minmax/text-before-number, repaired by patch c04-3. -/
theorem rb_minmax_order_old_counterexample :
    (foldRBOld exact [.str [97], .int 5]).map (·.min) = some (.str [97]) ∧
    (foldRBOld exact [.int 5, .str [97]]).map (·.min) = some (.int 5) ∧
    (mergeRBOld exact (foldRBOld exact [.str [97]]) (foldRBOld exact [.int 5])).map (·.max) = some (.str [97]) ∧
    (mergeRBOld exact (foldRBOld exact [.int 5]) (foldRBOld exact [.str [97]])).map (·.max) = some (.int 5) := by
  decide

/-- the fixed `Reduce` never fails on these cells and agrees with `ReduceMinMax` (the rule of the no-group path) on every
pair of cells a bucket can hold — so the number wins whichever comes first -/
theorem rb_reduce_fixed (isMin : Bool) (a b : CV) (hb : b ≠ .invalid) :
    reduceMM exact isMin a b = some (reduceMinMax exact isMin a b) := by
  cases a <;> cases b <;> simp_all [reduceMM, reduceMinMax]

example :
    (foldRB exact [.str [97], .int 5]).map (·.min) = some (.int 5) ∧
    (foldRB exact [.int 5, .str [97]]).map (·.min) = some (.int 5) ∧
    (mergeRB exact (foldRB exact [.str [97]]) (foldRB exact [.int 5])).map (·.max) = some (.int 5) := by
  decide

end SigModel.Props.C04

/-! ## C04.H the distinct-value key: a segment answered from its .sst file and a segment recomputed from its records count
a value ONCE (Model/HllKey.lean; suite hllkey; end to end: e2e_c03 / e2e_c04 tag sst-and-raw-in-one-query).  Code as FIXED
by patch c04-16; the former query-time key is `hllKeyQueryOld`. -/
namespace SigModel.Props.C04
open SigModel.Stats SigModel.HllKey SigModel.MachInt

/-- C04.H1 `hll_key_ingest_eq_query`: for EVERY value — every integer, every float, every string (numeric text included),
an absent field — the ingest-time statistics (.sst) and the query-time statistics feed the sketch the SAME bytes. -/
theorem hll_key_ingest_eq_query (v : Val) : hllKeyIngest v = hllKeyQuery v := by
  cases v <;> rfl

/-- C04.H2 the keys of two int64 are equal only if the integers are: the sketch separates distinct integers and, with H1,
counts an integer that occurs in an .sst-answered and in a recomputed segment once. -/
theorem i64Key_injective (a b : Int) (ha : fitsI64 a) (hb : fitsI64 b) (h : i64Key a = i64Key b) : a = b := by
  have h2 := congrArg ofLe h
  have p8 : (256 : Nat) ^ 8 = 18446744073709551616 := by decide
  simp only [i64Key, ofLe_leBytes, p8, wrapU64] at h2
  simp [fitsI64] at ha hb
  omega

/-- C04.H3 `merged_sketch_same_keys` (full strength, every value list): the union of the sketch of a segment answered from
its .sst file (`keysI vs`) with the sketch of ANY segment recomputed from records (`keysQ ws`) is the list of keys of the
one-path computation over all the values: nothing is counted twice, whatever the split. -/
theorem merged_sketch_same_keys (vs ws : List Val) : keysI vs ++ keysQ ws = keysI (vs ++ ws) := by
  have e : ∀ ws : List Val, keysQ ws = keysI ws := by
    intro ws
    induction ws with
    | nil => rfl
    | cons w r ih =>
      simp only [keysQ, keysI] at ih ⊢
      simp only [List.filterMap_cons, ← hll_key_ingest_eq_query w, ih]
  simp [e ws, keysI, List.filterMap_append]

/-- the code AS FOUND agreed on every value that is not numeric text … -/
theorem hll_key_old_partial (rnd : Rat → Rat) (v : Val) (h : ¬ NumericText rnd v) :
    hllKeyIngest v = hllKeyQueryOld rnd v := by
  cases v with
  | absent => rfl
  | int i => rfl
  | flt q => rfl
  | str s =>
    simp only [NumericText] at h
    simp only [hllKeyIngest, hllKeyQueryOld]
    cases hp : parseFast rnd s with
    | none => rfl
    | some q => simp [hp] at h

/-- … and the excluded class was real: a numeric text whose length is not 8 bytes ("7", "007", "2.50") entered the sketch as
its text at ingest time and as the 8 bytes of the number at query time, so `dc` of a column holding such strings counted
the value twice when one segment was answered from .sst and another from records (recorded as
stats/hll-key/numeric-text-counted-twice, e2e/stats/dc-over-numeric-text; repaired by patch c04-16). -/
theorem hll_key_old_numeric_text_differs (rnd : Rat → Rat) (s : Str) (q : Rat) (hp : parseFast rnd s = some q) (hl : s.length ≠ 8) :
    hllKeyIngest (.str s) ≠ hllKeyQueryOld rnd (.str s) := by
  simp only [hllKeyIngest, hllKeyQueryOld, hp]
  intro h
  have := congrArg List.length (Option.some.inj h)
  simp only [f64Key, leBytes_length] at this
  exact hl this

/-- the guard of `hll_key_old_partial` is satisfiable and its complement is inhabited: "abc" is no numeric text (exact
arithmetic) -/
example : ¬ NumericText exact (.str [97, 98, 99]) := by decide

end SigModel.Props.C04
