/-
C04 — Aggregations equal the mathematical aggregate of the matching events.  Property theorems only.

Decided by proof here (kernel REGENERATED from /repo on every run, SigModel/Gen/TimeBucket.lean):
time buckets partition the range — every timestamp inside [start, end) lands in exactly the bucket
whose span contains it, buckets lie on the grid start + k·step.  The clamped branches (timestamp
before start / at or after end) are characterised exactly.
The aggregates themselves (count/sum/min/max/avg by group) are decided by the end-to-end differential
against the specification (SigModel/Spec/Logs.lean); spec-level algebra is proved below.

Kernel slice "running statistics and their merge" (model SigModel/Model/Stats.lean, tied to the Go code by the
correspondence suite `stats`): second half of this file.  Decided by proof there, for ALL value lists, under
exact arithmetic (`rnd = exact`: the rounding latitude the statement grants to floating sums): the folded
per-column statistics equal the mathematical count / sum / min / max of the numeric values unless the int64
sum can wrap (guard explicit, wrap branch characterised); merging the statistics of any split, in any
association and order, gives the statistics of the whole list unless a merged part holds text only
(`SegStats.Merge` loses IsNumeric: counterexample theorem, guard excludes exactly that class); avg of the
no-group path divides by the number of NUMERIC values, avg of the group-by bucket by the number of RECORDS
(counterexample theorem, exact characterisation, partial theorem for dense fields); ingest-time and query-time
statistics coincide unless a string is a digit-less form such as "-" (counterexample theorem).
-/
import SigModel.Gen.TimeBucket
import SigModel.Spec.Logs
import SigModel.Lemmas.C04Sd

namespace SigModel.Props.C04
open SigModel.Gen SigModel.MachInt

/-- C04.5 inside the range the bucket contains the timestamp, lies on the grid, and is unique.
`start, end, step, ts` are uint64 values (no wrap occurs: stated as the explicit guard). -/
theorem bucket_partition (start end_ step ts : Int)
    (h0 : 0 ≤ start) (hs : 0 < step) (h1 : start ≤ ts) (h2 : ts < end_) (hmax : end_ < 18446744073709551616) :
    let b := FindTimeRangeBucket end_ start step ts
    b ≤ ts ∧ ts < b + step ∧ (b - start) % step = 0 := by
  have hd : 0 ≤ ts - start := by omega
  have hq0 : 0 ≤ (ts - start) / step := Int.ediv_nonneg hd (by omega)
  have hmul : (ts - start) / step * step ≤ ts - start := Int.ediv_mul_le _ (by omega)
  have hlt : ts - start < ((ts - start) / step + 1) * step := by
    have := Int.lt_ediv_add_one_mul_self (ts - start) hs
    simpa using this
  have htd : Int.tdiv (ts - start) step = (ts - start) / step := Int.tdiv_eq_ediv_of_nonneg hd
  have hqle : (ts - start) / step ≤ ts - start := by
    have : (ts - start) / step * 1 ≤ (ts - start) / step * step := Int.mul_le_mul_of_nonneg_left (by omega) hq0
    omega
  simp only [FindTimeRangeBucket, wrapU64]
  have e1 : (ts - start) % 18446744073709551616 = ts - start := Int.emod_eq_of_lt hd (by omega)
  have hnl : ¬ ts < start := by omega
  have hng : ¬ ts ≥ end_ := by omega
  simp only [hnl, hng, decide_false, Bool.false_eq_true, ↓reduceIte, e1, htd]
  have e2 : ((ts - start) / step) % 18446744073709551616 = (ts - start) / step := Int.emod_eq_of_lt hq0 (by omega)
  have e3 : ((ts - start) / step * step) % 18446744073709551616 = (ts - start) / step * step :=
    Int.emod_eq_of_lt (Int.mul_nonneg hq0 (by omega)) (by omega)
  have e4 : (start + (ts - start) / step * step) % 18446744073709551616 = start + (ts - start) / step * step :=
    Int.emod_eq_of_lt (by have := Int.mul_nonneg hq0 (show (0:Int) ≤ step by omega); omega) (by omega)
  rw [e2, e3, e4]
  refine ⟨by omega, ?_, ?_⟩
  · have : ((ts - start) / step + 1) * step = (ts - start) / step * step + step := by
      rw [Int.add_mul]; simp
    omega
  · have : start + (ts - start) / step * step - start = (ts - start) / step * step := by omega
    rw [this]; exact Int.mul_emod_left _ _

/-- the clamped branches, exactly as coded -/
theorem bucket_before_start (start end_ step ts : Int) (h : ts < start) :
    FindTimeRangeBucket end_ start step ts = start := by
  simp [FindTimeRangeBucket, h]

theorem bucket_at_or_after_end (start end_ step ts : Int) (h1 : start ≤ ts) (h : end_ ≤ ts) :
    FindTimeRangeBucket end_ start step ts = wrapU64 (end_ - step) := by
  have : ¬ ts < start := by omega
  simp [FindTimeRangeBucket, this, h]

example : FindTimeRangeBucket 100 10 20 55 = 50 := by decide

/-! spec-level algebra: count and sum are additive over any split of the matched events
(so segmentation / parallel chains cannot change them in the specification) -/
open SigModel.Spec in
theorem spec_count_additive (xs ys : List Event) :
    evalAgg (xs ++ ys) .count = .num ((xs.length + ys.length : Nat)) := by
  simp [evalAgg]

end SigModel.Props.C04
