/-
C08 — Metric datapoints are stored and returned bit-exactly per series.
Property theorems only (helper lemmas live in SigModel/Lemmas/C08*.lean).

English statement (properties.jsonl): every accepted datapoint (metric, tags, second-resolution
timestamp, float value) is returned with the same timestamp and the bit-identical value …
The codec part: for EVERY header and EVERY series the ingest path can hand to the compressor,
decoding the bytes the encoder wrote yields exactly the series, then a clean end-of-stream.
-/
import SigModel.Model.Gorilla
import SigModel.Lemmas.C08
import SigModel.Lemmas.C08e
import SigModel.Lemmas.C08p
import SigModel.Spec.Metrics
import SigModel.Model.TagsTree
import SigModel.Lemmas.C08t

namespace SigModel.Props.C08
open SigModel SigModel.Gorilla

/-- first point: header and t are uint32, t ≠ 0 (the codec uses t = 0 for "no point yet"),
`0 ≤ t - header < 2^14 - 1` (the writer always passes header = first timestamp, i.e. 0). -/
def okFirst (header t : Nat) : Prop :=
  header < P32 ∧ t < P32 ∧ t ≠ 0 ∧ header ≤ t ∧ t - header < 2 ^ 14 - 1

/-- later points, tracked along the encoder state: uint32 non-zero timestamps, uint64 value bit
patterns, and a delta-of-delta that lands in the 32-bit bucket is not ≡ 2^32-1 (the end marker). -/
def okPts (c : Enc) : List (Nat × Nat) → Prop
  | [] => True
  | (t, v) :: ps =>
    t < P32 ∧ t ≠ 0 ∧ v < P64 ∧
    ((-2047 ≤ dodOf c t ∧ dodOf c t ≤ 2048) ∨ dodOf c t % (P32 : Int) ≠ (P32 : Int) - 1) ∧
    okPts (compress c t v).1 ps

def okSeries (header : Nat) : List (Nat × Nat) → Prop
  | [] => header < P32
  | (t, v) :: ps => okFirst header t ∧ v < P64 ∧ okPts (compress (Enc.new header).1 t v).1 ps

/-- C08.1 bit IO: reading back `n` written bits gives the low `n` bits, for every continuation. -/
theorem readBits_writeBits (u n : Nat) (r : Bits) :
    readBits n (writeBits u n ++ r) = some (u % 2 ^ n, r) := by
  exact Lemmas.C08.readBits_writeBits u n r

/-- C08.2 byte packing: unpacking the flushed bytes gives the bits back plus < 8 zero padding bits. -/
theorem unpack_pack (bs : Bits) :
    ∃ k, k < 8 ∧ unpack (pack bs) = bs ++ List.replicate k false := by
  exact Lemmas.C08.unpack_pack bs

/-- C08.3 (main): decode ∘ encode = id, bit-identically, for every header and series satisfying the
guard, whatever follows the finish marker (padding). -/
theorem decode_encode (header : Nat) (pts : List (Nat × Nat)) (pad : Bits)
    (h : okSeries header pts) :
    decodeAll (encodeAll header pts ++ pad) = some (header, pts, Status.eof) := by
  exact Lemmas.C08.decode_encodeL header pts pad
    ((Lemmas.C08.okSeriesL_iff okSeries okPts (fun _ => trivial) (fun _ _ _ _ => Iff.rfl)
      (fun _ => Iff.rfl) (fun _ _ _ _ => Iff.rfl) header pts).1 h)

/-- C08.3 at the byte level (what is stored in the TSG file / returned for open blocks). -/
theorem decode_encode_bytes (header : Nat) (pts : List (Nat × Nat))
    (h : okSeries header pts) :
    decodeAll (unpack (pack (encodeAll header pts))) = some (header, pts, Status.eof) := by
  exact Lemmas.C08.decode_encode_bytesL header pts
    ((Lemmas.C08.okSeriesL_iff okSeries okPts (fun _ => trivial) (fun _ _ _ _ => Iff.rfl)
      (fun _ => Iff.rfl) (fun _ _ _ _ => Iff.rfl) header pts).1 h)

/-- the guard is closed under prefixes: a clone taken after any `k` points (open-block reads,
`CloneCompressor`) decodes to exactly those `k` points. -/
theorem clone_prefix_decodes (header : Nat) (pts : List (Nat × Nat)) (k : Nat)
    (h : okSeries header pts) :
    decodeAll (unpack (pack (encodeAll header (pts.take k)))) = some (header, pts.take k, Status.eof) := by
  exact Lemmas.C08.clone_prefix_decodesL header pts k
    ((Lemmas.C08.okSeriesL_iff okSeries okPts (fun _ => trivial) (fun _ _ _ _ => Iff.rfl)
      (fun _ => Iff.rfl) (fun _ _ _ _ => Iff.rfl) header pts).1 h)

/-- what the ingest path produces: header = first timestamp, timestamps non-decreasing,
below 2^31, non-zero.  Such series always satisfy the guard (so the guard is not vacuous and the
residual end-marker collision needs timestamps that jump backwards by ~2^31 s). -/
def monotoneFrom (prev : Nat) : List (Nat × Nat) → Prop
  | [] => True
  | (t, v) :: ps => prev ≤ t ∧ t < 2 ^ 31 ∧ v < P64 ∧ monotoneFrom t ps

theorem okSeries_of_monotone (t0 v0 : Nat) (ps : List (Nat × Nat))
    (h0 : 0 < t0) (h1 : t0 < 2 ^ 31) (hv : v0 < P64) (hm : monotoneFrom t0 ps) :
    okSeries t0 ((t0, v0) :: ps) := by
  exact (Lemmas.C08.okSeriesL_iff okSeries okPts (fun _ => trivial) (fun _ _ _ _ => Iff.rfl)
      (fun _ => Iff.rfl) (fun _ _ _ _ => Iff.rfl) t0 ((t0, v0) :: ps)).2
    (Lemmas.C08.okSeriesL_of_monotone t0 v0 ps h0 h1 hv
      ((Lemmas.C08.monotoneFromL_iff monotoneFrom (fun _ => trivial) (fun _ _ _ _ => Iff.rfl) ps t0).1 hm))

/-- non-vacuity: a concrete series with low-mantissa-bit neighbours (1.0, nextafter 1.0) meets the guard. -/
example : okSeries 1700000000 [(1700000000, 0x3ff0000000000000), (1700000060, 0x3ff0000000000001)] := by
  refine okSeries_of_monotone _ _ _ (by omega) (by omega) (by simp only [P64]; omega) ?_
  exact ⟨by omega, by omega, by simp only [P64]; omega, trivial⟩

/-- full-strength statement WITHOUT the end-marker clause is false: delta-of-delta = 2^32-1 is
indistinguishable from the finish marker (timestamps 5, 5+2^31, 4). -/
theorem decode_encode_unguarded_counterexample :
    ¬ (∀ header pts, (∀ p ∈ pts, p.1 < P32 ∧ p.1 ≠ 0 ∧ p.2 < P64) → (∀ t v ps, pts = (t, v) :: ps → header = t) →
        decodeAll (encodeAll header pts) = some (header, pts, Status.eof)) := by
  intro h
  have hc := h 5 [(5, 0), (2147483653, 0), (4, 0)] (by decide)
    (by intro t v ps e; cases e; rfl)
  revert hc
  decide +kernel

/-! ### series identity: the input of the TSID hash (tagsholder.go GetTSID; xxhash itself is an arbitrary function)

Model: `Spec.Metrics.preimageB` (tie: suite `tsidpre`).  Distinct (metric name, tag list) pairs must hash distinct
bytes, or two series are stored as one (e2e class tsid-preimage-collision). -/

open SigModel.Spec.Metrics in
/-- every length the code writes as `uint32(len(x))` is the length -/
def fitsU32 (name : List Nat) (tags : List (List Nat × List Nat)) : Prop :=
  name.length < 2 ^ 32 ∧ ∀ kv ∈ tags, kv.1.length < 2 ^ 32 ∧ kv.2.length < 2 ^ 32

open SigModel.Spec.Metrics in
/-- C08.5: the bytes the repaired GetTSID hashes determine the metric name and the (sorted) tag list, whatever bytes
names, keys and values contain — for all names and tag lists below 4 GiB per field. -/
theorem tsid_preimage_injective (n1 n2 : List Nat) (t1 t2 : List (List Nat × List Nat))
    (h1 : fitsU32 n1 t1) (h2 : fitsU32 n2 t2) (h : preimageB n1 t1 = preimageB n2 t2) :
    n1 = n2 ∧ t1 = t2 :=
  Lemmas.C08p.preimageB_inj n1 n2 t1 t2 h1.1 h2.1 h1.2 h2.2 h

/-- non-vacuity: the guard holds for ordinary series, e.g. m{z="x",ab="1"} -/
example : fitsU32 [109] [([122], [120]), ([97, 98], [49])] := by
  refine ⟨by decide, ?_⟩
  intro kv hkv
  simp only [List.mem_cons, List.not_mem_nil, or_false] at hkv
  rcases hkv with rfl | rfl <;> decide

open SigModel.Spec.Metrics in
/-- the OLD input (name `__` key `__` value key `__` value …, nothing between a value and the next key) is NOT
injective: m{z="x",ab="1"} and m{z="xa",b="1"} are different series with one pre-image (known finding
tsid-preimage-collision, repaired). -/
theorem tsidPreimageOld_collision :
    ∃ a b : Series, sameSeries a b = false ∧ tsidPreimageOld a = tsidPreimageOld b := by
  refine ⟨{ name := "m", labels := [("z", "x"), ("ab", "1")], points := [] },
          { name := "m", labels := [("z", "xa"), ("b", "1")], points := [] }, ?_, ?_⟩ <;> decide +kernel

open SigModel.Spec.Metrics in
/-- … and the repaired input keeps exactly this pair apart. -/
example : tsidPreimage { name := "m", labels := [("z", "x"), ("ab", "1")], points := [] } ≠
          tsidPreimage { name := "m", labels := [("z", "xa"), ("b", "1")], points := [] } := by
  decide +kernel

/-! ## tags tree file, block level (Model/TagsTree.lean; code with the repair c09-10)

"series with different names or tag sets are never merged … before and after block and segment rotation": a series is
found through the TSID lists of its tag values in the tags tree file.  The file stores the number of TSIDs of a block in
16 bits; the repaired encoder writes a value with more than 65535 TSIDs as several consecutive blocks, and the readers
collect the blocks of a value.  The byte framing of a block is abstracted (`wellFramed` = the count fits its field); the
real encoder and readers are tied to this model by the correspondence suite `tagstree`. -/
open SigModel.TagsTree in
/-- C08.T1 every block the encoder writes — for ANY number of TSIDs per value — carries a count that fits the 16-bit
field (it is read back as written), and the blocks of an entry concatenate to the entry's TSIDs -/
theorem tagstree_blocks_well_framed (es : List Entry) :
    (∀ b ∈ encodeBlocks es, wellFramed b) ∧ ∀ e : Entry, (blocksOf e).flatMap (·.tsids) = e.tsids :=
  ⟨SigModel.Lemmas.C08t.encodeBlocks_wellFramed es, SigModel.Lemmas.C08t.blocksOf_tsids⟩

open SigModel.TagsTree in
/-- C08.T2 `tagstree_exact_complete`: the rotated exact-match reader (`k="v"`) returns, for every value of the metric,
exactly the TSIDs of that value, however many there are (distinct values have distinct hashes: xxhash is outside the
statement) -/
theorem tagstree_exact_complete (es : List Entry) (hnd : (es.map (·.hash)).Nodup) (e : Entry) (he : e ∈ es) :
    readEqual e.hash false (encodeBlocks es) = e.tsids :=
  SigModel.Lemmas.C08t.readEqual_complete es hnd e he

open SigModel.TagsTree in
/-- C08.T3 the `!=` reader and the value iterator (regex matchers, `k=*`) return the TSIDs of exactly the entries with
another / with that hash -/
theorem tagstree_scan_complete (h : Nat) (es : List Entry) :
    readNotEqual h (encodeBlocks es) = (es.filter (fun e => e.hash != h)).flatMap (·.tsids) ∧
    iterFor h (encodeBlocks es) = (es.filter (fun e => e.hash == h)).flatMap (·.tsids) :=
  ⟨SigModel.Lemmas.C08t.readNotEqual_complete h es, SigModel.Lemmas.C08t.iterFor_complete h es⟩

open SigModel.TagsTree in
/-- the statement T1 for the encoder BEFORE the repair c09-10 (one block per value) -/
def TagsTreeWellFramedOld : Prop := ∀ es : List Entry, ∀ b ∈ encodeBlocksOld es, wellFramed b

open SigModel.TagsTree in
/-- C08.T1-old FALSE before the repair: a value shared by 65536 series was written with the count 0 in front of its
65536 TSIDs — the rest of the metric's chunk was mis-framed after rotation (detectors: suite tagstree
sig=tagstree/rotated-differs/tsids-over-64k, e2e_metrics sig=e2em/in-class/tsids-per-value-over-64k) -/
theorem tagstree_well_framed_old_counterexample : ¬ TagsTreeWellFramedOld := by
  intro hall
  exact SigModel.Lemmas.C08t.old_not_wellFramed
    (hall [{ hash := 0, tsids := List.replicate 65536 0 }] _ (List.mem_singleton.mpr rfl))

open SigModel.TagsTree in
/-- non-vacuity: 65536 TSIDs of one value → two blocks (65535 + 1), found again by the exact reader behind another value -/
example : (encodeBlocks [⟨1, [7]⟩, ⟨2, List.range 65536⟩]).map (fun b => (b.hash, b.tsids.length)) = [(1, 1), (2, 65535), (2, 1)]
    ∧ (readEqual 2 false (encodeBlocks [⟨1, [7]⟩, ⟨2, List.range 65536⟩])).length = 65536 := by
  decide +kernel

end SigModel.Props.C08
