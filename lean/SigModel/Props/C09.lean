/-
C09 — Metric queries compute PromQL-consistent answers (results layer).
Property theorems only.  Model: SigModel/Model/Promql.lean (series-id strings, group-key extraction by
substring search, downsampling buckets, aggregation folds — as coded).  Helper lemmas: Lemmas/C09*.lean.

Byte strings are `List Nat`; in the concrete witnesses below
  "m" = [109]   "a" = [97]   "b" = [98]   "ba" = [98,97]   "1" = [49]   "2" = [50]   "3" = [51]
  "," = 44   ":" = 58   "{" = 123.

NOT decided here (see lib/props.py `partial`): selector/matcher evaluation on the tags tree, the PromQL
parser, range/math/label functions, topk/bottomk/stddev/stdvar/quantile, on()/ignoring()/group_left/group_right and scalar
operands of binary operators (the vector–vector case without matching clause is §6), float64
rounding of the avg quotient (the theorems speak about exact rationals over integer samples).
-/
import SigModel.Model.Promql
import SigModel.Lemmas.C09e
import SigModel.Lemmas.C09bin
import SigModel.Spec.Metrics

namespace SigModel.Props.C09
open SigModel.Promql

/-- guard: every series of the query satisfies `LabelSafe` (no ',' '{' in the metric name, no ',' in the label
values — a '{' there is fine since the repair c09-14, see `metricNameOfOld_brace_counterexample` —, no ',' ':' '{' in label names; nothing about the grouping fields or about label names being
suffixes of each other — that part of the guard fell with the fix of ExtractGroupByFieldsFromSeriesId) -/
abbrev AllSafe (q : Query) (ss : List Series) : Prop := Lemmas.C09.AllSafe q ss

/-- guard: `count` with an EMPTY field list is judged only for `count by ()`/`count(…)` over pairwise
different label sets (computeAggCount puts everything under `name{`, also for `without ()`, and counts
distinct series ids) -/
abbrev CountOK (q : Query) (ss : List Series) : Prop := Lemmas.C09.CountOK q ss

/-- the same query with another aggregation function -/
abbrev withFn (q : Query) (fn : Fn) : Query := Lemmas.C09.withFn q fn

/-! ## 1. the group key taken from the series-id string -/

/-- C09.2 On `LabelSafe` inputs the key that `getAggSeriesId` cuts out of the series-id string is the
rendering of the PromQL group key computed from the label set — for ALL names, label sets, field lists,
`by` and `without`. (Label names may be suffixes of each other, the metric name may contain ':' as
recording-rule names do, values may contain ':' as `instance="host:9090"` does.) -/
theorem extract_eq_spec_of_safe (name : Str) (labels : Labels) (fields : List Str) (without : Bool)
    (h : LabelSafe name labels) :
    extractGroupKey fields without (seriesIdOf name labels)
      = render without name (specGroupKey fields without labels) :=
  Lemmas.C09.extract_eq_spec fields without (Lemmas.C09.safe_of_labelSafe h)

/-- … and on such inputs two series land under the same result key exactly when PromQL puts them into
the same group (nothing merged, nothing split). -/
theorem group_key_faithful (name : Str) (l1 l2 : Labels) (fields : List Str) (without : Bool)
    (h1 : LabelSafe name l1) (h2 : LabelSafe name l2) :
    extractGroupKey fields without (seriesIdOf name l1) = extractGroupKey fields without (seriesIdOf name l2)
      ↔ specGroupKey fields without l1 = specGroupKey fields without l2 :=
  Lemmas.C09.groupKey_eq_iff fields without (Lemmas.C09.safe_of_labelSafe h1) (Lemmas.C09.safe_of_labelSafe h2)

/-- the value found for a field is the value of the label with exactly that name -/
theorem extract_is_lookup (name : Str) (labels : Labels) (f : Str) (h : LabelSafe name labels) :
    fieldValue f (seriesIdOf name labels) = labels.lookup f :=
  Lemmas.C09.fieldValue_sid (Lemmas.C09.safe_of_labelSafe h) f

/-- C09.3 The unguarded statement is FALSE: a label VALUE containing `,b:` — `m{a="1,b:2"}` grouped
`by (b)` — is reported with `b="2"` although the series has no label `b`. -/
theorem extract_counterexample :
    ¬ (∀ (name : Str) (labels : Labels) (fields : List Str) (without : Bool),
        extractGroupKey fields without (seriesIdOf name labels)
          = render without name (specGroupKey fields without labels)) := by
  intro h
  exact absurd (h [109] [([97], [49, 44, 98, 58, 50])] [[98]] false) (by decide)

/-- … with the effect the property forbids: `m{a="1,b"}` and `m{a="1,c"}` belong to different groups of
`by (a)` but are merged under the key `m{a:1` (the value is cut at its comma). -/
theorem merge_counterexample :
    specGroupKey [[97]] false [([97], [49, 44, 98])] ≠ specGroupKey [[97]] false [([97], [49, 44, 99])]
    ∧ extractGroupKey [[97]] false (seriesIdOf [109] [([97], [49, 44, 98])])
        = extractGroupKey [[97]] false (seriesIdOf [109] [([97], [49, 44, 99])]) := by
  decide

/-- both directions of the damage a separator inside a value does: `by (b)` invents a label, and
`without (b)` drops the tail `b:2` of the value of `a`. -/
theorem value_separator_counterexample :
    extractGroupKey [[98]] false (seriesIdOf [109] [([97], [49, 44, 98, 58, 50])])
        ≠ render false [109] (specGroupKey [[98]] false [([97], [49, 44, 98, 58, 50])])
    ∧ extractGroupKey [[98]] true (seriesIdOf [109] [([97], [49, 44, 98, 58, 50])])
        ≠ render true [109] (specGroupKey [[98]] true [([97], [49, 44, 98, 58, 50])]) := by
  decide

/-- the guard is satisfiable, holds for the former witnesses of the repaired defects (label name `ba`
next to the field `a`; metric name `a:m` with field `a`), and excludes the witness above -/
example : LabelSafe [109] [([98, 97], [49]), ([97], [50])] := by decide
example : LabelSafe [97, 58, 109] [([98], [49]), ([97], [50])] := by decide
example : ¬ LabelSafe [109] [([97], [49, 44, 98, 58, 50])] := by decide
/-- a label value with '{' (route="/{i}") is inside the guard … -/
example : LabelSafe [109] [([114], [47, 123, 105, 125])] := by decide

/-- … because the metric name now ends at the FIRST "{" of the id; before the repair c09-14 the whole id
`m{r:/{i},` was taken for the metric name (known finding promql-group/value-contains-separator for '{', repaired). -/
theorem metricNameOfOld_brace_counterexample :
    metricNameOf (seriesIdOf [109] [([114], [47, 123, 105, 125])]) = [109] ∧
    metricNameOfOld (seriesIdOf [109] [([114], [47, 123, 105, 125])]) ≠ [109] := by decide
/-- regression witnesses: `m{ba="1",a="2"}` by (a) is `m{a:2`; `a:m{b="1",a="2"}` by (a) is `a:m{a:2` -/
example : extractGroupKey [[97]] false (seriesIdOf [109] [([98, 97], [49]), ([97], [50])]) = [109, 123, 97, 58, 50] := by
  decide
example : extractGroupKey [[97]] false (seriesIdOf [97, 58, 109] [([98], [49]), ([97], [50])]) = [97, 58, 109, 123, 97, 58, 50] := by
  decide

/-! ## 2. aggregation -/

/-- C09.1 `agg_correct`: for every query (sum/min/max/avg/count, by/without, any field list, any step),
every list of series and every bucket, the value the model reports under the key of a series' group is
the aggregate over the PromQL members of that group (`specAt`: members chosen by `specGroupKey` on the
label SETS; sum of sums, min of mins, max of maxes, number of members, pooled mean) — and the entry is
absent exactly when no member has a sample in the bucket. Guards: `LabelSafe` strings, and `CountOK`. -/
theorem agg_correct (q : Query) (ss : List Series) (hs : AllSafe q ss) (hc : CountOK q ss)
    (s0 : Series) (h0 : s0 ∈ ss) (t : Nat) :
    aggAt q ss (render q.without q.name (specGroupKey q.fields q.without s0.labels)) t
      = specAt q ss (specGroupKey q.fields q.without s0.labels) t :=
  Lemmas.C09.aggAt_eq_specAt hs hc h0 t

/-- … there are no other keys in the result: every (key, timestamp) of the result is the key of the
group of one of the series, -/
theorem agg_complete (q : Query) (ss : List Series) (hs : AllSafe q ss) (hc : CountOK q ss)
    (g : Str) (t : Nat) (h : (g, t) ∈ keys q ss) :
    ∃ s ∈ ss, g = render q.without q.name (specGroupKey q.fields q.without s.labels) :=
  Lemmas.C09.keys_are_spec hs hc h

/-- … and the printed result list is exactly the graph of `aggAt`. -/
theorem results_iff (q : Query) (ss : List Series) (g : Str) (t : Nat) (v : Rat) :
    (g, t, v) ∈ results q ss ↔ aggAt q ss g t = some v :=
  Lemmas.C09.mem_results_iff

/-- Without `CountOK` the statement is FALSE: `count without () (m)` over `m{a="1"}`, `m{a="2"}` must give
one group per series (value 1 each); the code reports a single series `m{` instead, nothing under the
key of `m{a="1"}` (known finding; the repo's own Test_GetResults_AggFn_Count and the OTSDB query parser,
which sets `Without` on every query, rely on this behaviour). -/
theorem count_without_empty_counterexample :
    ¬ (∀ (q : Query) (ss : List Series), AllSafe q ss → ∀ s0 ∈ ss, ∀ t,
        aggAt q ss (render q.without q.name (specGroupKey q.fields q.without s0.labels)) t
          = specAt q ss (specGroupKey q.fields q.without s0.labels) t) := by
  intro h
  have := h { fn := .count, without := true, fields := [], step := 10, name := [109] }
    [⟨[([97], [49])], [(5, 1)]⟩, ⟨[([97], [50])], [(6, 1)]⟩]
    (by intro s hs; simp at hs; rcases hs with rfl | rfl <;> decide) ⟨[([97], [49])], [(5, 1)]⟩ (by decide) 0
  revert this
  decide +kernel

/-- WITH patch c09-26 `count(m)` counts every series, also series that share one id (the ids carry only the labels of
the query's filters, and "*" for a regex on the metric name): two series with one label set are counted twice, as the
statement demands (`agg_correct` no longer asks for pairwise different label sets). -/
example :
    aggAt { fn := .count, without := false, fields := [], step := 10, name := [109] }
      [⟨[([97], [49])], [(5, 1)]⟩, ⟨[([97], [49])], [(6, 1)]⟩] [109, 123] 0 = some 2 := by
  decide +kernel

/-- OLD behaviour (before patch c09-26) REFUTED: `count(m)` over two series under the SAME id (two TSIDs whose ids
show one label set) counted them once. -/
theorem count_duplicate_ids_old_counterexample :
    ¬ (∀ (q : Query) (ss : List Series), AllSafe q ss → ∀ s0 ∈ ss, ∀ t,
        aggAtOld q ss (render q.without q.name (specGroupKey q.fields q.without s0.labels)) t
          = specAt q ss (specGroupKey q.fields q.without s0.labels) t) := by
  intro h
  have := h { fn := .count, without := false, fields := [], step := 10, name := [109] }
    [⟨[([97], [49])], [(5, 1)]⟩, ⟨[([97], [49])], [(6, 1)]⟩]
    (by intro s hs; simp at hs; rcases hs with rfl | rfl <;> decide) ⟨[([97], [49])], [(5, 1)]⟩ (by decide) 0
  revert this
  decide +kernel

example : CountOK { fn := .count, without := false, fields := [], step := 10, name := [109] }
    [⟨[([97], [49])], [(5, 1)]⟩, ⟨[([97], [49])], [(6, 1)]⟩] := by
  intro _ _; rfl

/-! ## 3. relations between the aggregation functions (any strings, no label guard) -/

/-- C09.4 min ≤ avg ≤ max for every group key and bucket of every input. -/
theorem min_le_avg_le_max (q : Query) (ss : List Series) (g : Str) (t : Nat) (mn a mx : Rat)
    (hmin : aggAt (withFn q .min) ss g t = some mn) (havg : aggAt (withFn q .avg) ss g t = some a)
    (hmax : aggAt (withFn q .max) ss g t = some mx) : mn ≤ a ∧ a ≤ mx := by
  rw [Lemmas.C09.aggAt_noncount (by simp [Lemmas.C09.withFn])] at hmin havg hmax
  rw [Lemmas.C09.members_withFn (f1 := .min) (f2 := .avg) (by decide) (by decide)] at hmin
  rw [Lemmas.C09.members_withFn (f1 := .max) (f2 := .avg) (by decide) (by decide)] at hmax
  cases hm : (Lemmas.C09.members (Lemmas.C09.withFn q .avg) ss g t).isEmpty with
  | true => simp [hm] at havg
  | false =>
    simp only [hm, Bool.false_eq_true, if_false, Option.some.injEq] at hmin havg hmax
    subst hmin havg hmax
    exact Lemmas.C09.min_avg_max_members q.step t _ (by simpa using hm)
      (fun s m => Lemmas.C09.members_samples_ne_nil (q := Lemmas.C09.withFn q .avg) m)

/-- C09.4 avg = sum / count whenever there are grouping fields and every series has at most one sample
per bucket (`SingleSample`) — for ANY label strings. -/
theorem avg_eq_sum_div_count (q : Query) (ss : List Series) (hf : q.fields ≠ []) (h1 : SingleSample q ss)
    (g : Str) (t : Nat) (a s c : Rat)
    (havg : aggAt (withFn q .avg) ss g t = some a) (hsum : aggAt (withFn q .sum) ss g t = some s)
    (hcnt : aggAt (withFn q .count) ss g t = some c) : a = s / c := by
  rw [Lemmas.C09.aggAt_noncount (by simp [Lemmas.C09.withFn])] at havg hsum
  rw [Lemmas.C09.aggAt_count_fields (q := Lemmas.C09.withFn q .count) rfl hf] at hcnt
  rw [Lemmas.C09.members_count_fields hf .avg] at havg
  rw [Lemmas.C09.members_count_fields hf .sum] at hsum
  cases hm : (Lemmas.C09.members (Lemmas.C09.withFn q .count) ss g t).isEmpty with
  | true => simp [hm] at havg
  | false =>
    simp only [hm, Bool.false_eq_true, if_false, Option.some.injEq] at havg hsum hcnt
    subst havg hsum hcnt
    apply Lemmas.C09.avg_sum_count_members
    · exact fun s m => Lemmas.C09.members_samples_ne_nil (q := Lemmas.C09.withFn q .count) m
    · intro s m
      exact h1 s (List.mem_filter.1 m).1

/-- … and for an empty field list (`avg(m)`, `sum(m)`, `count(m)`) on `LabelSafe` label sets. -/
theorem avg_eq_sum_div_count_nofields (q : Query) (ss : List Series) (hs : AllSafe q ss)
    (hc : CountOK (withFn q .count) ss) (h1 : SingleSample q ss) (s0 : Series) (h0 : s0 ∈ ss) (t : Nat) (a s c : Rat)
    (havg : aggAt (withFn q .avg) ss (render q.without q.name (specGroupKey q.fields q.without s0.labels)) t = some a)
    (hsum : aggAt (withFn q .sum) ss (render q.without q.name (specGroupKey q.fields q.without s0.labels)) t = some s)
    (hcnt : aggAt (withFn q .count) ss (render q.without q.name (specGroupKey q.fields q.without s0.labels)) t = some c) :
    a = s / c := by
  have e1 := Lemmas.C09.aggAt_eq_specAt (q := Lemmas.C09.withFn q .avg) (ss := ss) hs
    (by intro h; cases h) h0 t
  have e2 := Lemmas.C09.aggAt_eq_specAt (q := Lemmas.C09.withFn q .sum) (ss := ss) hs
    (by intro h; cases h) h0 t
  have e3 := Lemmas.C09.aggAt_eq_specAt (q := Lemmas.C09.withFn q .count) (ss := ss) hs hc h0 t
  simp only [Lemmas.C09.withFn] at e1 e2 e3 havg hsum hcnt
  rw [e1] at havg; rw [e2] at hsum; rw [e3] at hcnt
  simp only [specAt] at havg hsum hcnt
  have hsame : ∀ fn, specMembers { q with fn := fn } ss (specGroupKey q.fields q.without s0.labels) t
      = specMembers q ss (specGroupKey q.fields q.without s0.labels) t := fun _ => rfl
  simp only [hsame] at havg hsum hcnt
  cases hm : (specMembers q ss (specGroupKey q.fields q.without s0.labels) t).isEmpty with
  | true => simp [hm] at havg
  | false =>
    simp only [hm, Bool.false_eq_true, if_false, Option.some.injEq] at havg hsum hcnt
    subst havg hsum hcnt
    apply Lemmas.C09.avg_sum_count_members
    · intro s m
      have := (List.mem_filter.1 m).2
      simp only [Bool.and_eq_true, Bool.not_eq_true', List.isEmpty_eq_false_iff] at this
      exact this.2
    · intro s m
      exact h1 s (List.mem_filter.1 m).1

/-- Without `SingleSample` the statement is FALSE: one series `m` with the samples 1 and 3 in one bucket
gives avg = 2, sum = 4, count = 1 (the downsampler folds a bucket with the query's own function: `sum`
adds the samples up, `avg` takes their mean, `count` counts series). -/
theorem avg_multi_sample_counterexample :
    ¬ (∀ (q : Query) (ss : List Series) (g : Str) (t : Nat) (a s c : Rat),
        aggAt (withFn q .avg) ss g t = some a → aggAt (withFn q .sum) ss g t = some s →
        aggAt (withFn q .count) ss g t = some c → a = s / c) := by
  intro h
  have := h { fn := .avg, without := false, fields := [], step := 10, name := [109] } [⟨[], [(1, 1), (2, 3)]⟩]
    [109, 123] 0 2 4 1 (by decide +kernel) (by decide +kernel) (by decide +kernel)
  revert this
  decide +kernel

example : SingleSample { fn := .avg, without := false, fields := [], step := 10, name := [109] }
    [⟨[], [(1, 1), (12, 3)]⟩] := by
  intro s hs
  simp at hs
  subst hs
  decide

/-! ## 4. grouping by all labels is the identity -/

/-- C09.4 If the `by` list contains every label name of every series (label names unique within a
series), the members of a series' group are
exactly the series with the SAME LABEL SET (in a store with one series per label set: itself), so each
output series is one input series. `without ()` is the identity literally. -/
theorem group_by_all_labels_id (q : Query) (ss : List Series) (hby : q.without = false)
    (hnd : ∀ s ∈ ss, (s.labels.map (·.1)).Nodup)
    (hall : ∀ s ∈ ss, ∀ kv ∈ s.labels, kv.1 ∈ q.fields) (s0 : Series) (h0 : s0 ∈ ss) (t : Nat) :
    specMembers q ss (specGroupKey q.fields q.without s0.labels) t
      = ss.filter (fun s => sameLabelSet s.labels s0.labels && !(samplesAt q.step t s.pts).isEmpty) := by
  unfold specMembers
  apply List.filter_congr
  intro s hm
  congr 1
  rw [hby]
  have := Lemmas.C09.spec_by_all_eq_iff (hnd s hm) (hnd s0 h0) (hall s hm) (hall s0 h0)
  by_cases e : specGroupKey q.fields false s.labels = specGroupKey q.fields false s0.labels
  · have h2 : sameLabelSet s.labels s0.labels = true := Lemmas.C09.sameLabelSet_iff.2 (this.1 e)
    simp [e, h2]
  · have h2 : sameLabelSet s.labels s0.labels = false := by
      cases hsl : sameLabelSet s.labels s0.labels with
      | false => rfl
      | true => exact absurd (this.2 (Lemmas.C09.sameLabelSet_iff.1 hsl)) e
    simp [e, h2]

theorem group_without_nothing_id (labels : Labels) : specGroupKey [] true labels = labels := by
  simp [specGroupKey, List.filter_eq_self]

/-! ## 5. downsampling buckets -/

/-- C09.5 `(ts / step) * step` is the start of the step-aligned window containing `ts`. -/
theorem bucket_floor (ts step : Nat) (h : 0 < step) :
    bucket ts step ≤ ts ∧ ts < bucket ts step + step ∧ step ∣ bucket ts step :=
  ⟨Lemmas.C09.bucket_le ts step, Lemmas.C09.lt_bucket_add ts h, Lemmas.C09.dvd_bucket ts step⟩

/-- two timestamps share a bucket iff they lie in the same aligned window -/
example : bucket 119 60 = 60 ∧ bucket 120 60 = 120 ∧ bucket 59 60 = 0 := by decide

/-! ## 6. binary operators between two result vectors match label sets

Model: SigModel/Model/PromqlBin.lean (HelperQueryArithmeticAndLogical, vector–vector, no on()/ignoring(), with the
repair c09-15 and the pending repairs c09-19 / c09-20), tied by the suite `promqlbin`.  A group id is the metric name followed by the label part; the
code cuts the id at len(MetricName) and compares the label parts in a canonical form (`canonLabel`: items sorted, no
empty items), so that neither the order of the labels nor a comma behind the last one matters. -/

section binop
open SigModel.PromqlBin

/-- C09.6a the cut (labelPartOfGroupID, repair c09-25) returns the label part for EVERY metric name and EVERY label
part that is empty or begins with '{' — any bytes behind it, also `{ } , : = "` inside label values, and a metric name
that contains '{' (the seeded alternative, splitting the id on '{', does not). -/
theorem cutLabel_is_label_part (name part : Str) (hp : partOK part) : cutLabel? name (name ++ part) = some part :=
  Lemmas.C09bin.cutLabel?_append name part hp

/-- … and an id that starts with ANOTHER metric name — the ids of a vector that comes from `a or b` — is cut at its
first '{': `http_requests{dc:x,` in a vector filed under `http` gives `{dc:x,`; slicing at the length of the vector's
name (before c09-25, which name that was depended on Go's map order) gave `_requests{dc:x,`.
("h" 104 "t" 116 "p" 112 "_" 95 "r" 114 "{" 123 "d" 100 "c" 99 ":" 58 "x" 120 "," 44) -/
theorem cutLabel_other_name_witness :
    cutLabel? [104, 116, 116, 112] [104, 116, 116, 112, 95, 114, 123, 100, 99, 58, 120, 44] = some [123, 100, 99, 58, 120, 44] ∧
    cutLabel [104, 116, 116, 112] [104, 116, 116, 112, 95, 114, 123, 100, 99, 58, 120, 44] = [95, 114, 123, 100, 99, 58, 120, 44] := by
  decide

/-- C09.6b arithmetic, comparison and `and` (every operator but or / unless), for ALL left vectors and all right
vectors whose ids are the right metric name followed by a label part (and are not empty): the answer holds exactly
the left series whose label part has the same canonical form as the label part of some right series — whatever bytes
the label parts contain and whatever the two metric names are. -/
theorem binop_matches_label_sets (op : Op) (b : Bool) (l r : Res) (hop : op ≠ .or ∧ op ≠ .unless)
    (hr : wellFormed r) (hne : ([] : Str) ∉ vecIds r) (part : Str) (hp : partOK part) :
    l.name ++ part ∈ outIds (binop op b l r) ↔
      l.name ++ part ∈ vecIds l ∧ ∃ q, r.name ++ q ∈ vecIds r ∧ partOK q ∧ canonLabel q = canonLabel part := by
  rw [Lemmas.C09bin.mem_binop_match op b l r hop hne, Lemmas.C09bin.cutLabel?_append _ _ hp]
  constructor
  · rintro ⟨h1, p, hpe, rid, hrid, hc⟩
    obtain ⟨q, rfl, hq⟩ := hr rid hrid
    rw [Lemmas.C09bin.cutLabel?_append _ _ hq] at hc
    have : p = part := (Option.some.inj hpe).symm
    subst this
    exact ⟨h1, q, hrid, hq, by simpa using hc⟩
  · rintro ⟨h1, q, hq, hqok, hc⟩
    refine ⟨h1, part, rfl, r.name ++ q, hq, ?_⟩
    rw [Lemmas.C09bin.cutLabel?_append _ _ hqok]
    simp [hc]

/-- … and nothing else is in the answer: every answer id is a left id. -/
theorem binop_ids_are_left_ids (op : Op) (b : Bool) (l r : Res) (hop : op ≠ .or ∧ op ≠ .unless)
    (hne : ([] : Str) ∉ vecIds r) (id : Str) (h : id ∈ outIds (binop op b l r)) : id ∈ vecIds l :=
  ((Lemmas.C09bin.mem_binop_match op b l r hop hne id).1 h).1

/-- C09.6c PER TIMESTAMP (repair c09-19): a sample of arithmetic / comparison / `and` is written only at a timestamp
that BOTH the left series and its partner series have — a missing right sample is never read as a value. -/
theorem binop_sample_needs_both (op : Op) (b : Bool) (pl : Pts) (rp : Option Pts) (hop : op ≠ .or ∧ op ≠ .unless)
    (t : Nat) (v : Val) (h : (t, v) ∈ leftPts op b pl rp) :
    (∃ x, (t, x) ∈ pl) ∧ ∃ q, rp = some q ∧ (ptAt? q t).isSome :=
  Lemmas.C09bin.leftPts_needs_both op b pl rp hop t v h

/-- … before the repair the partner was read as 0 where it has no sample: a{} = 5 at t = 10, b{} only at t = 20: `a + b` used
to hold 5 at 10, `a * b` used to hold 0 (known finding binop-one-sided-timestamp, repaired). -/
theorem leftPtsOld_reads_zero_counterexample :
    leftPtsOld .add false [(10, 5)] (some [(20, 1)]) = [(10, Val.num 5)] ∧
    leftPtsOld .mul false [(10, 5)] (some [(20, 1)]) = [(10, Val.num 0)] ∧
    leftPts .add false [(10, 5)] (some [(20, 1)]) = [] := by
  decide +kernel

/-- C09.6d `a and b` and `a unless b` PARTITION the SAMPLES of a left series that has a partner: `and` keeps the samples
at the timestamps the partner has, `unless` those at the timestamps it does not have (all of them without a partner:
`Lemmas.C09bin.leftPts_unless_none`); every left sample is in exactly one of the two. -/
theorem and_unless_partition (b : Bool) (pl rp : Pts) (p : Nat × Int) (hp : p ∈ pl) :
    ((p.1, Val.num (p.2 : Rat)) ∈ leftPts .and b pl (some rp) ∨ (p.1, Val.num (p.2 : Rat)) ∈ leftPts .unless b pl (some rp)) ∧
    ¬ ((p.1, Val.num (p.2 : Rat)) ∈ leftPts .and b pl (some rp) ∧ (p.1, Val.num (p.2 : Rat)) ∈ leftPts .unless b pl (some rp)) := by
  rw [Lemmas.C09bin.leftPts_and, Lemmas.C09bin.leftPts_unless_some]
  simp only [List.mem_map, List.mem_filter]
  constructor
  · cases h : ptAt? rp p.1 with
    | none => exact Or.inr ⟨p, ⟨hp, by simp [h]⟩, rfl⟩
    | some y => exact Or.inl ⟨p, ⟨hp, by simp [h]⟩, rfl⟩
  · rintro ⟨⟨q, ⟨_, hq⟩, hqe⟩, ⟨q', ⟨_, hq'⟩, hqe'⟩⟩
    have e1 : q.1 = p.1 := by simpa using congrArg Prod.fst hqe
    have e2 : q'.1 = p.1 := by simpa using congrArg Prod.fst hqe'
    rw [e1] at hq
    rw [e2] at hq'
    cases h : ptAt? rp p.1 <;> simp [h] at hq hq'

/-- C09.6e the entries of `a unless b`: every left series with the samples `unless` keeps, minus the series that keep none
(the id-level statement of before — "the left series whose label set does not occur on the right" — described the
per-series decision of the unrepaired code). -/
theorem unless_entries (b : Bool) (l r : Res) :
    binop .unless b l r =
      (l.series.map (fun e => (e.1, leftPts .unless b e.2 (lookupPts r.series (partnerId l.name (rKey r) e.1))))).filter
        (fun e => !e.2.isEmpty) := by
  rw [Lemmas.C09bin.binop_unless_eq]
  congr 1
  simp only [leftPass, beq_self_eq_true, Bool.or_true, if_true]
  induction l.series with
  | nil => rfl
  | cons e t ih => simp [ih]

/-- C09.6f x / 0 is ±Inf, 0 / 0 is NaN (repair c09-20; the sample used to be dropped). -/
theorem div_by_zero_kept (b : Bool) (x : Int) :
    setFinal .div b x 0 = some (if x = 0 then Val.nan else Val.inf (x < 0)) := by
  simp [setFinal]

/-- the canonical form does not see the order of the labels nor a comma behind the last one:
`{k:v,dc:x,`  `{dc:x,k:v,`  `{dc:x,k:v`  ("k" = 107, "v" = 118, "d" = 100, "c" = 99, "x" = 120) … -/
example : canonLabel [123, 107, 58, 118, 44, 100, 99, 58, 120, 44] = canonLabel [123, 100, 99, 58, 120, 44, 107, 58, 118, 44] ∧
          canonLabel [123, 100, 99, 58, 120, 44, 107, 58, 118, 44] = canonLabel [123, 100, 99, 58, 120, 44, 107, 58, 118] := by
  decide +kernel

/-- … while the comparison of id STRINGS before the repair c09-15 missed the partner as soon as one operand carried a
matcher on `k` (its ids then start with `k:`): a{k:v,dc:x, looks for b{k:v,dc:x, and the right vector has b{dc:x,k:v,
(known findings binop-label-order / binop-trailing-comma, repaired). -/
theorem partnerIdOld_label_order_counterexample :
    partnerIdOld [97] [98] [97, 123, 107, 58, 118, 44, 100, 99, 58, 120, 44] ≠ [98, 123, 100, 99, 58, 120, 44, 107, 58, 118, 44] ∧
    partnerId [97] ([98], [[98, 123, 100, 99, 58, 120, 44, 107, 58, 118, 44]]) [97, 123, 107, 58, 118, 44, 100, 99, 58, 120, 44]
      = [98, 123, 100, 99, 58, 120, 44, 107, 58, 118, 44] := by
  decide +kernel

/-- non-vacuity / the seeded input class: hits{route:/api/{id}, on both sides is matched (label value with '{');
bytes: "h" = 104, "e" = 101, "{/{x}," abbreviated as [123, 47, 123, 120, 125, 44]. -/
example :
    outIds (binop .div false
      { name := [104], series := [([104, 123, 47, 123, 120, 125, 44], [(10, 40)])] }
      { name := [101], series := [([101, 123, 47, 123, 120, 125, 44], [(10, 4)])] }) = [[104, 123, 47, 123, 120, 125, 44]] := by
  decide +kernel

end binop

/-! ## 7. the end-to-end SPECIFICATION of binary operators (Spec/Metrics.lean `evalVV`, `evalExpr`): one-to-one matching
on the matching labels (all / on(…) / ignoring(…)), evaluated per timestamp -/

section specbin
open SigModel.Spec.Metrics

/-- S0 the matching key: default = the whole label set; `ignoring ()` = default; a pair is in the `on` key iff it is a
pair of the element whose label is listed, in the `ignoring` key iff its label is not listed (the two keys split the label set). -/
theorem vmatch_default_key (ls : List (String × String)) : VMatch.default.key ls = ls := rfl

theorem vmatch_ignoring_nil (ls : List (String × String)) : (VMatch.ignoring []).key ls = ls := by
  simp [VMatch.key]

theorem vmatch_on_mem (ks : List String) (ls : List (String × String)) (kv : String × String) :
    kv ∈ (VMatch.on ks).key ls ↔ kv ∈ ls ∧ kv.1 ∈ ks := by
  simp [VMatch.key, List.mem_filter]

theorem vmatch_ignoring_mem (ks : List String) (ls : List (String × String)) (kv : String × String) :
    kv ∈ (VMatch.ignoring ks).key ls ↔ kv ∈ ls ∧ kv.1 ∉ ks := by
  simp [VMatch.key, List.mem_filter]

/-- the partner of an element is an element of the other vector with the same matching key … -/
theorem spec_partner_sound (m : VMatch) (r : List XElem) (x y : XElem) (h : findPartner m r x = some y) :
    y ∈ r ∧ m.key y.1 = m.key x.1 := by
  simp only [findPartner] at h
  exact ⟨List.mem_of_find?_eq_some h, by simpa using List.find?_some h⟩

/-- … and it is unique when the keys of that vector are pairwise different (one-to-one matching: a partial bijection
between the keys of the two vectors); `evalExpr` is undefined otherwise. -/
theorem spec_partner_unique (m : VMatch) (r : List XElem) (hnd : (r.map (fun e => m.key e.1)).Nodup) (y y' : XElem)
    (hy : y ∈ r) (hy' : y' ∈ r) (h : m.key y.1 = m.key y'.1) : y = y' := by
  induction r with
  | nil => cases hy
  | cons a t ih =>
    simp only [List.map_cons, List.nodup_cons, List.mem_map, not_exists, not_and] at hnd
    rcases List.mem_cons.1 hy with rfl | hy1 <;> rcases List.mem_cons.1 hy' with rfl | hy2
    · rfl
    · exact absurd h.symm (hnd.1 y' hy2)
    · exact absurd h (hnd.1 y hy1)
    · exact ih hnd.2 hy1 hy2

/-- S1 arithmetic, comparison and `and`, under every matching clause: the result label sets are exactly the left label
sets that have a partner (in left order). -/
theorem spec_labels (m : VMatch) (op : BinOp) (b : Bool) (l r : List XElem) (hop : op ≠ .or ∧ op ≠ .unless) :
    (evalVV m op b l r).map (·.1) = (l.filter (fun x => (findPartner m r x).isSome)).map (·.1) := by
  have h1 : (op == BinOp.or) = false := by simp [hop.1]
  have h2 : (op == BinOp.unless) = false := by simp [hop.2]
  simp only [evalVV, h1, Bool.false_eq_true, if_false, List.append_nil]
  induction l with
  | nil => rfl
  | cons x t ih =>
    cases h : findPartner m r x <;> simp [leftEntry, h, h1, h2, ih]

/-- S2 PER TIMESTAMP: a result sample of arithmetic / comparison / `and` at time t needs a sample of BOTH matched
elements at t — a missing right sample is never read as a value (the engine used to read it as 0). -/
theorem spec_sample_needs_both (op : BinOp) (b : Bool) (x y : XElem) (hop : op ≠ .or ∧ op ≠ .unless)
    (t : Nat) (p : BinPt) (h : (t, p) ∈ matchedPts op b x y) :
    (∃ px, (t, px) ∈ x.2) ∧ (ptAt y t).isSome := by
  have key : ∀ (f : Nat × BinPt → Option (Nat × BinPt)),
      (∀ q r, f q = some r → r.1 = q.1 ∧ (ptAt y q.1).isSome) → (t, p) ∈ x.2.filterMap f →
      (∃ px, (t, px) ∈ x.2) ∧ (ptAt y t).isSome := by
    intro f hf hm
    obtain ⟨q, hq, hfq⟩ := List.mem_filterMap.1 hm
    obtain ⟨h1, h2⟩ := hf q _ hfq
    simp only at h1
    subst h1
    exact ⟨⟨q.2, hq⟩, h2⟩
  cases op <;> simp only [matchedPts] at h <;> first
    | exact absurd rfl hop.1
    | exact absurd rfl hop.2
    | (refine key _ ?_ h
       rintro ⟨t', px⟩ r hr
       simp only at hr
       cases hy : ptAt y t' with
       | none => simp [hy] at hr
       | some py =>
         simp only [hy] at hr
         first
           | (obtain ⟨p', _, rfl⟩ := Option.map_eq_some_iff.1 hr; exact ⟨rfl, rfl⟩)
           | (cases py <;> simp at hr <;> subst hr <;> exact ⟨rfl, rfl⟩))

/-- S3 `and` and `unless` PARTITION the samples of a matched left element (right element without unjudged samples):
a left sample is kept by `and` iff the right element has a sample at its timestamp, by `unless` iff it has none. -/
theorem spec_and_sample (b : Bool) (x y : XElem) (hy : ∀ q ∈ y.2, q.2 ≠ BinPt.open) (t : Nat) (p : BinPt) :
    (t, p) ∈ matchedPts .and b x y ↔ (t, p) ∈ x.2 ∧ (ptAt y t).isSome := by
  have hopen : ∀ t', ptAt y t' ≠ some BinPt.open := by
    intro t' h
    simp only [ptAt, Option.map_eq_some_iff] at h
    obtain ⟨q, hq, hq2⟩ := h
    exact hy q (List.mem_of_find?_eq_some hq) hq2
  simp only [matchedPts, List.mem_filterMap]
  constructor
  · rintro ⟨⟨t', px⟩, hq, hf⟩
    simp only at hf
    cases hpy : ptAt y t' with
    | none => simp [hpy] at hf
    | some py =>
      cases py <;> simp [hpy] at hf <;> first
        | exact absurd hpy (hopen t')
        | (obtain ⟨rfl, rfl⟩ := hf; exact ⟨hq, by simp [hpy]⟩)
  · rintro ⟨hq, hs⟩
    refine ⟨(t, p), hq, ?_⟩
    simp only
    cases hpy : ptAt y t with
    | none => simp [hpy] at hs
    | some py => cases py <;> first | exact absurd hpy (hopen t) | rfl

theorem spec_unless_sample (b : Bool) (x y : XElem) (hy : ∀ q ∈ y.2, q.2 ≠ BinPt.open) (t : Nat) (p : BinPt) :
    (t, p) ∈ matchedPts .unless b x y ↔ (t, p) ∈ x.2 ∧ ptAt y t = none := by
  have hopen : ∀ t', ptAt y t' ≠ some BinPt.open := by
    intro t' h
    simp only [ptAt, Option.map_eq_some_iff] at h
    obtain ⟨q, hq, hq2⟩ := h
    exact hy q (List.mem_of_find?_eq_some hq) hq2
  simp only [matchedPts, List.mem_filterMap]
  constructor
  · rintro ⟨⟨t', px⟩, hq, hf⟩
    simp only at hf
    cases hpy : ptAt y t' with
    | none =>
      simp [hpy] at hf
      obtain ⟨rfl, rfl⟩ := hf
      exact ⟨hq, hpy⟩
    | some py =>
      cases py <;> simp [hpy] at hf
      exact absurd hpy (hopen t')
  · rintro ⟨hq, hs⟩
    exact ⟨(t, p), hq, by simp [hs]⟩

theorem spec_and_unless_partition (b : Bool) (x y : XElem) (hy : ∀ q ∈ y.2, q.2 ≠ BinPt.open) (t : Nat) (p : BinPt)
    (hx : (t, p) ∈ x.2) :
    ((t, p) ∈ matchedPts .and b x y ∨ (t, p) ∈ matchedPts .unless b x y) ∧
    ¬ ((t, p) ∈ matchedPts .and b x y ∧ (t, p) ∈ matchedPts .unless b x y) := by
  rw [spec_and_sample b x y hy, spec_unless_sample b x y hy]
  cases h : ptAt y t <;> simp [hx]

/-- S4 `unless` keeps a left element without partner with all its samples. -/
theorem spec_unless_keeps (m : VMatch) (b : Bool) (l r : List XElem) (x : XElem) (hx : x ∈ l) (hn : findPartner m r x = none) :
    x ∈ evalVV m .unless b l r := by
  simp only [evalVV, List.mem_append, List.mem_filterMap]
  exact Or.inl ⟨x, hx, by simp [leftEntry, hn]⟩

/-- S5 a division by zero is judged, not dropped: +Inf, -Inf, NaN (integers below 2^20). -/
theorem spec_div_zero (b : Bool) (x : Int) (hx : x.natAbs < 2 ^ 20) :
    applyOp .div b (x : Rat) 0 = some (if x = 0 then BinPt.nan else BinPt.inf (x < 0)) := by
  have h1 : ratIsInt (x : Rat) = true := by simp [ratIsInt, pow2, hx]
  have h2 : ratIsInt (0 : Rat) = true := by simp [ratIsInt, pow2]
  simp only [applyOp, applyOpK, h1, h2, Bool.and_self, Bool.not_true, Bool.false_eq_true, if_false]
  by_cases h0 : x = 0
  · subst h0; simp
  · have : ((x : Rat) == 0) = false := by simp [h0]
    simp only [this, h0, Bool.false_eq_true, if_false]
    congr 2
    have : ((x : Rat) < 0) ↔ x < 0 := by exact_mod_cast Iff.rfl
    simp [this]

/-- non-vacuity: a{} has a sample at 10 only, b{} at 20 only: `a + b` is empty (it used to be 5 at 10), `a unless b`
is a, `a or b` holds both samples. -/
example : evalVV .default .add false [([], [(10, .val 5)])] [([], [(20, .val 1)])] = [([], [])] ∧
          evalVV .default .unless false [([], [(10, .val 5)])] [([], [(20, .val 1)])] = [([], [(10, .val 5)])] ∧
          evalVV .default .or false [([], [(10, .val 5)])] [([], [(20, .val 1)])] = [([], [(10, .val 5)]), ([], [(20, .val 1)])] := by
  decide +kernel

/-- on(host): c{host=h-1,route=/api} and d{host=h-1,dc=eu} match although their label sets differ -/
example : (evalVV (.on ["host"]) .div false [([("host", "h-1"), ("route", "/api")], [(10, .val 10)])]
                                         [([("dc", "eu"), ("host", "h-1")], [(10, .val 2)])]).map (·.1)
          = [[("host", "h-1"), ("route", "/api")]] := by
  decide +kernel

end specbin

end SigModel.Props.C09
