/-
C12 — Trace views agree with the ingested spans.
Property theorems only.
§1–4 (kernels) are about the Lean model `SigModel.Trace` (Model/Trace.lean), which mirrors `BuildSpanTree`,
`FindPercentileData`/`quickSelect`, the fold of `MakeTracesDependancyGraph` and the fold of
`ProcessRedTracesIngest`; tied to /repo by the correspondence suite `trace`.
§5–8 (end to end) are about `SigModel.TraceE2E` (Model/TraceE2E.lean): the loop of `ProcessTraceIngest` with
`spanToJson`, the three result-paging loops (records decoded one by one), the pages of the trace listing with its
distinct span counts, the dependency graph and the RED collector; tied to /repo by the suite `tracee2e`, which
drives the real ingest and the four real views.

NOT covered here (see `partial` in lib/props.py): the engine's evaluation of the SPL queries the handlers
generate.

Vocabulary (Lemmas/C12c.lean, C12d.lean, C12b.lean):
  `wellFormed spans`    unique non-empty ids, every span has a parent entry, exactly one span without parent,
                        every parent chain reaches it (decidable, `Bool`)
  `par m x`             the parent link BuildSpanTree follows for span id `x` in the map `m`
  `up m k x`            k-th ancestor of `x` along `par`
  `crossPairs spans a b` number of (parent span, child span) pairs with services `a`, `b`
  `lerp s k`            the interpolation formula of FindPercentileData on the sorted array `s` at index `k`
-/
import SigModel.Model.Trace
import SigModel.Lemmas.C12b
import SigModel.Lemmas.C12d
import SigModel.Lemmas.C12e
import SigModel.Lemmas.C12f
import SigModel.Lemmas.C12g
import SigModel.Lemmas.C12h
import SigModel.Lemmas.C12i

namespace SigModel.Props.C12
open SigModel.Trace SigModel.TraceE2E SigModel.Lemmas.C12 List

/-! ## 1. span tree -/

/-- C12.1 For every well-formed trace (any order of the spans, any start times — clock skew included) the
view is produced, contains every span exactly once (the rendered ids are a permutation of the span ids)
and every span other than the root is listed directly beneath its own parent; the root pair is first. -/
theorem tree_each_span_once (spans : List Span) (pick : Nat) (h : wellFormed spans = true) :
    ∃ view, treeView spans pick = some view ∧
      (view.map Prod.snd) ~ (spans.map (·.id)) ∧
      (∀ e ∈ view, ∃ s ∈ spans, s.id = e.2 ∧ s.parent = e.1) := by
  obtain ⟨view, r, hv, hrm, hr0, _, hreach, hpick⟩ := wellFormed_view h pick
  obtain ⟨hnd, _, _, _⟩ := wellFormed_parts h
  have hm : toMap spans = spans := toMap_of_nodup hnd
  obtain ⟨r', _, _, _, _, hp', _, hvn, hmem, hedge⟩ := view_facts hv
  rw [hm] at hp' hmem hedge
  have : r' = r := by rw [hpick] at hp'; exact (Option.some.inj hp').symm
  subst this
  refine ⟨view, hv, ?_, ?_⟩
  · rw [perm_ext_iff_of_nodup hvn hnd]
    intro x
    rw [hmem]
    constructor
    · rintro ⟨k, _, hu⟩
      exact up_mem_ids hu (mem_map.2 ⟨r', hrm, rfl⟩)
    · intro hx
      obtain ⟨s, hs, rfl⟩ := mem_map.1 hx
      exact hreach s hs
  · intro e he
    rcases hedge e he with rfl | hp
    · exact ⟨r', hrm, rfl, hr0⟩
    · obtain ⟨s, hs, hid, hpar, _⟩ := par_some_mem hp
      exact ⟨s, hs, hid, hpar⟩

/-- C12.1b (every input, malformed included) Whatever view is returned: no span is rendered twice, every
rendered span is a span of this trace, and every rendered parent/child pair is a real parent link of this
trace (nothing is attributed to a span it does not belong to).  In particular the part of the pointer graph
reachable from the returned root is a finite tree, so marshalling it terminates. -/
theorem tree_view_sound (spans : List Span) (pick : Nat) (view : List (Nat × Nat))
    (h : treeView spans pick = some view) :
    (view.map Prod.snd).Nodup ∧
    (∀ x ∈ view.map Prod.snd, x ∈ (toMap spans).map (·.id)) ∧
    (∃ r ∈ toMap spans, r.parent = 0 ∧ r.noEntry = false ∧ view.head? = some (0, r.id) ∧
      ∀ e ∈ view, e = (0, r.id) ∨
        ∃ s ∈ toMap spans, s.id = e.2 ∧ s.parent = e.1 ∧ e.1 ≠ 0 ∧ ∃ q ∈ toMap spans, q.id = e.1) := by
  obtain ⟨r, hrm, hre, hr0, _, _, hhead, hvn, hmem, hedge⟩ := view_facts h
  refine ⟨hvn, ?_, r, hrm, hr0, hre, hhead, ?_⟩
  · intro x hx
    obtain ⟨k, _, hu⟩ := (hmem x).1 hx
    exact up_mem_ids hu (mem_map.2 ⟨r, hrm, rfl⟩)
  · intro e he
    rcases hedge e he with h1 | h1
    · exact Or.inl h1
    · obtain ⟨s, hs, hid, hpar, _, hne, hq⟩ := par_some_mem h1
      exact Or.inr ⟨s, hs, hid, hpar, hne, hq⟩

/-- C12.4a exact content of the view for EVERY input: a span is rendered iff its chain of parent links
(entry present, parent id non-empty, parent in the map) reaches the chosen root. -/
theorem tree_view_reachable_iff (spans : List Span) (pick : Nat) (view : List (Nat × Nat))
    (h : treeView spans pick = some view) :
    ∃ r, pickRoot (toMap spans) pick = some r ∧
      ∀ x, x ∈ view.map Prod.snd ↔ ∃ k, k ≤ (toMap spans).length ∧ up (toMap spans) k x = some r.id := by
  obtain ⟨r, _, _, _, _, hp, _, _, hmem, _⟩ := view_facts h
  exact ⟨r, hp, hmem⟩

/-- C12.4b parent cycles (2-cycle, self-parent, long cycle): a span that is its own proper ancestor is
never rendered — the view is partial, it is not cyclic. -/
theorem tree_cycle_dropped (spans : List Span) (pick : Nat) (view : List (Nat × Nat))
    (h : treeView spans pick = some view) (x j : Nat) (hc : up (toMap spans) (j + 1) x = some x) :
    x ∉ view.map Prod.snd := by
  obtain ⟨r, hrm, _, hr0, _, _, _, _, hmem, _⟩ := view_facts h
  intro hx
  obtain ⟨k, _, hu⟩ := (hmem x).1 hx
  exact cycle_never_reaches hc (par_root (toMap_nodup spans) hrm hr0) hu

/-- C12.4c missing parent: a span whose parent id is not in the trace (and that is not the chosen root) is
not rendered. -/
theorem tree_missing_parent_dropped (spans : List Span) (pick : Nat) (view : List (Nat × Nat))
    (h : treeView spans pick = some view) (s : Span) (hs : s ∈ toMap spans) (hp : s.parent ≠ 0)
    (hmiss : ∀ q ∈ toMap spans, q.id ≠ s.parent) : s.id ∉ view.map Prod.snd := by
  obtain ⟨r, hrm, _, hr0, _, _, _, _, hmem, _⟩ := view_facts h
  have hnd := toMap_nodup spans
  intro hx
  obtain ⟨k, _, hu⟩ := (hmem s.id).1 hx
  cases k with
  | zero =>
    simp only [up, Option.some.injEq] at hu
    have := eq_of_id_eq hnd hs hrm hu
    rw [this] at hp
    exact hp hr0
  | succ k =>
    rw [up_succ_left, par_missing hnd hs hmiss] at hu
    simp at hu

/-- C12.4d several roots: exactly one span with empty parent becomes the root (which one depends on Go's
map iteration order = `pick`); every other span with empty parent — hence its whole subtree, by C12.4a —
is not rendered. -/
theorem tree_other_roots_dropped (spans : List Span) (pick : Nat) (view : List (Nat × Nat))
    (h : treeView spans pick = some view) :
    ∃ r, pickRoot (toMap spans) pick = some r ∧ r.parent = 0 ∧
      ∀ r' ∈ toMap spans, r'.parent = 0 → r' ≠ r → r'.id ∉ view.map Prod.snd := by
  obtain ⟨r, hrm, _, hr0, _, hpk, _, _, hmem, _⟩ := view_facts h
  have hnd := toMap_nodup spans
  refine ⟨r, hpk, hr0, ?_⟩
  intro r' hr' h0 hne hx
  obtain ⟨k, _, hu⟩ := (hmem r'.id).1 hx
  cases k with
  | zero =>
    simp only [up, Option.some.injEq] at hu
    exact hne (eq_of_id_eq hnd hr' hrm hu)
  | succ k =>
    rw [up_succ_left, par_root hnd hr' h0] at hu
    simp at hu

/-- C12.4e no root: if no span has an (entry with an) empty parent — e.g. the root's parent is missing or the
root is part of a cycle — the result is the error "can not find a root span", for every map order. -/
theorem tree_no_root_error (spans : List Span) (pick : Nat)
    (h : ∀ s ∈ toMap spans, s.noEntry = true ∨ s.parent ≠ 0) : treeView spans pick = none := by
  match hv : treeView spans pick with
  | none => rfl
  | some view =>
    obtain ⟨r, hrm, hre, hr0, _⟩ := view_facts hv
    rcases h r hrm with h1 | h1
    · rw [hre] at h1; exact absurd h1 (by decide)
    · exact absurd hr0 h1

/-- C12.4f the statement "every span of the trace is rendered" does NOT hold for malformed traces:
with a 2-cycle next to the root the view is partial (spans 2 and 3 are lost) … -/
theorem tree_complete_counterexample :
    ¬ ∀ (spans : List Span) (pick : Nat) (view : List (Nat × Nat)),
        treeView spans pick = some view → view.length = (toMap spans).length := by
  intro h
  have := h [⟨1, 0, false, 1, 10, 20, false⟩, ⟨2, 3, false, 1, 11, 12, false⟩, ⟨3, 2, false, 1, 11, 12, false⟩] 0
    [(0, 1)] (by decide)
  exact absurd this (by decide)

/-- … and it DOES hold under the guard `wellFormed` (which excludes exactly the malformed classes). -/
theorem tree_complete_partial (spans : List Span) (pick : Nat) (h : wellFormed spans = true) :
    ∃ view, treeView spans pick = some view ∧ view.length = (toMap spans).length := by
  obtain ⟨view, hv, hperm, _⟩ := tree_each_span_once spans pick h
  refine ⟨view, hv, ?_⟩
  have := hperm.length_eq
  simp only [length_map] at this
  rw [this, toMap_of_nodup (wellFormed_parts h).1]

/-- the children of a span do not depend on which root was taken (map order affects the root only) -/
theorem children_independent_of_root (spans : List Span) (p1 p2 : Nat) (r1 r2 : Nat) (n1 n2 : List Node)
    (h1 : buildTree spans p1 = some (r1, n1)) (h2 : buildTree spans p2 = some (r2, n2)) :
    n1.map (fun n => (n.id, n.kids)) = n2.map (fun n => (n.id, n.kids)) := by
  unfold buildTree at h1 h2
  simp only [] at h1 h2
  split at h1
  · simp at h1
  · split at h1
    · simp at h1
    · split at h2
      · simp at h2
      · split at h2
        · simp at h2
        · simp only [Option.some.injEq, Prod.mk.injEq] at h1 h2
          rw [← h1.2, ← h2.2]
          simp [nodeOf, Function.comp_def]

/-! ## 2. quick-select and percentiles -/

/-- `sortN` is THE sorted permutation (so `(sortN l)[k]` is the k-th smallest element) -/
theorem sortN_is_sorted_perm (l : List Nat) : (sortN l).Pairwise (· ≤ ·) ∧ sortN l ~ l :=
  ⟨sortN_sorted l, sortN_perm l⟩

/-- C12.2 quick-select exactly as coded (median-of-medians pivot, in-place chunk sorts, averaged pivot that
need not be an element) terminates — fuel = length suffices — and returns the k-th smallest element, for
every non-empty array and every valid k. -/
theorem quickSelect_eq_sorted_get (arr : List Nat) (k : Nat) (hk : k < arr.length) :
    quickSelect arr k = some ((sortN arr)[k]'(by rw [sortN_length]; exact hk)) := by
  rw [quickSelect_spec arr k hk, getElem?_eq_getElem]

/-- the caller's slice is permuted, never changed as a multiset (the RED fold reuses it four times) -/
theorem select_keeps_elements (arr : List Nat) : afterSelect arr ~ arr := afterSelect_perm arr

/-- C12.2b the index formula exactly as coded: `k = float64(p·(n−1)) / float64(100)` (IEEE-754 division),
`floorK = ⌊k⌋`, `ceilK = ⌈k⌉`: for every p ≤ 100 and every array of n < 2^52/100 elements both indices are
valid (float rounding never pushes ⌈k⌉ beyond n−1), so the selection never indexes out of range. -/
theorem percentile_index_in_range (p n : Nat) (hp : p ≤ 100) (hn : 0 < n) (hbig : 100 * n < 2 ^ 52) :
    (pctIndex p n).floor ≤ (pctIndex p n).ceil ∧ (pctIndex p n).ceil < n :=
  ⟨Dy.floor_le_ceil _, pctIndex_ceil_lt p n hp hn hbig⟩

/-- C12.2c the percentile exactly as coded: the result is the interpolation
`lower + (upper − lower)·(k − ⌊k⌋)` (each operation rounded to float64) between the ⌊k⌋-th and ⌈k⌉-th
smallest elements, or the ⌊k⌋-th smallest element itself when k is integral; the caller's slice keeps its
elements. -/
theorem percentile_as_coded (arr : List Nat) (p : Nat) (hne : arr ≠ []) (hp : p ≤ 100)
    (hbig : 100 * arr.length < 2 ^ 52) :
    (pct arr p).1 = lerp (sortN arr) (pctIndex p arr.length) ∧ (pct arr p).2 ~ arr :=
  ⟨pct_spec arr p hne hp (pctIndex_ceil_lt p arr.length hp (length_pos_iff.2 hne) hbig), pct_snd_perm arr p⟩

/-- out-of-range percentiles and empty arrays give 0 -/
theorem percentile_degenerate (arr : List Nat) (p : Nat) (h : arr = [] ∨ p > 100) :
    pct arr p = (some Dy.zero, arr) := by
  unfold pct
  rcases h with rfl | h
  · rfl
  · split
    · rfl
    · simp

/-! ## 3. dependency graph -/

/-- C12.3 For spans with unique ids the dependency matrix has an entry exactly for the service pairs
`a ≠ b` joined by at least one parent→child span pair, and the entry is the number of such pairs. -/
theorem depGraph_counts (spans : List Span) (hnd : (spans.map (·.id)).Nodup) (a b n : Nat) :
    ((a, b), n) ∈ depGraph spans ↔ a ≠ b ∧ n = crossPairs spans a b ∧ 0 < n := by
  rw [mem_depGraph]
  constructor
  · rintro ⟨hm, rfl⟩
    have hab := mem_depPairs_ne hm
    exact ⟨hab, depPairs_count hnd a b hab, count_pos_iff.2 hm⟩
  · rintro ⟨hab, rfl, hpos⟩
    rw [← depPairs_count hnd a b hab] at hpos ⊢
    exact ⟨count_pos_iff.1 hpos, rfl⟩

/-- C12.3 at FULL STRENGTH since the repair c12-11 (`dropRedeliveredSpans`): for EVERY list of collected spans —
re-delivered ones included — MakeTracesDependancyGraph (`depGraphOf` = drop the re-delivered spans, then fold) has an
entry exactly for the service pairs `a ≠ b` joined by at least one parent→child pair of DISTINCT spans, and the entry
is the number of such pairs: a span that was delivered several times counts once. -/
theorem depGraphOf_counts (spans : List Span) (a b n : Nat) :
    ((a, b), n) ∈ depGraphOf spans ↔ a ≠ b ∧ n = crossPairs (dedupIds spans) a b ∧ 0 < n :=
  depGraph_counts (dedupIds spans) (Lemmas.C12.dedupIds_nodup spans) a b n

/-- … the spans that are counted have pairwise different ids, and nothing is dropped when no span was delivered twice -/
theorem dedupIds_spec (spans : List Span) :
    ((dedupIds spans).map (·.id)).Nodup ∧ (∀ s ∈ dedupIds spans, s ∈ spans) ∧
    ((spans.map (·.id)).Nodup → dedupIds spans = spans ∧ depGraphOf spans = depGraph spans ∧ redOfSpans spans = red spans) := by
  refine ⟨Lemmas.C12.dedupIds_nodup spans, fun s hs => (Lemmas.C12.dedupAux_mem spans [] s hs).1, fun h => ?_⟩
  have e := Lemmas.C12.dedupIds_of_nodup spans h
  exact ⟨e, by unfold depGraphOf; rw [e], by unfold redOfSpans; rw [e]⟩

/-- OLD behaviour (before c12-11) REFUTED: the fold over the stored RECORDS counted a child span that was delivered
twice as two parent→child pairs (root in service 1, child in service 2, the child stored twice: 1>2 = 2). -/
theorem depGraph_redelivered_old_counterexample :
    depGraph [⟨2, 1, false, 2, 0, 5, false⟩, ⟨2, 1, false, 2, 0, 5, false⟩, ⟨1, 0, false, 1, 0, 9, false⟩] = [((1, 2), 2)] ∧
    depGraphOf [⟨2, 1, false, 2, 0, 5, false⟩, ⟨2, 1, false, 2, 0, 5, false⟩, ⟨1, 0, false, 1, 0, 9, false⟩] = [((1, 2), 1)] := by
  constructor <;> decide

/-- one entry per service pair, in sorted order (the canonical form the Oracle prints) -/
theorem depGraph_keys (spans : List Span) :
    ((depGraph spans).map Prod.fst).Nodup ∧ ((depGraph spans).map Prod.fst).Pairwise (fun x y => pairLe x y) :=
  ⟨depGraph_keys_nodup spans, depGraph_keys_sorted spans⟩

/-! ## 4. RED -/

/-- C12.5 the RED rows: one row per service that has an entry span; its count / error count are those of
the service's entry spans (entry = no parent, parent unknown, or parent in another service). -/
theorem red_rows (spans : List Span) :
    ((red spans).map (·.service)).Nodup ∧
    (∀ v, v ∈ (red spans).map (·.service) ↔ ∃ s ∈ spans, isEntry spans s = true ∧ s.service = v) ∧
    (∀ row ∈ red spans,
      row.cnt = ((spans.filter (isEntry spans)).filter (fun s => s.service == row.service)).length ∧
      row.err = (((spans.filter (isEntry spans)).filter (fun s => s.service == row.service)).filter (·.error)).length ∧
      row.rate = Dy.div (Dy.ofNat row.cnt) (Dy.ofNat redWindowSecs) ∧
      row.errRate = Dy.mul (Dy.div (Dy.ofNat row.err) (Dy.ofNat row.cnt)) (Dy.ofNat 100)) := by
  unfold red
  simp only [map_map]
  have hcomp : ((fun r : RedRow => r.service) ∘ redRow spans) = id := by funext v; rfl
  refine ⟨?_, ?_, ?_⟩
  · rw [hcomp, map_id]
    exact ((sortN_perm _).nodup_iff).2 (uniq_nodup _)
  · intro v
    rw [hcomp, map_id, mem_sortN, mem_uniq, mem_map]
    constructor
    · rintro ⟨s, hs, rfl⟩
      obtain ⟨h1, h2⟩ := mem_filter.1 hs
      exact ⟨s, h1, h2, rfl⟩
    · rintro ⟨s, h1, h2, rfl⟩
      exact ⟨s, mem_filter.2 ⟨h1, h2⟩, rfl⟩
  · intro row hrow
    obtain ⟨v, _, rfl⟩ := mem_map.1 hrow
    exact ⟨rfl, rfl, rfl, rfl⟩

/-- C12.5a' the rate is a rate PER SECOND over the 5-minute window the spans are collected from: 300 entry spans
in the window — one per second — give the rate 1; BEFORE the repair c12-8 the count of the 5-minute window was divided by
60 and the same service was shown with 5 requests per second -/
theorem red_rate_is_per_second :
    redWindowSecs = 5 * 60 ∧
    Dy.div (Dy.ofNat 300) (Dy.ofNat redWindowSecs) = Dy.ofNat 1 ∧
    Dy.div (Dy.ofNat 300) (Dy.ofNat redDivisorOld) = Dy.ofNat 5 := by
  refine ⟨rfl, ?_, ?_⟩ <;> decide

/-- C12.5b the four latencies of a row are the percentiles (formula of C12.2c) of the service's entry-span
durations in ms — although the code reuses one slice that every selection reorders in place. -/
theorem red_percentiles (spans : List Span) (svc : Nat) (hne : entryDurs spans svc ≠ [])
    (hbig : 100 * (entryDurs spans svc).length < 2 ^ 52) :
    (redRow spans svc).p50 = lerp (sortN (entryDurs spans svc)) (pctIndex 50 (entryDurs spans svc).length) ∧
    (redRow spans svc).p90 = lerp (sortN (entryDurs spans svc)) (pctIndex 90 (entryDurs spans svc).length) ∧
    (redRow spans svc).p95 = lerp (sortN (entryDurs spans svc)) (pctIndex 95 (entryDurs spans svc).length) ∧
    (redRow spans svc).p99 = lerp (sortN (entryDurs spans svc)) (pctIndex 99 (entryDurs spans svc).length) :=
  have hn := length_pos_iff.2 hne
  redRow_percentiles spans svc hne (pctIndex_ceil_lt 50 _ (by omega) hn hbig) (pctIndex_ceil_lt 90 _ (by omega) hn hbig)
    (pctIndex_ceil_lt 95 _ (by omega) hn hbig) (pctIndex_ceil_lt 99 _ (by omega) hn hbig)

/-! ## 5. OTLP ingest boundary (Model/TraceE2E.lean, tied by the suite `tracee2e`) -/

/-- C12.6 FRAME property of ProcessTraceIngest: the documents handed to the segment writer are the
concatenation, in request order, of what each ResourceSpans contributes BY ITSELF (`docsOfRes r`, a function of
`r` alone: its spans converted with the service found in ITS resource attributes).  Nothing a resource
contributes depends on the resources before it — in particular not on the value the loop variable `service`
was left with (`ingestRes_facts` holds for every incoming state). -/
theorem ingest_frame (rs : List ResSpans) : (ingest rs).docs = rs.flatMap docsOfRes := by
  have := (foldl_ingestRes rs {}).1
  simpa [ingest] using this

/-- C12.6b the same for one resource in the middle of a request, with an arbitrary prefix and suffix -/
theorem ingest_frame_middle (pre post : List ResSpans) (r : ResSpans) :
    (ingest (pre ++ r :: post)).docs = (ingest pre).docs ++ docsOfRes r ++ (ingest post).docs := by
  rw [ingest_frame, ingest_frame, ingest_frame, flatMap_append, flatMap_cons, append_assoc]

/-- C12.6e (full strength since the repair of spanToJson) the stored document has the span's OWN fixed fields —
trace id, span id, parent id, service, name, times, duration, status — whatever attributes the span carries:
an attribute named like a fixed field cannot replace it. -/
theorem stored_fields (sp : OSpan) (service k : String) (d : List (String × JVal))
    (hd : spanToJson sp service = some d) (hk : k ∈ fixedKeys) :
    getKV d k = getKV (baseDoc sp service) k := by
  unfold spanToJson at hd
  cases ha : attrDoc sp with
  | none => simp [ha] at hd
  | some m =>
    simp only [ha, Option.map_some, Option.some.injEq] at hd
    subst hd
    exact getKV_setAll (baseDoc sp service) m k (by simp [baseDoc]) (by simpa [baseDoc, fixedKeys] using hk)

/-- C12.6c the stored service of EVERY stored span is the service named by ITS resource (the last `service.name`
string attribute; "" when the resource is nil or names none) -/
theorem ingest_service_of_own_resource (rs : List ResSpans) (r : ResSpans) (sp : OSpan) (d : List (String × JVal))
    (hr : r ∈ rs) (hsp : sp ∈ r.scopes.flatMap id) (hd : spanToJson sp (serviceOfRes r) = some d) :
    d ∈ (ingest rs).docs ∧ getKV d "service" = some (.str (serviceOfRes r)) := by
  refine ⟨?_, ?_⟩
  · rw [ingest_frame, mem_flatMap]
    refine ⟨r, hr, ?_⟩
    unfold docsOfRes
    rw [mem_filterMap]
    exact ⟨sp, hsp, hd⟩
  · rw [stored_fields sp _ "service" d hd (by decide)]
    rfl

/-- C12.6d the counters behind the response: every span of the request is counted, and every span is either
stored or counted as failed (the partial-success message reports exactly the spans that were not stored) -/
theorem ingest_counts (rs : List ResSpans) :
    (ingest rs).numSpans = (rs.flatMap (fun r => r.scopes.flatMap id)).length ∧
    (ingest rs).numFailed + (ingest rs).docs.length = (ingest rs).numSpans := by
  obtain ⟨_, h2, h3⟩ := foldl_ingestRes rs {}
  have e2 : (ingest rs).numSpans = (rs.flatMap (fun r => r.scopes.flatMap id)).length := by
    simpa [ingest] using h2
  refine ⟨e2, ?_⟩
  rw [e2]
  simpa [ingest] using h3

/-- C12.6d' (full strength since the repair c12-10 of extractAnyValue) EVERY span of a request is stored, whatever
kinds of attribute values it carries — string, int, double, bool, array, kvlist, bytes, the empty AnyValue, no
AnyValue at all: no span is refused, the response never reports rejected spans. -/
theorem every_span_is_stored (rs : List ResSpans) :
    (∀ (sp : OSpan) (service : String), ∃ d, spanToJson sp service = some d) ∧
    (ingest rs).numFailed = 0 ∧
    (ingest rs).docs.length = (rs.flatMap (fun r => r.scopes.flatMap id)).length ∧
    ack (ingest rs) = (200, 0) := by
  have hlen : (ingest rs).docs.length = (rs.flatMap (fun r => r.scopes.flatMap id)).length := by
    rw [ingest_frame, length_flatMap_docsOfRes]
  obtain ⟨c1, c2⟩ := ingest_counts rs
  have h0 : (ingest rs).numFailed = 0 := by omega
  refine ⟨spanToJson_isSome, h0, hlen, ?_⟩
  unfold ack
  simp [h0]

/-- BEFORE the repair c12-10 a bytes value or an empty AnyValue (both legal OTLP) refused the WHOLE span: a trace
whose root carries such an attribute lost its root — the listing did not show the trace, the span tree answered
"no root" -/
theorem bytes_or_empty_attribute_old_refused_the_span :
    attrValOld .bytes = none ∧ attrValOld .empty = none ∧
    spanRejectedOld { trace := "ab", sid := "01", pid := "", name := "op", start := 5, end_ := 9, status := none, attrs := [("k", .empty)] } = true ∧
    (spanToJson { trace := "ab", sid := "01", pid := "", name := "op", start := 5, end_ := 9, status := none, attrs := [("k", .empty), ("b", .bytes)] } "s")
      = some [("k", .null), ("b", .str "+//+AQ=="), ("trace_id", .str "ab"), ("span_id", .str "01"), ("parent_span_id", .str ""), ("service", .str "s"),
              ("name", .str "op"), ("start_time", .num 5), ("end_time", .num 9), ("duration", .num 4), ("status", .str "Unknown")] := by
  refine ⟨rfl, rfl, ?_, ?_⟩ <;> decide

/-- C12.6f the stored duration of an OTLP span never exceeds its end time: a span that ends before it starts is
stored with duration 0, so for times below 2^63 the stored record always fits the uint64 fields the views
unmarshal into (`poison` = false) -/
theorem otlp_record_never_poison (sp : OSpan) (service : String) (d : List (String × JVal))
    (hd : spanToJson sp service = some d) (hend : sp.end_ < 2 ^ 63) : poison (docToRec d) = false := by
  have h := stored_fields sp service "duration" d hd (by decide)
  have hv : getKV (baseDoc sp service) "duration" = some (.num (durationOf sp)) := rfl
  rw [hv] at h
  have hle : durationOf sp ≤ sp.end_ := by unfold durationOf; split <;> omega
  unfold poison docToRec numField
  simp only [h, Int.toNat_natCast, storedNum]
  rw [if_pos (by omega)]
  simp only [ge_iff_le, Option.isSome_none, Bool.or_false, decide_eq_false_iff_not, Nat.not_le]
  omega

/-- BEFORE the repairs (`spanToJsonOld`): an attribute whose key equals a fixed field replaced that field … -/
theorem stored_fields_old_counterexample :
    ¬ ∀ (sp : OSpan) (service : String) (d : List (String × JVal)), spanToJsonOld sp service = some d →
        getKV d "service" = some (.str service) ∧ getKV d "status" = some (.str (statusName sp.status)) := by
  intro h
  have := h { trace := "ab", sid := "01", pid := "", name := "op", start := 5, end_ := 9, status := some 2, attrs := [("status", .str "paid"), ("service", .str "billing")] } "checkout"
    [("trace_id", .str "ab"), ("span_id", .str "01"), ("parent_span_id", .str ""), ("service", .str "billing"),
     ("name", .str "op"), ("start_time", .num 5), ("end_time", .num 9), ("duration", .num 4), ("status", .str "paid")]
    (by decide)
  exact absurd this.1 (by decide)

/-- … the old code kept only the fields that no attribute was named after … -/
theorem stored_fields_old_partial (sp : OSpan) (service k : String) (d : List (String × JVal))
    (hd : spanToJsonOld sp service = some d) (hguard : ∀ kv ∈ sp.attrs, kv.1 ≠ k) :
    getKV d k = getKV (baseDocOld sp service) k :=
  foldlM_setKV_keeps k sp.attrs _ d hguard hd

/-- … the old unsigned difference wrapped for a span that ends before it starts (2^64 − 10 here; stored as
float64 it comes back as 2^64, which no uint64 field can take) … -/
theorem duration_old_wraps :
    getKV (baseDocOld { trace := "ab", sid := "01", pid := "", name := "op", start := 1000, end_ := 990, status := none, attrs := [] } "s")
      "duration" = some (.num (2 ^ 64 - 10)) := by decide

/-- … and a KeyValue without AnyValue made the old conversion panic, while it is now an attribute without value
and the span is stored -/
theorem no_value_attribute_is_stored :
    spanPanicsOld { trace := "ab", sid := "01", pid := "", name := "op", start := 5, end_ := 9, status := none, attrs := [("k", .noValue)] } = true ∧
    (spanToJson { trace := "ab", sid := "01", pid := "", name := "op", start := 5, end_ := 9, status := none, attrs := [("k", .noValue)] } "s").isSome = true := by
  constructor <;> decide

/-! ## 6. result paging -/

/-- C12.7 the paging loop of ProcessGanttChartRequest (pages of `P` records, next page `P` further, stop at
an empty page or after a page shorter than `P`) folds the loop body over EVERY record of the result list,
for every page size P > 0, every number of records and every pattern of duplicate / skipped records. -/
theorem gantt_collects_all (P : Nat) (hP : 0 < P) (recs : List Rec) :
    ganttCollect P recs = recs.foldl gStep {} :=
  pageLoop_all gStep P hP true recs {}

/-- C12.7b hence the page size is irrelevant: the span tree of a trace of any size is the tree of all its
records (what the Oracle of the suite `tracee2e` relies on when the harness shrinks the page) -/
theorem gantt_page_size_irrelevant (P Q : Nat) (hP : 0 < P) (hQ : 0 < Q) (pick : Nat) (recs : List Rec) (t : String) :
    gantt P pick recs t = gantt Q pick recs t := by
  unfold gantt
  rw [gantt_collects_all P hP, gantt_collects_all Q hQ]

/-- C12.7c every stored span of the trace is in the span map exactly once: the keys of `idToSpanMap` are
distinct, and a span id is a key iff some record with that id passed the checks of the loop body (`complete`:
duration fits uint64, service / name / parent_span_id / status present) — on whatever page that record was. -/
theorem gantt_every_span_once (P : Nat) (hP : 0 < P) (recs : List Rec) :
    ((ganttCollect P recs).spans.map (·.1)).Nodup ∧
    ∀ x, x ∈ (ganttCollect P recs).spans.map (·.1) ↔ ∃ r ∈ recs, complete r = true ∧ r.sid = x := by
  rw [gantt_collects_all P hP]
  refine ⟨foldl_gStep_nodup recs {} (by simp), ?_⟩
  intro x
  rw [foldl_gStep_keys]
  simp

/-- C12.7c' the rank encoding that hands the collected map to the kernel `BuildSpanTree` keeps the spans apart:
the kernel span list has one span per distinct span id string (the encoding is injective, `decode` undoes it) -/
theorem gantt_kernel_ids_distinct (P : Nat) (hP : 0 < P) (recs : List Rec) :
    ((gSpans (ganttCollect P recs)).map (·.id)).Nodup ∧
    ((gSpans (ganttCollect P recs)).map (·.id)).length = ((ganttCollect P recs).spans.map (·.1)).length :=
  ⟨gSpans_ids_nodup _ (gantt_every_span_once P hP recs).1, by simp [gSpans]⟩

/-- C12.7d composition with C12.1: if the collected spans form a well-formed trace, the response contains
every one of them exactly once beneath its parent — for every page size. -/
theorem gantt_tree_each_span_once (P : Nat) (hP : 0 < P) (pick : Nat) (recs : List Rec)
    (h : wellFormed (gSpans (recs.foldl gStep {})) = true) :
    ∃ view, treeView (gSpans (ganttCollect P recs)) pick = some view ∧
      (view.map Prod.snd) ~ ((gSpans (ganttCollect P recs)).map (·.id)) ∧
      (∀ e ∈ view, ∃ s ∈ gSpans (ganttCollect P recs), s.id = e.2 ∧ s.parent = e.1) := by
  rw [gantt_collects_all P hP]
  exact tree_each_span_once _ pick h

/-- C12.7e the loops are only correct because stride and page size are the same number: with a stride larger
than the page records are lost, with a smaller one they are seen twice -/
theorem paging_stride_counterexample :
    pageLoop (fun acc r => acc ++ [r]) 2 3 false [1, 2, 3, 4, 5] 6 0 ([] : List Nat) ≠ [1, 2, 3, 4, 5] ∧
    pageLoop (fun acc r => acc ++ [r]) 2 1 false [1, 2, 3] 4 0 ([] : List Nat) ≠ [1, 2, 3] := by
  constructor <;> decide

/-- C12.7f (full strength since the repair c12-7) ProcessRedTracesIngest (stops at the first page without records
only) collects every record of the window that IS a span — one that does not unmarshal into `structs.Span` is
skipped, every other one is kept — for every page size, every number of records and every position of the
unreadable records; without unreadable records: every record -/
theorem red_collects_all (P : Nat) (hP : 0 < P) (recs : List Rec) :
    redCollect P recs = dedupRecs (readable recs) ∧ (recs.any poison = false → redCollect P recs = dedupRecs recs) := by
  have h : redCollect P recs = dedupRecs (readable recs) := by unfold redCollect; rw [collectSpans_eq P hP recs]
  refine ⟨h, fun hp => ?_⟩
  rw [h, readable_of_no_poison recs hp]

/-- BEFORE the repair c12-7 a page was unmarshalled at once: ONE document posted to index `traces` by another
protocol with a duration that is not a uint64 (here −5) made the function return without writing a single row, for
every service of the window -/
theorem red_old_one_unreadable_record_blanked_the_window :
    redCollectOld 1000
      [{ trace := "ab", sid := "dd", pid := some "01", svc := some "b", name := some "doc", start := 1, end_ := 2, dur := 0, status := some "ok", durBad := some "-5" },
       { trace := "ab", sid := "01", pid := some "", svc := some "a", name := some "y", start := 0, end_ := 3, dur := 3, status := some "ok" }] = none ∧
    (redCollect 1000
      [{ trace := "ab", sid := "dd", pid := some "01", svc := some "b", name := some "doc", start := 1, end_ := 2, dur := 0, status := some "ok", durBad := some "-5" },
       { trace := "ab", sid := "01", pid := some "", svc := some "a", name := some "y", start := 0, end_ := 3, dur := 3, status := some "ok" }]).map (·.sid) = ["01"] := by
  constructor <;> decide

/-! ## 7. trace listing -/

/-- C12.8 (full strength since GetUniqueTraceIds orders the group-by buckets) the pages PARTITION the listing:
pages 1 … k, each the rows of the next 50 trace ids, put one after the other are exactly the whole listing, as
soon as 50·k reaches the number of trace ids — for every number of traces. -/
theorem search_pages_partition (recs : List Rec) (k : Nat) (hk : (traceIds recs).length ≤ tracePageLimit * k) :
    (List.range k).flatMap (fun i => searchPage recs (i + 1)) = searchAll recs := by
  unfold searchPage pageIds searchAll
  have := chunks_flatten tracePageLimit k (traceIds recs) hk
  conv => rhs; rw [← this]
  rw [filterMap_flatMap]
  simp

/-- C12.8b in the whole listing no trace is listed twice, every listed trace has records, and every row is what
`searchRow` computes for that trace; no trace that has a row is left out -/
theorem search_lists_each_trace_once (recs : List Rec) :
    ((searchAll recs).map (·.trace)).Nodup ∧
    (∀ row ∈ searchAll recs, (∃ r ∈ recs, r.trace = row.trace) ∧ searchRow recs row.trace = some row) ∧
    (∀ r ∈ recs, ∀ row, searchRow recs r.trace = some row → row ∈ searchAll recs) := by
  obtain ⟨h1, h2⟩ := filterMap_searchRow_sound recs (traceIds recs)
  refine ⟨h1.nodup (traceIds_nodup recs), ?_, ?_⟩
  · intro row hrow
    refine ⟨?_, h2 row hrow⟩
    have : row.trace ∈ traceIds recs := h1.subset (mem_map.2 ⟨row, hrow, rfl⟩)
    exact mem_traceIds.1 this
  · intro r hr row hrow
    unfold searchAll
    rw [mem_filterMap]
    exact ⟨r.trace, mem_traceIds.2 ⟨r, hr, rfl⟩, hrow⟩

/-- C12.8c the row of a trace with exactly one root record (parent id present and empty) whose times lie in
the window: root service, root operation, number of distinct (status, span id) pairs of its records, number of
distinct span ids with status ERROR -/
theorem searchRow_single_root (recs : List Rec) (t : String) (root : Rec) (sv nm : String)
    (hroots : (ofTrace recs t).filter (fun r => r.pid == some "") = [root])
    (hsv : root.svc = some sv) (hnm : root.name = some nm)
    (hw1 : winStart * 1000000 ≤ f64 root.start) (hw2 : f64 root.end_ ≤ winEnd * 1000000) :
    searchRow recs t = some { trace := t, svc := sv, op := nm, count := spanCount (ofTrace recs t), errs := errCount (ofTrace recs t), start := f64 root.start, end_ := f64 root.end_ } := by
  unfold searchRow searchRowOld
  simp only [hroots]
  have hwin : (decide (winStart * 1000000 > f64 root.start) || decide (winEnd * 1000000 < f64 root.end_)) = false := by
    simp only [Bool.or_eq_false_iff, decide_eq_false_iff_not]
    omega
  simp [distinctNat, distinctStr, uniq, hsv, hnm, hwin]

/-- C12.8e (full strength since the repair c12-9: `dc(span_id)` instead of `count`) the span count and the error-span
count of a trace do not change when spans are delivered AGAIN (a retried export stores the same record twice):
records that are already among the stored records add nothing. -/
theorem span_count_ignores_redelivery (rs extra : List Rec) (h : ∀ r ∈ extra, r ∈ rs) :
    spanCount (extra ++ rs) = spanCount rs ∧ errCount (extra ++ rs) = errCount rs := by
  unfold spanCount errCount
  constructor
  · rw [uniq_map_append_of_subset _ extra rs h]
  · rw [filter_append, uniq_map_append_of_subset _ _ _ (filter_subset_of_subset _ extra rs h)]

/-- C12.8f hence the whole ROW of every trace — root service, operation, times, span count, error-span count, and
whether it is listed at all — is the same after any re-delivery of stored records: the listing shows the spans
of the trace, like its span tree (whose map is keyed by span id), not the deliveries. -/
theorem search_row_ignores_redelivery (recs extra : List Rec) (h : ∀ r ∈ extra, r ∈ recs) (t : String) :
    searchRow (extra ++ recs) t = searchRow recs t := by
  have hT : ∀ r ∈ ofTrace extra t, r ∈ ofTrace recs t := filter_subset_of_subset _ extra recs h
  have hR : ∀ r ∈ (ofTrace extra t).filter (fun r => r.pid == some ""), r ∈ (ofTrace recs t).filter (fun r => r.pid == some "") :=
    filter_subset_of_subset _ _ _ hT
  obtain ⟨c1, c2⟩ := span_count_ignores_redelivery (ofTrace recs t) (ofTrace extra t) hT
  unfold searchRow searchRowOld
  have e0 : ofTrace (extra ++ recs) t = ofTrace extra t ++ ofTrace recs t := by unfold ofTrace; rw [filter_append]
  simp only [e0, filter_append, c1, c2]
  rw [isEmpty_append_of_subset _ _ hR]
  simp only [distinctNat, distinctStr]
  rw [uniq_map_append_of_subset (·.start) _ _ hR, uniq_map_append_of_subset (·.end_) _ _ hR,
    uniq_filterMap_append_of_subset (·.svc) _ _ hR, uniq_filterMap_append_of_subset (·.name) _ _ hR]

/-- C12.8g the two views of one trace AGREE on its number of spans: when every record of the trace passes the
checks of the span-tree loop (`complete`) and no span id was delivered with two different statuses, the span count of
the listing is the number of spans in `idToSpanMap` of ProcessGanttChartRequest — for every page size, every number
of records and every pattern of re-delivery. (Before c12-9 this failed as soon as one span was delivered twice.) -/
theorem listing_span_count_eq_tree_spans (P : Nat) (hP : 0 < P) (rs : List Rec)
    (hc : ∀ r ∈ rs, complete r = true)
    (h1 : ∀ r ∈ rs, ∀ q ∈ rs, r.sid = q.sid → r.status = q.status) :
    spanCount rs = ((ganttCollect P rs).spans.map (·.1)).length := by
  obtain ⟨hnd, hmem⟩ := gantt_every_span_once P hP rs
  unfold spanCount
  rw [length_uniq_map_congr (fun r : Rec => (r.status, r.sid)) (·.sid) rs (by
    intro a ha b hb
    constructor
    · intro h; exact (Prod.mk.inj h).2
    · intro h; rw [h1 a ha b hb h, h])]
  apply length_eq_of_nodup_of_mem_iff (uniq_nodup _) hnd
  intro x
  rw [mem_uniq, hmem, mem_map]
  constructor
  · rintro ⟨r, hr, rfl⟩; exact ⟨r, hr, hc r hr, rfl⟩
  · rintro ⟨r, hr, _, rfl⟩; exact ⟨r, hr, rfl⟩

/-- BEFORE the repair c12-9 the stored RECORDS were counted: a two-span trace (one of them with status ERROR)
delivered twice was listed with 4 spans, 2 of them errors, while its span tree shows 2 spans -/
theorem span_count_old_counted_redelivery :
    (searchRowCountOld
      [{ trace := "ab", sid := "02", pid := some "01", svc := some "a", name := some "x", start := 1700000000000000000, end_ := 1700000000000000000, dur := 0, status := some errStatus },
       { trace := "ab", sid := "01", pid := some "", svc := some "a", name := some "y", start := 1700000000000000000, end_ := 1700000000000000000, dur := 0, status := some "ok" },
       { trace := "ab", sid := "02", pid := some "01", svc := some "a", name := some "x", start := 1700000000000000000, end_ := 1700000000000000000, dur := 0, status := some errStatus },
       { trace := "ab", sid := "01", pid := some "", svc := some "a", name := some "y", start := 1700000000000000000, end_ := 1700000000000000000, dur := 0, status := some "ok" }] "ab").map (fun r => (r.count, r.errs)) = some (4, 2) ∧
    (searchRow
      [{ trace := "ab", sid := "02", pid := some "01", svc := some "a", name := some "x", start := 1700000000000000000, end_ := 1700000000000000000, dur := 0, status := some errStatus },
       { trace := "ab", sid := "01", pid := some "", svc := some "a", name := some "y", start := 1700000000000000000, end_ := 1700000000000000000, dur := 0, status := some "ok" },
       { trace := "ab", sid := "02", pid := some "01", svc := some "a", name := some "x", start := 1700000000000000000, end_ := 1700000000000000000, dur := 0, status := some errStatus },
       { trace := "ab", sid := "01", pid := some "", svc := some "a", name := some "y", start := 1700000000000000000, end_ := 1700000000000000000, dur := 0, status := some "ok" }] "ab").map (fun r => (r.count, r.errs)) = some (2, 1) := by
  constructor <;> decide

/-- C12.8d BEFORE the repair one trace whose two root spans start at different times made the whole page answer
500 (`none`), hiding the well-formed trace next to it; now that trace alone is left out -/
theorem search_old_one_trace_failed_the_page :
    searchPageOld
      [{ trace := "ab01", sid := "01", pid := some "", svc := some "a", name := some "x", start := 1700000000000000000, end_ := 1700000000000000000, dur := 0, status := some "ok" },
       { trace := "ab02", sid := "02", pid := some "", svc := some "a", name := some "y", start := 1700000000000000000, end_ := 1700000000000000000, dur := 0, status := some "ok" },
       { trace := "ab02", sid := "03", pid := some "", svc := some "a", name := some "y", start := 1700000000000001024, end_ := 1700000000000000000, dur := 0, status := some "ok" }] 1 = none ∧
    ((searchPage
      [{ trace := "ab01", sid := "01", pid := some "", svc := some "a", name := some "x", start := 1700000000000000000, end_ := 1700000000000000000, dur := 0, status := some "ok" },
       { trace := "ab02", sid := "02", pid := some "", svc := some "a", name := some "y", start := 1700000000000000000, end_ := 1700000000000000000, dur := 0, status := some "ok" },
       { trace := "ab02", sid := "03", pid := some "", svc := some "a", name := some "y", start := 1700000000000001024, end_ := 1700000000000000000, dur := 0, status := some "ok" }] 1).map (·.trace)) = ["ab01"] := by
  constructor <;> decide

/-! ## 8. dependency graph -/

/-- C12.9 (full strength since MakeTracesDependancyGraph pages through the result, c12-2, and decodes the records one
by one, c12-7) the graph is the fold over EVERY record of the window that is a span, for every page size, every
number of records and every position of records that do not unmarshal into `structs.Span` (those are skipped,
nothing else is); without such records: the fold over every record -/
theorem dep_collects_all (P : Nat) (hP : 0 < P) (recs : List Rec) :
    dep P recs = depOf recs ∧ (recs.any poison = false → dep P recs = depFold (dedupRecs recs)) := by
  have h : dep P recs = depOf recs := by unfold dep depOf; rw [collectSpans_eq P hP recs]
  refine ⟨h, fun hp => ?_⟩
  rw [h]; unfold depOf; rw [readable_of_no_poison recs hp]

/-- C12.9b (repair c12-11) A RE-DELIVERED SPAN COUNTS ONCE, in the dependency graph and in the RED rows, for EVERY
window: a stored record whose (trace id, span id) is that of a span met EARLIER in the result (the search returns the
newest record first: the record is an earlier delivery of that span) changes nothing — the window with it and the
window without it give the same graph and the same RED rows, whatever the other records are and wherever it stands. -/
theorem redelivered_span_counts_once (P : Nat) (hP : 0 < P) (a b : List Rec) (x r : Rec) (hx : x ∈ a)
    (hxr : poison x = false) (hk : (x.trace, x.sid) = (r.trace, r.sid)) :
    dep P (a ++ r :: b) = dep P (a ++ b) ∧ redE2E P (a ++ r :: b) = redE2E P (a ++ b) := by
  have hc : ∀ l, collectSpans P l = readable l := collectSpans_eq P hP
  have key : dedupRecs (readable (a ++ r :: b)) = dedupRecs (readable (a ++ b)) := by
    rw [Lemmas.C12.readable_append, Lemmas.C12.readable_append]
    by_cases hr : poison r = true
    · have : readable (r :: b) = readable b := by simp [readable, hr]
      rw [this]
    · have : readable (r :: b) = r :: readable b := by simp [readable, hr]
      rw [this]
      exact Lemmas.C12.dedupRecs_drop_later (readable a) (readable b) r x
        (by simp [readable, hx, hxr]) (by simpa [Lemmas.C12.recKey] using hk)
  constructor
  · unfold dep; rw [hc, hc, key]
  · unfold redE2E redCollect; rw [hc, hc, key]

/-- C12.9c (repair c12-12) ONE DOCUMENT WITH A STRING AS ITS `duration` NO LONGER HIDES THE OTHER SPANS OF ITS BLOCK:
the segment writer rewrites the duration column of such a block as strings (`consolidate`), and the views read the
decimal text of a number like the number — for EVERY block, the records the views see are the records as stored
(only the flag that says "returned as text" differs) and exactly the same records are skipped as unreadable. -/
theorem consolidated_block_keeps_its_spans (recs : List Rec) :
    (consolidate recs).map (fun r => { r with durAsText := false }) = recs.map (fun r => { r with durAsText := false }) ∧
    (consolidate recs).map poison = recs.map poison := by
  unfold consolidate
  split
  · constructor
    · rw [List.map_map]
      apply List.map_congr_left
      intro r _
      simp only [Function.comp]
      split <;> rfl
    · rw [List.map_map]
      apply List.map_congr_left
      intro r _
      simp only [Function.comp]
      split <;> rfl
  · exact ⟨rfl, rfl⟩

/-- OLD behaviour (before c12-12) REFUTED: with the span structs that took numbers only, NO record of a block that
holds a document with a string duration could be read by any view (span tree: 400 "can not find a root span";
dependency graph and RED rows of the block: empty). -/
theorem consolidated_block_old_hid_every_span (recs : List Rec) (h : recs.any isStrDur = true) :
    ∀ r ∈ consolidate recs, poisonOld r = true := by
  intro r hr
  unfold consolidate at hr
  rw [if_pos h] at hr
  obtain ⟨x, _, rfl⟩ := List.mem_map.1 hr
  by_cases hx : x.durBad.isSome = true
  · simp [hx, poisonOld, poison]
  · simp [hx, poisonOld]

example : -- non-vacuous: a consolidated block — the document with the duration "soon" is skipped, the two spans whose
    -- durations come back as text are read (and were not before the repair)
    (readable
      [{ trace := "ab", sid := "dd", pid := some "01", svc := some "b", name := some "doc", start := 1, end_ := 2, dur := 0, status := some "ok", durBad := some "soon" },
       { trace := "ab", sid := "02", pid := some "01", svc := some "b", name := some "x", start := 1, end_ := 2, dur := 1, status := some "ok", durAsText := true },
       { trace := "ab", sid := "01", pid := some "", svc := some "a", name := some "y", start := 0, end_ := 3, dur := 3, status := some "ok", durAsText := true }]).map (·.sid)
      = ["02", "01"] ∧
    ([{ trace := "ab", sid := "02", pid := some "01", svc := some "b", name := some "x", start := 1, end_ := 2, dur := 1, status := some "ok", durAsText := true }].filter
      (fun r : Rec => !poisonOld r)) = [] := by decide

/-- … the spans that are folded have pairwise different (trace id, span id), and when no span of the window was
delivered twice every readable record is folded, as before the repair -/
theorem dedupRecs_spec (recs : List Rec) :
    ((dedupRecs recs).map (fun r => (r.trace, r.sid))).Nodup ∧
    ((recs.map (fun r => (r.trace, r.sid))).Nodup → dedupRecs recs = recs) :=
  ⟨Lemmas.C12.dedupRecsAux_nodup recs [], Lemmas.C12.dedupRecs_of_nodup recs⟩

/-- OLD behaviour (before c12-11) REFUTED: the fold over the stored records counted the pair s1 → s2 twice when the
child span had been delivered twice (witness corpus/tracee2e.ops) -/
theorem dep_records_old_counterexample :
    ¬ ∀ (a b : List Rec) (x r : Rec), x ∈ a → poison x = false → (x.trace, x.sid) = (r.trace, r.sid) →
        depOfRecordsOld (a ++ r :: b) = depOfRecordsOld (a ++ b) := by
  intro h
  have := h
    [{ trace := "ab", sid := "02", pid := some "01", svc := some "s2", name := some "x", start := 1, end_ := 2, dur := 1, status := some "ok" }]
    [{ trace := "ab", sid := "01", pid := some "", svc := some "s1", name := some "y", start := 0, end_ := 3, dur := 3, status := some "ok" }]
    { trace := "ab", sid := "02", pid := some "01", svc := some "s2", name := some "x", start := 1, end_ := 2, dur := 1, status := some "ok" }
    { trace := "ab", sid := "02", pid := some "01", svc := some "s2", name := some "x", start := 1, end_ := 2, dur := 1, status := some "ok" }
    (by simp) (by decide) rfl
  exact absurd this (by decide)

/-- BEFORE the repair c12-7 the statement was false: a page was unmarshalled at once, and ONE document posted to index
`traces` by another protocol with a duration that is not a uint64 (here the string "soon") left the WHOLE window
without dependency graph … -/
theorem dep_old_one_unreadable_record_blanked_the_window :
    ¬ ∀ (page : Nat) (recs : List Rec), 0 < page → depOld page recs = depOf recs := by
  intro h
  have := h 1000
    [{ trace := "ab", sid := "dd", pid := some "01", svc := some "b", name := some "doc", start := 1, end_ := 2, dur := 0, status := some "ok", durBad := some "soon" },
     { trace := "ab", sid := "02", pid := some "01", svc := some "b", name := some "x", start := 1, end_ := 2, dur := 1, status := some "ok" },
     { trace := "ab", sid := "01", pid := some "", svc := some "a", name := some "y", start := 0, end_ := 3, dur := 3, status := some "ok" }]
    (by decide)
  exact absurd this (by decide)

/-- … and true only for windows all of whose records are spans -/
theorem dep_old_partial (page : Nat) (recs : List Rec) (h : recs.any poison = false) : depOld page recs = depOf recs := by
  unfold depOld depOf
  rw [h, readable_of_no_poison recs h]
  simp

/-- the model answers: the unreadable record is skipped, the pair a → b of the other two spans is counted -/
example : dep 2
    [{ trace := "ab", sid := "dd", pid := some "01", svc := some "b", name := some "doc", start := 1, end_ := 2, dur := 0, status := some "ok", durBad := some "soon" },
     { trace := "ab", sid := "02", pid := some "01", svc := some "b", name := some "x", start := 1, end_ := 2, dur := 1, status := some "ok" },
     { trace := "ab", sid := "01", pid := some "", svc := some "a", name := some "y", start := 0, end_ := 3, dur := 3, status := some "ok" }]
    = .ok [(("a", "b"), 1)] := by decide

/-- BEFORE the repair c12-2 (ONE request, ONE page of 100 records) the statement was false … -/
theorem dep_first_page_old_counterexample :
    ¬ ∀ (page : Nat) (recs : List Rec), 0 < page → depFirstPageOld page recs = depOf recs := by
  intro h
  have := h 1
    [{ trace := "ab", sid := "02", pid := some "01", svc := some "b", name := some "x", start := 1, end_ := 2, dur := 1, status := some "ok" },
     { trace := "ab", sid := "01", pid := some "", svc := some "a", name := some "y", start := 0, end_ := 3, dur := 3, status := some "ok" }]
    (by decide)
  exact absurd this (by decide)

/-- … and true only when the window held at most one page of records (all of them spans) -/
theorem dep_first_page_old_partial (page : Nat) (recs : List Rec) (h : recs.length ≤ page) (hp : recs.any poison = false) :
    depFirstPageOld page recs = depOf recs := by
  unfold depFirstPageOld depOf
  rw [take_of_length_le h, hp, readable_of_no_poison recs hp]
  simp

/-- the model answers -/
example : dep 1 [{ trace := "ab", sid := "02", pid := some "01", svc := some "b", name := some "x", start := 1, end_ := 2, dur := 1, status := some "ok" },
     { trace := "ab", sid := "01", pid := some "", svc := some "a", name := some "y", start := 0, end_ := 3, dur := 3, status := some "ok" }]
    = .ok [(("a", "b"), 1)] := by decide

/-! ## non-vacuity -/

def exTrace : List Span :=
  [⟨3, 1, false, 2, 105, 300, true⟩, ⟨1, 0, false, 1, 100, 200, false⟩, ⟨4, 3, false, 2, 90, 95, false⟩,
   ⟨2, 1, false, 1, 110, 150, false⟩]

/-- the guards of C12.8g are satisfiable: a complete record (twice — a re-delivery — which is where the theorem says
something) -/
example : complete { trace := "ab", sid := "01", pid := some "", svc := some "a", name := some "y", start := 0, end_ := 3, dur := 3, status := some "ok" } = true := by decide
example : spanCount [{ trace := "ab", sid := "01", pid := some "", svc := some "a", name := some "y", start := 0, end_ := 3, dur := 3, status := some "ok" },
                     { trace := "ab", sid := "01", pid := some "", svc := some "a", name := some "y", start := 0, end_ := 3, dur := 3, status := some "ok" }] = 1 := by decide
/-- the guard is satisfiable (a trace with clock skew: span 4 starts before the root) … -/
example : wellFormed exTrace = true := by decide
/-- … and the view of that trace is what one expects -/
example : treeView exTrace 0 = some [(0, 1), (1, 3), (3, 4), (1, 2)] := by decide
/-- malformed classes are really excluded by the guard -/
example : wellFormed [⟨1, 0, false, 1, 0, 1, false⟩, ⟨2, 2, false, 1, 0, 1, false⟩] = false := by decide
example : wellFormed [⟨1, 0, false, 1, 0, 1, false⟩, ⟨2, 0, false, 1, 0, 1, false⟩] = false := by decide
example : wellFormed [⟨1, 0, false, 1, 0, 1, false⟩, ⟨2, 9, false, 1, 0, 1, false⟩] = false := by decide
/-- a cycle hypothesis as in C12.4b is satisfiable: self-parent -/
example : up [⟨1, 0, false, 1, 0, 1, false⟩, ⟨2, 2, false, 1, 0, 1, false⟩] 1 2 = some 2 := by decide
/-- two roots: the map order decides; the other root's subtree is dropped -/
example : treeView [⟨1, 0, false, 1, 5, 9, false⟩, ⟨2, 0, false, 1, 6, 9, false⟩, ⟨3, 2, false, 1, 7, 8, false⟩] 0
    = some [(0, 1)] := by decide
example : treeView [⟨1, 0, false, 1, 5, 9, false⟩, ⟨2, 0, false, 1, 6, 9, false⟩, ⟨3, 2, false, 1, 7, 8, false⟩] 1
    = some [(0, 2), (2, 3)] := by decide
/-- quick-select on an array long enough for the median-of-medians path -/
example : quickSelect [9, 1, 8, 2, 7, 3, 6, 4, 5, 0, 11] 4 = some 4 := by decide
set_option maxRecDepth 100000 in
/-- a percentile that interpolates: p90 of [1,2,4,5] = 4.7 = 0x4012cccccccccccd -/
example : ((pct [5, 1, 4, 2] 90).1.map Dy.bits) = some 0x4012cccccccccccd := by decide
/-- dependency graph: two calls 1→2, one call 2→1, same-service links not counted -/
example : depGraph [⟨1, 0, false, 1, 0, 5, false⟩, ⟨2, 1, false, 2, 0, 5, false⟩, ⟨3, 1, false, 2, 0, 5, false⟩,
    ⟨4, 2, false, 1, 0, 1, false⟩, ⟨5, 4, false, 1, 0, 1, false⟩] = [((1, 2), 2), ((2, 1), 1)] := by decide

end SigModel.Props.C12
