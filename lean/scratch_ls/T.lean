import SigModel.Lemmas.C20Kc
open SigModel.KV SigModel.KV.Dash SigModel.Lemmas.C20K

theorem nameTaken_put_self (fs : FS) (id : Nat) (x : Item) (p : Nat) (n : Key) :
    nameTaken { fs with items := fs.items.put id x } p n none (some id) = nameTaken fs p n none (some id) := by
  unfold nameTaken
  congr 1
  funext c
  by_cases e : c = id
  · subst e
    simp only [get_put, if_true]
    cases fs.items.get c <;> simp
  · simp only [get_put, e, if_false]

/-- an accepted updateFolder that moves or renames: at its (new) location no OTHER child carries the folder's name -/
theorem update_folder_ok_name_free (st : St) (t id : Nat) (name : Option Key) (newParent : Option Nat) (it : Item)
    (hit : (st.fs t).items.get id = some it)
    (hchg : (∃ np, newParent = some np ∧ some np ≠ it.parent) ∨ (∃ n, name = some n ∧ n ≠ it.name))
    (hok : (step st (.updateFolder t id name newParent)).2 = .res .ok) :
    ∃ it' p, ((step st (.updateFolder t id name newParent)).1.fs t).items.get id = some it' ∧ it'.parent = some p ∧
      nameTaken ((step st (.updateFolder t id name newParent)).1.fs t) p it'.name none (some id) = false := by
  sorry
