import SigModel.Model.Bloom
import Oracle.Util
/- suite "bloom" (C03 kernel slice: bloom skip rule + dictionary search path).  Byte strings are hex, `-` = empty.
   bloom add <v>                                   → keys=<sorted distinct keys handed to the bloom>
   bloom addip <v>                                 → keys=… buf=<the caller's buffer afterwards>   (in-place variant)
   bloom col <raw|de> <item,item,…>                → keys=…        items: s<hex> string, t / f bool, i number, z null
   bloom probe <*|m> <=|!=> <ci> <t> <o>           → crit=… keys=… orig=… wild=… op=… neg=…
   bloom check <*|m> <=|!=> <ci> <t> <o> M=<l> U=<l>  → (probe answer) rec=<bits|-> pass=<rotated><unrotated>
   bloom mf <and|or> <ci> <phrase> <neg> <star> W=<l> O=<l> P=<b> PO=<b> M=<l> U=<l>  → keys=… orig=… wild=… op=… rec=… pass=…
   bloom bool <=|!=> <0|1> <none|de> R=<item,…>    → keys=… orig=… wild=… op=… rec=<bits> pass=…   (boolean comparison on column c)
   dict <and|or> <ci> <phrase> W=<l> P=<b> R=<item,…>  → dict=<bits> rec=<bits>
   lists <l>: items separated by `;`, `e` = the empty string, the list `-` = no value at all (column absent) -/
namespace Oracle.C03B
open SigModel.Bloom Oracle
open SigModel.Tlv (Bytes DictRd tStr tBool tI64 tBackfill leN)

def bytes? (s : String) : Option Bytes := if s = "-" then some [] else hexBytes? s

def showB (b : Bytes) : String := if b.isEmpty then "-" else bytesHex b

def insertS (x : String) : List String → List String
  | [] => [x]
  | y :: r => if x < y then x :: y :: r else if x = y then y :: r else y :: insertS x r

def sortDedup (xs : List String) : List String := xs.foldr insertS []

def showKeys (ks : List Bytes) : String :=
  let l := sortDedup (ks.map showB)
  if l.isEmpty then "none" else ",".intercalate l

def showOrig (os : List (Bytes × Bytes)) : String :=
  let l := sortDedup (os.map fun e => showB e.1 ++ ":" ++ showB e.2)
  if l.isEmpty then "none" else ",".intercalate l

def bit (b : Bool) : String := if b then "1" else "0"
def bits (bs : List Bool) : String := if bs.isEmpty then "none" else String.join (bs.map bit)

def bool? (s : String) : Option Bool := if s = "1" then some true else if s = "0" then some false else none

/-- `K=<list>` -/
def listArg? (key : String) (s : String) : Option (Option (List Bytes)) :=
  if !s.startsWith (key ++ "=") then none else
  let body := (s.drop (key.length + 1)).toString
  if body = "-" then some none
  else ((body.splitOn ";").mapM fun it => if it = "e" then some [] else if it = "-" || it = "" then none else hexBytes? it).map some

def bytesArg? (key : String) (s : String) : Option Bytes :=
  if !s.startsWith (key ++ "=") then none else bytes? (s.drop (key.length + 1)).toString

def item? (s : String) : Option CVal :=
  if s = "t" then some (.bool true) else if s = "f" then some (.bool false)
  else if s = "i" then some .num else if s = "z" then some .backfill
  else if s.startsWith "s" then (if s.length = 1 then some (.str []) else (hexBytes? (s.drop 1).toString).map .str)
  else none

def items? (s : String) : Option (List CVal) := if s = "-" then some [] else (s.splitOn ",").mapM item?

def opName (o : Op) : String := match o with | .and => "and" | .or => "or"

def showProbe (p : Probe) : String :=
  s!"keys={showKeys p.keys} orig={showOrig p.orig} wild={bit p.wildcard} op={opName p.op}"

def critName : Crit → String
  | .err => "err"
  | .mf f => if f.isPhrase then "phrase" else "words"
  | .expr .. => "expr"
  | .number => "number"

/-- the bloom CMI of a column holding the string values `vs` (`none` = the column does not exist in the block) -/
def colBloom (vs : Option (List Bytes)) : Option BloomLike :=
  vs.map fun l => exact (l.flatMap addedKeys)

def passStr (star : Bool) (m u : Option (List Bytes)) (p : Probe) (neg : Bool) : String :=
  let cols : Cols := if star then [colBloom m, colBloom u] else [colBloom m]
  bit (passRotated star cols p neg) ++ bit (passUnrotated cols p neg)

def recsOf (m u : Option (List Bytes)) : List (Bool × Bytes) :=
  (m.getD []).map (fun v => (true, v)) ++ (u.getD []).map (fun v => (false, v))

def add (args : List String) : String :=
  match args with
  | [v] => match bytes? v with
    | some v => "keys=" ++ showKeys (addedKeys v)
    | none => "bad-op"
  | _ => "bad-op"

def addip (args : List String) : String :=
  match args with
  | [v] => match bytes? v with
    | some v => let (ks, buf) := addedKeysInPlace v; s!"keys={showKeys ks} buf={showB buf}"
    | none => "bad-op"
  | _ => "bad-op"

def col (args : List String) : String :=
  match args with
  | [mode, its] =>
    match items? its with
    | some vs =>
      if mode = "raw" then "keys=" ++ showKeys (colKeysRaw vs)
      else if mode = "de" then "keys=" ++ showKeys (colKeysDict vs)
      else "bad-op"
    | none => "bad-op"
  | _ => "bad-op"

def critOf (c o ci t orig : String) : Option (Bool × Bool × Crit) :=
  let star? := if c = "*" then some true else if c = "m" then some false else none
  let neq? := if o = "=" then some false else if o = "!=" then some true else none
  match star?, neq?, bool? ci, bytes? t, bytes? orig with
  | some star, some neq, some ci, some t, some orig => some (star, ci, processSingleFilter star neq ci t orig)
  | _, _, _, _, _ => none

def probe (args : List String) : String :=
  match args with
  | [c, o, ci, t, orig] =>
    match critOf c o ci t orig with
    | some (_, _, .number) => "crit=number"
    | some (_, ci, cr) => s!"crit={critName cr} {showProbe (cr.probe ci)} neg={bit cr.negate}"
    | none => "bad-op"
  | _ => "bad-op"

def check (args : List String) : String :=
  match args with
  | [c, o, ci, t, orig, m, u] =>
    match critOf c o ci t orig, listArg? "M" m, listArg? "U" u with
    | some (_, _, .number), some _, some _ => "crit=number"   -- numeric comparison: kernel suite cmpk, not this model
    | some (star, ci, cr), some m, some u =>
      let p := cr.probe ci
      let recs := recsOf m u
      let recS := match cr with
        | .err => "err"
        | .mf f => if p.wildcard then "-" else bits (recs.map fun (rv : Bool × Bytes) => matchRaw f ci (.str rv.2))
        | .expr fopEq val _ _ =>
          if hasStar val then "-"
          else bits (recs.map fun (rv : Bool × Bytes) => (star || rv.1) && exprRaw fopEq ci val (.str rv.2))
        | .number => "-"
      let pass := match cr with
        | .err => "err"
        | _ => passStr star m u p cr.negate
      s!"crit={critName cr} {showProbe p} neg={bit cr.negate} rec={recS} pass={pass}"
    | _, _, _ => "bad-op"
  | _ => "bad-op"

def opOf? (s : String) : Option Op := if s = "and" then some .and else if s = "or" then some .or else none

def mfCheck (args : List String) : String :=
  match args with
  | [op, ci, ph, neg, star, w, o, p, po, m, u] =>
    match opOf? op, bool? ci, bool? ph, bool? neg, bool? star with
    | some op, some ci, some ph, some neg, some star =>
      match listArg? "W" w, listArg? "O" o, bytesArg? "P" p, bytesArg? "PO" po, listArg? "M" m, listArg? "U" u with
      | some w, some o, some p, some po, some m, some u =>
        let mf : MatchFilter := { words := w.getD [], wordsOrig := o.getD [], op := op, phrase := p, phraseOrig := po,
                                  isPhrase := ph, negate := neg }
        let pr := mf.probe ci
        let wild := pr.wildcard || mf.words.any hasStar || (mf.isPhrase && hasStar mf.phrase)
        let recS := if wild then "-" else bits ((recsOf m u).map fun (rv : Bool × Bytes) => (star || rv.1) && matchRaw mf ci (.str rv.2))
        s!"{showProbe pr} rec={recS} pass={passStr star m u pr neg}"
      | _, _, _, _, _, _ => "bad-op"
    | _, _, _, _, _ => "bad-op"
  | _ => "bad-op"

def tlvOf : CVal → Bytes
  | .str s => tStr :: leN 2 s.length ++ s
  | .bool b => [tBool, if b then 1 else 0]
  | .num => tI64 :: List.replicate 8 0
  | .backfill => [tBackfill]

/-- the dictionary of a block: distinct record TLVs in order of first occurrence -/
def dictOf (recs : List Bytes) : DictRd :=
  let words := recs.foldl (fun ws t => if ws.contains t then ws else ws ++ [t]) []
  { words := words, recToWord := recs.map (fun t => words.idxOf t), badRec := false }

def dict (args : List String) : String :=
  match args with
  | [op, ci, ph, w, p, r] =>
    match opOf? op, bool? ci, bool? ph, listArg? "W" w, bytesArg? "P" p with
    | some op, some ci, some ph, some w, some p =>
      if !r.startsWith "R=" then "bad-op" else
      match items? (r.drop 2).toString with
      | some vs =>
        let mf : MatchFilter := { words := w.getD [], wordsOrig := [], op := op, phrase := p, phraseOrig := [],
                                  isPhrase := ph, negate := false }
        if mf.words.any hasStar || (mf.isPhrase && hasStar mf.phrase) then "wildcard" else
        let d := dictOf (vs.map tlvOf)
        s!"dict={bits (dictMatch mf ci d vs.length)} rec={bits (perRecordMatch mf ci d vs.length)}"
      | none => "bad-op"
    | _, _, _, _, _ => "bad-op"
  | _ => "bad-op"

def boolCheck (args : List String) : String :=
  match args with
  | [o, lit, cmi, r] =>
    let eq? := if o = "=" then some true else if o = "!=" then some false else none
    match eq?, bool? lit with
    | some eq, some lit =>
      if cmi ≠ "none" ∧ cmi ≠ "de" then "bad-op" else
      if !r.startsWith "R=" then "bad-op" else
      match items? (r.drop 2).toString with
      | some vs =>
        let cols : Cols := [if cmi = "de" then some (exact (colKeysDict vs)) else none]
        let p := boolProbe
        let _ := eq
        s!"{showProbe p} rec={bits (vs.map (boolRaw eq lit))} pass={bit (passRotated false cols p false)}{bit (passUnrotated cols p false)}"
      | none => "bad-op"
    | _, _ => "bad-op"
  | _ => "bad-op"

def handle (cmd : String) (args : List String) : Option String :=
  match cmd, args with
  | "bloom", "add" :: r => some (add r)
  | "bloom", "addip" :: r => some (addip r)
  | "bloom", "col" :: r => some (col r)
  | "bloom", "probe" :: r => some (probe r)
  | "bloom", "check" :: r => some (check r)
  | "bloom", "mf" :: r => some (mfCheck r)
  | "bloom", "bool" :: r => some (boolCheck r)
  | "bloom", _ => some "bad-op"
  | "dict", r => some (dict r)
  | _, _ => none
end Oracle.C03B
