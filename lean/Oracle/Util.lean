/- helpers for the line protocol (core only) -/
namespace Oracle

def hexDigit (c : Char) : Option Nat :=
  if '0' ≤ c ∧ c ≤ '9' then some (c.toNat - '0'.toNat)
  else if 'a' ≤ c ∧ c ≤ 'f' then some (c.toNat - 'a'.toNat + 10)
  else if 'A' ≤ c ∧ c ≤ 'F' then some (c.toNat - 'A'.toNat + 10)
  else none

/-- hex string → Nat (big endian number) -/
def hexNat? (s : String) : Option Nat :=
  if s.isEmpty then none else
  s.foldl (fun acc c => match acc, hexDigit c with
    | some a, some d => some (16 * a + d)
    | _, _ => none) (some 0)

/-- hex string → byte list ("" → []) -/
def hexBytes? (s : String) : Option (List Nat) :=
  let cs := s.toList
  if cs.length % 2 ≠ 0 then none else
  let rec go : List Char → List Nat → Option (List Nat)
    | a :: b :: r, acc => match hexDigit a, hexDigit b with
      | some x, some y => go r ((16 * x + y) :: acc)
      | _, _ => none
    | _, acc => some acc.reverse
  go cs []

def hexChar (n : Nat) : Char := if n < 10 then Char.ofNat (48 + n) else Char.ofNat (87 + n)

def byteHex (b : Nat) : String := String.ofList [hexChar (b / 16 % 16), hexChar (b % 16)]

def bytesHex (bs : List Nat) : String := String.join (bs.map byteHex)

/-- fixed-width lower-case hex of `n` with `w` digits -/
def natHexW (n w : Nat) : String :=
  String.ofList ((List.range w).map (fun i => hexChar (n / 16 ^ (w - 1 - i) % 16)))

def int? (s : String) : Option Int :=
  if s.startsWith "-" then (s.drop 1).toNat?.map (fun n => - (n : Int)) else s.toNat?.map (fun n => (n : Int))

def words (s : String) : List String := (s.splitOn " ").filter (· ≠ "")

end Oracle
