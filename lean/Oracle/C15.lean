import SigModel.Model.Bulk
import Oracle.Util
/- suite "bulk": bulk <line> <line> ...   line ::= <i|c|u|o>:<len>:<docOk 0/1>:<id>
   → items=<c|f|t...> errors=<0|1> processed=<n> stored=<id,id,...> -/
namespace Oracle.C15
open SigModel.Bulk Oracle

def parseLine (s0 : String) : Option Line :=
  -- token = <template index>/<abstract line>; the template index only matters to the Go side
  let s := match s0.splitOn "/" with | [_, a] => a | _ => s0
  match s.splitOn ":" with
  | [k, l, d, i] =>
    let kind := match k with | "i" => some Kind.index | "c" => some Kind.create | "u" => some Kind.update | "o" => some Kind.other | _ => none
    match kind, l.toNat?, d.toNat?, i.toNat? with
    | some k, some l, some d, some i => some { kind := k, len := l, docOk := d == 1, id := i }
    | _, _, _, _ => none
  | _ => none

def showSt (s : St) : String :=
  let items := String.join (s.items.map (fun | .created => "c" | .failed => "f" | .tooLarge => "t"))
  s!"items={items} errors={if s.overallError then 1 else 0} processed={s.processed}"

def handle (cmd : String) (args : List String) : Option String :=
  match cmd with
  | "bulke2e" =>
    if args.contains "||" then
      -- concurrent requests: each body is handled independently; the stored set is the union
      let bodies := (args.foldl (fun (acc : List (List String)) a =>
        if a == "||" then [] :: acc else match acc with | [] => [[a]] | h :: t => (h ++ [a]) :: t) [[]]).reverse
      match bodies.mapM (fun b => b.mapM parseLine) with
      | none => some "bad-op"
      | some bs =>
        let sts := bs.map SigModel.Bulk.handle
        let items := "|".intercalate (sts.map (fun st => String.join (st.items.map (fun | .created => "c" | .failed => "f" | .tooLarge => "t"))))
        let vids := ((sts.flatMap (·.stored)).filter (· ≠ 0)).eraseDups
        let sorted := vids.foldr (fun x acc => let (lo, hi) := acc.partition (· < x); lo ++ [x] ++ hi) []
        some s!"items={items} stored={",".intercalate (sorted.map toString)}"
    else some (match args.mapM parseLine with
      | some ls =>
        let st := SigModel.Bulk.handle ls
        let items := String.join (st.items.map (fun | .created => "c" | .failed => "f" | .tooLarge => "t"))
        -- documents are identified by their _vid; lines that are not documents of the generator (id 0) are never searchable
        let vids := (st.stored.filter (· ≠ 0)).eraseDups
        let sorted := vids.foldr (fun x acc => let (lo, hi) := acc.partition (· < x); lo ++ [x] ++ hi) []
        s!"items={items} stored={",".intercalate (sorted.map toString)}"
      | none => "bad-op")
  | "bulk" => some (match args.mapM parseLine with
      | some ls => showSt (SigModel.Bulk.handle ls)
      | none => "bad-op")
  | _ => none
end Oracle.C15
