import SigModel.Model.Bulk
import Oracle.Util
/- suite "bulk":     bulk T=<entry>,<entry>,... <line> <line> ...
     entry ::= <go part>/<valid 0|1>:<real slot>:<storefail 0|1>:<kibana 0|1>     the request's table of index names (slot = position)
     line  ::= <template>/<i|c|u|o>:<len>:<docOk 0|1>:<id>:<slot>
   → items=<c|f|t|u...> errors=<0|1> processed=<n> allfailed=<0|1> stored=<real>:<slot>=<id,id,...>;...   (u = 503; per batch the store took, sorted by real index then slot; ids in hand-over order)
   suite "bulk_e2e": bulke2e T=... <line> ... [|| <line> ...]
   → items=<...>[|<...>] stored=<real>=<id,...>;...   (per real index the documents found after the flush, ids ascending) -/
namespace Oracle.C15
open SigModel.Bulk Oracle

def parseLine (s0 : String) : Option Line :=
  -- token = <template index>/<abstract line>; the template index only matters to the Go side
  let s := match s0.splitOn "/" with | [_, a] => a | _ => s0
  match s.splitOn ":" with
  | [k, l, d, i, x] =>
    let kind := match k with | "i" => some Kind.index | "c" => some Kind.create | "u" => some Kind.update | "o" => some Kind.other | _ => none
    match kind, l.toNat?, d.toNat?, i.toNat?, x.toNat? with
    | some k, some l, some d, some i, some x => if d ≤ 1 then some { kind := k, len := l, docOk := d == 1, id := i, idx := x } else none
    | _, _, _, _, _ => none
  | _ => none

structure Entry where
  valid : Bool
  real  : Nat
  fail  : Bool
  kib   : Bool

def parseEntry (s0 : String) : Option Entry :=
  match s0.splitOn "/" with
  | [_, a] =>
    match a.splitOn ":" with
    | [v, r, f, k] =>
      match v.toNat?, r.toNat?, f.toNat?, k.toNat? with
      | some v, some r, some f, some k =>
        if v ≤ 1 ∧ f ≤ 1 ∧ k ≤ 1 then some { valid := v == 1, real := r, fail := f == 1, kib := k == 1 } else none
      | _, _, _, _ => none
    | _ => none
  | _ => none

def parseTable (s : String) : Option (List Entry) :=
  if s.startsWith "T=" then ((s.drop 2).toString.splitOn ",").mapM parseEntry else none

/-- the environment an index table stands for; a slot outside the table is an invalid name -/
def envOf (t : List Entry) : Env :=
  { valid := fun k => match t[k]? with | some e => e.valid | none => false
    kibana := fun k => match t[k]? with | some e => e.kib | none => false
    resolve := fun k => match t[k]? with | some e => e.real | none => k
    store := fun i _ => match t[i]? with | some e => !e.fail | none => true }

def showItems (r : Resp) : String :=
  String.join (r.items.map (fun | .created => "c" | .failed => "f" | .tooLarge => "t" | .unavailable => "u"))

def insertBy {α : Type} (lt : α → α → Bool) (x : α) : List α → List α
  | [] => [x]
  | y :: r => if lt x y then x :: y :: r else y :: insertBy lt x r

def sortBy {α : Type} (lt : α → α → Bool) (l : List α) : List α := l.foldr (insertBy lt) []

def commaNats (l : List Nat) : String := ",".intercalate (l.map toString)

/-- the batches the store took: (real index, index name, document ids in hand-over order) -/
def takenBatches (r : Resp) : List (Nat × Nat × List Nat) :=
  r.calls.filterMap (fun c => match c.res with
    | .stored real => some (real, c.idx, c.docs.map (·.2.1))
    | _ => none)

def showBulk (r : Resp) : String :=
  let bs := sortBy (fun a b => a.1 < b.1 || (a.1 == b.1 && a.2.1 < b.2.1)) (takenBatches r)
  let stored := ";".intercalate (bs.map (fun b => s!"{b.1}:{b.2.1}={commaNats b.2.2}"))
  s!"items={showItems r} errors={if r.errors then 1 else 0} processed={r.st.processed} allfailed={if r.numCreated == 0 then 1 else 0} stored={stored}"

/-- per real index the ids (≠ 0: only the generator's documents carry a _vid) the store took, ascending, over all requests -/
def showFound (rs : List Resp) : String :=
  let all := rs.flatMap takenBatches
  let reals := sortBy (· < ·) (all.map (·.1)).eraseDups
  let per := reals.filterMap (fun real =>
    let ids := sortBy (· < ·) (((all.filter (·.1 == real)).flatMap (·.2.2)).filter (· ≠ 0)).eraseDups
    if ids.isEmpty then none else some s!"{real}={commaNats ids}")
  ";".intercalate per

def splitBodies (args : List String) : List (List String) :=
  (args.foldl (fun (acc : List (List String)) a =>
    if a == "||" then [] :: acc else match acc with | [] => [[a]] | h :: t => (h ++ [a]) :: t) [[]]).reverse

def handle (cmd : String) (args : List String) : Option String :=
  match cmd, args with
  | "bulke2e", t :: rest =>
    match parseTable t, (splitBodies rest).mapM (fun b => b.mapM parseLine) with
    | some tab, some bs =>
      -- concurrent requests: each body is handled independently; the stored set is the union
      let rs := bs.map (handleReq (envOf tab))
      some s!"items={"|".intercalate (rs.map showItems)} stored={showFound rs}"
    | _, _ => some "bad-op"
  | "bulk", t :: rest =>
    match parseTable t, rest.mapM parseLine with
    | some tab, some ls => some (showBulk (handleReq (envOf tab) ls))
    | _, _ => some "bad-op"
  | "bulk", [] => some "bad-op"
  | "bulke2e", [] => some "bad-op"
  | _, _ => none
end Oracle.C15
