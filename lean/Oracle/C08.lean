import SigModel.Model.Gorilla
import SigModel.Spec.Metrics
import SigModel.Model.TagsTree
import Oracle.Util
/- line protocol, suite "gorilla":
   gor <header> <cloneAt> <t>:<vhex16> ...   →  bytes=<hex> dec=<t:v,...>/<st> clone=<t:v,...>/<st>
-/
namespace Oracle.C08
open SigModel SigModel.Gorilla Oracle

def parsePt (s : String) : Option (Nat × Nat) :=
  match s.splitOn ":" with
  | [t, v] => match t.toNat?, hexNat? v with
    | some t, some v => some (t, v)
    | _, _ => none
  | _ => none

def showDec (r : Option (Nat × List (Nat × Nat) × Status)) : String :=
  match r with
  | none => "nohdr"
  | some (_, ps, st) =>
    String.intercalate "," (ps.map (fun (t, v) => s!"{t}:{natHexW v 16}")) ++
      (match st with | .eof => "/eof" | .err => "/err")

def gor (args : List String) : String :=
  match args with
  | h :: k :: pts =>
    match h.toNat?, k.toNat?, pts.mapM parsePt with
    | some h, some k, some pts =>
      let bits := encodeAll h pts
      let bytes := pack bits
      let dec := decodeAll (unpack bytes)
      let cl := decodeAll (unpack (pack (encodeAll h (pts.take k))))
      s!"bytes={bytesHex bytes} dec={showDec dec} clone={showDec cl}"
    | _, _, _ => "bad-op"
  | _ => "bad-op"

/-- gdec <hex bytes> : decode arbitrary bytes (malformed stream) -/
def gdec (args : List String) : String :=
  match args with
  | [] => s!"dec={showDec (decodeAll [])}"
  | [h] => match hexBytes? h with
    | some bs => s!"dec={showDec (decodeAll (unpack bs))}"
    | none => "bad-op"
  | _ => "bad-op"

/-! suite "tsidpre":  tsid <series> <series>   series = <hexname>{<hexkey>=<hexvalue>,…} (distinct keys)
    →  pre1=<hex> pre2=<hex> same=<0|1>     (the bytes GetTSID hashes: Spec/Metrics.lean `preimageB`, tags in
    descending bytewise key order as `TagsHolder.finish` sorts them) -/

/-- lexicographic ≤ on byte strings (Go's string comparison) -/
def bytesLe : List Nat → List Nat → Bool
  | [], _ => true
  | _ :: _, [] => false
  | a :: r, b :: s => a < b || (a == b && bytesLe r s)

def sortTagsDesc (tags : List (List Nat × List Nat)) : List (List Nat × List Nat) :=
  SigModel.Spec.Metrics.sortBy (fun a b => bytesLe b.1 a.1) tags

def hasDupKey : List (List Nat × List Nat) → Bool
  | [] => false
  | kv :: r => r.any (fun x => x.1 == kv.1) || hasDupKey r

def parseTsidSeries (tok : String) : Option (List Nat × List (List Nat × List Nat)) :=
  match tok.splitOn "{" with
  | [n, rest] =>
    if !rest.endsWith "}" then none else
    let ls := (rest.dropEnd 1).toString
    let tags? : Option (List (List Nat × List Nat)) :=
      if ls.isEmpty then some [] else
      (ls.splitOn ",").mapM (fun kv => match kv.splitOn "=" with
        | [k, v] => match hexBytes? k, hexBytes? v with
          | some k, some v => some (k, v)
          | _, _ => none
        | _ => none)
    match hexBytes? n, tags? with
    | some n, some tags => if hasDupKey tags then none else some (n, tags)
    | _, _ => none
  | _ => none

def tsid (args : List String) : String :=
  match args with
  | [a, b] =>
    match parseTsidSeries a, parseTsidSeries b with
    | some (n1, t1), some (n2, t2) =>
      let s1 := sortTagsDesc t1
      let s2 := sortTagsDesc t2
      let same := n1 == n2 && s1 == s2
      s!"pre1={bytesHex (SigModel.Spec.Metrics.preimageB n1 s1)} pre2={bytesHex (SigModel.Spec.Metrics.preimageB n2 s2)} same={if same then "1" else "0"}"
    | _, _ => "bad-op"
  | _ => "bad-op"

/-! suite "tagstree":  tt <metric 0|1>:<type s|n>:<hexvalue>:<count>:<order d|a|r> …   (harness/cmd/corr/c08_tagstree.go)
    → per entry  <j>:eq=<n>/<sum>:ne=<n>/<sum>:it=<n>/<sum>  computed by the block-level model (SigModel.TagsTree):
    the entries of a metric are encoded into blocks of at most 65535 TSIDs, then read back by readEqual / readNotEqual / iterFor -/

structure TTEntry where
  metric : Nat
  count : Nat
deriving Inhabited

def ttDigits (s : String) : Bool := !s.isEmpty && s.toList.all Char.isDigit

def ttParseEntry (t : String) : Option (TTEntry × String) :=
  match t.splitOn ":" with
  | [m, ty, v, n, ord] =>
    if (m != "0" && m != "1") || (ty != "s" && ty != "n") || !ttDigits n || n.length > 6 || (ord != "d" && ord != "a" && ord != "r") then none else
    match hexBytes? v, n.toNat? with
    | some vb, some cnt =>
      let lower := v.toList.all (fun c => c.isDigit || ('a' ≤ c && c ≤ 'f'))
      let intOk := match vb.map Char.ofNat with
        | ['0'] => true
        | c :: r => c.isDigit && c != '0' && r.all Char.isDigit && r.length ≤ 14
        | [] => false
      if !lower || cnt > 200000 || (ord != "d" && cnt > 3000) then none
      else if ty == "n" && !intOk then none
      else if ty == "s" && (vb.length > 65535 || vb.contains 92) then none
      else some ({ metric := if m == "0" then 0 else 1, count := cnt }, m ++ ":" ++ ty ++ ":" ++ v)
    | _, _ => none
  | _ => none

def ttHasDup : List String → Bool
  | [] => false
  | x :: r => r.contains x || ttHasDup r

def ttSum (l : List Nat) : Nat := l.foldl (fun a b => (a + b) % 18446744073709551616) 0

def ttShow (l : List Nat) : String := s!"{l.length}/{natHexW (ttSum l) 16}"

def tt (args : List String) : String :=
  if args.isEmpty || args.length > 40 then "bad-op" else
  match args.mapM ttParseEntry with
  | none => "bad-op"
  | some es =>
    if ttHasDup (es.map (·.2)) || (es.map (·.1.count)).foldl (· + ·) 0 > 400000 then "bad-op" else
    let ents : List (Nat × Nat × TagsTree.Entry) := (List.range es.length).map (fun j =>
      let e := (es.getD j default).1
      (j, e.metric, { hash := j + 1, tsids := (List.range e.count).map (fun i => (j + 1) * 4294967296 + i) }))
    let blocksOfMetric (m : Nat) : List TagsTree.Block := TagsTree.encodeBlocks ((ents.filter (fun x => x.2.1 == m)).map (·.2.2))
    let b0 := blocksOfMetric 0
    let b1 := blocksOfMetric 1
    " ".intercalate (ents.map (fun (j, m, e) =>
      let bs := if m == 0 then b0 else b1
      s!"{j}:eq={ttShow (TagsTree.readEqual e.hash false bs)}:ne={ttShow (TagsTree.readNotEqual e.hash bs)}:it={ttShow (TagsTree.iterFor e.hash bs)}"))

def handle (cmd : String) (args : List String) : Option String :=
  match cmd with
  | "tt" => some (tt args)
  | "gor" => some (gor args)
  | "gdec" => some (gdec args)
  | "tsid" => some (tsid args)
  | _ => none

end Oracle.C08
