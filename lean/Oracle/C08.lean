import SigModel.Model.Gorilla
import Oracle.Util
/- line protocol, suite "gorilla":
   gor <header> <cloneAt> <t>:<vhex16> ...   →  bytes=<hex> dec=<t:v,...>/<st> clone=<t:v,...>/<st>
-/
namespace Oracle.C08
open SigModel SigModel.Gorilla Oracle

def parsePt (s : String) : Option (Nat × Nat) :=
  match s.splitOn ":" with
  | [t, v] => match t.toNat?, hexNat? v with
    | some t, some v => some (t, v)
    | _, _ => none
  | _ => none

def showDec (r : Option (Nat × List (Nat × Nat) × Status)) : String :=
  match r with
  | none => "nohdr"
  | some (_, ps, st) =>
    String.intercalate "," (ps.map (fun (t, v) => s!"{t}:{natHexW v 16}")) ++
      (match st with | .eof => "/eof" | .err => "/err")

def gor (args : List String) : String :=
  match args with
  | h :: k :: pts =>
    match h.toNat?, k.toNat?, pts.mapM parsePt with
    | some h, some k, some pts =>
      let bits := encodeAll h pts
      let bytes := pack bits
      let dec := decodeAll (unpack bytes)
      let cl := decodeAll (unpack (pack (encodeAll h (pts.take k))))
      s!"bytes={bytesHex bytes} dec={showDec dec} clone={showDec cl}"
    | _, _, _ => "bad-op"
  | _ => "bad-op"

/-- gdec <hex bytes> : decode arbitrary bytes (malformed stream) -/
def gdec (args : List String) : String :=
  match args with
  | [] => s!"dec={showDec (decodeAll [])}"
  | [h] => match hexBytes? h with
    | some bs => s!"dec={showDec (decodeAll (unpack bs))}"
    | none => "bad-op"
  | _ => "bad-op"

def handle (cmd : String) (args : List String) : Option String :=
  match cmd with
  | "gor" => some (gor args)
  | "gdec" => some (gdec args)
  | _ => none

end Oracle.C08
