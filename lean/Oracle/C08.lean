import SigModel.Model.Gorilla
import SigModel.Spec.Metrics
import Oracle.Util
/- line protocol, suite "gorilla":
   gor <header> <cloneAt> <t>:<vhex16> ...   →  bytes=<hex> dec=<t:v,...>/<st> clone=<t:v,...>/<st>
-/
namespace Oracle.C08
open SigModel SigModel.Gorilla Oracle

def parsePt (s : String) : Option (Nat × Nat) :=
  match s.splitOn ":" with
  | [t, v] => match t.toNat?, hexNat? v with
    | some t, some v => some (t, v)
    | _, _ => none
  | _ => none

def showDec (r : Option (Nat × List (Nat × Nat) × Status)) : String :=
  match r with
  | none => "nohdr"
  | some (_, ps, st) =>
    String.intercalate "," (ps.map (fun (t, v) => s!"{t}:{natHexW v 16}")) ++
      (match st with | .eof => "/eof" | .err => "/err")

def gor (args : List String) : String :=
  match args with
  | h :: k :: pts =>
    match h.toNat?, k.toNat?, pts.mapM parsePt with
    | some h, some k, some pts =>
      let bits := encodeAll h pts
      let bytes := pack bits
      let dec := decodeAll (unpack bytes)
      let cl := decodeAll (unpack (pack (encodeAll h (pts.take k))))
      s!"bytes={bytesHex bytes} dec={showDec dec} clone={showDec cl}"
    | _, _, _ => "bad-op"
  | _ => "bad-op"

/-- gdec <hex bytes> : decode arbitrary bytes (malformed stream) -/
def gdec (args : List String) : String :=
  match args with
  | [] => s!"dec={showDec (decodeAll [])}"
  | [h] => match hexBytes? h with
    | some bs => s!"dec={showDec (decodeAll (unpack bs))}"
    | none => "bad-op"
  | _ => "bad-op"

/-! suite "tsidpre":  tsid <series> <series>   series = <hexname>{<hexkey>=<hexvalue>,…} (distinct keys)
    →  pre1=<hex> pre2=<hex> same=<0|1>     (the bytes GetTSID hashes: Spec/Metrics.lean `preimageB`, tags in
    descending bytewise key order as `TagsHolder.finish` sorts them) -/

/-- lexicographic ≤ on byte strings (Go's string comparison) -/
def bytesLe : List Nat → List Nat → Bool
  | [], _ => true
  | _ :: _, [] => false
  | a :: r, b :: s => a < b || (a == b && bytesLe r s)

def sortTagsDesc (tags : List (List Nat × List Nat)) : List (List Nat × List Nat) :=
  SigModel.Spec.Metrics.sortBy (fun a b => bytesLe b.1 a.1) tags

def hasDupKey : List (List Nat × List Nat) → Bool
  | [] => false
  | kv :: r => r.any (fun x => x.1 == kv.1) || hasDupKey r

def parseTsidSeries (tok : String) : Option (List Nat × List (List Nat × List Nat)) :=
  match tok.splitOn "{" with
  | [n, rest] =>
    if !rest.endsWith "}" then none else
    let ls := (rest.dropEnd 1).toString
    let tags? : Option (List (List Nat × List Nat)) :=
      if ls.isEmpty then some [] else
      (ls.splitOn ",").mapM (fun kv => match kv.splitOn "=" with
        | [k, v] => match hexBytes? k, hexBytes? v with
          | some k, some v => some (k, v)
          | _, _ => none
        | _ => none)
    match hexBytes? n, tags? with
    | some n, some tags => if hasDupKey tags then none else some (n, tags)
    | _, _ => none
  | _ => none

def tsid (args : List String) : String :=
  match args with
  | [a, b] =>
    match parseTsidSeries a, parseTsidSeries b with
    | some (n1, t1), some (n2, t2) =>
      let s1 := sortTagsDesc t1
      let s2 := sortTagsDesc t2
      let same := n1 == n2 && s1 == s2
      s!"pre1={bytesHex (SigModel.Spec.Metrics.preimageB n1 s1)} pre2={bytesHex (SigModel.Spec.Metrics.preimageB n2 s2)} same={if same then "1" else "0"}"
    | _, _ => "bad-op"
  | _ => "bad-op"

def handle (cmd : String) (args : List String) : Option String :=
  match cmd with
  | "gor" => some (gor args)
  | "gdec" => some (gdec args)
  | "tsid" => some (tsid args)
  | _ => none

end Oracle.C08
