import SigModel.Model.Sched
import SigModel.Model.SortCmp
import Oracle.Util
/- suites "c05sched" / "c05cmp" (harness/cmd/corr/c05_sched.go)

   sched <rf|rl> <maxBlocks> <seg>/<seg>/…     seg ::= <start>-<stop>=<blk>;<blk>;…   blk ::= <low>:<high>:<ts>,<ts>,…
        ("-" = no segment request at all; a segment without blocks is "<start>-<stop>="; a block without
        records is "<low>:<high>:").  Block ids and record ids are assigned in order of appearance.  Times are
        decimal uint64 (0 … 18446744073709551615), so `Props.C05.TsFit` holds of every op line.
        → "eof [id@ts,id@ts|…|…]" = the released batches (or "stuck […]" when EOF is not reached within
        fuelBound Fetch calls — since the repair of fetchRRCs (`lastBlocks`) the model never answers "stuck" for
        uint64 timestamps, Props.C05.fetch_always_reaches_eof; the Go side still prints it when the real searcher
        does not reach EOF); inside a batch runs of equal timestamps are ordered by id.  1 <= maxBlocks <= 64.
   c5nb <rf|rl> <maxBlocks> <low>:<high>;…        → "<numBlocks> <endTime>" of getNextBlocks(sortBlocks(blocks))
   c5vr <rf|rl> <last> <ts>,<ts>,…                → number of records getValidRRCs keeps from sortRRCs(records)
   scroll <from> <n1>,<n2>,…                    → records 0.. cut into batches of these sizes through scrollProcessor
   c5head <limit> <n1>,<n2>,…                     → … through headProcessor (no condition)
   cmpv <asc|desc> <op> <val> <val>             → lt | gt | eq          op ::= num | auto | none | str | ip
   c5less <keys> <rec> <rec>                      → true | false          keys ::= <a|d><op>,…   rec ::= <val>,<val>,…
   c5sort <limit> <keys> <rec>;<rec>|<rec>;…   → "nonswo" when `less` is not a strict weak order on these records,
        otherwise the equivalence-class index (0 = smallest) of each of the first <limit> records of the sorted
        order; "|" separates the batches given to sortProcessor.Process
   val ::= i<int64> | u<uint64> | f<16 hex bits>:<hex of Sprintf("%f")> | s<hex bytes>:<16 hex bits of ParseFloat | -> | b0 | b1 | n
-/
namespace Oracle.C05
open SigModel.Sched SigModel.SortCmp Oracle

def dropS (n : Nat) (s : String) : String := String.ofList (s.toList.drop n)
def takeS (n : Nat) (s : String) : String := String.ofList (s.toList.take n)

def parseMode (s : String) : Option Mode :=
  if s = "rf" then some .recentFirst else if s = "rl" then some .recentLast else none

def natList? (s : String) : Option (List Nat) :=
  if s.isEmpty then some [] else (s.splitOn ",").mapM (·.toNat?)

/-- a timestamp: a decimal uint64 (at most 20 digits; the Go side parses with strconv.ParseUint) -/
def u64? (s : String) : Option Nat :=
  if s.isEmpty || s.length > 20 || !s.all Char.isDigit then none else
  match s.toNat? with
  | some n => if n ≤ maxU64 then some n else none
  | none => none

def u64List? (s : String) : Option (List Nat) :=
  if s.isEmpty then some [] else (s.splitOn ",").mapM u64?

/-- "<low>:<high>:<ts,…>" -/
def parseBlockRaw (s : String) : Option (Nat × Nat × List Nat) :=
  match s.splitOn ":" with
  | [l, h, ts] =>
    match u64? l, u64? h, u64List? ts with
    | some l, some h, some ts => some (l, h, ts)
    | _, _, _ => none
  | _ => none

def parseSegRaw (s : String) : Option (Nat × Nat × List (Nat × Nat × List Nat)) :=
  match s.splitOn "=" with
  | [rng, bl] =>
    match rng.splitOn "-" with
    | [a, b] =>
      match u64? a, u64? b with
      | some a, some b =>
        if bl.isEmpty then some (a, b, [])
        else match (bl.splitOn ";").mapM parseBlockRaw with
          | some bs => some (a, b, bs)
          | none => none
      | _, _ => none
    | _ => none
  | _ => none

/-- assign block ids and record ids in order of appearance -/
def numberSegs (raw : List (Nat × Nat × List (Nat × Nat × List Nat))) : List Seg :=
  let rec goRecs (ts : List Nat) (rid : Nat) : List Rec × Nat :=
    match ts with
    | [] => ([], rid)
    | t :: r => let x := goRecs r (rid + 1); ((rid, t) :: x.1, x.2)
  let rec goBlocks (bs : List (Nat × Nat × List Nat)) (bid rid : Nat) : List Block × Nat × Nat :=
    match bs with
    | [] => ([], bid, rid)
    | (l, h, ts) :: r =>
      let rr := goRecs ts rid
      let x := goBlocks r (bid + 1) rr.2
      ({ id := bid, low := l, high := h, recs := rr.1 } :: x.1, x.2.1, x.2.2)
  let rec goSegs (ss : List (Nat × Nat × List (Nat × Nat × List Nat))) (bid rid : Nat) : List Seg :=
    match ss with
    | [] => []
    | (a, b, bs) :: r =>
      let x := goBlocks bs bid rid
      { start := a, stop := b, blocks := x.1 } :: goSegs r x.2.1 x.2.2
  goSegs raw 0 0

def parseSegs (s : String) : Option (List Seg) :=
  if s = "-" then some [] else
  match (s.splitOn "/").mapM parseSegRaw with
  | some raw => some (numberSegs raw)
  | none => none

/-- order runs of equal timestamps by id (insertion sort on id inside a run) -/
def canonBatch (rs : List Rec) : List Rec :=
  let ins (x : Rec) : List Rec → List Rec :=
    fun l =>
      let rec go : List Rec → List Rec
        | [] => [x]
        | y :: ys => if y.2 = x.2 && y.1 < x.1 then y :: go ys else x :: y :: ys
      go l
  rs.foldr ins []

def showBatch (rs : List Rec) : String :=
  String.intercalate "," ((canonBatch rs).map (fun r => s!"{r.1}@{r.2}"))

def sched (args : List String) : String :=
  match args with
  | [m, mb, segs] =>
    match parseMode m, mb.toNat?, parseSegs segs with
    | some m, some mb, some segs =>
      if mb = 0 || mb > 64 then "bad-op" else
      let r := runFetch m mb (fuelBound segs) (init m segs)
      (if r.2 then "eof [" else "stuck [") ++ String.intercalate "|" (r.1.map showBatch) ++ "]"
    | _, _, _ => "bad-op"
  | _ => "bad-op"

def nb (args : List String) : String :=
  match args with
  | [m, mb, bl] =>
    match parseMode m, mb.toNat?, (bl.splitOn ";").mapM (fun t => parseBlockRaw (t ++ ":")) with
    | some m, some mb, some raw =>
      if mb = 0 || mb > 64 then "bad-op" else
      let blocks : List Block := raw.zipIdx.map (fun (x, i) => { id := i, low := x.1, high := x.2.1, recs := [] })
      let r := getNextBlocks m (sortBlocks m blocks) mb
      s!"{r.1.length} {r.2}"
    | _, _, _ => "bad-op"
  | _ => "bad-op"

def vr (args : List String) : String :=
  match args with
  | [m, last, ts] =>
    match parseMode m, last.toNat?, natList? ts with
    | some m, some last, some ts =>
      let recs : List Rec := ts.zipIdx.map (fun (t, i) => (i, t))
      s!"{(getValidRRCs m (sortRRCs m recs) last).length}"
    | _, _, _ => "bad-op"
  | _ => "bad-op"

/-- consecutive ids 0.. cut into batches of the given sizes -/
def cutBatches (sizes : List Nat) : List (List Nat) :=
  let rec go (sz : List Nat) (next : Nat) : List (List Nat) :=
    match sz with
    | [] => []
    | n :: r => (List.range n).map (· + next) :: go r (next + n)
  go sizes 0

def showIds (bs : List (List Nat)) : String :=
  String.intercalate "|" (bs.map (fun b => String.intercalate "," (b.map toString)))

def scroll (args : List String) : String :=
  match args with
  | [f, sizes] =>
    match f.toNat?, natList? sizes with
    | some f, some sizes => showIds (scrollRun f (cutBatches sizes))
    | _, _ => "bad-op"
  | _ => "bad-op"

def head (args : List String) : String :=
  match args with
  | [l, sizes] =>
    match l.toNat?, natList? sizes with
    | some l, some sizes => showIds (headRun l 0 (cutBatches sizes))
    | _, _ => "bad-op"
  | _ => "bad-op"

/-! ### comparator -/

/-- float64 bit pattern → value -/
def fltOfBits (n : Nat) : Flt :=
  let sign : Nat := n / 2 ^ 63 % 2
  let e : Nat := n / 2 ^ 52 % 2048
  let mant : Nat := n % 2 ^ 52
  if e = 2047 then (if mant ≠ 0 then .nan else if sign = 1 then .ninf else .pinf)
  else
    let mag : Rat :=
      if e = 0 then ((mant : Nat) : Rat) * pow2 (-1074)
      else (((2 ^ 52 + mant : Nat)) : Rat) * pow2 ((e : Int) - 1075)
    .fin (if sign = 1 then -mag else mag)

def hex64? (s : String) : Option Nat := if s.length = 16 then hexNat? s else none

def parseVal (s : String) : Option Val :=
  let c := takeS 1 s
  let rest := dropS 1 s
  match c with
  | "i" => match int? rest with
    | some i => if -(2 : Int) ^ 63 ≤ i ∧ i < (2 : Int) ^ 63 then some (.int i) else none
    | none => none
  | "u" => match rest.toNat? with
    | some n => if n < 2 ^ 64 then some (.int n) else none
    | none => none
  | "f" => match rest.splitOn ":" with
    | [bits, txt] => match hex64? bits, hexBytes? txt with
      | some b, some t => some (.float (fltOfBits b) t)
      | _, _ => none
    | _ => none
  | "s" => match rest.splitOn ":" with
    | [hx, pf] => match hexBytes? hx with
      | some b =>
        if pf = "-" then some (.str b none)
        else match hex64? pf with
          | some bits => some (.str b (some (fltOfBits bits)))
          | none => none
      | none => none
    | _ => none
  | "b" => if rest = "0" then some (.bool false) else if rest = "1" then some (.bool true) else none
  | "n" => if rest.isEmpty then some .null else none
  | _ => none

def parseOp (s : String) : Option SortOp :=
  if s = "num" || s = "auto" || s = "none" then some .num
  else if s = "str" then some .str
  else if s = "ip" then some .other
  else none

def parseAsc (s : String) : Option Bool :=
  if s = "asc" then some true else if s = "desc" then some false else none

def cmpv (args : List String) : String :=
  match args with
  | [asc, op, a, b] =>
    match parseAsc asc, parseOp op, parseVal a, parseVal b with
    | some asc, some op, some a, some b =>
      match compareValues roundF64 a b asc op with
      | .less => "lt"
      | .greater => "gt"
      | .equal => "eq"
    | _, _, _, _ => "bad-op"
  | _ => "bad-op"

def parseKey (s : String) : Option (Bool × SortOp) :=
  let c := takeS 1 s
  match (if c = "a" then some true else if c = "d" then some false else none), parseOp (dropS 1 s) with
  | some asc, some op => some (asc, op)
  | _, _ => none

def parseKeys (s : String) : Option (List (Bool × SortOp)) := (s.splitOn ",").mapM parseKey

def parseRec (nkeys : Nat) (s : String) : Option (List Val) :=
  match (s.splitOn ",").mapM parseVal with
  | some vs => if vs.length = nkeys then some vs else none
  | none => none

def lessOp (args : List String) : String :=
  match args with
  | [keys, a, b] =>
    match parseKeys keys with
    | some ks =>
      match parseRec ks.length a, parseRec ks.length b with
      | some a, some b => if less roundF64 ks a b then "true" else "false"
      | _, _ => "bad-op"
    | none => "bad-op"
  | _ => "bad-op"

/-- `lt` is a strict weak order on the listed elements (irreflexive, transitive, incomparability transitive) -/
def isSWO (lt : α → α → Bool) (xs : List α) : Bool :=
  xs.all (fun a => !lt a a) &&
  xs.all (fun a => xs.all (fun b => xs.all (fun c =>
    (!(lt a b && lt b c) || lt a c) &&
    (!((!lt a b && !lt b a) && (!lt b c && !lt c b)) || (!lt a c && !lt c a)))))

def insertLt (lt : α → α → Bool) (x : α) : List α → List α
  | [] => [x]
  | y :: ys => if lt x y then x :: y :: ys else y :: insertLt lt x ys

def classIdx (lt : α → α → Bool) : List α → List Nat
  | [] => []
  | x :: xs =>
    let rec go (prev : α) (k : Nat) : List α → List Nat
      | [] => []
      | y :: ys => let k' := if lt prev y then k + 1 else k; k' :: go y k' ys
    0 :: go x 0 xs

def sortrun (args : List String) : String :=
  match args with
  | [lim, keys, recs] =>
    match lim.toNat?, parseKeys keys with
    | some lim, some ks =>
      -- limit 0 = `sort 0` = no limit (the parser hands the processor MaxUint64); "ip" makes Process fail (validate)
      if ks.any (fun k => k.2 == SortOp.other) then "bad-op" else
      let toks := (recs.splitOn "|").flatMap (fun b => if b.isEmpty then [] else b.splitOn ";")
      match toks.mapM (parseRec ks.length) with
      | some rs =>
        let lt := less roundF64 ks
        if !isSWO lt rs then "nonswo"
        else
          let sorted := rs.foldr (insertLt lt) []
          String.intercalate "," (((classIdx lt sorted).take (if lim = 0 then sorted.length else lim)).map toString)
      | none => "bad-op"
    | _, _ => "bad-op"
  | _ => "bad-op"

def handle (cmd : String) (args : List String) : Option String :=
  match cmd with
  | "sched" => some (sched args)
  | "c5nb" => some (nb args)
  | "c5vr" => some (vr args)
  | "scroll" => some (scroll args)
  | "c5head" => some (head args)
  | "cmpv" => some (cmpv args)
  | "c5less" => some (lessOp args)
  | "c5sort" => some (sortrun args)
  | _ => none
end Oracle.C05
