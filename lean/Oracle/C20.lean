import SigModel.Model.Alert
import SigModel.Model.AlertJob
import SigModel.Model.AlertSet
import Oracle.Util
/- suite "alert": alert <window> <interval> <cooldown> <silence> <op> <op> ...
     op ::= e1 | e0   evaluation, condition matched / not matched, webhook reachable
          | f1 | f0   the same with the webhook transport failing
          | t<k>      k minutes pass
          | u         the alert's configuration is saved (history row "Config Modified")
   → one token per evaluation  <state I|N|P|F>:<notified 0/1>:<last notified state I|N|P|F>
     then  h=<number of history rows>  -/
namespace Oracle.C20
open SigModel.Alert Oracle

def parseOp (s : String) : Option Op :=
  match s with
  | "e1" => some (.eval true true)
  | "e0" => some (.eval false true)
  | "f1" => some (.eval true false)
  | "f0" => some (.eval false false)
  | "u" => some .cfgChange
  | _ =>
    if s.startsWith "t" then ((s.drop 1).toString.toNat?).map .tick else none

def showState : AState → String
  | .inactive => "I" | .normal => "N" | .pending => "P" | .firing => "F"

def alert (args : List String) : String :=
  match args with
  | w :: i :: c :: sl :: ops =>
    match w.toNat?, i.toNat?, c.toNat?, sl.toNat?, ops.mapM parseOp with
    | some w, some i, some c, some sl, some ops =>
      if i = 0 then "bad-op" else
      let cfg : Cfg := { window := w, interval := i, cooldown := c, silence := sl }
      let rec go (s : Sys) (ops : List Op) (acc : List String) : List String × Sys :=
        match ops with
        | [] => (acc.reverse, s)
        | op :: r =>
          let (s', o) := stepOp cfg s op
          match o with
          | none => go s' r acc
          | some o => go s' r (s!"{showState o.state}:{if o.notified then 1 else 0}:{showState s'.st.lastSentState}" :: acc)
      let (toks, s) := go (init 0) ops []
      String.intercalate " " (toks ++ [s!"h={s.st.hist.length}"])
    | _, _, _, _, _ => "bad-op"
  | _ => "bad-op"

/- suite "alertjob": aj <window> <interval> <cooldown> <op> <op> ...     (Model/SigModel.AlertJob.lean)
     op ::= e1 | e0 | f1 | f0 | t<k>     as above
          | R            restart: the job is re-created from the row (InitAlertingService)
          | U<w>/<i>     edit: ProcessUpdateAlertRequest with EvalWindow w, EvalInterval i (i ≥ 1)
          | S<k>         ProcessSilenceAlertRequest, k minutes        | Q   ProcessUnsilenceAlertRequest
   → per evaluation  <state>:<notified>:<last notified state>;  per R / accepted U the definition the NEW job
     object carries `R<w>/<i>` `U<w>/<i>`; refused requests `U!` `S!`; accepted `S` `Q`; then h=<history rows>.
   The line is bad-op when the creation request would be refused (window < interval) or an interval is 0. -/
def parseJobOp (s : String) : Option SigModel.AlertJob.Op :=
  match s with
  | "e1" => some (.eval true true)
  | "e0" => some (.eval false true)
  | "f1" => some (.eval true false)
  | "f0" => some (.eval false false)
  | "R" => some .restart
  | "Q" => some .unsilence
  | _ =>
    if s.startsWith "t" then ((s.drop 1).toString.toNat?).map .tick
    else if s.startsWith "S" then ((s.drop 1).toString.toNat?).map .silence
    else if s.startsWith "U" then
      match (s.drop 1).toString.splitOn "/" with
      | [a, b] =>
        match a.toNat?, b.toNat? with
        | some a, some b => if b = 0 then none else some (.edit a b)
        | _, _ => none
      | _ => none
    else none

def alertjob (args : List String) : String :=
  match args with
  | w :: i :: c :: ops =>
    match w.toNat?, i.toNat?, c.toNat?, ops.mapM parseJobOp with
    | some w, some i, some c, some ops =>
      if i = 0 || w < i then "bad-op" else
      let rec go (s : SigModel.AlertJob.World) (ops : List SigModel.AlertJob.Op) (acc : List String) : List String × SigModel.AlertJob.World :=
        match ops with
        | [] => (acc.reverse, s)
        | op :: r =>
          let (s', o) := SigModel.AlertJob.step s op
          let tok : Option String :=
            match op, o with
            | _, some o => some s!"{showState o.state}:{if o.notified then 1 else 0}:{showState s'.st.lastSentState}"
            | .restart, _ => some s!"R{s'.job.window}/{s'.job.interval}"
            | .edit a b, _ => some (if SigModel.AlertJob.editAccepted a b then s!"U{s'.job.window}/{s'.job.interval}" else "U!")
            | .silence k, _ => some (if SigModel.AlertJob.silenceAccepted k then "S" else "S!")
            | .unsilence, _ => some "Q"
            | _, _ => none
          match tok with
          | none => go s' r acc
          | some t => go s' r (t :: acc)
      let (toks, s) := go (SigModel.AlertJob.create w i c 0) ops []
      String.intercalate " " (toks ++ [s!"h={s.st.hist.length}"])
    | _, _, _, _ => "bad-op"
  | _ => "bad-op"

/- suite "alertjob", second line kind: ajs <op> <op> ...     (Model/AlertSet.lean; alerts numbered by create attempt)
     op ::= c<w>/<i>       create a Logs alert, EvalWindow w, EvalInterval i
          | m<w>/<i>       create a Metrics alert (alert_type 2 with a metrics query)
          | k<type>        create with window 1, interval 1 and alert_type <type> (not 2: a Metrics alert needs a query)
          | u<k>:<w>/<i>   update alert k        | d<k>  delete alert k
          | z<k> | y<k>    the row of alert k is rewritten behind the API to interval 0 / to alert_type 0
          | R              restart
   → per op  <ok|ref|->|<stored rows k:w/i:type,…>|<job tags, ascending, one per job> -/
def parseSetOp (s : String) : Option SigModel.AlertSet.Op :=
  let rest := (s.drop 1).toString
  let pair (t : String) : Option (Nat × Nat) :=
    match t.splitOn "/" with
    | [a, b] => match a.toNat?, b.toNat? with
      | some a, some b => some (a, b)
      | _, _ => none
    | _ => none
  if s = "R" then some .restart
  else if s.startsWith "c" then (pair rest).map (fun p => .create p.1 p.2)
  else if s.startsWith "m" then (pair rest).map (fun p => .createMetrics p.1 p.2)
  else if s.startsWith "k" then rest.toNat?.bind (fun t => if t = 2 then none else some (.createTyped t))
  else if s.startsWith "d" then rest.toNat?.map .delete
  else if s.startsWith "z" then rest.toNat?.map .legacyInterval
  else if s.startsWith "y" then rest.toNat?.map .legacyType
  else if s.startsWith "u" then
    match rest.splitOn ":" with
    | [k, d] => match k.toNat?, pair d with
      | some k, some p => some (.edit k p.1 p.2)
      | _, _ => none
    | _ => none
  else none

def insertSorted (x : Nat) : List Nat → List Nat
  | [] => [x]
  | y :: r => if x ≤ y then x :: y :: r else y :: insertSorted x r

def alertset (args : List String) : String :=
  match args.mapM parseSetOp with
  | none => "bad-op"
  | some ops =>
    let rec go (s : SigModel.AlertSet.St) (ops : List SigModel.AlertSet.Op) (acc : List String) : List String :=
      match ops with
      | [] => acc.reverse
      | op :: r =>
        let (s', a) := SigModel.AlertSet.step s op
        let ans := match a with | .ok => "ok" | .refused => "ref" | .none => "-"
        let rows := String.intercalate "," (s'.rows.map (fun x => s!"{x.idx}:{x.window}/{x.interval}:{x.type}"))
        let jobs := String.intercalate "," ((s'.jobs.foldl (fun l j => insertSorted j l) []).map toString)
        go s' r (s!"{ans}|{rows}|{jobs}" :: acc)
    if ops.isEmpty then "bad-op" else String.intercalate " " (go SigModel.AlertSet.init ops [])

def handle (cmd : String) (args : List String) : Option String :=
  match cmd with
  | "alert" => some (alert args)
  | "aj" => some (alertjob args)
  | "ajm" => some (alertjob args)      -- the same operations on a Metrics alert (the state machine knows no alert type)
  | "ajs" => some (alertset args)
  | _ => none
end Oracle.C20
