import SigModel.Model.Alert
import Oracle.Util
/- suite "alert": alert <window> <interval> <cooldown> <silence> <op> <op> ...
     op ::= e1 | e0   evaluation, condition matched / not matched, webhook reachable
          | f1 | f0   the same with the webhook transport failing
          | t<k>      k minutes pass
          | u         the alert's configuration is saved (history row "Config Modified")
   → one token per evaluation  <state I|N|P|F>:<notified 0/1>:<last notified state I|N|P|F>
     then  h=<number of history rows>  -/
namespace Oracle.C20
open SigModel.Alert Oracle

def parseOp (s : String) : Option Op :=
  match s with
  | "e1" => some (.eval true true)
  | "e0" => some (.eval false true)
  | "f1" => some (.eval true false)
  | "f0" => some (.eval false false)
  | "u" => some .cfgChange
  | _ =>
    if s.startsWith "t" then ((s.drop 1).toString.toNat?).map .tick else none

def showState : AState → String
  | .inactive => "I" | .normal => "N" | .pending => "P" | .firing => "F"

def alert (args : List String) : String :=
  match args with
  | w :: i :: c :: sl :: ops =>
    match w.toNat?, i.toNat?, c.toNat?, sl.toNat?, ops.mapM parseOp with
    | some w, some i, some c, some sl, some ops =>
      if i = 0 then "bad-op" else
      let cfg : Cfg := { window := w, interval := i, cooldown := c, silence := sl }
      let rec go (s : Sys) (ops : List Op) (acc : List String) : List String × Sys :=
        match ops with
        | [] => (acc.reverse, s)
        | op :: r =>
          let (s', o) := stepOp cfg s op
          match o with
          | none => go s' r acc
          | some o => go s' r (s!"{showState o.state}:{if o.notified then 1 else 0}:{showState s'.st.lastSentState}" :: acc)
      let (toks, s) := go (init 0) ops []
      String.intercalate " " (toks ++ [s!"h={s.st.hist.length}"])
    | _, _, _, _, _ => "bad-op"
  | _ => "bad-op"

def handle (cmd : String) (args : List String) : Option String :=
  match cmd with
  | "alert" => some (alert args)
  | _ => none
end Oracle.C20
