import SigModel.Model.Tenant
import Oracle.Util
/- suite "tenant" (C13).  Names/expressions are hex-encoded ASCII, `-` = the empty string; orgs are 0..3.
   every line starts with the token `tn`:
   expand <org> <es 0|1> <expr> T=<org:name,…> A=<org:alias>idx+idx,…>   → n=<count> r=<name;name;…>
   glob <pattern> <name>                                                 → impl=<m|n|e> spec=<0|1>
   sel <org> <qlo> <qhi> N=<name,…> R=<key:org:table:lo:hi,…> U=<…> D=<org:table,…>  → rot=<keys> unrot=<keys>
   del <org> <name> T=<org:name,…>                                       → 0=<names> 1=<names> 2=<names> 3=<names>
   sid P=<org:index,…>   (any int64 org)   → fmt=ok c=<for every pair the position of the first pair with the same stream-id pre-image>
   e2e <k> I=<org:index:count,…> Q=<org:expr,…>  (suite tenant_e2e; ingest, rotate after the first k entries, query)
                                                                         → r0=<ids> r1=<ids> …   (record ids are 1,2,… in ingest order)
   characters outside the modelled alphabet (see Model/Tenant.lean) → out-of-fragment ; anything unparsable, duplicate
   segment keys, a deletion of the empty index name → bad-op -/
namespace Oracle.C13
open SigModel.Tenant Oracle

def name? (s : String) : Option Name :=
  if s = "-" then some [] else
  match hexBytes? s with
  | some bs => if bs.isEmpty then none else if bs.all (· < 128) then some (bs.map Char.ofNat) else none
  | none => none

def showName (n : Name) : String := if n.isEmpty then "-" else bytesHex (n.map Char.toNat)

def org? (s : String) : Option Org :=
  match s.toNat? with
  | some n => if n ≤ 3 then some (n : Int) else none
  | none => none

/-- `K=a,b,c` → `[a,b,c]`; `K=` → `[]` -/
def listArg (key : String) (s : String) : Option (List String) :=
  if s.startsWith (key ++ "=") then
    let body := (s.drop (key.length + 1)).toString
    if body.isEmpty then some [] else some (body.splitOn ",")
  else none

def table? (s : String) : Option (Org × Name) :=
  match s.splitOn ":" with
  | [o, n] => do let o ← org? o; let n ← name? n; pure (o, n)
  | _ => none

def alias? (s : String) : Option AliasEntry :=
  match s.splitOn ":" with
  | [o, rest] =>
    match rest.splitOn ">" with
    | [a, ts] => do
      let o ← org? o
      let a ← name? a
      let ts ← if ts.isEmpty then some [] else (ts.splitOn "+").mapM name?
      pure { org := o, alias := a, targets := ts }
    | _ => none
  | _ => none

def seg? (s : String) : Option Seg :=
  match s.splitOn ":" with
  | [k, o, t, lo, hi] => do
    let k ← k.toNat?; let o ← org? o; let t ← name? t; let lo ← lo.toNat?; let hi ← hi.toNat?
    pure { key := k, table := t, org := o, lo := lo, hi := hi }
  | _ => none

/-- table / alias / target names: non-empty, modelled alphabet -/
def tblOk (n : Name) : Bool := nameOk n && !n.isEmpty

/-- table names, alias targets and (since patch c20-14: `AddAliases` refuses any other) alias names are index names:
additionally a simple file name (no `\\`, not `.`/`..`;
`/` is outside the alphabet anyway) — the code rejects other names since the path-safety fix -/
def idxOk (n : Name) : Bool := tblOk n && !n.contains '\\' && n != ['.'] && n != ['.', '.']

/-- expressions: modelled alphabet (every wildcard element is quoted by the code, so nothing else is needed) -/
def exprInFragment (expr : Name) : Bool := expr.all inAlphabet

def doExpand (args : List String) : String :=
  match args with
  | [o, es, e, t, a] =>
    match org? o, (if es = "0" then some false else if es = "1" then some true else none), name? e,
          (listArg "T" t).bind (·.mapM table?), (listArg "A" a).bind (·.mapM alias?) with
    | some o, some es, some e, some ts, some as =>
      if !(exprInFragment e && ts.all (fun p => idxOk p.2) && as.all (fun x => idxOk x.alias && x.targets.all idxOk)) then "out-of-fragment"
      else
        let r := expand e o es ts as
        s!"n={r.length} r={String.intercalate ";" (r.map showName)}"
    | _, _, _, _, _ => "bad-op"
  | _ => "bad-op"

def doGlob (args : List String) : String :=
  match args with
  | [p, n] =>
    match name? p, name? n with
    | some p, some n =>
      if !(exprInFragment p && idxOk n) then "out-of-fragment" else
      let r := expand p 0 true [(0, n)] []
      let impl := if r.isEmpty then "e" else if r.contains n then "m" else "n"
      s!"impl={impl} spec={if globMatch p n then 1 else 0}"
    | _, _ => "bad-op"
  | _ => "bad-op"

def natLt (a b : Nat) : Bool := a < b

def sortNat (l : List Nat) : List Nat :=
  let rec ins (x : Nat) : List Nat → List Nat
    | [] => [x]
    | y :: r => if x = y then y :: r else if x < y then x :: y :: r else y :: ins x r
  l.foldr ins []

def showKeys (l : List Seg) : String := String.intercalate "," ((sortNat (l.map (·.key))).map toString)

def distinctKeys (l : List Seg) : Bool := (sortNat (l.map (·.key))).length = l.length

def doSel (args : List String) : String :=
  match args with
  | [o, lo, hi, n, r, u, d] =>
    match org? o, lo.toNat?, hi.toNat?, (listArg "N" n).bind (·.mapM name?), (listArg "R" r).bind (·.mapM seg?),
          (listArg "U" u).bind (·.mapM seg?), (listArg "D" d).bind (·.mapM table?) with
    | some o, some lo, some hi, some names, some rs, some us, some ds =>
      if !(distinctKeys rs && distinctKeys us && ds.all (fun p => !p.2.isEmpty)) then "bad-op" else
      let m := ds.foldl (fun m (p : Org × Name) => m.deleteTable p.2 p.1) (Meta.ofList rs)
      s!"rot={showKeys (selectRotated lo hi names o m)} unrot={showKeys (selectUnrotated lo hi names o us)}"
    | _, _, _, _, _, _, _ => "bad-op"
  | _ => "bad-op"

def doDel (args : List String) : String :=
  match args with
  | [o, n, t] =>
    match org? o, name? n, (listArg "T" t).bind (·.mapM table?) with
    | some o, some n, some ts =>
      if !(idxOk n && ts.all (fun p => idxOk p.2)) then "out-of-fragment" else
      let ts' := deleteTable o n (ts.foldl (fun acc p => addTable p.1 p.2 acc) [])
      String.intercalate " " ([0, 1, 2, 3].map (fun (k : Nat) =>
        s!"{k}={String.intercalate ";" ((sortU (tablesOf (k : Int) ts')).map showName)}"))
    | _, _, _ => "bad-op"
  | _ => "bad-op"

/-- `org:hexindex` with an arbitrary int64 organisation -/
def sidPair? (s : String) : Option (Org × Name) :=
  match s.splitOn ":" with
  | [o, n] => do let o ← int? o; let n ← name? n; pure (o, n)
  | _ => none

/-- index of the first element equal to the k-th -/
def firstEq (l : List (List Char × Name)) (x : List Char × Name) : Nat :=
  let rec go : List (List Char × Name) → Nat → Nat
    | [], k => k
    | y :: r, k => if y = x then k else go r (k + 1)
  go l 0

def doSid (args : List String) : String :=
  match args with
  | [p] =>
    match (listArg "P" p).bind (·.mapM sidPair?) with
    | some ps =>
      let pres := ps.map (fun q => streamPre q.1 q.2)
      s!"fmt=ok c={String.intercalate "," (pres.map (fun x => toString (firstEq pres x)))}"
    | none => "bad-op"
  | _ => "bad-op"

def e2eOrg? (s : String) : Option Org :=
  match s.toNat? with
  | some n => if n ≤ 100000 && s.all Char.isDigit then some (n : Int) else none
  | none => none

/-- index names of the end-to-end share: letters, digits, `.` `_` `-`, a valid index name -/
def e2eIdxOk (n : Name) : Bool := idxOk n && n.all (fun c => isAlnum c || c = '.' || c = '_' || c = '-')

def ingest? (s : String) : Option (Org × Name × Nat) :=
  match s.splitOn ":" with
  | [o, n, c] => do
    let o ← e2eOrg? o; let n ← name? n; let c ← c.toNat?
    if e2eIdxOk n && 1 ≤ c && c ≤ 8 then pure (o, n, c) else none
  | _ => none

def query? (s : String) : Option (Org × Name) :=
  match s.splitOn ":" with
  | [o, e] => do let o ← e2eOrg? o; let e ← name? e; if exprInFragment e then pure (o, e) else none
  | _ => none

def mkRecs (ings : List (Org × Name × Nat)) : List Rec :=
  let rec go : List (Org × Name × Nat) → Nat → List Rec
    | [], _ => []
    | (o, n, c) :: r, next => (List.range c).map (fun k => { id := next + k, org := o, index := n }) ++ go r (next + c)
  go ings 1

def doE2E (args : List String) : String :=
  match args with
  | [rot, i, q] =>
    match rot.toNat?, (listArg "I" i).bind (·.mapM ingest?), (listArg "Q" q).bind (·.mapM query?) with
    | some rot, some ings, some qs =>
      if !(rot ≤ ings.length && ings.length ≤ 12 && qs.length ≤ 16) then "bad-op" else
      let recs := mkRecs ings
      String.intercalate " " (qs.zipIdx.map (fun (qk : (Org × Name) × Nat) =>
        s!"r{qk.2}={String.intercalate "," ((sortNat ((visible recs qk.1.1 qk.1.2).map (·.id))).map toString)}"))
    | _, _, _ => "bad-op"
  | _ => "bad-op"

def handle (cmd : String) (args : List String) : Option String :=
  match cmd, args with
  | "tn", "expand" :: r => some (doExpand r)
  | "tn", "glob" :: r => some (doGlob r)
  | "tn", "sel" :: r => some (doSel r)
  | "tn", "del" :: r => some (doDel r)
  | "tn", "sid" :: r => some (doSid r)
  | "tn", "e2e" :: r => some (doE2E r)
  | "tn", _ => some "bad-op"
  | _, _ => none
end Oracle.C13
