import SigModel.Model.PipePlan
import Oracle.Util
import Oracle.C06
/- suite "pipeplan" (C06, plan / parallelism layer):
     plan K=<1..8> X=<0|1> C=<cmd>|<cmd>… S=<slot>:<n>,… R=<row>;<row>…
   (grammar and conventions: harness/cmd/corr/c06_plan.go)
   → "shape dps=<name[flags]>,… can=<0|1> idx=<i> fs=<0|1> n=<chains> lens=<…> merger=<none|stats|limit:<L>>" and for X=1
     " | ok cmp=<seq|set> n=<rows> <row>;…"  |  " | skip=not-judged"  -/
namespace Oracle.C06P
open SigModel.Pipe SigModel.PipePlan Oracle Oracle.C06

def alphaOk (s : String) : Bool := !s.isEmpty && s.toList.all (fun c => ('a' ≤ c && c ≤ 'z') || ('A' ≤ c && c ≤ 'Z'))
def lowerOk (s : String) : Bool := !s.isEmpty && s.toList.all (fun c => 'a' ≤ c && c ≤ 'z')

def hexText? (h : String) : Option String := (hexBytes? h).map (fun bs => String.ofList (bs.map Char.ofNat))

def parseKey (s : String) : Option (String × Bool) :=
  if s.length < 2 then none
  else
    let f := (s.drop 1).toString
    if !nameOk f then none
    else if s.startsWith "+" then some (f, true)
    else if s.startsWith "-" then some (f, false)
    else none

def parseAgg (s : String) : Option Agg :=
  match s.splitOn "." with
  | ["count", al] => if nameOk al then some { fn := .count, arg := "", out := al } else none
  | [fn, arg, al] =>
    if !(nameOk arg && nameOk al) then none
    else if fn == "sum" then some { fn := .sum, arg := arg, out := al }
    else if fn == "min" then some { fn := .min, arg := arg, out := al }
    else if fn == "max" then some { fn := .max, arg := arg, out := al }
    else none
  | _ => none

def fnName : AggFn → String
  | .count => "count" | .sum => "sum" | .min => "min" | .max => "max"

def distinct (l : List String) : Bool := l.eraseDups.length == l.length

def parseCmpOp : String → Option CmpOp
  | "gt" => some .gt | "ge" => some .ge | "lt" => some .lt | "le" => some .le | "eq" => some .eq | "ne" => some .ne
  | _ => none

def parseArOp : String → Option ArOp
  | "add" => some .add | "sub" => some .sub | "mul" => some .mul
  | _ => none

def parsePCmd (s : String) : Option PCmd :=
  match s.splitOn ":" with
  | ["sort", l, ks] =>
    match natStrict? l, (ks.splitOn ",").mapM parseKey with
    | some l, some ks => if l ≤ 1000000 then some (.sort l ks) else none
    | _, _ => none
  | "head" :: _ | "tail" :: _ | "dedup" :: _ | "fillnull" :: _ | "rename" :: _ | "fields" :: _ =>
    match parseCmd s with
    | some (.fillnull v fs) =>
      match hexText? v with
      | some t => if alphaOk t then some (.base (.fillnull v fs)) else none
      | none => none
    | some (.dedup o) => if o.limit == 0 then none else some (.base (.dedup o))
    | some (.rename a b) => if a == b then none else some (.base (.rename a b))
    | some (.scroll _) => none
    | some c => some (.base c)
    | none => none
  | ["bin", f, span, bins] =>
    match natStrict? span, natStrict? bins with
    | some span, some bins =>
      if nameOk f && span ≤ 1000000 && bins ≤ 100 && bins != 1 && (span == 0 || bins == 0) then some (.bin f span bins) else none
    | _, _ => none
  | ["stats", aggs, by_] =>
    match (aggs.splitOn "+").mapM parseAgg with
    | some as =>
      let outs := as.map (·.out)
      let fas := as.map (fun a => fnName a.fn ++ " " ++ a.arg)
      if !(distinct outs && distinct fas) then none
      else if by_ == "-" then some (.stats as none)
      else if nameOk by_ && !outs.contains by_ then some (.stats as (some by_))
      else none
    | none => none
  | ["where", f, op, c] =>
    match parseCmpOp op, intStrict? c with
    | some op, some c => if nameOk f && c ≥ -1000000 && c ≤ 1000000 then some (.where_ f op c) else none
    | _, _ => none
  | ["eval", new, f, op, c] =>
    match parseArOp op, intStrict? c with
    | some op, some c => if nameOk f && nameOk new && c ≥ -1000 && c ≤ 1000 then some (.eval new f op c) else none
    | _, _ => none
  | ["streamstats"] => some (.shapeOnly [streamstatsDP, renameDP] false)
  | ["top", f] => if nameOk f then some (.shapeOnly [topDP] true) else none
  | ["rare", f] => if nameOk f then some (.shapeOnly [rareDP] true) else none
  | ["timechart", f] => if nameOk f then some (.shapeOnly [timechartDP] true) else none
  | ["rex", f] => if nameOk f then some (.shapeOnly [rexDP] false) else none
  | ["makemv", f] => if nameOk f then some (.shapeOnly [makemvDP] false) else none
  | ["mvexpand", f] => if nameOk f then some (.shapeOnly [mvexpandDP] false) else none
  | ["tojson", f] => if nameOk f then some (.shapeOnly [tojsonDP] false) else none
  | ["transaction", f] => if nameOk f then some (.shapeOnly [transactionDP] false) else none
  | ["dedupsort", f, g] => if nameOk f && nameOk g then some (.shapeOnly [sortDP, dedupDP false] false) else none
  | _ => none

def isExec : PCmd → Bool
  | .shapeOnly _ _ => false
  | _ => true

/-- state of the well-formedness fold: all-int columns, existing columns, columns removed by `fields`, the row-unique
column ("" = at most one row), order determined -/
structure WF where
  ints : List String
  cols : List String
  dead : List String := []
  uniq : String := "id"
  ordered : Bool := true

def rm (l : List String) (k : String) : List String := l.filter (· != k)
def add (l : List String) (k : String) : List String := if l.contains k then l else k :: l

def wfStep (first : Bool) (w : WF) (c : PCmd) : Option WF :=
  let hasU := w.uniq != ""
  match c with
  | .shapeOnly _ _ => none
  | .sort _ ks =>
    if hasU && (ks.getLast?.map (·.1)) != some w.uniq then none
    else if !(ks.all (fun k => w.cols.contains k.1)) then none
    else some { w with ordered := true }
  | .base (.head _) | .base (.tail _) => if w.ordered then some w else none
  | .base (.scroll _) => none
  | .base (.dedup o) =>
    if !w.ordered || (hasU && o.fields.contains w.uniq) then none
    else if !(o.fields.all w.cols.contains) then none
    else some { w with ints := if o.keepEvents then w.ints.filter (fun k => !o.fields.contains k) else w.ints }
  | .base (.fillnull _ fs) =>
    if hasU && fs.contains w.uniq then none
    else if fs.any w.dead.contains then none
    else some { w with cols := fs.foldl add w.cols }
  | .base (.rename a b) =>
    if hasU && (a == w.uniq || b == w.uniq) then none
    else if w.dead.contains b || w.cols.contains b then none
    else
      let was := w.ints.contains a
      let had := w.cols.contains a
      let ints := rm (rm w.ints a) b
      let cols := rm (rm w.cols a) b
      some { w with ints := if was then add ints b else ints, cols := if had then add cols b else cols }
  | .base (.fields true fs) =>
    if hasU && !fs.contains w.uniq then none
    else some { w with ints := w.ints.filter fs.contains, cols := w.cols.filter fs.contains,
                       dead := (w.cols.filter (fun k => !fs.contains k)).foldl add w.dead }
  | .base (.fields false fs) =>
    if hasU && fs.contains w.uniq then none
    else some { w with ints := w.ints.filter (fun k => !fs.contains k), cols := w.cols.filter (fun k => !fs.contains k),
                       dead := (fs.filter w.cols.contains).foldl add w.dead }
  | .bin f _ _ => if !w.ints.contains f || f == w.uniq then none else some { w with ints := rm w.ints f }
  | .where_ f _ _ => if w.ints.contains f then some w else none
  | .eval new f _ _ =>
    if !w.ints.contains f || new == w.uniq || w.dead.contains new then none
    else some { w with ints := add w.ints new, cols := add w.cols new }
  | .stats aggs by_ =>
    if first then none
    else if !(aggs.all (fun a => a.fn == .count || w.ints.contains a.arg)) then none
    else
      let outs := aggs.map (·.out)
      match by_ with
      | none => some { ints := outs, cols := outs, dead := [], uniq := "", ordered := true }
      | some b =>
        if !w.cols.contains b then none
        else some { ints := if w.ints.contains b then b :: outs else outs, cols := b :: outs, dead := [], uniq := b, ordered := false }

def wfRun (tableCols : List String) (cs : List PCmd) : Option WF :=
  let w0 : WF := { ints := ["id", "x", "w"], cols := tableCols.foldl add ["id", "x", "w"] }
  (cs.zipIdx.foldl (fun (acc : Option WF) (ci : PCmd × Nat) => acc.bind (fun w => wfStep (ci.2 == 0) w ci.1)) (some w0))

def parseDeal (s : String) : Option (List (Nat × Nat)) :=
  if s.isEmpty then some []
  else (s.splitOn ",").mapM (fun x =>
    match x.splitOn ":" with
    | [a, b] =>
      match natStrict? a, natStrict? b with
      | some a, some b => if a ≤ 7 && b ≤ 1000 && b != 0 then some (a, b) else none
      | _, _ => none
    | _ => none)

def rowOk (r : Row) : Bool :=
  r.all (fun kv =>
    match kv.2 with
    | .int i => decide (i ≥ -1000000 ∧ i ≤ 1000000)
    | .str h => match hexText? h with | some t => lowerOk t | none => false
    | .null => true) &&
  ["id", "x", "w"].all (fun k => match r.lookup k with | some (.int _) => true | _ => false)

def tableOk (t : Table) : Bool :=
  t.all rowOk && distinct (t.map (fun r => match r.lookup "id" with | some (.int i) => toString i | _ => "?"))

def flagStr (d : Flags) : String :=
  let b (x : Bool) (c : String) := if x then c else ""
  d.name ++ "[" ++ b d.orderMatters "o" ++ b d.ignoresOrder "i" ++ b d.permuting "p" ++ b d.bottleneck "b" ++ b d.twoPass "t" ++
    b d.mergeable "m" ++ b d.generates "g" ++ "]"

def b01 (x : Bool) : String := if x then "1" else "0"

def shapeStr (cs : List PCmd) (sh : Shape) : String :=
  let dps := cs.flatMap PCmd.dps
  let m := match sh.merger with
    | .none => "none"
    | .stats => "stats"
    | .limit _ (some l) => s!"limit:{l}"
    | .limit _ none => "nolimit"
  s!"shape dps={String.intercalate "," (dps.map flagStr)} can={b01 sh.can} idx={sh.idx} fs={b01 sh.firstStats} n={sh.n} lens={String.intercalate "," (sh.lens.map toString)} merger={m}"

def insertSorted (c : String) : List String → List String
  | [] => [c]
  | d :: r => if c < d then c :: d :: r else d :: insertSorted c r

def showRows (cmp : String) (t : Table) : String :=
  let rs := t.map showRow
  let rs := if cmp == "set" then rs.foldl (fun acc r => insertSorted r acc) [] else rs
  s!"ok cmp={cmp} n={rs.length} " ++ String.intercalate ";" rs

/-- collision-free stand-ins for the two xxhash uses (values are also created by eval / bin / stats, so there is no finite
universe to index into): an injective code of a value, Cantor pairing folded over the sequence -/
def natPair (a b : Nat) : Nat := (a + b) * (a + b + 1) / 2 + b
def valCode : Val → Nat
  | .null => 0
  | .int (.ofNat n) => 1 + 2 * (2 * n)
  | .int (.negSucc n) => 1 + 2 * (2 * n + 1)
  | .str s => 2 + 2 * (s.toList.foldl (fun acc c => acc * 1114112 + c.toNat + 1) 0)
def listCode (l : List Nat) : Nat := l.foldl natPair l.length

def plan (args : List String) : String :=
  match args with
  | [k, x, c, s, r] =>
    if !(k.startsWith "K=" && c.startsWith "C=" && s.startsWith "S=" && r.startsWith "R=") then "bad-op" else
    match natStrict? (k.drop 2).toString, flag? "X=" x, ((c.drop 2).toString.splitOn "|").mapM parsePCmd,
          parseDeal (s.drop 2).toString, parseRows (r.drop 2).toString with
    | some k, some exec, some cs, some dl, some t =>
      if k < 1 || k > 8 || cs.length > 8 || !tableOk t then "bad-op"
      else if !exec then shapeStr cs (planOf k cs)
      else
        match wfRun (keysOf t) cs with
        | none => "bad-op"
        | some w =>
          let cmp := if w.ordered then "seq" else "set"
          let sh := planOf k cs
          let all := keysOf t
          let tp := t.map (padRow all)
          let shs := shares sh.n dl tp
          let head := shapeStr cs sh ++ " | "
          match semChain cs tp with
          | none => head ++ "skip=not-judged"
          | some _ => head ++ showRows cmp (runPlan (digestKey valCode listCode) sh.n cs shs)
    | _, _, _, _, _ => "bad-op"
  | _ => "bad-op"

/-! op `planms` (a DataProcessor with several input streams):
     planms M=<ts|sort:<L>:<±f,…>> C=<cmd>|… A=<stream of row 1><stream of row 2>… S=<n.n.…>/<n.n.…>/… R=<rows IN MERGE ORDER>
   → "ms dp=<name[flags]> fast=<0|1> k=<streams> | ok cmp=<seq|set> n=<rows> <row>;…"  |  "… | skip=not-judged" -/

def wfRunMS (tableCols : List String) (cs : List PCmd) : Option WF :=
  let w0 : WF := { ints := ["id", "x", "w"], cols := tableCols.foldl add ["id", "x", "w"] }
  cs.foldl (fun (acc : Option WF) (c : PCmd) => acc.bind (fun w => wfStep false w c)) (some w0)

def parseMergeBy (s : String) : Option MergeBy :=
  if s == "ts" then some .timestamp
  else match parsePCmd s with
    | some (.sort l ks) => some (.sort l ks)
    | _ => none

def parseSizes (s : String) : Option (List Nat) :=
  if s.isEmpty then some []
  else (s.splitOn ".").mapM (fun x => match natStrict? x with
    | some n => if n ≥ 1 && n ≤ 1000 then some n else none
    | none => none)

def parseAsg (s : String) : Option (List Nat) :=
  s.toList.mapM (fun c => if '0' ≤ c && c ≤ '9' then some (c.toNat - 48) else none)

def strictlyOrdered (ks : List (String × Bool)) : Table → Bool
  | a :: b :: rest => lessKeys ks a b && strictlyOrdered ks (b :: rest)
  | _ => true

def planms (args : List String) : String :=
  match args with
  | [m, c, a, s, r] =>
    if !(m.startsWith "M=" && c.startsWith "C=" && a.startsWith "A=" && s.startsWith "S=" && r.startsWith "R=") then "bad-op" else
    match parseMergeBy (m.drop 2).toString, ((c.drop 2).toString.splitOn "|").mapM parsePCmd, parseAsg (a.drop 2).toString,
          ((s.drop 2).toString.splitOn "/").mapM parseSizes, parseRows (r.drop 2).toString with
    | some mb, some cs, some asg, some sizes, some t =>
      let k := sizes.length
      if k < 1 || k > 4 || cs.length > 4 || cs.isEmpty || !tableOk t || asg.length != t.length || !asg.all (· < k) then "bad-op"
      else
        let all := keysOf t
        let tp := t.map (padRow all)
        let tsOk := match mb with
          | .timestamp => t.all (fun row => match row.lookup "timestamp" with | some (.int i) => decide (i ≥ 0) | _ => false)
          | .sort _ ks => ks.all (fun kk => all.contains kk.1)
        if !tsOk || !strictlyOrdered mb.keys tp then "bad-op"
        else
          match wfRunMS all cs, (cs.flatMap PCmd.dps).head? with
          | some w, some d =>
            let cut := match mb.limit with | some l => decide (l < t.length) | none => false
            if (d.readsUnmerged || k == 1) && cut then "bad-op"     -- neither the fast path nor a single stream applies the merge limit: not judged
            else
              let cmp := if w.ordered then "seq" else "set"
              let streams := List.zipWith cutBatches sizes (dealStreams k asg tp)
              let head := s!"ms dp={flagStr d} fast={b01 d.readsUnmerged} k={k} | "
              match semChain cs (takeOpt mb.limit tp) with
              | none => head ++ "skip=not-judged"
              | some _ => head ++ showRows cmp (runMS (digestKey valCode listCode) mb cs streams)
          | _, _ => "bad-op"
    | _, _, _, _, _ => "bad-op"
  | _ => "bad-op"

def handle (cmd : String) (args : List String) : Option String :=
  match cmd with
  | "plan" => some (plan args)
  | "planms" => some (planms args)
  | _ => none
end Oracle.C06P
