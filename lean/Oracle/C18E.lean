import Oracle.E2E
import Oracle.C18R
/- C18 end-to-end fault injection, suite "segfault" (harness/cmd/corr/c18_segfault.go):

     segfault [card=<n>] [procs=<n>] H <history…> Q <query…> M <seg>/<file>/<mutation>

   The Lean side has no model of the segment file formats.  Its answer for such a line is the SPECIFICATION's
   answer for the UNDAMAGED dataset (Spec/Logs.lean through Oracle/E2E.lean, plus the stage `tc:<sec>` =
   `| timechart span=<sec>s count`), i.e. the "original values" that the property statement speaks about; the
   harness prints the answers of the engine process that built the dataset, lib/e2ecmp.py compares the two.
   The fault part of the line is only validated here (same grammar as sfParseMut), never interpreted. -/
namespace Oracle.C18E
open SigModel.Spec Oracle

def digitsOnly (s : String) : Bool := !s.isEmpty && s.all Char.isDigit

/-- `q/…/tc:<sec>`: events in range that satisfy the filter, counted per bucket `start + k*span` -/
def tcAnswer (evs : List Event) (tok : String) : Option String :=
  let parts := tok.splitOn "/"
  match parts.getLast? with
  | none => none
  | some last =>
    if !(last.startsWith "tc:") || parts.length < 7 then none else
    let sp := (last.drop 3).toString
    if !digitsOnly sp || sp.length > 6 then none else
    match sp.toNat?, E2E.parseQuery ("/".intercalate parts.dropLast) with
    | some sec, some q =>
      if sec == 0 || !q.stages.isEmpty then none else
      let span := sec * 1000
      let inr := evs.filter (inRange q.start q.end_)
      let must := inr.filter (fun e => (evalFilter e q.filter).1 == Tri.yes)
      let buckets := must.map (fun e => q.start + (e.ts - q.start) / span * span)
      let keys := sortBy (fun a b => a ≤ b) buckets.eraseDups
      some s!"kind=tc rows={",".intercalate (keys.map (fun b => s!"{b}={(buckets.filter (· == b)).length}"))}"
    | _, _ => none

def answerTok (evs : List Event) (tok : String) : Option String :=
  match (tok.splitOn "/").getLast? with
  | some last =>
    if last.startsWith "tc:" then tcAnswer evs tok
    else match E2E.parseQuery tok with
      | some q => (match q.stages with | [E2E.Stage.pages _] => none | _ => some (E2E.answer evs q))
      | none => none
  | none => none

def cfgOK (c : String) : Bool :=
  (c.startsWith "card=" && digitsOnly (c.drop 5).toString && c.length < 10) ||
  (c.startsWith "procs=" && c.length == 7 && digitsOnly (c.drop 6).toString && (c.drop 6).toString != "0")

/-- the dataset rules of sfParseHistory: distinct vids < 50, every event carries n = 2^vid, everything flushed;
    returns the number of segments -/
def historyOK (toks : List String) : Option Nat :=
  let rec go (toks : List String) (batch pending : Nat) (vids : List Nat) (seg blk : Nat) : Option Nat :=
    match toks with
    | [] => if batch == 0 && pending == 0 && !vids.isEmpty then some (if blk > 0 then seg + 1 else seg) else none
    | t :: r =>
      if t == "send" then go r 0 (pending + batch) vids seg blk
      else if t == "fl" then go r batch 0 vids seg (if pending > 0 then blk + 1 else blk)
      else if t == "ro" then
        let blk' := if pending > 0 then blk + 1 else blk
        if blk' > 0 then go r batch 0 vids (seg + 1) 0 else go r batch 0 vids seg 0
      else match t.splitOn "/" with
        | ["ev", v, ts, f] =>
          if !digitsOnly v || !digitsOnly ts then none else
          match E2E.parseEv t with
          | some e =>
            if e.vid ≥ 50 || vids.contains e.vid then none
            else if ((f.splitOn ",").filter (· == s!"n~i{2 ^ e.vid}")).isEmpty then none
            else if (f.splitOn ",").any (fun kvp => (kvp.splitOn "~").length < 2) then none
            else go r (batch + 1) pending (e.vid :: vids) seg blk
          | none => none
        | _ => none
  go toks 0 0 [] 0 0

def posOK (p : String) : Bool :=
  if p.length < 2 then false else
  let tag := (p.take 1).toString
  let rest := (p.drop 1).toString
  if tag == "b" then
    -- b:<col>:<blk>:(l<0-3>|o<0-7>)   (a byte of the length / offset field of a column in a block of a .bsu file)
    match p.splitOn ":" with
    | ["b", col, blk, f] =>
      !col.isEmpty && col.length < 20 && digitsOnly blk && blk.length < 3 && f.length == 2 &&
        (((f.take 1).toString == "l" && ["0", "1", "2", "3"].contains (f.drop 1).toString) ||
         ((f.take 1).toString == "o" && ["0", "1", "2", "3", "4", "5", "6", "7"].contains (f.drop 1).toString))
    | _ => false
  else if tag == "s" then
    -- s:<col>:(a|e)<n>   (a byte of the statistics record of a column inside a .sst file)
    match p.splitOn ":" with
    | ["s", col, an] =>
      !col.isEmpty && col.length < 20 && an.length ≥ 2 && an.length < 8 &&
        ((an.take 1).toString == "a" || (an.take 1).toString == "e" || (an.take 1).toString == "l") && digitsOnly (an.drop 1).toString
    | _ => false
  else if tag == "a" || tag == "e" || tag == "m" then digitsOnly rest && p.length < 9
  else if tag == "c" then
    -- c<k>[hdtp]<d>
    let k := rest.takeWhile Char.isDigit
    let after := (rest.drop k.toString.length).toString
    !k.toString.isEmpty && after.length ≥ 2 && ["h", "d", "t", "p"].contains (after.take 1).toString &&
      digitsOnly (after.drop 1).toString && p.length < 12
  else false

def mutOK (s : String) (nseg : Nat) : Bool :=
  match s.splitOn "/" with
  | [seg, file, m] =>
    let segOK := digitsOnly seg && seg.length ≤ 2 && (seg.toNat?.getD 99) < nseg
    let fileOK := match file.splitOn ":" with
      | ["csg", c] => !c.isEmpty
      | ["cmi", c] => !c.isEmpty
      | ["pqmr", i] => digitsOnly i && i.length ≤ 2
      | ["crup", i] => digitsOnly i && i.length ≤ 2
      | [k] => ["bsu", "sst", "sfm", "segmeta"].contains k
      | _ => false
    let mOK := if m == "none" || m == "del" then true else
      match m.splitOn "@" with
      | ["cut", p] => posOK p
      | [op, pv] =>
        if op == "put" then
          -- put@<pos>=<hex>: 1..8 bytes (lower-case hex)
          match pv.splitOn "=" with
          | [p, v] => posOK p && v.length ≥ 2 && v.length ≤ 16 && v.length % 2 == 0 &&
              v.all (fun ch => ch.isDigit || ('a' ≤ ch && ch ≤ 'f'))
          | _ => false
        else if op == "set" || op == "xor" then
          match pv.splitOn "=" with
          | [p, v] => posOK p && digitsOnly v && v.length ≤ 3 && (v.toNat?.getD 999) ≤ 255
          | _ => false
        else false
      | _ => false
    segOK && fileOK && mOK
  | _ => false

def segfault (args : List String) : String :=
  let (cfg, r1) := args.span (· != "H")
  let (hist, r2) := (r1.drop 1).span (· != "Q")
  let r3 := r2.drop 1
  match r3.reverse with
  | mspec :: "M" :: qsRev =>
    let qs := qsRev.reverse
    if r1.isEmpty || r2.isEmpty || qs.isEmpty || !cfg.all cfgOK then "bad-op" else
    match historyOK hist, E2E.flushedEvents hist with
    | some nseg, some evs =>
      if !mutOK mspec nseg then "bad-op" else
      match qs.mapM (answerTok evs) with
      | some as => " | ".intercalate as
      | none => "bad-op"
    | _, _ => "bad-op"
  | _ => "bad-op"

def handle (cmd : String) (args : List String) : Option String :=
  match cmd with
  | "segfault" => some (segfault args)
  | _ => C18R.handle cmd args
end Oracle.C18E
