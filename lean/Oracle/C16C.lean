import SigModel.Spec.Flatten
import Oracle.Util
/- suite "protocontent" (C16, content of one logical event through every log protocol; see
   harness/cmd/corr/c16_content.go for the op-line format):
     pc <b>,<i>,<e> <msghex|-> <tree tokens…>
        → es=<fields> | esdoc=<fields> | hec=<fields> | loki=<fields> | otlp=<fields>
   tree tokens (prefix form): O<n> then n×(k<hexkey> value) | A<n> then n values | s<hex> | r<count>.<hexunit> | n<tok>~<jtok> | t | f | z -/
namespace Oracle.C16C
open SigModel.Spec.Flatten Oracle

/-- JSON number grammar: -? (0 | [1-9][0-9]*) (. [0-9]+)? ([eE] [+-]? [0-9]+)? -/
def numSyntax (s : List Char) : Bool :=
  let s1 := match s with | '-' :: r => r | _ => s
  let intPart : Option (List Char) := match s1 with
    | '0' :: r => some r
    | c :: r => if c.isDigit then some (r.dropWhile Char.isDigit) else none
    | [] => none
  match intPart with
  | none => false
  | some r1 =>
    let fracPart : Option (List Char) := match r1 with
      | '.' :: r => (match r with
          | c :: _ => if c.isDigit then some (r.dropWhile Char.isDigit) else none
          | [] => none)
      | _ => some r1
    match fracPart with
    | none => false
    | some r2 =>
      match r2 with
      | [] => true
      | c :: r =>
        if c = 'e' || c = 'E' then
          let r3 := match r with | '+' :: q => q | '-' :: q => q | _ => r
          !r3.isEmpty && r3.all Char.isDigit
        else false

def count? (s : String) : Option Nat :=
  if s.isEmpty || s.length > 4 || !s.all Char.isDigit then none else s.toNat?

mutual
  /-- one value from the token list (fuel = number of tokens) -/
  def parseVal : Nat → List String → Option (Json × List String)
    | 0, _ => none
    | fuel + 1, toks =>
      match toks with
      | [] => none
      | t :: rest =>
        match t.toList with
        | 'O' :: n => (match count? (String.ofList n) with
            | none => none
            | some k => (parseMembers fuel k rest).map (fun (ms, r) => (.obj ms, r)))
        | 'A' :: n => (match count? (String.ofList n) with
            | none => none
            | some k => (parseElems fuel k rest).map (fun (xs, r) => (.arr xs, r)))
        | 's' :: h => (hexBytes? (String.ofList h)).map (fun b => (.leaf (.str b), rest))
        | 'r' :: body =>
          -- r<count>.<hexunit>: a unit of 1 or 2 bytes repeated (long strings)
          (match (String.ofList body).splitOn "." with
          | [n, h] =>
            if n.isEmpty || n.length > 6 || !n.all Char.isDigit then none else
            match n.toNat?, hexBytes? h with
            | some cnt, some u =>
              if u.isEmpty || u.length > 2 then none
              else some (.leaf (.str ((List.replicate cnt u).flatten)), rest)
            | _, _ => none
          | _ => none)
        | 'n' :: body =>
          (match (String.ofList body).splitOn "~" with
          | [a, b] => if numSyntax a.toList && numSyntax b.toList then some (.leaf (.num a.toList b.toList), rest) else none
          | _ => none)
        | ['t'] => some (.leaf (.bool true), rest)
        | ['f'] => some (.leaf (.bool false), rest)
        | ['z'] => some (.leaf .null, rest)
        | _ => none
  def parseMembers : Nat → Nat → List String → Option (Members × List String)
    | 0, _, _ => none
    | _ + 1, 0, toks => some (.nil, toks)
    | fuel + 1, k + 1, toks =>
      match toks with
      | kt :: rest =>
        (match kt.toList with
        | 'k' :: h =>
          (match hexBytes? (String.ofList h) with
          | none => none
          | some key =>
            match parseVal fuel rest with
            | none => none
            | some (v, r1) =>
              match parseMembers fuel k r1 with
              | none => none
              | some (ms, r2) => if ms.keys.contains key then none else some (.cons key v ms, r2))
        | _ => none)
      | [] => none
  def parseElems : Nat → Nat → List String → Option (Elems × List String)
    | 0, _, _ => none
    | _ + 1, 0, toks => some (.nil, toks)
    | fuel + 1, k + 1, toks =>
      match parseVal fuel toks with
      | none => none
      | some (v, r1) =>
        match parseElems fuel k r1 with
        | none => none
        | some (xs, r2) => some (.cons v xs, r2)
end

def parseCase (args : List String) : Option Case :=
  match args with
  | opts :: msg :: t0 :: toks =>
    match opts.splitOn "," with
    | [b, i, e] =>
      if (b != "bs" && b != "bk") || (i != "i0" && i != "i1") || (e != "e0" && e != "e1" && e != "e2") then none else
      let m : Option Bytes := if msg == "-" then some [] else
        match hexBytes? msg with
        | some bs => if bs.isEmpty then none else some bs
        | none => none
      match m with
      | none => none
      | some mb =>
        let all := t0 :: toks
        match parseVal (2 * all.length + 2) all with
        | some (.obj ms, []) => some { bodyTree := b == "bk", ids := i == "i1", msg := mb, tree := ms }
        | _ => none
    | _ => none
  | _ => none

def handle (cmd : String) (args : List String) : Option String :=
  match cmd with
  | "pc" => some (match parseCase args with
      | some k => answer {} k
      | none => "bad-op")
  | _ => none
end Oracle.C16C
