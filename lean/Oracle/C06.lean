import SigModel.Model.Pipe
import Oracle.Util
/- suite "pipe":  pipe <cmd>[|<cmd>…] D=<0|1> E=<0|1> P=<n,n,…> R=<row>;<row>…
     cmd ::= head:<n> | tail:<n> | scroll:<n> | dedup:<limit>:<flags>:<f,f…> | fillnull:<hex>:<f,f…|>
           | rename:<old>:<new> | fields:+:<f,f…> | fields:-:<f,f…>        flags ⊆ "cev" in that order, or "-"
     row ::= k~tv,k~tv…     tv ::= i<int> | s<hex> | z          (same typed values as the e2e suites)
     D=1: every batch carries every column of the table (dense); D=0: a batch carries the columns its rows mention
     E=1: the upstream delivers its last batch together with io.EOF (no difference for the model)
     P: sizes of the successive batches (0 allowed); rows left over form one more batch
   → "ok n=<rows> <row>;<row>…" rows in order, columns sorted, nulls dropped ("-" = row without values),
     [st=<what the processor of a single command remembers afterwards>] -/
namespace Oracle.C06
open SigModel.Pipe Oracle

def nameOk (s : String) : Bool :=
  !s.isEmpty && s.toList.all (fun c => ('a' ≤ c && c ≤ 'z') || ('0' ≤ c && c ≤ '9') || c == '_')

def hexOk (s : String) : Bool :=
  s.length % 2 == 0 && s.toList.all (fun c => ('0' ≤ c && c ≤ '9') || ('a' ≤ c && c ≤ 'f'))

/-- strict decimal natural: "0" or no leading zero -/
def natStrict? (s : String) : Option Nat :=
  if s.isEmpty || !s.toList.all (fun c => '0' ≤ c && c ≤ '9') then none
  else if s.length > 1 && s.startsWith "0" then none
  else if s.length > 18 then none
  else s.toNat?

def intStrict? (s : String) : Option Int :=
  if s.startsWith "-" then
    match natStrict? (s.drop 1).toString with
    | some 0 => none
    | some n => some (-(n : Int))
    | none => none
  else (natStrict? s).map (fun n => (n : Int))

def names? (s : String) : Option (List String) :=
  let fs := s.splitOn ","
  if fs.all nameOk then some fs else none

def parseVal (s : String) : Option Val :=
  if s == "z" then some .null
  else if s.startsWith "i" then (intStrict? (s.drop 1).toString).map .int
  else if s.startsWith "s" then
    let h := (s.drop 1).toString
    if hexOk h then some (.str h) else none
  else none

def parseCell (s : String) : Option (String × Val) :=
  match s.splitOn "~" with
  | [k, v] => if nameOk k then (parseVal v).map (fun v => (k, v)) else none
  | _ => none

def parseRow (s : String) : Option Row :=
  match (s.splitOn ",").mapM parseCell with
  | some r => if (r.map (·.1)).eraseDups.length == r.length then some r else none
  | none => none

def parseRows (s : String) : Option Table :=
  if s.isEmpty then some [] else (s.splitOn ";").mapM parseRow

def parseFlags (s : String) : Option (Bool × Bool × Bool) :=
  if s == "-" then some (false, false, false)
  else if s.isEmpty then none
  else
    let c := s.contains 'c'; let e := s.contains 'e'; let v := s.contains 'v'
    let canon := (if c then "c" else "") ++ (if e then "e" else "") ++ (if v then "v" else "")
    if canon == s then some (c, e, v) else none

def maxN : Nat := 1000000

def parseCmd (s : String) : Option Cmd :=
  match s.splitOn ":" with
  | ["head", n] => (natStrict? n).bind (fun n => if n ≤ maxN then some (.head n) else none)
  | ["tail", n] => (natStrict? n).bind (fun n => if n ≤ maxN then some (.tail n) else none)
  | ["scroll", n] => (natStrict? n).bind (fun n => if n ≤ maxN then some (.scroll n) else none)
  | ["dedup", l, fl, fs] =>
    match natStrict? l, parseFlags fl, names? fs with
    | some l, some (c, e, v), some fs =>
      if l ≤ maxN then some (.dedup { fields := fs, limit := l, consecutive := c, keepEmpty := e, keepEvents := v }) else none
    | _, _, _ => none
  | ["fillnull", v, fs] =>
    if !hexOk v then none
    else if fs.isEmpty then some (.fillnull v [])
    else (names? fs).map (fun fs => .fillnull v fs)
  | ["rename", a, b] => if nameOk a && nameOk b then some (.rename a b) else none
  | ["fields", "+", fs] => (names? fs).map (fun fs => .fields true fs)
  | ["fields", "-", fs] => (names? fs).map (fun fs => .fields false fs)
  | _ => none

def parseSizes (s : String) : Option (List Nat) :=
  if s.isEmpty then some []
  else (s.splitOn ",").mapM (fun x => (natStrict? x).bind (fun n => if n ≤ 1000 then some n else none))

def flag? (pre : String) (s : String) : Option Bool :=
  if s == pre ++ "0" then some false else if s == pre ++ "1" then some true else none

/-- successive batches of the given sizes; what is left over is one more batch -/
def split : List Nat → Table → List Table
  | [], [] => []
  | [], t => [t]
  | n :: ns, t => t.take n :: split ns (t.drop n)

def keysOf (t : Table) : List String := (t.flatMap (fun r => r.map (·.1))).eraseDups

def padRow (cols : List String) (r : Row) : Row :=
  r ++ (cols.filter (fun k => !r.hasKey k)).map (fun k => (k, Val.null))

def padBatches (dense : Bool) (t : Table) (parts : List Table) : List Table :=
  let all := keysOf t
  parts.map (fun b => let cols := if dense then all else keysOf b; b.map (padRow cols))

def insertCell (c : String × Val) : List (String × Val) → List (String × Val)
  | [] => [c]
  | d :: r => if c.1 < d.1 then c :: d :: r else d :: insertCell c r

def showVal : Val → String
  | .int i => s!"i{i}"
  | .str h => "s" ++ h
  | .null => "z"

def showRow (r : Row) : String :=
  let cells := (r.filter (fun kv => !kv.2.isNull)).foldl (fun acc c => insertCell c acc) []
  if cells.isEmpty then "-" else String.intercalate "," (cells.map (fun kv => kv.1 ++ "~" ++ showVal kv.2))

def showTable (t : Table) : String :=
  if t.isEmpty then "ok n=0" else s!"ok n={t.length} " ++ String.intercalate ";" (t.map showRow)

def cmdVals : Cmd → List Val
  | .fillnull v _ => [.str v]
  | _ => []

/-- collision-free stand-ins for the two xxhash uses: a value's hash is its position among the distinct
values of the case (+1), the digest of a hash sequence is its positional encoding in a base above every hash -/
def idxHash (univ : List Val) (v : Val) : Nat := univ.idxOf v + 1
def posDigest (base : Nat) (l : List Nat) : Nat := l.foldl (fun acc x => acc * base + x) 0

def insertStr (c : String) : List String → List String
  | [] => [c]
  | d :: r => if c < d then c :: d :: r else d :: insertStr c r

/-- what the processor remembers after the run (single command; the harness reads the same from the real
processor through the overlay hook VerifC06State) -/
def stateOf (kf : List Val → Nat) (c : Cmd) (parts : List Table) : String :=
  match c with
  | .head n => s!"sent={runState (headProc n) parts}"
  | .tail n =>
    let s := runState (tailProc n) parts
    let fin := match s.fin with | none => "-" | some f => toString f.length
    s!"fin={fin},eof={if s.eof then 1 else 0}"
  | .scroll n => s!"rem={runState (scrollProc n) parts}"
  | .dedup o =>
    let s := runState (dedupProc kf o) parts
    s!"keys={s.length},sum={(s.map (·.2)).foldl (· + ·) 0}"
  | .fillnull v [] =>
    let s := runState (fillAllProc v) parts
    let cols := s.known.foldl (fun acc c => insertStr c acc) []
    s!"known={String.intercalate "+" cols},second={if s.second then 1 else 0}"
  | _ => "-"

def pipe (args : List String) : String :=
  match args with
  | [chain, d, e, p, r] =>
    if !(p.startsWith "P=") || !(r.startsWith "R=") then "bad-op" else
    match (chain.splitOn "|").mapM parseCmd, flag? "D=" d, flag? "E=" e, parseSizes (p.drop 2).toString, parseRows (r.drop 2).toString with
    | some cs, some dense, some _, some sizes, some t =>
      let parts := padBatches dense t (split sizes t)
      let univ := ((t.flatMap (fun r => r.map (·.2))) ++ cs.flatMap cmdVals).eraseDups
      let kf := digestKey (idxHash univ) (posDigest (univ.length + 2))
      let st := match cs with | [c] => " st=" ++ stateOf kf c parts | _ => ""
      showTable (runChain kf cs parts) ++ st
    | _, _, _, _, _ => "bad-op"
  | _ => "bad-op"

def handle (cmd : String) (args : List String) : Option String :=
  match cmd with
  | "pipe" => some (pipe args)
  | _ => none
end Oracle.C06
