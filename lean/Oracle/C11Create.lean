import SigModel.Model.ConcCreate
import Oracle.Util
/- suite "conc", get-or-create of the segstore table (Model/ConcCreate.lean; see harness/cmd/corr/c11_create.go):

     c11c <S> <label> …     label ::= c<t> | f<i> | e<i> | n<i>    (t < 16: ingest call t on stream t mod S; i < S)

   c<t>: next step of call t (first: start + getSegStore; an AddEntry on a store that removeStaleSegments has
   removed is logged as `append` and appends nothing: the call's next step is getSegStore again); f<i>: flush + rotation of the registered store of
   stream i; e<i>: removeStaleSegments on the (aged) registered store of stream i.  A label whose step is not
   enabled (needs allSegStoresLock while a call holds it) or has no effect is skipped and not logged.
   After the schedule the calls are completed (the lock holder first, then by id).  Answer:

     steps=<t>:<step>,…,f<i>,e<i> | calls=<t>:<store>,… | stores=<store>:<reg|orphan>:<unflushed events>,… | handed=<stream>.<suffix>,… | acked=<n> searchable=<n>

   store = <stream>.<suffix it was created with>; searchable = acknowledged events that are persistent or sit in
   a registered store (what flush-all + rotate-all makes searchable).  Run with the program order extracted from
   the source (Cfg.real). -/
namespace Oracle.C11Create
open SigModel.ConcCreate Oracle

def digitsVal (cs : List Char) : Nat := cs.foldl (fun a c => 10 * a + (c.toNat - 48)) 0

/-- strict decimal: digits only, no sign, no leading zero, at most 6 digits -/
def num? (cs : List Char) : Option Nat :=
  if cs.isEmpty || cs.length > 6 || !(cs.all Char.isDigit) || (cs.length > 1 && cs.head? == some '0') then none
  else some (digitsVal cs)

/-- `n<i>` (a removeStaleSegments pass over stores that are seconds old: STALE_SEGMENT_DELETION_SECONDS = 900 s) is
well-formed and has no step in the model: `some none` -/
def parseLabel (S : Nat) (t : String) : Option (Option Label) :=
  match t.toList with
  | 'c' :: r => (num? r).bind fun n => if n < 16 then some (some (.call n (n % S))) else none
  | 'f' :: r => (num? r).bind fun n => if n < S then some (some (.flush n)) else none
  | 'e' :: r => (num? r).bind fun n => if n < S then some (some (.evict n)) else none
  | 'n' :: r => (num? r).bind fun n => if n < S then some none else none
  | _ => none

def stepName : CStep → String
  | .lock => "lock" | .recheck => "recheck" | .sufRead => "sufRead" | .sufWrite => "sufWrite"
  | .insert => "insert" | .unlock => "unlock"

/-- the log entry of a label in state `s` (none: not enabled / no effect) -/
def logOf (s : St) : Label → Option String
  | .call t _ =>
    match (s.thread t).pc with
    | .idle => if s.lock.isNone then some s!"{t}:get" else none
    | .retry => if s.lock.isNone then some s!"{t}:get" else none
    | .create [] => none
    | .create (a :: _) => if a == .lock && s.lock.isSome then none else some s!"{t}:{stepName a}"
    | .append => some s!"{t}:append"
    | .done => none
  | .flush i =>
    match s.lock, s.table i with
    | none, some r => if (s.store r).events.isEmpty then none else some s!"f{i}"
    | _, _ => none
  | .evict i =>
    match s.lock, s.table i with
    | none, some r => if (s.store r).events.isEmpty then some s!"e{i}" else none
    | _, _ => none

structure Acc where
  s : St
  log : List String := []
  names : List (Nat × Nat) := []   -- (stream, suffix it was created with) of every store, by store number

def advance (cfg : Cfg) (a : Acc) (l : Label) : Acc :=
  let s' := step cfg a.s l
  { s := s',
    log := match logOf a.s l with | some e => a.log ++ [e] | none => a.log,
    names := if s'.nstores > a.s.nstores then a.names ++ [((s'.store a.s.nstores).stream, (s'.store a.s.nstores).suffix)]
             else a.names }

/-- completion order: the lock holder first, else the started call with the lowest id that is not done -/
def drainLabel (s : St) : Option Label :=
  match s.lock with
  | some t => some (.call t (s.thread t).stream)
  | none =>
    ((List.range 16).find? fun t => s.started.contains t && (s.thread t).pc != .done).map
      fun t => .call t (s.thread t).stream

def drain (cfg : Cfg) : Nat → Acc → Acc
  | 0, a => a
  | fuel + 1, a =>
    match drainLabel a.s with
    | none => a
    | some l => drain cfg fuel (advance cfg a l)

def createOp (args : List String) : String :=
  match args with
  | [] => "bad-op"
  | sTok :: toks =>
    match num? sTok.toList with
    | none => "bad-op"
    | some S =>
      if S < 1 || S > 4 then "bad-op" else
      match toks.mapM (parseLabel S) with
      | none => "bad-op"
      | some labels0 =>
        let labels := labels0.filterMap id
        let cfg := Cfg.real
        let a := drain cfg 400 (labels.foldl (advance cfg) { s := init })
        let s2 := a.s
        let nm := fun (r : Nat) => match a.names[r]? with
          | some (i, k) => s!"{i}.{k}"
          | none => s!"?{r}"
        let calls := ((List.range 16).filter fun t => s2.started.contains t).map fun t =>
          match s2.acked.find? (fun p => p.1 == t) with
          | some (_, r) => s!"{t}:{nm r}"
          | none => s!"{t}:-"
        let stores := (List.range s2.nstores).map fun r =>
          let reg := if s2.table (s2.store r).stream == some r then "reg" else "orphan"
          s!"{nm r}:{reg}:{(s2.store r).events.length}"
        let handed := s2.handed.map fun p => s!"{p.1}.{p.2}"
        let searchable := (s2.acked.filter fun p =>
          s2.persisted.contains p.1 || s2.table (s2.store p.2).stream == some p.2).length
        String.intercalate " | " [
          "steps=" ++ String.intercalate "," a.log,
          "calls=" ++ String.intercalate "," calls,
          "stores=" ++ String.intercalate "," stores,
          "handed=" ++ String.intercalate "," handed,
          s!"acked={s2.acked.length} searchable={searchable}"]

def handle (cmd : String) (args : List String) : Option String :=
  match cmd with
  | "c11c" => some (createOp args)
  | _ => none
end Oracle.C11Create
