import SigModel.Model.WalRecover
import Oracle.Util
import Std.Data.HashMap
/- suite "walrecover" (C10, recovery layer).  Op line (see harness/cmd/corr/c10_recover.go):
   walrecover sh=<n> cap=<c> ser=<shard,…> bsh=<shard> ops=<op;…>
   → dir=… order=… disk=… names=… meta=…   (what is found on disk after the crash + recovery) -/
namespace Oracle.C10R
open SigModel.Wal (Dp)
open SigModel.WalRecover Oracle

/-- strict decimal: 1..maxLen digits -/
def nat? (s : String) (maxLen : Nat := 10) : Option Nat :=
  let cs := s.toList
  if cs.isEmpty || cs.length > maxLen || !cs.all Char.isDigit then none else some (Nat.ofDigitChars 10 cs 0)

def hex16? (s : String) : Option Nat :=
  let cs := s.toList
  if cs.length ≠ 16 || !cs.all (fun c => c.isDigit || ('a' ≤ c && c ≤ 'f')) then none else hexNat? s

def roll? (s : String) : Option Bool := if s = "0" then some false else if s = "1" then some true else none

def stripPrefix? (p s : String) : Option String :=
  if s.startsWith p then some (String.ofList (s.toList.drop p.length)) else none

/-- the generated datapoints of a g op (same recurrence as c10rBulk in the harness) -/
def bulk (seed : UInt64) (n k : Nat) (ts0 : Nat) : List Dp := Id.run do
  let mut x := seed
  let mut out : Array Dp := Array.mkEmpty n
  for i in [0:n] do
    x := x * 6364136223846793005 + 1442695040888963407
    let j := ((x >>> 33) % k.toUInt64).toNat
    x := x * 6364136223846793005 + 1442695040888963407
    out := out.push { ts := ts0 + i, val := ((0x3FF0000000000000 : UInt64) ||| (x >>> 12)).toNat, tsid := 1000 + j }
  return out.toList

inductive POp where
  | sys (o : SysOp)
  | bulk (sh : Nat) (ds : List Dp) (roll : Bool)
  | crashB (m : Nat)     -- block-rotation pass that dies after m steps (last op, one shard)
  | crashR (m : Nat)     -- first restart dies after m steps of RecoverWALData (last op, one shard)
  | crashE (m : Nat)     -- meta-WAL write that dies after m steps (last op, one shard)
  | crashN (m : Nat)     -- first restart dies after m steps of RecoverMNameWALData (last op, one shard)
  | crashF (m : Nat)     -- first restart dies after m system calls of the flushBlock inside RecoverWALData (last op, one shard)
  | crashS (m : Nat)     -- size-triggered segment rotation of shard 0 that dies after m steps of rotateSegment (last op, one shard)

def parseOp (nsh : Nat) (ser : List Nat) (bsh : Nat) (t : String) : Option POp :=
  match t.toList with
  | [] => none
  | c :: rest =>
    let p := (String.ofList rest).splitOn ":"
    match c, p with
    | 'd', [s, ts, v, r] => do
      let s ← nat? s; let ts ← nat? ts; let v ← hex16? v; let r ← roll? r
      let sh ← ser[s]?
      if ts > 4294967295 then none
      else some (.sys (.shard sh (.ingest s { ts := ts, val := v, tsid := s } r)))
    | 'g', [seed, n, k, ts0, r] => do
      let seed ← nat? seed 20; let n ← nat? n; let k ← nat? k; let ts0 ← nat? ts0; let r ← roll? r
      if seed ≥ 18446744073709551616 || n < 1 || n > 400000 || k < 1 || k > 5000 || ts0 + n > 4294967295 then none
      else some (.bulk bsh (bulk seed.toUInt64 n k ts0) r)
    | 'f', [r] => do let r ← roll? r; some (.sys (.all (.walFlush r)))
    | 'b', [""] => some (.sys (.all .blockRotate))
    | 'n', [""] => some (.sys (.all .nameFlush))
    | 'e', [""] => some (.sys .metaFlush)
    | 's', [k] => do let k ← nat? k; if k ≥ nsh then none else some (.sys (.shard k .segRotate))
    | 'x', [kind, m] => do
      let m ← nat? m
      if nsh ≠ 1 || m < 1 || m > 1000 then none
      else if kind = "b" then some (.crashB m) else if kind = "r" then some (.crashR m) else if kind = "e" then some (.crashE m)
      else if kind = "n" then some (.crashN m) else if kind = "f" then some (.crashF m) else if kind = "s" then some (.crashS m) else none
    | _, _ => none

def applyOp (cap : Nat) (s : Sys) : POp → Sys
  | .sys o => sysStep cap s o
  | .bulk sh ds roll =>
    match s.shards[sh]? with
    | none => s
    | some st =>
      if !ds.isEmpty && st.buf.length + ds.length ≤ cap then
        { s with shards := modifyNth (ingestMany 999 ds) sh s.shards }      -- = the fold below (ingestMany_eq_foldl)
      else ds.foldl (fun s d => sysStep cap s (.shard sh (.ingest 999 d roll))) s
  | .crashB m => { s with shards := modifyNth (blockRotateCrash m) 0 s.shards }
  | .crashR _ => s
  | .crashN _ => s
  | .crashF _ => s
  | .crashE m => metaFlushCrash m s
  | .crashS m => segRotateCrash cap m s

def isCrash : POp → Bool
  | .crashB _ | .crashR _ | .crashE _ | .crashN _ | .crashF _ | .crashS _ => true
  | _ => false

/-! ### printing -/

def str (cs : List Char) : String := String.ofList cs

def insertBy {α} (lt : α → α → Bool) (x : α) : List α → List α
  | [] => [x]
  | y :: ys => if lt x y then x :: y :: ys else y :: insertBy lt x ys
def sortBy {α} (lt : α → α → Bool) (l : List α) : List α := l.foldr (insertBy lt) []

def walIdxOf (name : List Char) : String :=
  let t := if name.length ≥ 4 then name.take (name.length - 4) else name
  str ((t.reverse.takeWhile (· ≠ '_')).reverse)

def fnvDp (h : UInt64) (d : Dp) : UInt64 := Id.run do
  let mut h := h
  let t := d.ts.toUInt64
  let v := d.val.toUInt64
  for i in [0:4] do
    h := (h ^^^ ((t >>> (8 * i).toUInt64) &&& 0xff)) * 1099511628211
  for i in [0:8] do
    h := (h ^^^ ((v >>> (8 * i).toUInt64) &&& 0xff)) * 1099511628211
  return h

/-- per series: count and FNV-1a 64 of (ts LE32, value bits LE64)*, series sorted by id -/
def seriesDigests (dps : List Dp) : List (Nat × Nat × UInt64) :=
  let m : Std.HashMap Nat (Nat × UInt64) := dps.foldl (fun m d =>
    let (n, h) := m.getD d.tsid (0, 14695981039346656037)
    m.insert d.tsid (n + 1, fnvDp h d)) {}
  sortBy (fun a b => a.1 < b.1) (m.toList.map (fun (k, (n, h)) => (k, n, h)))

def keyNum (k : Key) : Nat × Nat × Nat := (Nat.ofDigitChars 10 k.1 0, k.2.1, k.2.2)
def lt3 (a b : Nat × Nat × Nat) : Bool := a.1 < b.1 || (a.1 == b.1 && (a.2.1 < b.2.1 || (a.2.1 == b.2.1 && a.2.2 < b.2.2)))
def lt2 (a b : Nat × Nat) : Bool := a.1 < b.1 || (a.1 == b.1 && a.2 < b.2)

/-- last entry per (shard, seg) wins -/
def lastWins (l : List MetaEntry) : List MetaEntry :=
  l.foldl (fun acc e => (acc.filter (fun x => !(x.shard == e.shard && x.seg == e.seg))) ++ [e]) []

inductive RestartCrash where
  | none
  | recover (m : Nat)   -- xr
  | names (m : Nat)     -- xn
  | flush (m : Nat)     -- xf

def render (s : Sys) (recCrash : RestartCrash) : String :=
  let d := readDir (sysDir s)
  let dirS := ",".intercalate (d.map (fun f => s!"{str f.1}:{(fileDps f).length}"))
  let gs := sortBy (fun a b => lexLt a.info.key b.info.key) (groups (sysDir s))
  let ordS := ";".intercalate (gs.map (fun g => s!"{str g.info.key}:{",".intercalate (g.files.map (fun f => walIdxOf f.1))}"))
  let disk0 := match recCrash with
    | .recover m => diskAfterCrashedRecovery m (sysDir s) (sysDurable s)
    | .flush m => diskAfterFlushCrashedRecovery m (sysDir s) (sysDurable s)
    | _ => sysDiskAfterRecovery s
  let disk := sortBy (fun a b => lt3 (keyNum a.1) (keyNum b.1)) disk0
  let diskS := ";".intercalate (disk.map (fun (k, dps) =>
    let ser := ",".intercalate ((seriesDigests dps).map (fun (sid, n, h) => s!"{sid}={n}:{natHexW h.toNat 16}"))
    s!"{str k.1}/{k.2.1}/{k.2.2}:{ser}"))
  let names := sortBy (fun a b => lt2 (a.1, a.2.1) (b.1, b.2.1)) (match recCrash with
    | .names m => sysNamesAfterCrashedRecovery m s
    | _ => sysNamesAfterRecovery s)
  let namesS := ";".intercalate (names.map (fun (sh, seg, ns) =>
    s!"{sh}/{seg}:{",".intercalate ((sortBy (fun a b => decide (a < b)) ns).map toString)}"))
  let metas := sortBy (fun a b => lt2 (a.shard, a.seg) (b.shard, b.seg)) (lastWins (sysMetaAfterRecovery s))
  let metaS := ";".intercalate (metas.map (fun e => s!"{e.shard}/{e.seg}:{e.numBlocks}:{e.dpCount}"))
  s!"dir={dirS} order={ordS} disk={diskS} names={namesS} meta={metaS}"

def walrecover (args : List String) : String :=
  match args with
  | [a, b, c, d, e] =>
    match stripPrefix? "sh=" a, stripPrefix? "cap=" b, stripPrefix? "ser=" c, stripPrefix? "bsh=" d, stripPrefix? "ops=" e with
    | some a, some b, some c, some d, some e =>
      match nat? a, nat? b, nat? d with
      | some nsh, some cap, some bsh =>
        if nsh < 1 || nsh > 3 || cap < 1 || cap > 1000000 || bsh ≥ nsh then "bad-op" else
        let ser? : Option (List Nat) := if c.isEmpty then some [] else (c.splitOn ",").mapM (fun t => nat? t)
        match ser? with
        | none => "bad-op"
        | some ser =>
          if ser.length > 16 || ser.any (· ≥ nsh) then "bad-op" else
          let ops? : Option (List POp) := if e.isEmpty then some [] else (e.splitOn ";").mapM (parseOp nsh ser bsh)
          match ops? with
          | none => "bad-op"
          | some ops =>
            -- a crash op is only allowed as the last op
            if (ops.dropLast.any isCrash) then "bad-op" else
            let rc : RestartCrash := match ops.getLast? with
              | some (.crashR m) => .recover m
              | some (.crashN m) => .names m
              | some (.crashF m) => .flush m
              | _ => .none
            render (ops.foldl (applyOp cap) (Sys.init nsh)) rc
      | _, _, _ => "bad-op"
    | _, _, _, _, _ => "bad-op"
  | _ => "bad-op"

def handle (cmd : String) (args : List String) : Option String :=
  match cmd with
  | "walrecover" => some (walrecover args)
  | _ => none

end Oracle.C10R
