import Oracle.Util
import SigModel.Model.SegSelect
/- Suite segsel (harness/cmd/corr/c02_segsel.go): segment selection by time.
   segsel <qs> <qe> <org> <ix,ix,…|-> R <seg>… [| <seg>…]… U <seg>…      seg ::= <key>:<table>:<earliest>:<latest>:<org>
   R: the rotated segments, cut into bulks (`|`) in the order bulkAddSegmentMicroIndex receives them; U: the open segments.
   Answer: the keys FilterSegmentsByTime keeps (sorted, a key once) with its two counters, the same for
   FilterUnrotatedSegmentsInQuery, and the request list of a record query and of a segment-statistics query
   (unrotated-path keys / rotated-path keys).  Core Lean only. -/
namespace Oracle.SegSel
open SigModel.SegSelect

def parseSeg (t : String) : Option Seg :=
  match t.splitOn ":" with
  | [k, tb, e, l, o] => match k.toNat?, tb.toNat?, e.toNat?, l.toNat?, int? o with
    | some k, some tb, some e, some l, some o => some ⟨k, tb, e, l, o⟩
    | _, _, _, _, _ => none
  | _ => none

def splitBulks (toks : List String) : List (List String) :=
  toks.foldr (fun t acc => match acc with
    | [] => if t == "|" then [[], []] else [[t]]
    | b :: r => if t == "|" then [] :: b :: r else (t :: b) :: r) [[]]

def insertNat (x : Nat) : List Nat → List Nat
  | [] => [x]
  | y :: r => if x < y then x :: y :: r else if x == y then y :: r else y :: insertNat x r

def keysOf (l : List Seg) : String := ",".intercalate ((l.foldr (fun s acc => insertNat s.key acc) []).map toString)

def run (qs qe : Nat) (org : Int) (ixs : List Nat) (bulks : List (List Seg)) (open_ : List Seg) : String :=
  let tables := tableOf bulks
  let r := filterRotated qs qe org ixs tables
  let u := filterUnrotated qs qe org ixs open_
  let c := collect qs qe org ixs tables open_
  let q := s!"{keysOf c.1}/{keysOf c.2}"
  s!"rot={keysOf r} passed={r.length} checked={checkedRotated ixs tables} unrot={keysOf u} upassed={u.length} uchecked={checkedUnrotated ixs open_} q={q} aggs={q}"

def handle (cmd : String) (args : List String) : Option String :=
  match cmd with
  | "segsel" => some (
    match args with
    | qs :: qe :: org :: ix :: "R" :: rest =>
      let (rt, ut) := rest.span (· != "U")
      match ut with
      | "U" :: ut =>
        let ixs? : Option (List Nat) := if ix == "-" then some [] else (ix.splitOn ",").mapM (·.toNat?)
        match qs.toNat?, qe.toNat?, int? org, ixs?, (splitBulks rt).mapM (·.mapM parseSeg), ut.mapM parseSeg with
        | some qs, some qe, some org, some ixs, some bulks, some open_ => run qs qe org ixs bulks open_
        | _, _, _, _, _, _ => "bad-op"
      | _ => "bad-op"
    | _ => "bad-op")
  | _ => none
end Oracle.SegSel
