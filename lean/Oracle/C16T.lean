import Oracle.C12E
import Oracle.C16
/- suite "traceingest" (C16, OTLP trace ingest → stored events; harness/cmd/corr/c16_traceingest.go):
     tei <P> <pick> <request>|<request>…      (grammar of the `te` op line of Oracle/C12E.lean)
   Answer: the ingest part `acks=… ev=…` of the tracee2e answer (everything in front of the first view token ` g:`). -/
namespace Oracle.C16T

/-- the prefix of `s` in front of the first occurrence of ` g:` (the whole string when there is none, or when the answer
is not a tracee2e answer line) -/
def cut (s : String) : String :=
  if !s.startsWith "acks=" then s else
  match s.splitOn " g:" with
  | a :: _ :: _ => a
  | _ => s

/-- suite "timeseq" (harness/cmd/corr/c16_timeseq.go): `tpq <protoA> <formA> <msA> <protoB> <formB> <msB>` — two requests in
one process; requests are independent, so the answer is the `tp` answer (Oracle/C16.lean, suite timeproto) of each step.
Forms whose answer the statement leaves open (hec-both, hec-time-ms) and two events carrying the same time are refused,
as on the Go side. -/
def wantOf (form : String) (ms : Nat) : Option Nat :=
  if form == "absent" || form == "zero" || form == "hec-none" || form == "hec-time-bad" then none
  else if form == "s" || form == "hec-time-s" then some (ms / 1000 * 1000) else some ms

def tpq (args : List String) : String :=
  match args with
  | [pa, fa, ma, pb, fb, mb] =>
    if fa == "hec-both" || fb == "hec-both" || fa == "hec-time-ms" || fb == "hec-time-ms" then "bad-op" else
    match Oracle.C16.handle "tp" [pa, fa, ma], Oracle.C16.handle "tp" [pb, fb, mb], ma.toNat?, mb.toNat? with
    | some a, some b, some na, some nb =>
      if a == "bad-op" || b == "bad-op" then "bad-op"
      else if (wantOf fa na).isSome && wantOf fa na == wantOf fb nb then "bad-op"
      else a ++ " ; " ++ b
    | _, _, _, _ => "bad-op"
  | _ => "bad-op"

def handle (cmd : String) (args : List String) : Option String :=
  match cmd with
  | "tei" => (Oracle.C12E.handle "te" args).map cut
  | "tpq" => some (tpq args)
  | _ => none
end Oracle.C16T
