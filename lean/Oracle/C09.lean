import SigModel.Model.Promql
import SigModel.Model.PromqlBin
import Oracle.Util
/- suite "promql" (C09):
   gkey by|without <fields> <hex seriesId>                         → k=<hex group key>
   agg <fn> by|without <fields> step=<s> M=<hex name> S=<series>|<series>…
                                                                    → ok <hex group>@<ts>=<num>/<den> … (sorted)
   fields ::= - | <hex>,<hex>,…      series ::= <labels>@<pts>
   labels ::= - | <hexk>=<hexv>,…    pts ::= - | <ts>:<int>,…
   agg2 <fn1> by|without <fields1> <fn2> by|without <fields2> step=<s> M=<hex name> S=…   (fn1 ≠ avg)
   avg values are printed after float64 rounding of the quotient (`f64div`), everything else is exact. -/
namespace Oracle.C09
open SigModel.Promql Oracle

def parseMode : String → Option Bool
  | "by" => some false
  | "without" => some true
  | _ => none

def parseFields (s : String) : Option (List Str) :=
  if s = "-" then some [] else (s.splitOn ",").mapM hexBytes?

def parseFn : String → Option Fn
  | "sum" => some .sum | "min" => some .min | "max" => some .max | "avg" => some .avg | "count" => some .count
  | _ => none

def parseLabels (s : String) : Option Labels :=
  if s = "-" then some [] else
  (s.splitOn ",").mapM (fun kv => match kv.splitOn "=" with
    | [k, v] => match hexBytes? k, hexBytes? v with
      | some k, some v => some (k, v)
      | _, _ => none
    | _ => none)

def valLimit : Int := 1099511627776  -- 2^40

def parsePts (s : String) : Option (List (Nat × Int)) :=
  if s = "-" then some [] else
  (s.splitOn ",").mapM (fun tv => match tv.splitOn ":" with
    | [t, v] => match t.toNat?, int? v with
      | some t, some v => if t < 4294967296 ∧ -valLimit < v ∧ v < valLimit then some (t, v) else none
      | _, _ => none
    | _ => none)

def parseSeries (s : String) : Option Series :=
  match s.splitOn "@" with
  | [l, p] => match parseLabels l, parsePts p with
    | some l, some p => some { labels := l, pts := p }
    | _, _ => none
  | _ => none

def kvArg (key : String) (s : String) : Option String :=
  match s.splitOn "=" with
  | k :: rest => if k = key ∧ rest ≠ [] then some (String.intercalate "=" rest) else none
  | _ => none

def showRat (q : Rat) : String := s!"{q.num}/{q.den}"

def gkey (args : List String) : String :=
  match args with
  | [m, f, sid] =>
    match parseMode m, parseFields f, hexBytes? sid with
    | some w, some fs, some sid => "k=" ++ bytesHex (extractGroupKey fs w sid)
    | _, _, _ => "bad-op"
  | _ => "bad-op"

def agg (args : List String) : String :=
  match args with
  | [fn, m, f, st, nm, ss] =>
    match parseFn fn, parseMode m, parseFields f, (kvArg "step" st).bind String.toNat?, (kvArg "M" nm).bind hexBytes?, kvArg "S" ss with
    | some fn, some w, some fs, some step, some name, some ss =>
      if step = 0 ∨ step ≥ 4294967296 then "bad-op" else
      let series := if ss = "-" then some [] else (ss.splitOn "|").mapM parseSeries
      match series with
      | none => "bad-op"
      | some series =>
        let q : Query := { fn := fn, without := w, fields := fs, step := step, name := name }
        let toks := (results q series).map (fun (g, t, v) =>
          let v' := if fn = .avg then f64div v.num v.den else v
          s!"{bytesHex g}@{t}={showRat v'}")
        let sorted := toks.mergeSort (fun a b => decide (a ≤ b))
        String.intercalate " " ("ok" :: sorted)
    | _, _, _, _, _, _ => "bad-op"
  | _ => "bad-op"

/-- agg2 <fn1> by|without <fields1> <fn2> by|without <fields2> step=<s> M=<hex> S=…  : AggregateResults
with the first aggregation, then ApplyAggregationToResults with the second (fn1 ≠ avg: the intermediate
values stay integers) -/
def agg2 (args : List String) : String :=
  match args with
  | [fn1, m1, f1, fn2, m2, f2, st, nm, ss] =>
    match parseFn fn1, parseMode m1, parseFields f1, parseFn fn2, parseMode m2, parseFields f2 with
    | some fn1, some w1, some fs1, some fn2, some w2, some fs2 =>
      match (kvArg "step" st).bind String.toNat?, (kvArg "M" nm).bind hexBytes?, kvArg "S" ss with
      | some step, some name, some ss =>
        if step = 0 ∨ step ≥ 4294967296 ∨ fn1 = .avg then "bad-op" else
        let series := if ss = "-" then some [] else (ss.splitOn "|").mapM parseSeries
        match series with
        | none => "bad-op"
        | some series =>
          let q1 : Query := { fn := fn1, without := w1, fields := fs1, step := step, name := name }
          let q2 : Query := { fn := fn2, without := w2, fields := fs2, step := step, name := name }
          let toks := (results2 q2 (results q1 series)).map (fun (g, t, v) =>
            let v' := if fn2 = .avg then f64div v.num v.den else v
            s!"{bytesHex g}@{t}={showRat v'}")
          let sorted := toks.mergeSort (fun a b => decide (a ≤ b))
          String.intercalate " " ("ok" :: sorted)
      | _, _, _ => "bad-op"
    | _, _, _, _, _, _ => "bad-op"
  | _ => "bad-op"

/-! suite "promqlbin":  binop <op> <0|1 bool> L=<hex name> <vec> R=<hex name> <vec>
      vec ::= - | <series>|<series>…      series ::= <hex id>@<pts>      pts ::= - | <ts>:<int>,…
      op ∈ add sub mul div mod pow eq ne gt lt ge le and or unless ; |values| < 2^20 ; for pow: left |x| ≤ 8192, right 0..4
    → ok <hex id>@<ts>=<num>/<den>|nan,… …   (sorted by id, points by timestamp; an entry without points is `<hex id>@`) -/

open SigModel.PromqlBin in
def parseBinOp : String → Option Op
  | "add" => some .add | "sub" => some .sub | "mul" => some .mul | "div" => some .div | "mod" => some .mod
  | "pow" => some .pow | "eq" => some .eq | "ne" => some .ne | "gt" => some .gt | "lt" => some .lt
  | "ge" => some .ge | "le" => some .le | "and" => some .and | "or" => some .or | "unless" => some .unless
  | _ => none

def binValLimit : Int := 1048576  -- 2^20

def hasDupNat : List Nat → Bool
  | [] => false
  | x :: r => r.contains x || hasDupNat r

def hasDupStr : List Str → Bool
  | [] => false
  | x :: r => r.contains x || hasDupStr r

def parseBinPts (s : String) : Option (List (Nat × Int)) :=
  if s = "-" then some [] else
  ((s.splitOn ",").mapM (fun (tv : String) => match tv.splitOn ":" with
    | [t, v] => match t.toNat?, int? v with
      | some t, some v => if t < 4294967296 ∧ -binValLimit < v ∧ v < binValLimit then some (t, v) else none
      | _, _ => none
    | _ => none)).bind (fun (ps : List (Nat × Int)) => if hasDupNat (ps.map (fun (x : Nat × Int) => x.1)) then none else some ps)

def parseBinVec (s : String) : Option SigModel.PromqlBin.Vec :=
  if s = "-" then some [] else
  ((s.splitOn "|").mapM (fun (e : String) => match e.splitOn "@" with
    | [i, p] => match hexBytes? i, parseBinPts p with
      | some i, some p => some (i, p)
      | _, _ => none
    | _ => none)).bind (fun (v : SigModel.PromqlBin.Vec) => if hasDupStr (v.map (fun (x : Str × SigModel.PromqlBin.Pts) => x.1)) then none else some v)

open SigModel.PromqlBin in
def showVal : Val → String
  | .num q => showRat q
  | .nan => "nan"
  | .inf n => if n then "-inf" else "inf"
  | .unmodelled => "unmodelled"

open SigModel.PromqlBin in
def binopH (args : List String) : String :=
  match args with
  | [op, b, ln, lv, rn, rv] =>
    match parseBinOp op, (if b = "0" then some false else if b = "1" then some true else none),
          (kvArg "L" ln).bind hexBytes?, parseBinVec lv, (kvArg "R" rn).bind hexBytes?, parseBinVec rv with
    | some op, some b, some ln, some lv, some rn, some rv =>
      if op == .pow && (lv.any (fun e => e.2.any (fun p => p.2.natAbs > 8192)) || rv.any (fun e => e.2.any (fun p => p.2 < 0 || p.2 > 4))) then "bad-op" else
      let out := binop op b { name := ln, series := lv } { name := rn, series := rv }
      let toks := out.map (fun (i, ps) =>
        let ps' := ps.mergeSort (fun a c => decide (a.1 ≤ c.1))
        bytesHex i ++ "@" ++ String.intercalate "," (ps'.map (fun (t, v) => s!"{t}={showVal v}")))
      String.intercalate " " ("ok" :: toks.mergeSort (fun a c => decide (a ≤ c)))
    | _, _, _, _, _, _ => "bad-op"
  | _ => "bad-op"

def handle (cmd : String) (args : List String) : Option String :=
  match cmd with
  | "binop" => some (binopH args)
  | "gkey" => some (gkey args)
  | "agg" => some (agg args)
  | "agg2" => some (agg2 args)
  | _ => none
end Oracle.C09
