import SigModel.Model.Promql
import Oracle.Util
/- suite "promql" (C09):
   gkey by|without <fields> <hex seriesId>                         → k=<hex group key>
   agg <fn> by|without <fields> step=<s> M=<hex name> S=<series>|<series>…
                                                                    → ok <hex group>@<ts>=<num>/<den> … (sorted)
   fields ::= - | <hex>,<hex>,…      series ::= <labels>@<pts>
   labels ::= - | <hexk>=<hexv>,…    pts ::= - | <ts>:<int>,…
   agg2 <fn1> by|without <fields1> <fn2> by|without <fields2> step=<s> M=<hex name> S=…   (fn1 ≠ avg)
   avg values are printed after float64 rounding of the quotient (`f64div`), everything else is exact. -/
namespace Oracle.C09
open SigModel.Promql Oracle

def parseMode : String → Option Bool
  | "by" => some false
  | "without" => some true
  | _ => none

def parseFields (s : String) : Option (List Str) :=
  if s = "-" then some [] else (s.splitOn ",").mapM hexBytes?

def parseFn : String → Option Fn
  | "sum" => some .sum | "min" => some .min | "max" => some .max | "avg" => some .avg | "count" => some .count
  | _ => none

def parseLabels (s : String) : Option Labels :=
  if s = "-" then some [] else
  (s.splitOn ",").mapM (fun kv => match kv.splitOn "=" with
    | [k, v] => match hexBytes? k, hexBytes? v with
      | some k, some v => some (k, v)
      | _, _ => none
    | _ => none)

def valLimit : Int := 1099511627776  -- 2^40

def parsePts (s : String) : Option (List (Nat × Int)) :=
  if s = "-" then some [] else
  (s.splitOn ",").mapM (fun tv => match tv.splitOn ":" with
    | [t, v] => match t.toNat?, int? v with
      | some t, some v => if t < 4294967296 ∧ -valLimit < v ∧ v < valLimit then some (t, v) else none
      | _, _ => none
    | _ => none)

def parseSeries (s : String) : Option Series :=
  match s.splitOn "@" with
  | [l, p] => match parseLabels l, parsePts p with
    | some l, some p => some { labels := l, pts := p }
    | _, _ => none
  | _ => none

def kvArg (key : String) (s : String) : Option String :=
  match s.splitOn "=" with
  | k :: rest => if k = key ∧ rest ≠ [] then some (String.intercalate "=" rest) else none
  | _ => none

def showRat (q : Rat) : String := s!"{q.num}/{q.den}"

def gkey (args : List String) : String :=
  match args with
  | [m, f, sid] =>
    match parseMode m, parseFields f, hexBytes? sid with
    | some w, some fs, some sid => "k=" ++ bytesHex (extractGroupKey fs w sid)
    | _, _, _ => "bad-op"
  | _ => "bad-op"

def agg (args : List String) : String :=
  match args with
  | [fn, m, f, st, nm, ss] =>
    match parseFn fn, parseMode m, parseFields f, (kvArg "step" st).bind String.toNat?, (kvArg "M" nm).bind hexBytes?, kvArg "S" ss with
    | some fn, some w, some fs, some step, some name, some ss =>
      if step = 0 ∨ step ≥ 4294967296 then "bad-op" else
      let series := if ss = "-" then some [] else (ss.splitOn "|").mapM parseSeries
      match series with
      | none => "bad-op"
      | some series =>
        let q : Query := { fn := fn, without := w, fields := fs, step := step, name := name }
        let toks := (results q series).map (fun (g, t, v) =>
          let v' := if fn = .avg then f64div v.num v.den else v
          s!"{bytesHex g}@{t}={showRat v'}")
        let sorted := toks.mergeSort (fun a b => decide (a ≤ b))
        String.intercalate " " ("ok" :: sorted)
    | _, _, _, _, _, _ => "bad-op"
  | _ => "bad-op"

/-- agg2 <fn1> by|without <fields1> <fn2> by|without <fields2> step=<s> M=<hex> S=…  : AggregateResults
with the first aggregation, then ApplyAggregationToResults with the second (fn1 ≠ avg: the intermediate
values stay integers) -/
def agg2 (args : List String) : String :=
  match args with
  | [fn1, m1, f1, fn2, m2, f2, st, nm, ss] =>
    match parseFn fn1, parseMode m1, parseFields f1, parseFn fn2, parseMode m2, parseFields f2 with
    | some fn1, some w1, some fs1, some fn2, some w2, some fs2 =>
      match (kvArg "step" st).bind String.toNat?, (kvArg "M" nm).bind hexBytes?, kvArg "S" ss with
      | some step, some name, some ss =>
        if step = 0 ∨ step ≥ 4294967296 ∨ fn1 = .avg then "bad-op" else
        let series := if ss = "-" then some [] else (ss.splitOn "|").mapM parseSeries
        match series with
        | none => "bad-op"
        | some series =>
          let q1 : Query := { fn := fn1, without := w1, fields := fs1, step := step, name := name }
          let q2 : Query := { fn := fn2, without := w2, fields := fs2, step := step, name := name }
          let toks := (results2 q2 (results q1 series)).map (fun (g, t, v) =>
            let v' := if fn2 = .avg then f64div v.num v.den else v
            s!"{bytesHex g}@{t}={showRat v'}")
          let sorted := toks.mergeSort (fun a b => decide (a ≤ b))
          String.intercalate " " ("ok" :: sorted)
      | _, _, _ => "bad-op"
    | _, _, _, _, _, _ => "bad-op"
  | _ => "bad-op"

def handle (cmd : String) (args : List String) : Option String :=
  match cmd with
  | "gkey" => some (gkey args)
  | "agg" => some (agg args)
  | "agg2" => some (agg2 args)
  | _ => none
end Oracle.C09
