import SigModel.Model.Trace
import Oracle.Util
/- suite "trace" (C12 kernels).  span = id:parent:service:start:end:err   (parent 0 = "", parent `-` = no
   idToParentId entry; err 0/1); span list = spans joined by `;`, `-` = empty list.
   every op line starts with `trace`:
     tree <pick> <spans>  → root=<id> err=0 view=<p>id,…> nodes=<id:actual:relStart:relEnd:anom;…> | root=none err=1
     pct <p> <v,v,…|->    → v=<float64 bits, 16 hex> arr=<v,v,…|->        (values < 2^63)
     dep <spans>          → parentSvc>childSvc=count …   | -
     qsel <k> <v,v,…>     → v=<n> arr=<v,v,…>                             (k < length)
     red <spans>          → svc=rate/errRate/p50/p90/p95/p99 …  (float64 bits) | -           -/
namespace Oracle.C12
open SigModel.Trace Oracle

def parseSpan (s : String) : Option Span :=
  match s.splitOn ":" with
  | [i, p, sv, st, en, er] =>
    match i.toNat?, sv.toNat?, st.toNat?, en.toNat?, er with
    | some i, some sv, some st, some en, er =>
      if i ≥ W || st ≥ W || en ≥ W then none else
      let e? : Option Bool := if er == "0" then some false else if er == "1" then some true else none
      match e? with
      | none => none
      | some e =>
        if p == "-" then some { id := i, parent := 0, noEntry := true, service := sv, start := st, end_ := en, error := e }
        else match p.toNat? with
          | some p => if p ≥ W then none else some { id := i, parent := p, noEntry := false, service := sv, start := st, end_ := en, error := e }
          | none => none
    | _, _, _, _, _ => none
  | _ => none

def parseSpans (s : String) : Option (List Span) :=
  if s == "-" then some [] else (s.splitOn ";").mapM parseSpan

def parseVals (s : String) : Option (List Nat) :=
  if s == "-" then some [] else
  (s.splitOn ",").mapM (fun t => match t.toNat? with
    | some v => if v < 2 ^ 63 then some v else none
    | none => none)

def showVals (l : List Nat) : String := if l.isEmpty then "-" else ",".intercalate (l.map toString)

def b01 (b : Bool) : String := if b then "1" else "0"

def tree (pick : Nat) (spans : List Span) : String :=
  match buildTree spans pick, treeView spans pick with
  | some (r, nodes), some view =>
    let v := ",".intercalate (view.map (fun (p, x) => s!"{p}>{x}"))
    let ns := ";".intercalate (nodes.map (fun n => s!"{n.id}:{n.actual}:{n.relStart}:{n.relEnd}:{b01 n.anom}"))
    s!"root={r} err=0 view={v} nodes={ns}"
  | _, _ => "root=none err=1"

def showF (d : Option Dy) : String := match d with
  | some d => natHexW d.bits 16
  | none => "diverges"

def handle (cmd : String) (args : List String) : Option String :=
  match cmd, args with
  | "trace", ["tree", pk, sp] => some (match pk.toNat?, parseSpans sp with
    | some pk, some sp => tree pk sp
    | _, _ => "bad-op")
  | "trace", ["pct", p, vs] => some (match p.toNat?, parseVals vs with
    | some p, some vs => let (v, a) := pct vs p; s!"v={showF v} arr={showVals a}"
    | _, _ => "bad-op")
  | "trace", ["qsel", k, vs] => some (match k.toNat?, parseVals vs with
    | some k, some vs =>
      if k ≥ vs.length then "bad-op" else
      match quickSelect vs k with
      | some v => s!"v={v} arr={showVals (afterSelect vs)}"
      | none => "diverges"
    | _, _ => "bad-op")
  | "trace", ["dep", sp] => some (match parseSpans sp with
    | some sp =>
      if sp.any (·.noEntry) then "bad-op" else
      let g := depGraphOf sp
      if g.isEmpty then "-" else " ".intercalate (g.map (fun ((a, b), n) => s!"{a}>{b}={n}"))
    | none => "bad-op")
  | "trace", ["red", sp] => some (match parseSpans sp with
    | some sp =>
      if sp.any (·.noEntry) then "bad-op" else
      let rows := redOfSpans sp
      if rows.isEmpty then "-" else " ".intercalate (rows.map (fun r =>
        s!"{r.service}={showF (some r.rate)}/{showF (some r.errRate)}/{showF r.p50}/{showF r.p90}/{showF r.p95}/{showF r.p99}"))
    | none => "bad-op")
  | "trace", _ => some "bad-op"
  | _, _ => none
end Oracle.C12
