import SigModel.Model.HllKey
import Oracle.C04S
/- suite "hllkey" (C04/C03 kernel: the distinct-value key of the ingest-time and of the query-time statistics; see
   harness/cmd/corr/c04_hllkey.go):
     hkey <vals>        vals as in suite stats: i<int64> | d<decimal> | s<hex> | z, comma separated
   Answer: per value `<ingest key hex>/<query key hex>` (`-` for an absent field), then dcI= dcQ= dcM= : distinct keys of the
   ingest path, of the query path, and of the two together (segment A from its .sst, segment B holding the same values
   from its records). -/
namespace Oracle.C04H
open SigModel.Stats SigModel.HllKey Oracle

def hexByte (b : Nat) : String :=
  let d (n : Nat) : Char := if n < 10 then Char.ofNat (48 + n) else Char.ofNat (87 + n)
  String.ofList [d (b / 16 % 16), d (b % 16)]

def showKey : Option Str → String
  | none => "-"
  | some k => if k.isEmpty then "e" else String.join (k.map hexByte)

def hkey (args : List String) : String :=
  match args with
  | [v] => match Oracle.C04S.vals? v with
    | some vs =>
      let per := vs.map (fun x => showKey (hllKeyIngest x) ++ "/" ++ showKey (hllKeyQuery x))
      let ki := keysI vs
      let kq := keysQ vs
      " ".intercalate per ++ s!" dcI={dc ki} dcQ={dc kq} dcM={dc (ki ++ kq)}"
    | none => "bad-op"
  | _ => "bad-op"

def handle (cmd : String) (args : List String) : Option String :=
  match cmd with
  | "hkey" => some (hkey args)
  | _ => none
end Oracle.C04H
