import SigModel.Model.TimeUnit
import Oracle.Util
/- suite "time":
     ts absent | ts other | ts badesc | ts num <text> | ts str <hex> <layoutMs|->      → ms=<n> | ms=now
     mts otsdb|otlp absent|other | num <text> | str <hex> <layoutSec|->                → sec=<n> | err
     mts prom <int64>                                                                  → sec=<n>
     mts norm <int64>                                                                  → sec=<n> | err
   suite "timeproto":  tp <protocol> <form> <epochMs>  → stored=<ms> | stored=arrival   (see c16_proto.go)
   <text> is a JSON number token over the alphabet 0-9 . e E + - that starts with a digit or '-';
   <hex> the bytes of a string of printable ASCII without '"' and '\'. -/
namespace Oracle.C16
open SigModel.TimeUnit Oracle

def numText? (s : String) : Option (List Char) :=
  let cs := s.toList
  match cs with
  | [] => none
  | c :: _ =>
    if (c.isDigit || c == '-') && cs.all (fun c => c.isDigit || c == '.' || c == 'e' || c == 'E' || c == '+' || c == '-')
    then some cs else none

def strText? (h : String) : Option (List Char) :=
  match hexBytes? h with
  | none => none
  | some bs =>
    if bs.all (fun b => 32 ≤ b && b < 127 && b != 34 && b != 92) then some (bs.map Char.ofNat) else none

def layout? (s : String) : Option (Option Int) :=
  if s == "-" then some none else (int? s).map some

def showRes : Res → String
  | .ms n => s!"ms={n}"
  | .now => "ms=now"

def showSec : Option Int → String
  | some n => s!"sec={n}"
  | none => "err"

def mscalar? : List String → Option MScalar
  | ["absent"] => some .absent
  | ["other"] => some .other
  | ["num", t] => (numText? t).map .num
  | ["str", h, l] => match strText? h, layout? l with
    | some s, some lo => some (.str s lo)
    | _, _ => none
  | _ => none

def inS64 (i : Int) : Bool := -9223372036854775808 ≤ i && i < 9223372036854775808

def handle (cmd : String) (args : List String) : Option String :=
  match cmd with
  | "ts" => some (match args with
      | ["absent"] => showRes (extractTimeStamp .absent)
      | ["other"] => showRes (extractTimeStamp .other)
      | ["badesc"] => showRes (extractTimeStamp .strBadEscape)
      | ["num", t] => (match numText? t with
          | some cs => showRes (extractTimeStamp (.num cs))
          | none => "bad-op")
      | ["str", h, l] => (match strText? h, layout? l with
          | some s, some lo => showRes (extractTimeStamp (.str s lo))
          | _, _ => "bad-op")
      | _ => "bad-op")
  | "tp" => some (match args with
      | [proto, form, msS] => (match msS.toNat? with
          | none => "bad-op"
          | some ms =>
            if ms < 1000000000000 || ms ≥ 10000000000000 then "bad-op" else
            let dec (n : Nat) : List Char := (toString n).toList
            let pad3 (n : Nat) : List Char := [Nat.digitChar (n / 100), Nat.digitChar (n / 10 % 10), Nat.digitChar (n % 10)]
            let r : Option (Int × Scalar) := match proto, form with
              | "esbulk", "ms" => some (0, .num (dec ms))
              | "esbulk", "s" => some (0, .num (dec (ms / 1000)))
              | "esbulk", "ns-str" => some (0, .str (dec (ms * 1000000)) none)
              | "esbulk", "ns-num" => some (0, .num (dec (ms * 1000000)))
              | "esbulk", "frac-s" => some (0, .num (dec (ms / 1000) ++ '.' :: pad3 (ms % 1000)))
              | "esbulk", "rfc3339" => some (0, .str "date".toList (some (ms : Int)))
              | "esbulk", "absent" => some (0, .absent)
              | "otlp", "ns" => some ((ms : Int), .absent)      -- time_unix_nano/10^6 put on the event; no `timestamp` key
              | "otlp", "zero" => some (0, .absent)
              | "loki", "ns-str" => some (0, .str (dec (ms * 1000000)) none)
              -- Splunk HEC: the envelope's `time` is the handler time (getHecEventTime), a root `timestamp` wins
              | "splunk", "hec-time" => some (hecEventTime (some (dec (ms / 1000) ++ '.' :: pad3 (ms % 1000))), .absent)
              | "splunk", "hec-time-str" => some (hecEventTime (some (dec (ms / 1000) ++ '.' :: pad3 (ms % 1000))), .absent)
              | "splunk", "hec-time-s" => some (hecEventTime (some (dec (ms / 1000))), .absent)
              | "splunk", "hec-time-ms" => some (hecEventTime (some (dec ms)), .absent)
              | "splunk", "hec-both" => some (hecEventTime (some (dec (ms / 1000 + 86400))), .num (dec ms))
              | "splunk", "hec-none" => some (hecEventTime none, .absent)
              | "splunk", "hec-time-bad" => some (hecEventTime none, .absent)   -- "time":"yesterday": ParseFloat fails
              | "splunk", "ts-ms" => some (0, .num (dec ms))
              | _, _ => none
            match r with
            | none => "bad-op"
            | some (h, sc) => (match ingestStored h sc with
                | .ms n => s!"stored={n}"
                | .now => "stored=arrival"))
      | _ => "bad-op")
  | "mts" => some (match args with
      | "otsdb" :: r => (match mscalar? r with | some m => showSec (otsdbTs m) | none => "bad-op")
      | "otlp" :: r => (match mscalar? r with | some m => showSec (otlpTs m) | none => "bad-op")
      | ["prom", i] => (match int? i with
          | some v => if inS64 v then showSec (some (SigModel.Gen.parseTimestamp v)) else "bad-op"
          | none => "bad-op")
      | ["norm", i] => (match int? i with
          | some v => if inS64 v then showSec (SigModel.Gen.normalizeIntToSeconds v) else "bad-op"
          | none => "bad-op")
      | _ => "bad-op")
  | _ => none
end Oracle.C16
