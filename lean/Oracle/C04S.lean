import SigModel.Model.Stats
import Oracle.Util
/- suite "stats" (C04 kernel slice: running statistics and their merge).  Op lines — see harness/cmd/corr/c04_stats.go:

   stats foldq <vals>                  → Q{<state>} D{<derived>}
   stats foldi <vals>                  → I{<state>} S{<state after the .sst round trip>} D{<derived>}
   stats merge <q|i> <rpn> <p0>|<p1>…  → M{<state>} D{<derived>}
   stats rb <vals>                     → R{<bucket result>}
   stats rbmerge <rpn> <p0>|<p1>…      → R{<bucket result>}

   <vals> = "-" | comma separated  i<int64> | d<decimal> | s<hex> | z
   float64 operations are `roundF64` of the exact result.  The model is the code with the repairs c04-1..4. -/
namespace Oracle.C04S
open SigModel.Stats Oracle

def showRat (q : Rat) : String := if q.den = 1 then s!"{q.num}" else s!"{q.num}/{q.den}"

def showCV : CV → String
  | .invalid => "_"
  | .backfill => "b"
  | .int i => s!"i{i}"
  | .flt q => "f" ++ showRat q
  | .str s => "s" ++ bytesHex s

def showNum : Num → String
  | .int i => s!"i{i}"
  | .flt q => "f" ++ showRat q

def showState : Option SegStats → String
  | none => "none"
  | some s =>
    let ns := match s.num with
      | none => "-"
      | some n => s!"{n.ncount}:{showNum n.sum}"
    s!"num={if s.isNumeric then 1 else 0} cnt={s.count} ns={ns} min={showCV s.min} max={showCV s.max}"

def showCell (name : String) : Option CV → String
  | none => name ++ "=-"
  | some v => name ++ "=" ++ showCV v

def showDerived (d : Derived) : String :=
  " ".intercalate [showCell "count" d.count, showCell "sum" d.sum, showCell "avg" d.avg,
    showCell "min" d.min, showCell "max" d.max, showCell "range" d.range]

def showRB : Option RB → String
  | none => "none"
  | some b =>
    let r := resultRB roundF64 b
    s!"n={r.n} sum={showCV r.sum} min={showCV r.min} max={showCV r.max} avg={showCV r.avg} count=u{r.count} range={showCV r.range}"

/-! parsing -/

def allDigits (cs : List Char) : Bool := !cs.isEmpty && cs.all (fun c => '0' ≤ c && c ≤ '9')

def natOfDigits (cs : List Char) : Nat := cs.foldl (fun a c => a * 10 + (c.toNat - 48)) 0

/-- `-?digits+` within int64 -/
def int64? (s : String) : Option Int :=
  let cs := s.toList
  let (neg, ds) := match cs with
    | '-' :: r => (true, r)
    | _ => (false, cs)
  if !allDigits ds then none else
  let n : Int := natOfDigits ds
  let v := if neg then -n else n
  if -9223372036854775808 ≤ v ∧ v ≤ 9223372036854775807 then some v else none

/-- `-?digits+(.digits+)?` → exact rational -/
def decimal? (s : String) : Option Rat :=
  let cs := s.toList
  let (neg, r) := match cs with
    | '-' :: r => (true, r)
    | _ => (false, cs)
  let ip := r.takeWhile (· ≠ '.')
  let rest := r.dropWhile (· ≠ '.')
  if !allDigits ip then none else
  match rest with
  | [] => some (if neg then -((natOfDigits ip : Nat) : Rat) else ((natOfDigits ip : Nat) : Rat))
  | _ :: fp =>
    if !allDigits fp then none else
    let v : Rat := ((natOfDigits (ip ++ fp) : Nat) : Rat) / ((10 ^ fp.length : Nat) : Rat)
    some (if neg then -v else v)

def val? (t : String) : Option Val :=
  match t.toList with
  | ['z'] => some .absent
  | 'i' :: r => (int64? (String.ofList r)).map Val.int
  | 'd' :: r => (decimal? (String.ofList r)).map (fun q => Val.flt (roundF64 q))
  | 's' :: r => (hexBytes? (String.ofList r)).map Val.str
  | _ => none

def vals? (tok : String) : Option (List Val) :=
  if tok = "-" then some [] else (tok.splitOn ",").mapM val?

def parts? (tok : String) : Option (List (List Val)) := (tok.splitOn "|").mapM vals?

/-- strict index numeral: digits, no sign, no leading zero -/
def index? (t : String) : Option Nat :=
  let cs := t.toList
  if !allDigits cs then none else
  if cs.length > 1 ∧ cs.head? = some '0' then none else some (natOfDigits cs)

/-- reverse-polish merge order over n leaves, every leaf exactly once -/
def rpn {α : Type} (order : String) (n : Nat) (leaf : Nat → α) (merge : α → α → α) : Option α :=
  let rec go : List String → List α → List Nat → Option (List α × List Nat)
    | [], st, used => some (st, used)
    | t :: ts, st, used =>
      if t = "m" then
        match st with
        | b :: a :: r => go ts (merge a b :: r) used
        | _ => none
      else match index? t with
        | some k => if k < n ∧ !used.contains k then go ts (leaf k :: st) (k :: used) else none
        | none => none
  match go (order.splitOn ".") [] [] with
  | some ([x], used) => if used.length = n then some x else none
  | _ => none

def rpnLeaves (order : String) : List Nat := (order.splitOn ".").filterMap index?

def foldq (args : List String) : String :=
  match args with
  | [v] => match vals? v with
    | some vs =>
      let st := foldQ roundF64 vs
      "Q{" ++ showState st ++ "} D{" ++ showDerived (derive roundF64 st) ++ "}"
    | none => "bad-op"
  | _ => "bad-op"

def foldi (args : List String) : String :=
  match args with
  | [v] => match vals? v with
    | some vs =>
      let st := foldI roundF64 vs
      match sstRTO st with
      | some rt => "I{" ++ showState st ++ "} S{" ++ showState rt ++ "} D{" ++ showDerived (derive roundF64 rt) ++ "}"
      | none => "panic"
    | none => "bad-op"
  | _ => "bad-op"

def merge (args : List String) : String :=
  match args with
  | [mode, order, p] =>
    if mode ≠ "q" ∧ mode ≠ "i" then "bad-op" else
    match parts? p with
    | some ps =>
      let fold : List Val → Option (Option SegStats) := fun vs =>
        if mode = "q" then some (foldQ roundF64 vs) else sstRTO (foldI roundF64 vs)
      let mg : Option (Option SegStats) → Option (Option SegStats) → Option (Option SegStats) := fun a b =>
        match a, b with
        | some a, some b => some (mergeO roundF64 a b)
        | _, _ => none
      match rpn order ps.length (fun k => fold (ps.getD k [])) mg with
      | none => "bad-op"
      | some none => "panic"
      | some (some st) =>
        "M{" ++ showState st ++ "} D{" ++ showDerived (derive roundF64 st) ++ "}"
    | none => "bad-op"
  | _ => "bad-op"

def rb (args : List String) : String :=
  match args with
  | [v] => match vals? v with
    | some vs => "R{" ++ showRB (foldRB roundF64 vs) ++ "}"
    | none => "bad-op"
  | _ => "bad-op"

def rbmerge (args : List String) : String :=
  match args with
  | [order, p] =>
    match parts? p with
    | some ps =>
      match rpn order ps.length (fun k => foldRB roundF64 (ps.getD k [])) (mergeRB roundF64) with
      | none => "bad-op"
      | some b => "R{" ++ showRB b ++ "}"
    | none => "bad-op"
  | _ => "bad-op"

def handle (cmd : String) (args : List String) : Option String :=
  match cmd, args with
  | "stats", "foldq" :: r => some (foldq r)
  | "stats", "foldi" :: r => some (foldi r)
  | "stats", "merge" :: r => some (merge r)
  | "stats", "rb" :: r => some (rb r)
  | "stats", "rbmerge" :: r => some (rbmerge r)
  | "stats", _ => some "bad-op"
  | _, _ => none
end Oracle.C04S
