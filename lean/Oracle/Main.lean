import Oracle.C01
import Oracle.C05
import Oracle.C06
import Oracle.C07
import Oracle.C08
import Oracle.E2E
import Oracle.E2EM
import Oracle.C09
import Oracle.C10
import Oracle.C11
import Oracle.C12
import Oracle.C13
import Oracle.C14
import Oracle.C15
import Oracle.C16
import Oracle.C17
import Oracle.C18
import Oracle.C19
import Oracle.C20
/- Oracle: one operation per input line, one answer per output line. -/
open Oracle

def dispatch (line : String) : String :=
  match words line with
  | [] => "bad-op"
  | cmd :: args =>
    let hs : List (String → List String → Option String) := [E2E.handle, E2EM.handle, C05.handle, C01.handle, C06.handle, C07.handle, C08.handle, C09.handle, C10.handle, C11.handle, C12.handle, C13.handle, C14.handle, C15.handle, C16.handle, C17.handle, C18.handle, C19.handle, C20.handle]
    match hs.findSome? (fun h => h cmd args) with
    | some r => r
    | none => "bad-op"

partial def loop (h : IO.FS.Stream) (out : IO.FS.Stream) : IO Unit := do
  let line ← h.getLine
  if line.isEmpty then return ()
  out.putStrLn (dispatch (line.trimAscii.toString))
  loop h out

def main : IO Unit := do
  let out ← IO.getStdout
  loop (← IO.getStdin) out
  out.flush
