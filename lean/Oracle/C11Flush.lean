import SigModel.Model.ConcFlush
import Oracle.Util
/- suite "conc", concurrent flushes of DIFFERENT segstores (Model/ConcFlush.lean; see harness/cmd/corr/c11_flush.go):

     c11f <n> <tok> …     tok ::= <j> (j < n: next step of the flush of store j) | "/" (end of the round)

   2 ≤ n ≤ 8, at most 4 rounds, at most 69 arguments.  In round r store j flushes the block `harnessCur r j`; the
   tokens of a round are the schedule, then the flushes are completed in store order.  Answer: what every segment's
   .bsu file holds after the last round,

     bsu=<j>:<lo>-<hi>-<cnt>,…;<j>:…

   Run with the code's configuration (`Cfg.real`: the work buffer belongs to the call). -/
namespace Oracle.C11Flush
open SigModel.ConcFlush Oracle

def digitsVal (cs : List Char) : Nat := cs.foldl (fun a c => 10 * a + (c.toNat - 48)) 0

/-- strict decimal: digits only, no sign, no leading zero, at most 6 digits -/
def num? (cs : List Char) : Option Nat :=
  if cs.isEmpty || cs.length > 6 || !(cs.all Char.isDigit) || (cs.length > 1 && cs.head? == some '0') then none
  else some (digitsVal cs)

/-- tokens → rounds (`none`: malformed) -/
def parseRounds (n : Nat) : List String → List Nat → List (List Nat) → Option (List (List Nat))
  | [], cur, acc => some (acc ++ [cur])
  | t :: rest, cur, acc =>
    if t == "/" then parseRounds n rest [] (acc ++ [cur])
    else match num? t.toList with
      | some j => if j < n then parseRounds n rest (cur ++ [j]) acc else none
      | none => none

def flushOp (args : List String) : String :=
  match args with
  | [] => "bad-op"
  | nTok :: toks =>
    if args.length > 69 then "bad-op" else
    match num? nTok.toList with
    | none => "bad-op"
    | some n =>
      if n < 2 || n > 8 then "bad-op" else
      match parseRounds n toks [] [] with
      | none => "bad-op"
      | some rs =>
        if rs.length > 4 then "bad-op" else
        let s := rounds Cfg.real harnessCur n 0 init rs
        let parts := (List.range n).map fun j =>
          s!"{j}:" ++ String.intercalate "," ((s.th j).file.map fun b => s!"{b.lo}-{b.hi}-{b.cnt}")
        "bsu=" ++ String.intercalate ";" parts

def handle (cmd : String) (args : List String) : Option String :=
  match cmd with
  | "c11f" => some (flushOp args)
  | _ => none
end Oracle.C11Flush
