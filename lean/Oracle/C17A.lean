import Oracle.Util
import SigModel.Model.OtsdbQuery
/- C17 suite "alive": `rq` / `ws` / `gl` lines have no model (the verdict is the PropFail of the harness: process alive, answer in
   time); the Lean side checks the op-line grammar.  `om` / `ot` lines: the OpenTSDB `m=` and time parsers
   (SigModel/Model/OtsdbQuery.lean) print what harness/cmd/corr/c17_alive.go c17aExecModel prints for the real functions. -/
namespace Oracle.C17A
open SigModel.OtsdbQuery

def hexOrDash (b : Bytes) : String := if b.isEmpty then "-" else bytesHex b

def routeIdOk (s : String) : Bool :=
  match s.toList with
  | c :: _ => c.isUpper && s.toList.any (· == '/') && s.toList.all (fun c => 33 ≤ c.toNat && c.toNat ≤ 126)
  | [] => false

def dropClass (args : List String) : List String :=
  match args.reverse with
  | l :: r => if l.startsWith "#" then r.reverse else args
  | [] => args

def showTags (fs : List TagFilter) : String :=
  String.intercalate "," (fs.map (fun f =>
    s!"{hexOrDash f.key}={hexOrDash f.value}/{match f.op with | .and => "and" | .or => "or"}"))

def showUnit (u : Bytes) : String := if u.any (· ≥ 128) then "~" else bytesHex u

def om (m : Bytes) : String :=
  let t := match parseMetricTag m with
    | .ok (metric, fs) => s!"T:{hexOrDash metric};{showTags fs}"
    | _ => "T:err"
  let a := match parseAggDs m with
    | .ok (ag, ds) => s!"A:{ag.name}/{ds.interval}/{showUnit ds.unit}/{ds.agg.name}/{if ds.cflag then 1 else 0}"
    | _ => "A:err"
  t ++ " " ++ a

def ot (s : Bytes) : String :=
  match ago s with
  | .abs => "abs"
  | .relOk => "rel-ok"
  | .relErr => "rel-err"
  | .panic => "panic"

def handle (cmd : String) (args : List String) : Option String :=
  let args := dropClass args
  match cmd, args with
  | "rq", [srv, route, hx] =>
    some (if (srv == "i" || srv == "q") && routeIdOk route && hx ≠ "" && (hexBytes? hx).isSome then "ok" else "bad-op")
  | "sq", srv :: route :: hx :: p :: ps =>
    let prepOk (t : String) : Bool :=
      match t.splitOn ":" with
      | [sv, h] => ((sv == "i" || sv == "q") && h ≠ "" && (hexBytes? h).isSome) ||
          (sv == "w" && (match h.toNat? with | some n => decide (n ≤ 20000) | none => false))
      | _ => false
    some (if (srv == "i" || srv == "q") && routeIdOk route && hx ≠ "" && (hexBytes? hx).isSome && (p :: ps).all prepOk then "ok" else "bad-op")
  | "gl", [state, route, hx] =>
    some (if ["complete", "error", "cancelled", "timeout"].contains state && routeIdOk route && hx ≠ "" && (hexBytes? hx).isSome then "ok" else "bad-op")
  | "gl", _ => some "bad-op"
  | "ws", [route, hx] =>
    some (if routeIdOk route && hx ≠ "" && (hexBytes? hx).isSome then "ok" else "bad-op")
  | "om", [] => some (om [])
  | "om", [hx] => some ((hexBytes? hx).elim "bad-op" om)
  | "ot", [] => some (ot [])
  | "ot", [hx] => some ((hexBytes? hx).elim "bad-op" ot)
  | "rq", _ => some "bad-op"
  | "sq", _ => some "bad-op"
  | "ws", _ => some "bad-op"
  | "om", _ => some "bad-op"
  | "ot", _ => some "bad-op"
  | _, _ => none
end Oracle.C17A
