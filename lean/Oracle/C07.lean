import SigModel.Model.Crash
import Oracle.Util
/- suite "crash" (C07):
   crash H <history…> X <m>      history ::= ev/<vid>/<ts>/<fields> | send | fl | ro   (tokens of the e2e suites;
                                 every event carries the field n~i<2^vid>, vids distinct and < 60)
                                 m = number of MODEL steps (SigModel.Crash.steps, one column group `ws = [0]` per
                                 flush) that completed before the process died
     → vis=<vids> cnt=<n> flt=<vids> rng=<vids> sum=<vids> post=<vids>+N pcnt=<n> next=<suffix>
       vis/flt/rng: events returned by `*`, by the bloom-filtered and by the range-filtered search after restart;
       cnt: `* | stats count`; sum: the events whose n the answer of `* | stats sum(n)` is the sum of;
       post/pcnt: `*` and count after the restarted process ingested and flushed one more event (N);
       next: suffix of the segment directory that event went to
   crash H <history…> X order    → order n=<number of steps> <step kinds in program order>
-/
namespace Oracle.C07
open SigModel.Crash Oracle

structure PState where
  batch : List Nat := []        -- events of the batch being assembled
  pending : List Nat := []      -- sent, not yet flushed
  created : Bool := false
  w : W := {}
  hist : List Cmd := []         -- reversed
  flushes : List (List Nat) := []   -- reversed: vids of flush 0,1,…
  vids : List Nat := []

def natTok (s : String) : Option Nat :=
  if s.isEmpty || s.toList.any (fun c => !c.isDigit) then none else s.toNat?

/-- `ev/<vid>/<ts>/<fields>` with a field `n~i<2^vid>` -/
def parseEv (tok : String) : Option Nat :=
  match tok.splitOn "/" with
  | ["ev", v, ts, fields] =>
    match natTok v, natTok ts with
    | some v, some _ =>
      if v ≥ 60 then none
      else if (fields.splitOn ",").contains ("n~i" ++ toString (2 ^ v)) then some v else none
    | _, _ => none
  | _ => none

def doFlush (p : PState) : PState :=
  if p.pending.isEmpty then p else
  { p with hist := Cmd.fl [0] :: p.hist, flushes := p.pending :: p.flushes, pending := [], w := next p.w (.fl [0]) }

def stepTok (p : PState) (tok : String) : Option PState :=
  if tok = "send" then
    if p.batch.isEmpty then some p
    else some { p with pending := p.pending ++ p.batch, batch := [], created := true }
  else if tok = "fl" then some (doFlush p)
  else if tok = "ro" then
    let p := doFlush p
    if p.created then some { p with hist := Cmd.ro :: p.hist, w := next p.w .ro } else some p
  else match parseEv tok with
    | some v => if p.vids.contains v then none else some { p with batch := p.batch ++ [v], vids := v :: p.vids }
    | none => none

def showVids (l : List Nat) : String :=
  if l.isEmpty then "-" else String.intercalate "," ((l.mergeSort (fun a b => decide (a ≤ b))).map toString)

def kind : Step → String
  | .suffixTmp _ => "suftmp"
  | .suffixRename => "sufren"
  | .mkdir _ => "mkdir"
  | .chunk _ _ _ => "cols"
  | .bsu _ _ _ => "bsu"
  | .sstTmp _ _ => "ssttmp"
  | .sstRename _ => "sstren"
  | .sfmTmp _ _ => "sfmtmp"
  | .sfmRename _ => "sfmren"
  | .sfmTrunc _ => "sfmtrunc"
  | .sfmWrite _ _ => "sfmwrite"
  | .segmetaAppend _ _ => "segmeta"

def crash (args : List String) : String :=
  match args with
  | "H" :: rest =>
    let toks := rest.takeWhile (· ≠ "X")
    match rest.dropWhile (· ≠ "X") with
    | ["X", x] =>
      match toks.foldl (fun acc t => acc.bind (fun p => stepTok p t)) (some ({} : PState)) with
      | none => "bad-op"
      | some p =>
        let hist := p.hist.reverse
        let fl := p.flushes.reverse
        let ss := if p.created then steps hist else []
        let vidsOf (fs : List Nat) : List Nat := fs.flatMap (fun f => fl.getD f [])
        if x = "order" then
          s!"order n={ss.length} " ++ String.intercalate " " (ss.map kind)
        else match natTok x with
          | none => "bad-op"
          | some m =>
            if m > ss.length then "bad-op" else
            let fs := run {} (ss.take m)
            let vis := vidsOf (visible fs)
            let cnt := (vidsOf (counted fs)).length
            let sm := vidsOf (statted fs)
            let tornMark := if (torn fs).isEmpty then "" else " torn=" ++ showVids (vidsOf (torn fs))
            s!"vis={showVids vis} cnt={cnt} flt={showVids vis} rng={showVids vis} sum={showVids sm} post={showVids vis}+N pcnt={cnt + 1} next={nextSuffix fs}{tornMark}"
    | _ => "bad-op"
  | _ => "bad-op"

def handle (cmd : String) (args : List String) : Option String :=
  match cmd with
  | "crash" => some (crash args)
  | _ => none

end Oracle.C07
