import SigModel.Model.Crash
import SigModel.Model.CrashMeta
import Oracle.Util
/- suite "crash" (C07):
   crash H <history…> X <m>      history ::= ev/<vid>/<ts>/<fields> | send | fl | ro   (tokens of the e2e suites;
                                 every event carries the field n~i<2^vid>, vids distinct and < 60)
                                 m = number of MODEL steps (SigModel.Crash.steps, one column group `ws = [0]` per
                                 flush) that completed before the process died
     → vis=<vids> cnt=<n> flt=<vids> rng=<vids> sum=<vids> post=<vids>+N pcnt=<n> rpost=<vids>+N rpcnt=<n> next=<suffix>
       sfm=<seg>:<earliest>-<latest>:<recordCount>:<col+col…>;…   sm=<seg>:<earliest>-<latest>:<recordCount>;…
       tw=<vids>|<vids>|…   tc=<n>,<n>,…   col=<name>:<vids>;…   alt=<vids>
       vis/flt/rng: events returned by `*`, by the bloom-filtered and by the range-filtered search after restart;
       cnt: `* | stats count`; sum: the events whose n the answer of `* | stats sum(n)` is the sum of;
       post/pcnt: `*` and count after the restarted process ingested and flushed one more event (N);
       rpost/rpcnt: the same two searches once the restarted process has also ROTATED the segment it opened;
       next: suffix of the segment directory that event went to
       sfm: content of the `<seg>.sfm` of every segment directory at the moment of the crash (segment order);
       sm: the lines of segmeta.json at that moment; tw / tc: per flush i of the HISTORY (all of them, in order)
       the events returned by `*` resp. the answer of `* | stats count` over the window [min ts, max ts] of the
       events of flush i, after the restart; col: per column named c<digits> (sorted) the events returned by
       `<name>=*` over the all-time window (SigModel.Crash.search / countQ of Model/CrashMeta.lean);
       vis / flt / rng are `search` over the all-time window as well (the record searcher's cut-off applies to them);
       alt: the events that some search returned without one of their columns (`alteredIn`)
     → never-returns   when one of these record searches has no answer (`answer` = none; impossible since the repair of
       fetchRRCs, see Props/C07.lean search_terminates — the harness still detects a search that does not return)
   crash H <history…> X <m>~<cap>  the same answer (the cap only limits how many crash points of the window the harness runs)
   crash H <history…> X order    → order n=<number of steps> <step kinds in program order>
-/
namespace Oracle.C07
open SigModel.Crash Oracle

structure PState where
  batch : List Nat := []        -- events of the batch being assembled
  pending : List Nat := []      -- sent, not yet flushed
  created : Bool := false
  w : W := {}
  hist : List Cmd := []         -- reversed
  flushes : List (List Nat) := []   -- reversed: vids of flush 0,1,…
  vids : List Nat := []
  evs : List Ev := []               -- every event: id = vid, timestamp, column names (with _vid)

def natTok (s : String) : Option Nat :=
  if s.isEmpty || s.toList.any (fun c => !c.isDigit) then none else s.toNat?

/-- `ev/<vid>/<ts>/<fields>` with a field `n~i<2^vid>` -/
def parseEv (tok : String) : Option Ev :=
  match tok.splitOn "/" with
  | ["ev", v, ts, fields] =>
    match natTok v, natTok ts with
    | some v, some t =>
      if v ≥ 60 then none
      else if (fields.splitOn ",").contains ("n~i" ++ toString (2 ^ v)) then
        some { id := v, ts := t, cols := "_vid" :: (fields.splitOn ",").map (fun x => (x.splitOn "~").headD "") }
      else none
    | _, _ => none
  | _ => none

def doFlush (p : PState) : PState :=
  if p.pending.isEmpty then p else
  { p with hist := Cmd.fl [0] :: p.hist, flushes := p.pending :: p.flushes, pending := [], w := next p.w (.fl [0]) }

def stepTok (p : PState) (tok : String) : Option PState :=
  if tok = "send" then
    if p.batch.isEmpty then some p
    else some { p with pending := p.pending ++ p.batch, batch := [], created := true }
  else if tok = "fl" then some (doFlush p)
  else if tok = "ro" then
    let p := doFlush p
    if p.created then some { p with hist := Cmd.ro :: p.hist, w := next p.w .ro } else some p
  else match parseEv tok with
    | some e =>
      if p.vids.contains e.id then none
      else some { p with batch := p.batch ++ [e.id], vids := e.id :: p.vids, evs := e :: p.evs }
    | none => none

def showVids (l : List Nat) : String :=
  if l.isEmpty then "-" else String.intercalate "," ((l.mergeSort (fun a b => decide (a ≤ b))).map toString)

def kind : Step → String
  | .suffixTmp _ => "suftmp"
  | .suffixRename => "sufren"
  | .mkdir _ => "mkdir"
  | .chunk _ _ _ => "cols"
  | .bsu _ _ _ => "bsu"
  | .sstTmp _ _ => "ssttmp"
  | .sstRename _ => "sstren"
  | .sfmTmp _ _ => "sfmtmp"
  | .sfmRename _ => "sfmren"
  | .sfmTrunc _ => "sfmtrunc"
  | .sfmWrite _ _ => "sfmwrite"
  | .segmetaAppend _ _ => "segmeta"

def sortStrs (l : List String) : List String := l.mergeSort (fun a b => decide (a ≤ b))

def dedup (l : List String) : List String := l.foldl (fun acc x => if acc.contains x then acc else acc ++ [x]) []

/-- `c<digits>` -/
def isExtraCol (c : String) : Bool :=
  match c.toList with
  | 'c' :: d :: ds => (d :: ds).all Char.isDigit
  | _ => false

def showMeta (s : Nat) (m : SM) (withCols : Bool) : String :=
  s!"{s}:{m.lo}-{m.hi}:{m.recs}" ++ (if withCols then ":" ++ String.intercalate "+" (sortStrs (dedup m.cols)) else "")

def orDash (l : List String) (sep : String) : String := if l.isEmpty then "-" else String.intercalate sep l

def allLo : Nat := 1700000000000 - 1000
def allHi : Nat := 1700000000000 + 1000000

def crash (args : List String) : String :=
  match args with
  | "H" :: rest =>
    let toks := rest.takeWhile (· ≠ "X")
    match rest.dropWhile (· ≠ "X") with
    | ["X", x] =>
      match toks.foldl (fun acc t => acc.bind (fun p => stepTok p t)) (some ({} : PState)) with
      | none => "bad-op"
      | some p =>
        let hist := p.hist.reverse
        let fl := p.flushes.reverse
        let ss := if p.created then steps hist else []
        let vidsOf (fs : List Nat) : List Nat := fs.flatMap (fun f => fl.getD f [])
        if x = "order" then
          s!"order n={ss.length} " ++ String.intercalate " " (ss.map kind)
        else match (match x.splitOn "~" with
              | [a] => natTok a
              | [a, c] => (natTok c).bind (fun c => if c < 2 then none else natTok a)
              | _ => none) with
          | none => "bad-op"
          | some m =>
            if m > ss.length then "bad-op" else
            let fs := run {} (ss.take m)
            let cnt := (vidsOf (counted fs)).length
            let sm := vidsOf (statted fs)
            let tornMark := if (torn fs).isEmpty then "" else " torn=" ++ showVids (vidsOf (torn fs))
            -- the metadata layer (Model/CrashMeta.lean)
            let evs : Evs := fun f => (fl.getD f []).filterMap (fun v => p.evs.find? (fun e => e.id == v))
            let dirs := fs.dirs.mergeSort (fun a b => decide (a ≤ b))
            let sfms := dirs.filterMap (fun s => match (fs.seg s).sfm with
              | .json b => some (showMeta s (metaOf evs b) true)
              | .empty => some s!"{s}:unparsable"
              | .absent => none)
            let sms := fs.segmeta.map (fun q => showMeta q.1 (metaOf evs q.2) false)
            let wins := (List.range fl.length).map (fun f =>
              let ts := (evs f).map (·.ts)
              ({ lo := ts.foldl min (ts.headD 0), hi := ts.foldl max 0 } : Query))
            let allQ : Query := { lo := allLo, hi := allHi }
            let visE := search evs fs allQ
            let vis := visE.map (·.id)
            let twE := wins.map (fun q => search evs fs q)
            let tw := twE.map (fun r => showVids (r.map (·.id)))
            let tc := wins.map (fun q => toString (countQ evs fs q))
            let xcols := sortStrs (dedup ((p.evs.flatMap (·.cols)).filter isExtraCol))
            let clE := xcols.map (fun c => search evs fs { lo := allLo, hi := allHi, col := some c })
            let cl := (xcols.zip clE).map (fun x => x.1 ++ ":" ++ showVids (x.2.map (·.id)))
            let alt := alteredIn evs fs (visE ++ twE.flatten ++ clE.flatten)
            let hang := (answer evs fs allQ).isNone || wins.any (fun q => (answer evs fs q).isNone) ||
              xcols.any (fun c => (answer evs fs { lo := allLo, hi := allHi, col := some c }).isNone)
            if hang then "never-returns" else
            s!"vis={showVids vis} cnt={cnt} flt={showVids vis} rng={showVids vis} sum={showVids sm} post={showVids vis}+N pcnt={cnt + 1} rpost={showVids vis}+N rpcnt={cnt + 1} next={nextSuffix fs}{tornMark}" ++
              s!" sfm={orDash sfms ";"} sm={orDash sms ";"} tw={orDash tw "|"} tc={orDash tc ","} col={orDash cl ";"} alt={showVids alt}"
    | _ => "bad-op"
  | _ => "bad-op"

def handle (cmd : String) (args : List String) : Option String :=
  match cmd with
  | "crash" => some (crash args)
  | _ => none

end Oracle.C07
