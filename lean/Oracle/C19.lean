import SigModel.Model.Path
import SigModel.Model.PathFlow
import Oracle.Util
/- suite "path" (C19):
     pclean <hex|->                → <hex|-> of filepath.Clean
     pjoin  <hex|-> <hex|->        → <hex|-> of filepath.Join
     pbuild <builder> <hex|->      → accept:<hex of the built path relative to the data dir> | reject
     preal  <builder> <hex|->      → same, or `unsafe` when the built path lies outside the harness sandbox
                                     (data dir = <sandbox>/o/data, i.e. the sandbox is two levels above)
     pdecode <hex|->               → <hex|-> of url.PathUnescape | err
     ptags <same|prom|fresh> <n> <hex|-> …   n samples of one series with these tag keys (one TagsHolder for all samples,
                                     a prometheus remote-write request, one holder per sample) → acc=<k> rej=<m>
     pdel <hex>                    a delete-index request value against the table {@A@, @B@} → <status> <removed dirs|->
                                     (directories relative to the data dir, sorted, hex, comma separated) | unsafe
   suite "confine" (C19 end to end):
     cf <kind>:<hex|->[:<hex|->] …   → ok <number of steps>   (grammar only; the verdict of that suite is the PropFail)
   "-" stands for the empty byte string. The data dir has depth 4 (/tmp/<sandbox>/o/data) on both sides;
   the host id is "H" (config.SetHostIDForTestOnly). -/
namespace Oracle.C19
open SigModel.Path Oracle

def dec (s : String) : Option Str :=
  if s = "-" then some [] else (hexBytes? s).map (fun bs => bs.map Char.ofNat)

def enc (s : Str) : String := if s.isEmpty then "-" else bytesHex (s.map Char.toNat)

/-- data-dir segments used by the oracle: same depth as the harness sandbox, names no generator can produce -/
def D : List Seg := [[Char.ofNat 1, 'r'], [Char.ofNat 1, 't'], ['o'], "data".toList]
def H : Seg := ['H']

def build (b : String) (v : Str) : Option (Option NPath) :=
  match b with
  | "lookupUpload" => some (lookupUpload D v)
  | "lookupGet" => some (lookupGet D v)
  | "lookupDelete" => some (lookupDelete D v)
  | "inputlookup" => some (inputlookup D v)
  | "aliasFile" => some (aliasFile D H v)
  | "mappingFile" => some (mappingFile D H v)
  | "baseSegDir" => some (baseSegDir D H v)
  | "baseVTableDir" => some (baseVTableDir D H v)
  | "suffixFile" => some (suffixFile D H v)
  | "tagsTreeFile" => some (tagsTreeFile D H v)
  | "tagsTreeRead" => some (tagsTreeRead D H v)
  | "dashboardDetails" => some (dashboardDetails D H v)
  | "scrollResults" => some (scrollResults D H [] ['U'] v)
  | "sortIndexFile" => some (sortIndexFile D H "_auto.srt".toList v)
  | _ => none

def answer (real : Bool) (r : Option NPath) : String :=
  match r with
  | none => "reject"
  | some p =>
    if real ∧ ¬ within ⟨true, D.take 2⟩ p then "unsafe"
    else "accept:" ++ enc (relTo (dataDir D) p)

/-- step kinds of suite "confine": (name, number of client names, router-gated level-H handler) -/
def cfKinds : List (String × Nat × Bool) := [
  ("bulk", 1, false), ("bulkH", 1, false), ("docR", 1, false), ("docE", 1, false), ("docH", 1, false),
  ("pidxR", 1, false), ("pidxE", 1, false), ("pidxH", 1, false), ("splunk", 1, false), ("otlplog", 1, false),
  ("delR", 1, false), ("delE", 1, false), ("delH", 1, false), ("delapiE", 1, false), ("srchidx", 1, false), ("sortcol", 2, false), ("evkey", 1, false), ("sortq", 1, false),
  ("aliasAdd", 2, false), ("aliasRm", 2, false), ("palE", 2, false), ("palH", 2, false), ("galE", 1, false), ("galH", 1, false),
  ("headE", 1, false), ("headH", 1, false),
  ("upload", 1, false), ("uploadO", 1, false), ("uploadF", 1, false), ("lkgetR", 1, false), ("lkgetE", 1, false), ("lkgetH", 1, true),
  ("lkdelR", 1, false), ("lkdelE", 1, false), ("lkdelH", 1, true), ("ilookup", 1, false),
  ("dashNew", 1, false), ("dashUpd", 2, false), ("dashGetE", 1, false), ("dashGetH", 1, true), ("dashDelE", 1, false), ("dashDelH", 1, true),
  ("dashFavE", 1, false), ("foldNew", 2, false), ("foldGetE", 1, false), ("foldDelE", 1, false),
  ("usqSave", 1, false), ("usqGetE", 1, false), ("usqDelE", 1, false), ("usqGetH", 1, false),
  ("otsdbM", 1, false), ("otsdbK", 1, false), ("otsdbV", 1, false), ("promM", 1, false), ("promK", 1, false), ("promV", 1, false), ("promKH", 1, false),
  ("otlpM", 1, false), ("otlpK", 1, false), ("otlpV", 1, false),
  ("scroll", 1, false), ("staticR", 1, false), ("staticE", 1, false), ("pqsE", 1, false),
  -- restart of the server (no client name)
  ("restart", 0, false),
  -- metrics queries: tag key / metric name / label name of a query
  ("oqK", 1, false), ("oqM", 1, false), ("oxK", 1, false), ("oxKH", 1, false), ("pqK", 1, false), ("pqM", 1, false),
  ("plvE", 1, false), ("plvH", 1, true), ("psK", 1, false), ("mxTags", 1, false), ("mxQ", 1, false),
  -- index names: remaining bulk actions and routes
  ("bulkCreate", 1, false), ("bulkUpdate", 1, false), ("bulkDelete", 1, false), ("bulkQ", 1, false),
  ("docCreateE", 1, false), ("docUpdateE", 1, false), ("docPostE", 1, false), ("mapE", 1, false), ("mapH", 1, false),
  ("headIE", 1, false), ("esSrchE", 1, false), ("esSrchH", 1, false), ("esDocGetE", 1, false),
  ("listCols", 1, false), ("pqsAggs", 2, false), ("dbpanE", 1, false), ("jaegerE", 1, false), ("lokiL", 1, false), ("otlpTrace", 1, false),
  -- dashboards / folders: remaining routes, ids inside bodies
  ("foldUpdE", 2, false), ("foldCntE", 1, false), ("dashNewP", 1, false), ("dashMove", 1, false),
  -- alerts, contacts, minion searches
  ("alertGetE", 1, false), ("alertHistE", 1, false), ("minionGetE", 1, false), ("contactNew", 1, false)]

/-- one step token `kind:hex[:hex]`: well-formed, and (router-gated handlers at level H) a value the router can deliver -/
def cfStepOK (tok : String) : Bool :=
  match tok.splitOn ":" with
  | k :: rest =>
    (match cfKinds.find? (fun e => e.1 = k) with
     | some (_, n, gated) =>
       rest.length == n && rest.all (fun h => (dec h).isSome) &&
         (!gated || (match rest.head? >>= dec with
                     | some v => routeParamOK v
                     | none => false))
     | none => false)
  | [] => false

def cf (args : List String) : String :=
  if args ≠ [] ∧ args.all cfStepOK then "ok " ++ toString args.length else "bad-op"

def ptags (n : Nat) (keys : List Str) : String :=
  match encodeSeries D H keys n with
  | rs => "acc=" ++ toString (rs.filter Option.isSome).length ++ " rej=" ++ toString (rs.filter Option.isNone).length

/-- vtable.ExpandAndReturnIndexNames for request values without '*' inside a name and with no aliases defined:
    drop everything up to the first ':', then the comma pieces (as a set); values with '*' are not part of the suite -/
def splitComma : Str → List Str
  | [] => [[]]
  | c :: cs =>
    if c = ',' then [] :: splitComma cs
    else match splitComma cs with
      | [] => [[c]]
      | s :: r => (c :: s) :: r

def afterColon (v : Str) : Str :=
  match v.dropWhile (· ≠ ':') with
  | [] => v
  | _ :: r => r

def expand (table : List Str) (v : Str) : List Str :=
  let _ := table
  (splitComma (afterColon v)).eraseDups

def pdelTable : List Str := ["@A@".toList, "@B@".toList]

def insertSorted (x : String) : List String → List String
  | [] => [x]
  | y :: r => if x ≤ y then x :: y :: r else y :: insertSorted x r

def pdel (v : Str) : String :=
  if '*' ∈ v then "bad-op" else
  if v = "traces".toList then "405 -" else
  let cands := expand pdelTable v
  -- the harness does not execute a request one of whose candidate directories lies outside its sandbox
  if cands.any (fun c => ¬ within ⟨true, D.take 2⟩ (indexDir D H c)) then "unsafe" else
  let (rm, _) := deleteIndex D H pdelTable cands
  let nf := (cands.filter (fun c => c ∉ pdelTable)).length
  let status := if nf = cands.length then "404" else "200"
  let names := (rm.map (fun p => enc (relTo (dataDir D) p))).foldr insertSorted []
  status ++ " " ++ (if names = [] then "-" else String.intercalate "," names)

def handle (cmd : String) (args : List String) : Option String :=
  match cmd, args with
  | "pclean", [a] => some (match dec a with
      | some s => enc (clean s)
      | none => "bad-op")
  | "pjoin", [a, b] => some (match dec a, dec b with
      | some x, some y => enc (join x y)
      | _, _ => "bad-op")
  | "pbuild", [b, a] => some (if b = "tagsTreeRead" then "bad-op" else match dec a with
      | some v => (match build b v with
        | some r => answer false r
        | none => "bad-op")
      | none => "bad-op")
  | "preal", [b, a] => some (match dec a with
      | some v => (match build b v with
        | some r => answer true r
        | none => "bad-op")
      | none => "bad-op")
  | "pdecode", [a] => some (match dec a with
      | some v => (match pctDecode v with
        | some w => enc w
        | none => "err")
      | none => "bad-op")
  | "ptags", mode :: n :: ks => some (
      if mode ≠ "same" ∧ mode ≠ "prom" ∧ mode ≠ "fresh" then "bad-op" else
      match n.toNat?, ks.mapM dec with
      | some n, some keys => if n = 0 ∨ n > 16 ∨ keys = [] then "bad-op" else ptags n keys
      | _, _ => "bad-op")
  | "pdel", [a] => some (match dec a with
      | some v => pdel v
      | none => "bad-op")
  | "cf", args => some (cf args)
  | "pdecode", _ => some "bad-op"
  | "ptags", _ => some "bad-op"
  | "pdel", _ => some "bad-op"
  | "pclean", _ => some "bad-op"
  | "pjoin", _ => some "bad-op"
  | "pbuild", _ => some "bad-op"
  | "preal", _ => some "bad-op"
  | _, _ => none
end Oracle.C19
