import SigModel.Model.Path
import Oracle.Util
/- suite "path" (C19):
     pclean <hex|->                → <hex|-> of filepath.Clean
     pjoin  <hex|-> <hex|->        → <hex|-> of filepath.Join
     pbuild <builder> <hex|->      → accept:<hex of the built path relative to the data dir> | reject
     preal  <builder> <hex|->      → same, or `unsafe` when the built path lies outside the harness sandbox
                                     (data dir = <sandbox>/o/data, i.e. the sandbox is two levels above)
   "-" stands for the empty byte string. The data dir has depth 4 (/tmp/<sandbox>/o/data) on both sides;
   the host id is "H" (config.SetHostIDForTestOnly). -/
namespace Oracle.C19
open SigModel.Path Oracle

def dec (s : String) : Option Str :=
  if s = "-" then some [] else (hexBytes? s).map (fun bs => bs.map Char.ofNat)

def enc (s : Str) : String := if s.isEmpty then "-" else bytesHex (s.map Char.toNat)

/-- data-dir segments used by the oracle: same depth as the harness sandbox, names no generator can produce -/
def D : List Seg := [[Char.ofNat 1, 'r'], [Char.ofNat 1, 't'], ['o'], "data".toList]
def H : Seg := ['H']

def build (b : String) (v : Str) : Option (Option NPath) :=
  match b with
  | "lookupUpload" => some (lookupUpload D v)
  | "lookupGet" => some (lookupGet D v)
  | "lookupDelete" => some (lookupDelete D v)
  | "inputlookup" => some (inputlookup D v)
  | "aliasFile" => some (aliasFile D H v)
  | "mappingFile" => some (mappingFile D H v)
  | "baseSegDir" => some (baseSegDir D H v)
  | "baseVTableDir" => some (baseVTableDir D H v)
  | "suffixFile" => some (suffixFile D H v)
  | "tagsTreeFile" => some (tagsTreeFile D H v)
  | "dashboardDetails" => some (dashboardDetails D H v)
  | "scrollResults" => some (scrollResults D H [] ['U'] v)
  | _ => none

def answer (real : Bool) (r : Option NPath) : String :=
  match r with
  | none => "reject"
  | some p =>
    if real ∧ ¬ within ⟨true, D.take 2⟩ p then "unsafe"
    else "accept:" ++ enc (relTo (dataDir D) p)

def handle (cmd : String) (args : List String) : Option String :=
  match cmd, args with
  | "pclean", [a] => some (match dec a with
      | some s => enc (clean s)
      | none => "bad-op")
  | "pjoin", [a, b] => some (match dec a, dec b with
      | some x, some y => enc (join x y)
      | _, _ => "bad-op")
  | "pbuild", [b, a] => some (match dec a with
      | some v => (match build b v with
        | some r => answer false r
        | none => "bad-op")
      | none => "bad-op")
  | "preal", [b, a] => some (match dec a with
      | some v => (match build b v with
        | some r => answer true r
        | none => "bad-op")
      | none => "bad-op")
  | "pclean", _ => some "bad-op"
  | "pjoin", _ => some "bad-op"
  | "pbuild", _ => some "bad-op"
  | "preal", _ => some "bad-op"
  | _, _ => none
end Oracle.C19
