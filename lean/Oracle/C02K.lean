import SigModel.Model.Cmp
import SigModel.Model.Bloom
import Oracle.Util
/- suite "cmpk" (harness/cmd/corr/c02_cmp.go): the typed comparison kernel of C02.

   cmp  <ci> <rec> <op> <lit>            → ok true | ok false | err <class> | panic
   wcmp <rec> <op> <text>                → ok true | ok false | na
   rcmp <s|u|f> <min> <max> <op> <text>  → pass | skip           (f: min/max are 16 hex digits of float64 bits)
   lit  <text>                           → d=<s|u|f> s=<int64|?> u=<uint64|?> f=<16 hex>
   subw <ci> <hay> <needle>              → 1 | 0     (suite "subword": utils.IsSubWordPresent; hay / needle: hex bytes or `e` = empty)

   rec  ::= i:<int64> | u:<uint64> | f:<16 hex bits> | s:<hex bytes> | b:0 | b:1 | n | x:<hex of raw TLV bytes>
   op   ::= = | != | < | <= | > | >=
   lit  ::= n:<number text> | s:<hex bytes> | b:0 | b:1 | nil
   text ::= [+-]? (digits [. digits*] | . digits) ([eE] [+-]? digits)?    at most 40 mantissa digits, |exp| ≤ 40
   a stored string s:<hex> that has the shape of `text` must keep the same limits (else bad-op): the engine compares
   it as the float64 it reads as
-/
namespace Oracle.C02K
open SigModel.Tlv SigModel.Cmp Oracle

def parseOp (s : String) : Option Op :=
  match s with
  | "=" => some .eq | "!=" => some .ne | "<" => some .lt | "<=" => some .le | ">" => some .gt | ">=" => some .ge
  | _ => none

def isDig (c : Char) : Bool := '0' ≤ c && c ≤ '9'

def digitsNat (cs : List Char) : Nat := cs.foldl (fun a c => 10 * a + (c.toNat - 48)) 0

def pow10 (n : Nat) : Rat := ((10 ^ n : Nat) : Rat)

/-- the number text as the three strconv parsers see it -/
def parseText (s : String) : Option NumText :=
  let cs := s.toList
  let (sign, body) : Option Char × List Char := match cs with
    | '-' :: r => (some '-', r)
    | '+' :: r => (some '+', r)
    | _ => (none, cs)
  let ip := body.takeWhile isDig
  let r1 := body.drop ip.length
  let (hasDot, fp, r2) : Bool × List Char × List Char := match r1 with
    | '.' :: r => let fp := r.takeWhile isDig; (true, fp, r.drop fp.length)
    | _ => (false, [], r1)
  if ip.isEmpty && fp.isEmpty then none else
  let ex : Option (Bool × Int) := match r2 with
    | [] => some (false, 0)
    | e :: r =>
      if e = 'e' || e = 'E' then
        let (eneg, ds) : Bool × List Char := match r with
          | '-' :: d => (true, d)
          | '+' :: d => (false, d)
          | _ => (false, r)
        if ds.isEmpty || !ds.all isDig || ds.length > 3 then none
        else some (true, if eneg then -(digitsNat ds : Int) else (digitsNat ds : Int))
      else none
  match ex with
  | none => none
  | some (hasExp, e) =>
    if ip.length + fp.length > 40 || e > 40 || e < -40 then none else
    let mant : Rat := (digitsNat ip : Rat) + (digitsNat fp : Rat) / pow10 fp.length
    let mag : Rat := if e ≥ 0 then mant * pow10 e.toNat else mant / pow10 (-e).toNat
    let neg := sign == some '-'
    let val : Rat := if neg then -mag else mag
    let plainInt := !hasDot && !hasExp
    let n := digitsNat ip
    let uintOk : Option Nat := if plainInt && sign.isNone && n < 2 ^ 64 then some n else none
    let iv : Int := if neg then -(n : Int) else (n : Int)
    let intOk : Option Int := if plainInt && decide (-two63 ≤ iv) && decide (iv < two63) then some iv else none
    some { neg := neg, uintOk := uintOk, intOk := intOk, val := val }

/-- a stored string in number syntax stays within the limits of `text` (no float64 overflow, bounded powers) -/
def strInDomain (b : Bytes) : Bool :=
  match numShape? b with
  | none => true
  | some n => decide (n.ip.length + n.fp.length ≤ 40) && decide (n.eds.length ≤ 3) && decide (digitsVal n.eds ≤ 40)

def hex64? (s : String) : Option Nat := if s.length = 16 then hexNat? s else none

/-- bit pattern of a rational that is a finite binary64 value -/
def f64bits (x : Rat) : Nat :=
  if x = 0 then 0 else
  let neg := decide (x < 0)
  let a := if neg then -x else x
  let e := floorLog2 a
  let s : Nat := if neg then 2 ^ 63 else 0
  if e < -1022 then s + (a / pow2 (-1074)).floor.toNat
  else s + (e + 1023).toNat * 2 ^ 52 + ((a / pow2 (e - 52)).floor.toNat - 2 ^ 52)

def takeS (n : Nat) (s : String) : String := String.ofList (s.toList.take n)
def dropS (n : Nat) (s : String) : String := String.ofList (s.toList.drop n)

/-- stored value token → (meaning if it is one of the writer's kinds, record bytes) -/
def parseRec (s : String) : Option (Option SVal × Bytes) :=
  if s = "n" then some (some .backfill, SVal.backfill.enc) else
  let k := takeS 2 s
  let rest := dropS 2 s
  match k with
  | "i:" => match int? rest with
    | some i => if -two63 ≤ i ∧ i < two63 then some (some (.int i), (SVal.int i).enc) else none
    | none => none
  | "u:" => match rest.toNat? with
    | some n => if n < 2 ^ 64 then some (some (.uint n), (SVal.uint n).enc) else none
    | none => none
  | "f:" => match hex64? rest with
    | some b => if finiteBits b then some (some (.float b), (SVal.float b).enc) else none
    | none => none
  | "s:" => match hexBytes? rest with
    | some b => if b.length < 65536 && strInDomain b then some (some (.str b), (SVal.str b).enc) else none
    | none => none
  | "b:" => if rest = "0" then some (some (.bool false), (SVal.bool false).enc)
            else if rest = "1" then some (some (.bool true), (SVal.bool true).enc) else none
  | "x:" => match hexBytes? rest with
    | some b => some (none, b)
    | none => none
  | _ => none

def parseLit (s : String) : Option Lit :=
  if s = "nil" then some nilLit else
  let k := takeS 2 s
  let rest := dropS 2 s
  match k with
  | "n:" => (parseText rest).map (mkLit roundF64)
  | "s:" => match hexBytes? rest with
    | some b => if b.contains 42 then none else some (strLit b)   -- wildcard literals take the regex path: not modelled
    | none => none
  | "b:" => if rest = "0" then some (boolLit false) else if rest = "1" then some (boolLit true) else none
  | _ => none

def showRes : Res Bool → String
  | .ok true => "ok true"
  | .ok false => "ok false"
  | .err e => "err " ++ e
  | .panic => "panic"

def cmp (args : List String) : String :=
  match args with
  | [ci, r, o, l] =>
    match (if ci = "0" then some false else if ci = "1" then some true else none), parseRec r, parseOp o, parseLit l with
    | some ci, some (_, bytes), some op, some q => showRes (implCmp roundF64 ci bytes op q)
    | _, _, _, _ => "bad-op"
  | _ => "bad-op"

def wcmp (args : List String) : String :=
  match args with
  | [r, o, t] =>
    match parseRec r, parseOp o, parseText t with
    | some (some v, _), some op, some t =>
      match whereCmp roundF64 v op t with
      | some true => "ok true"
      | some false => "ok false"
      | none => "na"
    | _, _, _ => "bad-op"
  | _ => "bad-op"

def parseRange (k mn mx : String) : Option Range :=
  match k with
  | "s" => match int? mn, int? mx with
    | some a, some b => if -two63 ≤ a ∧ a < two63 ∧ -two63 ≤ b ∧ b < two63 then some (.s a b) else none
    | _, _ => none
  | "u" => match mn.toNat?, mx.toNat? with
    | some a, some b => if a < 2 ^ 64 ∧ b < 2 ^ 64 then some (.u a b) else none
    | _, _ => none
  | "f" => match hex64? mn, hex64? mx with
    | some a, some b => if finiteBits a && finiteBits b then some (.f (f64val a) (f64val b)) else none
    | _, _ => none
  | _ => none

def rcmp (args : List String) : String :=
  match args with
  | [k, mn, mx, o, t] =>
    match parseRange k mn mx, parseOp o, parseText t with
    | some ri, some op, some t => if rangeCheck roundF64 ri op t then "pass" else "skip"
    | _, _, _ => "bad-op"
  | _ => "bad-op"

def lit (args : List String) : String :=
  match args with
  | [t] =>
    match parseText t with
    | some t =>
      let q := mkLit roundF64 t
      let inS (z : Int) : Bool := decide (-two63 < z) && decide (z < two63)
      match q.dtype with
      | .signed => s!"d=s s={q.signed} u={q.unsigned} f={natHexW (f64bits q.flt) 16}"
      | .unsigned => s!"d=u s={q.signed} u={q.unsigned} f={natHexW (f64bits q.flt) 16}"
      | .float =>
        let z := truncQ q.flt
        -- int64(f) / uint64(f) outside the target range are implementation-defined: not compared
        let ss := if inS z then toString q.signed else "?"
        let us := if decide (0 ≤ z) && decide (z < two63) then toString q.unsigned else "?"
        s!"d=f s={ss} u={us} f={natHexW (f64bits q.flt) 16}"
      | _ => "bad-op"
    | none => "bad-op"
  | _ => "bad-op"

def bytesArg? (s : String) : Option Bytes := if s == "e" then some [] else hexBytes? s

/-- suite "subword": the free-text word / phrase matcher `utils.IsSubWordPresent` (model `Bloom.subWord`) -/
def subw (args : List String) : String :=
  match args with
  | [ci, h, n] =>
    match (if ci == "1" then some true else if ci == "0" then some false else none), bytesArg? h, bytesArg? n with
    | some ci, some h, some n => if SigModel.Bloom.subWord ci h n then "1" else "0"
    | _, _, _ => "bad-op"
  | _ => "bad-op"

def handle (cmd : String) (args : List String) : Option String :=
  match cmd with
  | "subw" => some (subw args)
  | "cmp" => some (cmp args)
  | "wcmp" => some (wcmp args)
  | "rcmp" => some (rcmp args)
  | "lit" => some (lit args)
  | _ => none

end Oracle.C02K
