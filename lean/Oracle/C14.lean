import SigModel.Model.Retention
import Oracle.Util
/- suite "ret" (and the expectations of "rete2e"):
   seg ::= <key>:<l|m>:<latest>:<size>:<org>:<pqs>     pqs ::= - | <pqid>+<pqid>…   (l: latest in ms < 2^64, m: in s < 2^32)
   segs ::= - | seg;seg;…   (distinct keys)
   ret time <nowMs> <hours> <segs>            → h=<horizon> del=<sorted victim keys | ->
   ret vol <limitGB> <counter> <segs>         → del=<sorted keys marked by the volume pass | ->
   ret int <cut> <nowMs> <hours> <segs>       → blob=… files=… mem=… pq=<pqid>/<key>,… sm=…   final store after a pass cut
                                                 after <cut> micro-steps followed by a full pass (initially every seg is in every store)
   ret rec <nowMs> <hours> <segs> <recs>      → h=<horizon> del=<victims> pq=<pqid>/<key>,…   the empty-PQ meta files after a full pass followed by the
                                                 records <recs> ::= - | <pqid>/<key>,…  (BulkAddEmptyResults; a key outside <segs> = a segment rotated after the pass)
   ret e2e <hours> <segs>                     → same as `ret time` with now = 2000000000000 (kind l only; latest = offset from now, see harness)
   suite "retsm" (the segmeta.json rewrite):
   sm <file> <steps>    → ret=<r>,<r>… file=<missing | number of lines> h=<hash of the lines' uids> head=<≤5 uids> tail=<≤3 uids> rd=<entries ReadLocalSegmeta finds>:<hash>
     file  ::= missing:<nidx> | <n>:<nidx>:<pad>:<specials>       entries 0..n-1 (key i, index i % nidx, uid i) in file order
     specials ::= - | item,item…   item ::= <pos>p<len>   entry pos is a line of exactly len bytes (1024 ≤ len)
                                          | <pos>j<len>   a junk line of len bytes (0 or 64..70000000) before entry pos (pos ≤ n), uid 3000000+item number (len 0: 3999999); all p/j lengths together ≤ 80000000
                                          | <pos>d<k>     a second entry with key k < n (index k % nidx) before entry pos, uid 1000000+item number
     steps ::= step/step…   step ::= rm:<victims>:<index | ->  |  add:<key>      (the added line: uid 2000000+step number)
     victims ::= nil | e | v+v…   v ::= k<a> | m<mod>.<rem> (keys < n) | r<a>.<b> (a ≤ key < b) | x<a> (a key GetSegBaseDirFromFilename rejects)
   mm <file> <steps>    → file=<missing | number of lines> h=… head=… tail=… rd=<entries of the map ReadMetricsMeta returns>:<hash of their sorted uids>:<ok|err>
     the same file grammar for metricmeta.json (key i = MSegmentDir i; index = age class: 0 = newest event in 2001, else in 2100; padding = tag keys)
     steps ::= step/step…   step ::= rm:<victims> (RemoveMetricsSegments)  |  pass (DoRetentionBasedDeletion with 1 h retention: age class 0 is expired) -/
namespace Oracle.C14
open SigModel.Retention Oracle

def natLt (s : String) (bound : Nat) : Option Nat :=
  if s.toList.any (fun c => !c.isDigit) then none else
  match s.toNat? with
  | some n => if n < bound then some n else none
  | none => none

def parsePqs (s : String) : Option (List Nat) :=
  if s = "-" then some [] else (s.splitOn "+").mapM (fun t => natLt t 1000)

/-- a seg token; the pqs field describes empty-PQ meta entries (store) and the AllPQIDs of the segment's
.sfm file, not the AllPQIDs of the struct read from segmeta.json -/
def parseSeg (s : String) : Option (Meta × List Nat) :=
  match s.splitOn ":" with
  | [k, kd, lt, sz, og, pq] =>
    match natLt k two32, natLt sz two64, natLt og 1000, parsePqs pq with
    | some k, some sz, some og, some pq =>
      match kd with
      | "l" => (natLt lt two64).map (fun lt => ({ key := k, latest := lt, kind := .log, size := sz, org := og }, pq))
      | "m" => (natLt lt two32).map (fun lt => ({ key := k, latest := lt, kind := .metrics, size := sz, org := og }, pq))
      | _ => none
    | _, _, _, _ => none
  | _ => none

def nodupKeys : List Nat → Bool
  | [] => true
  | k :: r => !(r.contains k) && nodupKeys r

def parseSegs (s : String) : Option (List (Meta × List Nat)) :=
  if s = "-" then some [] else
  match (s.splitOn ";").mapM parseSeg with
  | some l => if nodupKeys (l.map (·.1.key)) then some l else none
  | none => none

def showKeys (ks : List Nat) : String :=
  if ks.isEmpty then "-" else String.intercalate "," ((ks.mergeSort (fun a b => decide (a ≤ b))).map toString)

def showPq (es : List (Nat × Nat)) : String :=
  if es.isEmpty then "-" else
  let s := es.mergeSort (fun a b => decide (a.1 < b.1 ∨ (a.1 = b.1 ∧ a.2 ≤ b.2)))
  String.intercalate "," (s.map (fun e => s!"{e.1}/{e.2}"))

def hours? (s : String) : Option Int :=
  let body := if s.startsWith "-" then (s.drop 1).toString else s
  match natLt body (two63 + 1) with
  | none => none
  | some n =>
    if s.startsWith "-" then (if n = 0 then none else some (-(n : Int)))
    else if n < two63 then some (n : Int) else none

def nowBound : Nat := 9007199254740992

def retTime (args : List String) : String :=
  match args with
  | [now, hrs, segs] =>
    match natLt now nowBound, hours? hrs, parseSegs segs with
    | some now, some hrs, some segs =>
      let ms := segs.map (·.1)
      s!"h={horizon now hrs} del={showKeys ((victims now hrs 0 ms).map (·.key))}"
    | _, _, _ => "bad-op"
  | _ => "bad-op"

def retVol (args : List String) : String :=
  match args with
  | [gb, cnt, segs] =>
    match natLt gb two64, natLt cnt 1000, parseSegs segs with
    | some gb, some cnt, some segs =>
      let ms := segs.map (·.1)
      let metrics := ms.filter (fun m => m.kind == .metrics)
      let logs := ms.filter (fun m => m.kind == .log)
      s!"del={showKeys ((volPass gb cnt metrics logs).map (·.key))}"
    | _, _, _ => "bad-op"
  | _ => "bad-op"

def retInt (args : List String) : String :=
  match args with
  | [cut, now, hrs, segs] =>
    match natLt cut 100000, natLt now nowBound, hours? hrs, parseSegs segs with
    | some cut, some now, some hrs, some segs =>
      if segs.any (fun p => p.1.kind == .metrics) then "bad-op" else
      let ms := segs.map (·.1)
      let ks := ms.map (·.key)
      let s0 : Store := { blob := ks, files := ks, memMeta := ks,
                          pqMeta := segs.flatMap (fun p => p.2.map (fun q => (q, p.1.key))), segmetaJson := ms,
                          -- rotation records the pqids in the segment's .sfm file
                          sfmPq := segs.flatMap (fun p => p.2.map (fun q => (q, p.1.key))) }
      let s1 := passCut deleteOrder now hrs s0 cut
      let s2 := pass deleteOrder now hrs s1
      s!"blob={showKeys s2.blob} files={showKeys s2.files} mem={showKeys s2.memMeta} pq={showPq s2.pqMeta} sm={showKeys (s2.segmetaJson.map (·.key))}"
    | _, _, _, _ => "bad-op"
  | _ => "bad-op"

def parseRecs (s : String) : Option (List (Nat × Nat)) :=
  if s = "-" then some [] else
  (s.splitOn ",").mapM (fun t =>
    match t.splitOn "/" with
    | [p, k] =>
      match natLt p 1000, natLt k two32 with
      | some p, some k => some (p, k)
      | _, _ => none
    | _ => none)

def retRec (args : List String) : String :=
  match args with
  | [now, hrs, segs, recs] =>
    match natLt now nowBound, hours? hrs, parseSegs segs, parseRecs recs with
    | some now, some hrs, some segs, some recs =>
      if segs.any (fun p => p.1.kind == .metrics) then "bad-op" else
      let ms := segs.map (·.1)
      let ks := ms.map (·.key)
      let pqe := segs.flatMap (fun p => p.2.map (fun q => (q, p.1.key)))
      let s0 : Store := { blob := ks, files := ks, memMeta := ks, pqMeta := pqe, segmetaJson := ms, sfmPq := pqe }
      let s1 := pass deleteOrder now hrs s0
      let s2 := recordAll s1 recs
      s!"h={horizon now hrs} del={showKeys ((victims now hrs 0 ms).map (·.key))} pq={showPq s2.pqMeta}"
    | _, _, _, _ => "bad-op"
  | _ => "bad-op"

/-- `ret e2e <hours> <key>:<offsetMs>:<count>;…` — real segments whose newest event is horizon+offset -/
def parseE2ESeg (s : String) : Option (Nat × Int × Nat) :=
  match s.splitOn ":" with
  | [k, o, c] =>
    let neg := o.startsWith "-"
    let body := if neg then (o.drop 1).toString else o
    match natLt k two32, natLt body 549755813888, natLt c 51 with
    | some k, some ob, some c =>
      if c = 0 then none
      else if neg && ob = 0 then none
      else some (k, if neg then -(ob : Int) else (ob : Int), c)
    | _, _, _ => none
  | _ => none

def retE2E (args : List String) : String :=
  match args with
  | [hrs, segs] =>
    match natLt hrs 1048576, (segs.splitOn ";").mapM parseE2ESeg with
    | some hrs, some segs =>
      if !nodupKeys (segs.map (·.1)) then "bad-op" else
      let now := 2000000000000
      let h := horizon now hrs
      let ms : List Meta := segs.map (fun (k, o, _) => { key := k, latest := ((h : Int) + o).toNat, kind := .log })
      let vs := (victims now hrs 0 ms).map (·.key)
      let hits := segs.map (fun (k, _, c) => s!"{k}={if vs.contains k then 0 else c}")
      s!"del={showKeys vs} hits={String.intercalate "," hits}"
    | _, _ => "bad-op"
  | _ => "bad-op"

/-! ### suite "retsm" -/

def smSplitLetter (s : String) : Option (String × Char × String) :=
  let cs := s.toList
  let a := cs.takeWhile Char.isDigit
  match cs.drop a.length with
  | c :: r => if a.isEmpty then none else some (String.ofList a, c, String.ofList r)
  | [] => none

inductive SmItem where
  | pad (pos len : Nat)
  | junk (pos len : Nat)
  | dup (pos k : Nat)

def smMaxLen : Nat := 2200000
def smMaxJunk : Nat := 70000000
def smMaxTotal : Nat := 80000000

def parseSmItem (n : Nat) (s : String) : Option SmItem :=
  match smSplitLetter s with
  | some (a, c, b) =>
    match natLt a (n + 1), c with
    | some pos, 'p' => if pos < n then (natLt b (smMaxLen + 1)).bind (fun l => if 1024 ≤ l then some (.pad pos l) else none) else none
    | some pos, 'j' => (natLt b (smMaxJunk + 1)).bind (fun l => if l = 0 ∨ 64 ≤ l then some (.junk pos l) else none)
    | some pos, 'd' => (natLt b n).map (fun k => .dup pos k)
    | _, _ => none
  | none => none

/-- the lines of the generated file -/
def smBuild (n nidx pad : Nat) (items : List SmItem) : List SmLine :=
  let numbered := items.zipIdx
  let before (i : Nat) : List SmLine := numbered.filterMap (fun (it, j) =>
    match it with
    | .junk p l => if p = i then some (SmLine.junk (if l = 0 then 3999999 else 3000000 + j) l) else none
    | .dup p k => if p = i then some (SmLine.entry k (k % nidx) (1000000 + j) (300 + pad)) else none
    | .pad _ _ => none)
  let lenOf (i : Nat) : Nat :=
    match items.findSome? (fun it => match it with | .pad p l => if p = i then some l else none | _ => none) with
    | some l => l
    | none => 300 + pad
  ((List.range n).flatMap (fun i => before i ++ [SmLine.entry i (i % nidx) i (lenOf i)])) ++ before n

/-- file, n, nidx -/
def parseSmFile (s : String) : Option (SmFile × Nat × Nat) :=
  match s.splitOn ":" with
  | [n, nidx, pad, sp] =>
    match natLt n 20001, natLt nidx 10, natLt pad 4097 with
    | some n, some nidx, some pad =>
      if nidx = 0 then none else
      let items := if sp = "-" then some [] else (sp.splitOn ",").mapM (parseSmItem n)
      match items with
      | some items =>
        if items.length > 40 then none
        else if (items.map (fun it => match it with | .pad _ l => l | .junk _ l => l | .dup _ _ => 0)).sum > smMaxTotal then none
        else if !nodupKeys (items.filterMap (fun it => match it with | .pad p _ => some p | _ => none)) then none
        else some (.lines (smBuild n nidx pad items), n, nidx)
      | none => none
    | _, _, _ => none
  | ["missing", nidx] => (natLt nidx 10).bind (fun k => if k = 0 then none else some (.missing, 0, k))
  | _ => none

/-- one victim item: membership predicate, and whether it contributes a key `GetSegBaseDirFromFilename` accepts -/
def parseSmV (n : Nat) (s : String) : Option ((Nat → Bool) × Bool) :=
  match s.toList with
  | c :: r =>
    let body := String.ofList r
    match c, body.splitOn "." with
    | 'k', [a] => (natLt a 30000).map (fun a => (fun k => k == a, true))
    | 'x', [a] => (natLt a 30000).map (fun _ => (fun _ => false, false))
    | 'm', [m, q] =>
      match natLt m 30000, natLt q 30000 with
      | some m, some q => if m = 0 ∨ q ≥ m then none else some (fun k => decide (k < n) && k % m == q, decide (q < n))
      | _, _ => none
    | 'r', [a, b] =>
      match natLt a 30000, natLt b 30001 with
      | some a, some b => if b < a then none else some (fun k => decide (a ≤ k) && decide (k < b), decide (a < b))
      | _, _ => none
    | _, _ => none
  | [] => none

def parseSmVictims (n : Nat) (s : String) : Option (Bool × (Nat → Bool) × Bool) :=
  if s = "nil" then some (true, fun _ => false, false)
  else if s = "e" then some (false, fun _ => false, false)
  else
    match (s.splitOn "+").mapM (parseSmV n) with
    | some vs => if vs.length > 12 then none else some (false, fun k => vs.any (fun v => v.1 k), vs.any (·.2))
    | none => none

inductive SmStep where
  | rm (a : SmArgs)
  | add (key : Nat)

def parseSmStep (n : Nat) (s : String) : Option SmStep :=
  match s.splitOn ":" with
  | ["rm", v, ix] =>
    match parseSmVictims n v with
    | some (nilMap, victim, anyValid) =>
      if ix = "-" then some (.rm { nilMap := nilMap, victim := victim, anyValid := anyValid })
      else (natLt ix 10).map (fun i => .rm { nilMap := nilMap, victim := victim, anyValid := anyValid, index := some i })
    | none => none
  | ["add", k] => (natLt k 30000).map .add
  | _ => none

def smHash (us : List Nat) : Nat := us.foldl (fun h u => (h * 1000003 + u + 1) % 2147483647) 7

def showSmRet : SmRet → String
  | .nil => "nil"
  | .empty => "empty"
  | .dirs => "dirs"

def showUids (us : List Nat) : String := if us.isEmpty then "-" else String.intercalate "," (us.map toString)

def smRun (nidx pad : Nat) (f : SmFile) (steps : List SmStep) : SmFile × List String :=
  let r := steps.zipIdx.foldl (fun (acc : SmFile × List String) (st, j) =>
    match st with
    | .rm a => let (f', rt) := smRemove a acc.1; (f', showSmRet rt :: acc.2)
    | .add k => (smAddOrReplace k (k % nidx) (2000000 + j) (300 + pad) acc.1, "add" :: acc.2)) (f, [])
  (r.1, r.2.reverse)

def retSm (args : List String) : String :=
  match args with
  | [file, steps] =>
    match parseSmFile file with
    | some (f, n, nidx) =>
      let pad := match file.splitOn ":" with | [_, _, p, _] => p.toNat?.getD 0 | _ => 0
      let sts := steps.splitOn "/"
      if sts.length > 6 then "bad-op" else
      match sts.mapM (parseSmStep n) with
      | some sts =>
        let (f', rets) := smRun nidx pad f sts
        let rd := (smEntries f').map SmLine.uid
        let fileS := match f' with
          | .missing => "file=missing h=- head=- tail=-"
          | .lines ls =>
            let us := ls.map SmLine.uid
            s!"file={ls.length} h={smHash us} head={showUids (us.take 5)} tail={showUids ((us.drop (us.length - 3)))}"
        s!"ret={String.intercalate "," rets} {fileS} rd={rd.length}:{smHash rd}"
      | none => "bad-op"
    | none => "bad-op"
  | _ => "bad-op"

/-! ### suite "retsm", metricmeta.json -/

inductive MmStep where
  | rm (nilMap : Bool) (victim : Nat → Bool)
  | pass

def parseMmStep (n : Nat) (s : String) : Option MmStep :=
  match s.splitOn ":" with
  | ["pass"] => some .pass
  | ["rm", v] => (parseSmVictims n v).map (fun (nilMap, victim, _) => .rm nilMap victim)
  | _ => none

/-- the map `ReadMetricsMeta` returns, as uids: the last entry of every key, sorted -/
def mmMapUids (es : List SmLine) : List Nat :=
  let lastOf := es.filter (fun l => match (es.filter (fun m => m.key == l.key)).getLast? with
    | some m => m.uid == l.uid
    | none => false)
  (lastOf.map SmLine.uid).mergeSort (fun a b => decide (a ≤ b))

def retMm (args : List String) : String :=
  match args with
  | [file, steps] =>
    match parseSmFile file with
    | some (f, n, _) =>
      let sts := steps.splitOn "/"
      if sts.length > 6 then "bad-op" else
      match sts.mapM (parseMmStep n) with
      | some sts =>
        let f' := sts.foldl (fun acc st =>
          match st with
          | .rm nilMap victim => mmRemove nilMap victim acc
          | .pass => mmPass (fun l => l.idx == 0) acc) f
        let rd := mmRead f'
        let us := mmMapUids rd.1
        -- an empty metricmeta.json and a missing one are the same thing (ReadMetricsMeta opens it with O_CREATE)
        let fileS := match f' with
          | .missing => "file=missing h=- head=- tail=-"
          | .lines [] => "file=missing h=- head=- tail=-"
          | .lines ls =>
            let us := ls.map SmLine.uid
            s!"file={ls.length} h={smHash us} head={showUids (us.take 5)} tail={showUids ((us.drop (us.length - 3)))}"
        s!"{fileS} rd={us.length}:{smHash us}:{if rd.2 then "err" else "ok"}"
      | none => "bad-op"
    | none => "bad-op"
  | _ => "bad-op"

/-! suite "retmmc": `mmc <n> <victims> <na> <nr> <sched>` — metricmeta.json holds the entries 1..n; one retention pass
(RemoveMetricsSegments with the victim keys), rotations a0..a<na-1> (AddMetricsMetaEntry of key 101+i), readers
r0..r<nr-1> (ReadMetricsMeta); sched ::= - | t,t,…  t ::= p | a<i> | r<j>: the thread that takes its next step (a step that
would wait for the lock is not taken: `B`).  Afterwards every thread is run to its end (round robin p, a…, r…).
→ tr=<t:label | t:B,…> file=<keys in file order> dirs=<sorted keys whose segment directory exists> rd=<what reader j returned, sorted>/… -/
def parseMmcTid (na nr : Nat) (t : String) : Option MmConc.Tid :=
  if t = "p" then some .pass else
  match t.toList with
  | 'a' :: r => (natLt (String.ofList r) na).map MmConc.Tid.app
  | 'r' :: r => (natLt (String.ofList r) nr).map MmConc.Tid.rd
  | _ => none

def showMmcTid : MmConc.Tid → String
  | .pass => "p"
  | .app i => s!"a{i}"
  | .rd j => s!"r{j}"

def mmcSortNat (l : List Nat) : List Nat := (l.toArray.qsort (· < ·)).toList

def retMmc (args : List String) : String :=
  match args with
  | [ns, vs, nas, nrs, ss] =>
    match natLt ns 7, natLt nas 4, natLt nrs 3 with
    | some n, some na, some nr =>
      let victims := if vs = "-" then some [] else (vs.splitOn ",").mapM (fun t => natLt t 1000)
      let sched := if ss = "-" then some [] else (ss.splitOn ",").mapM (parseMmcTid na nr)
      match victims, sched with
      | some victims, some sched =>
        if n = 0 || sched.length > 60 then "bad-op" else
        let victim := fun k => victims.contains k
        let key := fun i => 101 + i
        let init := (List.range n).map (· + 1)
        let s0 : MmConc.St := { file := init, dirs := init ++ (List.range na).map key }
        let rr := [MmConc.Tid.pass] ++ (List.range na).map MmConc.Tid.app ++ (List.range nr).map MmConc.Tid.rd
        let go := fun (showB : Bool) (acc : MmConc.St × List String) (t : MmConc.Tid) =>
          let (s', ev) := MmConc.step victim key acc.1 t
          match ev with
          | .exec l => (s', s!"{showMmcTid t}:{l}" :: acc.2)
          | .blocked => (s', if showB then s!"{showMmcTid t}:B" :: acc.2 else acc.2)
          | .noop => (s', acc.2)
        let a1 := sched.foldl (go true) (s0, [])
        let a2 := ((List.replicate 24 rr).flatten).foldl (go false) a1
        let s := a2.1
        let tr := a2.2.reverse
        let rds := (List.range nr).map (fun j => match s.rres j with
          | none => "?"
          | some l => if l.isEmpty then "e" else showUids (mmcSortNat l))
        s!"tr={if tr.isEmpty then "-" else String.intercalate "," tr} file={showUids s.file} dirs={showUids (mmcSortNat s.dirs)} rd={if rds.isEmpty then "-" else String.intercalate "/" rds}"
      | _, _ => "bad-op"
    | _, _, _ => "bad-op"
  | _ => "bad-op"

/-! suite "retsbd": `sbd <string>` (no blanks) → `ok <directory>` | `err`   (utils.GetSegBaseDirFromFilename) -/
def retSbd (args : List String) : String :=
  match args with
  | [s] =>
    match SegDir.segBaseDir s.toList with
    | some d => s!"ok {String.ofList d}"
    | none => "err"
  | _ => "bad-op"

def handle (cmd : String) (args : List String) : Option String :=
  match cmd, args with
  | "mmc", r => some (retMmc r)
  | "sbd", r => some (retSbd r)
  | "ret", "time" :: r => some (retTime r)
  | "ret", "vol" :: r => some (retVol r)
  | "ret", "int" :: r => some (retInt r)
  | "ret", "rec" :: r => some (retRec r)
  | "ret", "e2e" :: r => some (retE2E r)
  | "ret", _ => some "bad-op"
  | "sm", r => some (retSm r)
  | "mm", r => some (retMm r)
  | _, _ => none
end Oracle.C14
