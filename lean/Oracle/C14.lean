import SigModel.Model.Retention
import Oracle.Util
/- suite "ret" (and the expectations of "rete2e"):
   seg ::= <key>:<l|m>:<latest>:<size>:<org>:<pqs>     pqs ::= - | <pqid>+<pqid>…   (l: latest in ms < 2^64, m: in s < 2^32)
   segs ::= - | seg;seg;…   (distinct keys)
   ret time <nowMs> <hours> <segs>            → h=<horizon> del=<sorted victim keys | ->
   ret vol <limitGB> <counter> <segs>         → del=<sorted keys marked by the volume pass | ->
   ret int <cut> <nowMs> <hours> <segs>       → blob=… files=… mem=… pq=<pqid>/<key>,… sm=…   final store after a pass cut
                                                 after <cut> micro-steps followed by a full pass (initially every seg is in every store)
   ret e2e <hours> <segs>                     → same as `ret time` with now = 2000000000000 (kind l only; latest = offset from now, see harness) -/
namespace Oracle.C14
open SigModel.Retention Oracle

def natLt (s : String) (bound : Nat) : Option Nat :=
  if s.toList.any (fun c => !c.isDigit) then none else
  match s.toNat? with
  | some n => if n < bound then some n else none
  | none => none

def parsePqs (s : String) : Option (List Nat) :=
  if s = "-" then some [] else (s.splitOn "+").mapM (fun t => natLt t 1000)

/-- a seg token; the pqs field describes empty-PQ meta entries (store) and the AllPQIDs of the segment's
.sfm file, not the AllPQIDs of the struct read from segmeta.json -/
def parseSeg (s : String) : Option (Meta × List Nat) :=
  match s.splitOn ":" with
  | [k, kd, lt, sz, og, pq] =>
    match natLt k two32, natLt sz two64, natLt og 1000, parsePqs pq with
    | some k, some sz, some og, some pq =>
      match kd with
      | "l" => (natLt lt two64).map (fun lt => ({ key := k, latest := lt, kind := .log, size := sz, org := og }, pq))
      | "m" => (natLt lt two32).map (fun lt => ({ key := k, latest := lt, kind := .metrics, size := sz, org := og }, pq))
      | _ => none
    | _, _, _, _ => none
  | _ => none

def nodupKeys : List Nat → Bool
  | [] => true
  | k :: r => !(r.contains k) && nodupKeys r

def parseSegs (s : String) : Option (List (Meta × List Nat)) :=
  if s = "-" then some [] else
  match (s.splitOn ";").mapM parseSeg with
  | some l => if nodupKeys (l.map (·.1.key)) then some l else none
  | none => none

def showKeys (ks : List Nat) : String :=
  if ks.isEmpty then "-" else String.intercalate "," ((ks.mergeSort (fun a b => decide (a ≤ b))).map toString)

def showPq (es : List (Nat × Nat)) : String :=
  if es.isEmpty then "-" else
  let s := es.mergeSort (fun a b => decide (a.1 < b.1 ∨ (a.1 = b.1 ∧ a.2 ≤ b.2)))
  String.intercalate "," (s.map (fun e => s!"{e.1}/{e.2}"))

def hours? (s : String) : Option Int :=
  let body := if s.startsWith "-" then (s.drop 1).toString else s
  match natLt body (two63 + 1) with
  | none => none
  | some n =>
    if s.startsWith "-" then (if n = 0 then none else some (-(n : Int)))
    else if n < two63 then some (n : Int) else none

def nowBound : Nat := 9007199254740992

def retTime (args : List String) : String :=
  match args with
  | [now, hrs, segs] =>
    match natLt now nowBound, hours? hrs, parseSegs segs with
    | some now, some hrs, some segs =>
      let ms := segs.map (·.1)
      s!"h={horizon now hrs} del={showKeys ((victims now hrs 0 ms).map (·.key))}"
    | _, _, _ => "bad-op"
  | _ => "bad-op"

def retVol (args : List String) : String :=
  match args with
  | [gb, cnt, segs] =>
    match natLt gb two64, natLt cnt 1000, parseSegs segs with
    | some gb, some cnt, some segs =>
      let ms := segs.map (·.1)
      let metrics := ms.filter (fun m => m.kind == .metrics)
      let logs := ms.filter (fun m => m.kind == .log)
      s!"del={showKeys ((volPass gb cnt metrics logs).map (·.key))}"
    | _, _, _ => "bad-op"
  | _ => "bad-op"

def retInt (args : List String) : String :=
  match args with
  | [cut, now, hrs, segs] =>
    match natLt cut 100000, natLt now nowBound, hours? hrs, parseSegs segs with
    | some cut, some now, some hrs, some segs =>
      if segs.any (fun p => p.1.kind == .metrics) then "bad-op" else
      let ms := segs.map (·.1)
      let ks := ms.map (·.key)
      let s0 : Store := { blob := ks, files := ks, memMeta := ks,
                          pqMeta := segs.flatMap (fun p => p.2.map (fun q => (q, p.1.key))), segmetaJson := ms,
                          -- rotation records the pqids in the segment's .sfm file
                          sfmPq := segs.flatMap (fun p => p.2.map (fun q => (q, p.1.key))) }
      let s1 := passCut deleteOrder now hrs s0 cut
      let s2 := pass deleteOrder now hrs s1
      s!"blob={showKeys s2.blob} files={showKeys s2.files} mem={showKeys s2.memMeta} pq={showPq s2.pqMeta} sm={showKeys (s2.segmetaJson.map (·.key))}"
    | _, _, _, _ => "bad-op"
  | _ => "bad-op"

/-- `ret e2e <hours> <key>:<offsetMs>:<count>;…` — real segments whose newest event is horizon+offset -/
def parseE2ESeg (s : String) : Option (Nat × Int × Nat) :=
  match s.splitOn ":" with
  | [k, o, c] =>
    let neg := o.startsWith "-"
    let body := if neg then (o.drop 1).toString else o
    match natLt k two32, natLt body 549755813888, natLt c 51 with
    | some k, some ob, some c =>
      if c = 0 then none
      else if neg && ob = 0 then none
      else some (k, if neg then -(ob : Int) else (ob : Int), c)
    | _, _, _ => none
  | _ => none

def retE2E (args : List String) : String :=
  match args with
  | [hrs, segs] =>
    match natLt hrs 1048576, (segs.splitOn ";").mapM parseE2ESeg with
    | some hrs, some segs =>
      if !nodupKeys (segs.map (·.1)) then "bad-op" else
      let now := 2000000000000
      let h := horizon now hrs
      let ms : List Meta := segs.map (fun (k, o, _) => { key := k, latest := ((h : Int) + o).toNat, kind := .log })
      let vs := (victims now hrs 0 ms).map (·.key)
      let hits := segs.map (fun (k, _, c) => s!"{k}={if vs.contains k then 0 else c}")
      s!"del={showKeys vs} hits={String.intercalate "," hits}"
    | _, _ => "bad-op"
  | _ => "bad-op"

def handle (cmd : String) (args : List String) : Option String :=
  match cmd, args with
  | "ret", "time" :: r => some (retTime r)
  | "ret", "vol" :: r => some (retVol r)
  | "ret", "int" :: r => some (retInt r)
  | "ret", "e2e" :: r => some (retE2E r)
  | "ret", _ => some "bad-op"
  | _, _ => none
end Oracle.C14
