import SigModel.Model.TraceE2E
import Oracle.Util
/- suite "tracee2e" (C12 end to end).  Op line (see harness/cmd/corr/c12_e2e.go for the grammar):
     te <P> <pick> <request>|<request>…
   Answer: acks=… ev=… g:<trace>=… … S=… D=… R=…   (one line; see `answer`) -/
namespace Oracle.C12E
open SigModel.Trace SigModel.TraceE2E Oracle

def isTok (extra : String) (s : String) : Bool :=
  s.all (fun c => ('0' ≤ c && c ≤ '9') || ('a' ≤ c && c ≤ 'z') || extra.contains c)

def isHexLower (s : String) : Bool :=
  s.length % 2 == 0 && s.all (fun c => ('0' ≤ c && c ≤ '9') || ('a' ≤ c && c ≤ 'f'))

/-- canonical decimal: digits only, no leading zero, ≤ 20 digits, value ≤ max -/
def nat? (s : String) (max : Nat) : Option Nat :=
  if s.isEmpty || s.length > 20 || (s.length > 1 && s.front == '0') || !s.all Char.isDigit then none
  else match s.toNat? with
    | some v => if v ≤ max then some v else none
    | none => none

def dash (s : String) : String := if s == "-" then "" else s

def u64max : Nat := 2 ^ 64 - 1

def reservedKeys : List String :=
  ["trace_id", "kind", "trace_state", "dropped_attributes_count", "dropped_events_count", "dropped_links_count", "events", "links",
   "timestamp", "_index"]

def strKeys : List String := ["span_id", "parent_span_id", "service", "name", "status"]
def numKeys : List String := ["start_time", "end_time", "duration"]

def parseAttr (kv : String) : Option (String × AVal) :=
  match kv.splitOn "=" with
  | [k, v] =>
    if k.isEmpty || v.isEmpty || !isTok "_~" k then none else
    let key := k.replace "~" "."
    let body := (v.drop 1).toString
    let val? : Option AVal :=
      match v.front with
      | 's' => if isTok "" body then some (.str body) else none
      | 'i' =>
        let neg := body.startsWith "-"
        match nat? (if neg then (body.drop 1).toString else body) (2 ^ 62) with
        | some n => if neg && n == 0 then none else some (.int (if neg then -(n : Int) else n))
        | none => none
      | 'b' => if body == "0" then some (.bool false) else if body == "1" then some (.bool true) else none
      | 'd' => (nat? body 1000000).map AVal.half
      | 'a' => if body.isEmpty then some .arr else none
      | 'm' => if body.isEmpty then some .kvl else none
      | 'y' => if body.isEmpty then some .bytes else none
      | 'z' => if body.isEmpty then some .empty else none
      | 'n' => if body.isEmpty then some .noValue else none
      | _ => none
    match val? with
    | none => none
    | some val =>
      -- a key that collides with a fixed field must carry a value of that field's type (anything else is outside the model)
      if reservedKeys.contains key then none
      else if strKeys.contains key then (match val with | .str _ => some (key, val) | .bytes => some (key, val) | .empty => some (key, val) | .noValue => some (key, val) | _ => none)
      else if numKeys.contains key then (match val with | .int i => if i ≥ 0 then some (key, val) else none | .bytes => some (key, val) | .empty => some (key, val) | .noValue => some (key, val) | _ => none)
      else some (key, val)
  | _ => none

def parseAttrs (s : String) : Option (List (String × AVal)) :=
  if s == "-" then some [] else (s.splitOn "+").mapM parseAttr

def status? (s : String) : Option (Option Nat) :=
  if s == "n" then some none else (nat? s 1000).map some

def parseSpan (s : String) : Option OSpan :=
  match s.splitOn "." with
  | [t, i, p, n, st, en, sc, atr] =>
    if t.isEmpty || i.isEmpty || p.isEmpty || n.isEmpty then none else
    let t := dash t; let i := dash i; let p := dash p; let n := dash n
    if !(isHexLower t && isHexLower i && isHexLower p && isTok "" n) then none else
    match nat? st (2 ^ 62), nat? en (2 ^ 62), status? sc, parseAttrs atr with
    | some st, some en, some sc, some atr =>
      some { trace := t, sid := i, pid := p, name := n, start := st, end_ := en, status := sc, attrs := atr }
    | _, _, _, _ => none
  | _ => none

def svcName? (s : String) : Option String :=
  if s.startsWith "s" then (nat? (s.drop 1).toString 1000000).map (fun _ => s) else none

def strVal (s : String) : String × Option String := ("service.name", some s)

/-- the Resource the harness builds for a spec -/
def parseSpec (s : String) : Option (Option (List (String × Option String))) :=
  if s == "n" then some none
  else if s == "e" then some (some [])
  else if s == "h" then some (some [("host.name", some "box1")])
  else if s == "v" then some (some [("service.name", none)])
  else
    let rest := (s.drop 1).toString
    match s.front with
    | 's' => (nat? rest 1000000).map (fun _ => some [strVal s])
    | 'x' => (nat? rest 1000000).map (fun _ => some [("host.name", some "box2"), strVal ("s" ++ rest),
              ("service.namespace", some "nsx"), ("service", some "zzz")])
    | 'i' => (nat? rest 1000000).map (fun _ => some [("service.name", none)])
    | 't' => match rest.splitOn "_" with
      | [a, b] => match nat? a 1000000, nat? b 1000000 with
        | some _, some _ => some (some [strVal ("s" ++ a), ("telemetry.sdk.name", some "otel"), strVal ("s" ++ b)])
        | _, _ => none
      | _ => none
    | _ => none

def parseScope (s : String) : Option (List OSpan) :=
  if s == "-" then some [] else (s.splitOn ",").mapM parseSpan

def parseRes (s : String) : Option ResSpans :=
  match s.splitOn "/" with
  | [] => none
  | spec :: scopes =>
    match parseSpec spec, scopes.mapM parseScope with
    | some r, some sc => some { res := r, scopes := sc }
    | _, _ => none

def optField (s : String) (ok : String → Option String) : Option (Option String) :=
  if s == "!" then some none else (ok (dash s)).map some

/-- the `duration` a raw document carries when it is not end − start: `f` 2^64 (sent as a float), `m<k>` −k,
`h<k>` k + 0.5, `t<tok>` the string tok.  Result: (dur, durBad) -/
def parseDurSpec (s : String) : Option (Nat × Option String) :=
  let body := (s.drop 1).toString
  match s.front with
  | 'f' => if body.isEmpty then some (2 ^ 64, none) else none
  | 'm' => match nat? body 1000000 with
    | some k => if k == 0 then none else some (0, some ("-" ++ toString k))
    | none => none
  | 'h' => (nat? body 1000000).map (fun k => (0, some (toString k ++ ".5")))
  | 't' => if !body.isEmpty && isTok "" body && !body.all Char.isDigit then some (0, some body) else none
  | _ => none

def parseRaw (s : String) : Option Rec :=
  match s.splitOn "." with
  | [t, i, p, sv, n, st, en, sc, du] =>
    if du.isEmpty then none else
    match parseRaw8 [t, i, p, sv, n, st, en, sc], parseDurSpec du with
    | some r, some (d, bad) => some { r with dur := d, durBad := bad }
    | _, _ => none
  | l => parseRaw8 l
where parseRaw8 (l : List String) : Option Rec :=
  match l with
  | [t, i, p, sv, n, st, en, sc] =>
    if [t, i, p, sv, n, st, en, sc].any String.isEmpty then none else
    let t := dash t; let i := dash i
    if !(isHexLower t && isHexLower i) then none else
    let p? := optField p (fun x => if isHexLower x then some x else none)
    let sv? : Option (Option String) := if sv == "!" then some none else if sv == "-" then some (some "") else (svcName? sv).map some
    let n? := optField n (fun x => if isTok "" x then some x else none)
    let sc? : Option (Option String) := if sc == "!" then some none else (status? sc).map (fun c => some (statusName c))
    match p?, sv?, n?, nat? st (2 ^ 62), nat? en (2 ^ 62), sc? with
    | some p, some sv, some n, some st, some en, some sc =>
      some { trace := t, sid := i, pid := p, svc := sv, name := n, start := storedNum st, end_ := storedNum en,
             dur := storedNum (wsub en st), status := sc, tags := [] }
    | _, _, _, _, _, _ => none
  | _ => none

def parseReq (s : String) : Option Req :=
  if s.startsWith "o:" then ((s.drop 2).toString.splitOn ";").mapM parseRes |>.map Req.otlp
  else if s.startsWith "r:" then ((s.drop 2).toString.splitOn ";").mapM parseRaw |>.map Req.raw
  else none

/-! ### printing -/

def optS (o : Option String) : String := match o with | some s => s | none => "!"

def showTags (t : List (String × String)) : String :=
  if t.isEmpty then "-" else ",".intercalate (t.map (fun kv => kv.1 ++ "=" ++ kv.2))

def showRec (r : Rec) : String :=
  ":".intercalate [r.trace, r.sid, optS r.pid, optS r.svc, optS r.name, toString r.start, toString r.end_,
    (match r.durBad with | some txt => txt | none => if r.durAsText then durText r else toString r.dur),
    optS r.status, showTags r.tags]

def showAck (a : Nat × Int) : String := s!"{a.1}/{a.2}"

def ackOfReq : Req → String
  | .otlp rs => showAck (ack (ingest rs))
  | .raw _ => showAck (200, 0)

def b01 (b : Bool) : String := if b then "1" else "0"

def showNode (n : GNode) : String :=
  (if n.parent == "" then "^" else n.parent) ++ ">" ++
  ":".intercalate [n.id, n.svc, n.op, n.status, toString n.actual, toString n.relStart, toString n.relEnd, toString n.dur, b01 n.anom]

def showGantt (g : Option (List GNode)) : String :=
  match g with
  | none => "err400"
  | some ns => ",".intercalate (ns.map showNode)

def showRows (rows : List TraceRow) : String :=
  if rows.isEmpty then "-" else
  ",".intercalate (rows.map (fun r => ":".intercalate [r.trace, r.svc, r.op, toString r.count, toString r.errs, toString r.start, toString r.end_]))

/-- pages 1 … ⌈n/50⌉ + 1 (the last one is beyond the end: empty) -/
def showSearch (recs : List Rec) : String :=
  let n := (traceIds recs).length
  let k := (n + tracePageLimit - 1) / tracePageLimit + 1
  "|".intercalate ((List.range k).map (fun i => showRows (searchPage recs (i + 1))))

def showDep : DepOut → String
  | .nil => "nil"
  | .ok m => if m.isEmpty then "-" else ",".intercalate (m.map (fun e => s!"{e.1.1}>{e.1.2}={e.2}"))

def showF (d : Option Dy) : String := match d with
  | some d => natHexW d.bits 16
  | none => "diverges"

def showRed (rows : List (String × RedRow)) : String :=
  if rows.isEmpty then "-" else
  ",".intercalate (rows.map (fun (s, r) =>
    s!"{s}={showF (some r.rate)}/{showF (some r.errRate)}/{showF r.p50}/{showF r.p90}/{showF r.p95}/{showF r.p99}"))

def answer (page pick : Nat) (reqs : List Req) : String :=
  let recs := records reqs
  let acks := ",".intercalate (reqs.map ackOfReq)
  let evs := isort (fun a b => decide (a ≤ b)) (recs.map showRec)
  let ev := if evs.isEmpty then "-" else ";".intercalate evs
  let gs := (traceIds recs).filter (· != "") |>.map (fun t => s!"g:{t}=" ++ showGantt (gantt page pick recs t))
  let g := if gs.isEmpty then "g:-" else " ".intercalate gs
  s!"acks={acks} ev={ev} {g} S={showSearch recs} D={showDep (dep page recs)} R={showRed (redE2E page recs)}"

def handle (cmd : String) (args : List String) : Option String :=
  match cmd, args with
  | "te", [pg, pk, rq] => some (
    match nat? pg 1000, nat? pk 1000, (rq.splitOn "|").mapM parseReq with
    | some pg, some pk, some reqs => if pg == 0 then "bad-op" else answer pg pk reqs
    | _, _, _ => "bad-op")
  | "te", _ => some "bad-op"
  | _, _ => none
end Oracle.C12E
