import SigModel.Model.QMux
import Oracle.Util
/- suite "qmux" (harness/cmd/corr/c17_qmux.go): mux <tc 0|1> <ev>,<ev>,…   (or `-` for no event)
     ev ::= <m|t>:<code>   m = on the main channel, t = on the timechart channel (needs tc = 1)
     code ::= W R N S U CW CH CN X T E Z  = WAITING READY RUNNING QUERY_RESTART QUERY_UPDATE COMPLETE(CompleteWSResp) COMPLETE(HttpResponse only)
              COMPLETE(neither) CANCELLED TIMEOUT ERROR <the channel is closed>
     A channel can be closed once and carries nothing afterwards: an event on a channel behind its Z is bad-op.
   → the outputs of the goroutine in order, `<STATE>/<ChannelIndex>[/<flavour>]` and `close` (or `-` when there is none),
     flavour m = merged COMPLETE, h = forwarded COMPLETE with HttpResponse, x = the ERROR of errorAndClose;
     then ` | ended=<0|1> read=<number of events consumed before the goroutine ended>`. -/
namespace Oracle.C17M
open SigModel.Model.QMux Oracle

def parseCode : String → Option Msg
  | "W" => some .waiting | "R" => some .ready | "N" => some .running | "S" => some .restart | "U" => some .update
  | "CW" => some .completeWs | "CH" => some .completeHttp | "CN" => some .completeNone
  | "X" => some .cancelled | "T" => some .timeout | "E" => some .error | "Z" => some .closed
  | _ => none

def parseEv (s : String) : Option Ev :=
  match s.splitOn ":" with
  | ["m", c] => (parseCode c).map (fun m => { tc := false, msg := m })
  | ["t", c] => (parseCode c).map (fun m => { tc := true, msg := m })
  | _ => none

/-- no event on a channel behind that channel's Z -/
def closedOnce : List Ev → Bool
  | [] => true
  | e :: r => (if e.msg == .closed then !r.any (fun x => x.tc == e.tc) else true) && closedOnce r

def showOut : Out → String
  | .close => "close"
  | .env n tc f => n ++ "/" ++ (if tc then "1" else "0") ++ (if f.isEmpty then "" else "/" ++ f)

def mux (args : List String) : String :=
  match args with
  | [tcs, evs] =>
    let tc? : Option Bool := match tcs with | "0" => some false | "1" => some true | _ => none
    let evs? : Option (List Ev) := if evs == "-" then some [] else (evs.splitOn ",").mapM parseEv
    match tc?, evs? with
    | some tc, some evs =>
      if evs.any (fun e => e.tc && !tc) || !closedOnce evs then "bad-op" else
      let (s, outs) := run tc evs
      let o := if outs.isEmpty then "-" else String.intercalate " " (outs.map showOut)
      s!"{o} | ended={if s.ended then 1 else 0} read={readFrom (init tc) evs}"
    | _, _ => "bad-op"
  | _ => "bad-op"

def handle (cmd : String) (args : List String) : Option String :=
  match cmd with
  | "mux" => some (mux args)
  | _ => none
end Oracle.C17M
