import SigModel.Model.Tlv
import Oracle.Util
/- suite "tlv" (C01 kernel).  One op per line, first token `tlv`, second token the op kind:

   tlv col <limit> <v,v,...> <seeks>     one column through the writer (one event per value), then read back
        v ::= s<hex> | S<len>:<seed> | b0 | b1 | i<int64> | u<uint64> | f<hex16> | z (null) | - (absent)
        seeks ::= n;n;... | -
      → col=<hex> size=<n|none> de=<count> dict=<hex|-> raw=[r;..] dct=[r;..]|-      r ::= <hex> | err:<e> | panic
   tlv mix <v,v,...> <seeks>             one column through the writer, the flush-time marking + type consolidation,
        v ::= i<int64> | s<hex, class mixOk> | z | -        written as zstd block, read with the stored hint
      → mixed=<0|1> size=<n> col=<hex> raw=[r;..]
   tlv num <kind> <hexbits>              a (reader-only) numeric record: framing + GetCvalFromRec
      → enc=<hex> len=<n> dec=<cval>
   tlv dec <hex>                         GetCvalFromRec on arbitrary bytes → <cval> end=<n> | err:<e> | panic
   tlv raw <constLen> <hex> <seeks>      arbitrary bytes as an uncompressed block → [r;..] | init:err:<e> | init:panic
   tlv dict <recCount> <whex:r.r.r,whex:...> <seeks>   PackDictEnc of the given map, then ReadDictEnc
      → pack=<hex> <rdict answer>
   tlv rdict <recCount> <hex> <seeks>    ReadDictEnc on arbitrary bytes
      → words=<hex,..> tbl=<n,..> bad=<0|1> recs=[r;..] | err:<e> | panic
   tlv ts <ts,ts,...>                    timestamps through the writer, encodeTimestamps, the time reader
      → low=<n> high=<n> blk=<hex> dec=<ts,..>|err:<e>|panic
   tlv rts <numRecs> <hex>               convertRawRecordsToTimestamps on arbitrary bytes → <ts,..>|err:<e>|panic
-/
namespace Oracle.C01
open SigModel.Tlv Oracle

def genStr (len seed : Nat) : Bytes := (List.range len).map (fun j => (seed + 31 * j) % 256)

def parseVal (s : String) : Option (Option Val) :=
  if s = "-" then some none
  else if s = "z" then some (some .backfill)
  else if s = "b0" then some (some (.bool false))
  else if s = "b1" then some (some (.bool true))
  else
    let body := (s.drop 1).toString
    if s.startsWith "s" then (if body.isEmpty then some (some (.str [])) else (hexBytes? body).map (fun b => some (.str b)))
    else if s.startsWith "S" then
      match body.splitOn ":" with
      | [l, sd] => match l.toNat?, sd.toNat? with
        | some l, some sd => if l ≤ 200000 then some (some (.str (genStr l sd))) else none
        | _, _ => none
      | _ => none
    else if s.startsWith "i" then
      match int? body with
      | some i => if -9223372036854775808 ≤ i ∧ i ≤ 9223372036854775807 then
          some (some (.num .i64 (i % 18446744073709551616).toNat)) else none
      | none => none
    else if s.startsWith "u" then
      match body.toNat? with
      | some n => if n < 18446744073709551616 then some (some (.num .u64 n)) else none
      | none => none
    else if s.startsWith "f" then
      if body.length ≠ 16 then none else (hexNat? body).map (fun n => some (.num .f64 n))
    else none

def parseSeeks (s : String) : Option (List Nat) :=
  if s = "-" then some [] else (s.splitOn ";").mapM (fun t => match t.toNat? with
    | some n => if n ≤ 65535 then some n else none
    | none => none)

def showRes (r : Res Bytes) : String :=
  match r with
  | .ok b => bytesHex b
  | .err e => "err:" ++ e
  | .panic => "panic"

def showMany (rs : List (Res Bytes)) : String := "[" ++ String.intercalate ";" (rs.map showRes) ++ "]"

def showCVal : CVal → String
  | .str s => "s:" ++ bytesHex s
  | .bool b => if b then "b:1" else "b:0"
  | .signed i => "i:" ++ toString i
  | .unsigned n => "u:" ++ toString n
  | .float b => "f:" ++ natHexW b 16
  | .backfill => "z"

def rawSeeks (buf : Bytes) (constLen : Nat) (seeks : List Nat) : String :=
  match Rd.init buf constLen with
  | .ok st => showMany (st.readMany seeks)
  | .err e => "init:err:" ++ e
  | .panic => "init:panic"

def dictSeeks (d : DictRd) (seeks : List Nat) : String :=
  showMany (seeks.map d.getRec)

def showDictRd (r : Res DictRd) (seeks : List Nat) : String :=
  match r with
  | .panic => "panic"
  | .err e => "err:" ++ e
  | .ok d =>
    if d.badRec then "err:record-not-found" else
    s!"words={String.intercalate "," (d.words.map bytesHex)} tbl={String.intercalate "," (d.recToWord.map toString)} bad=0 recs={dictSeeks d seeks}"

def col (args : List String) : String :=
  match args with
  | [lim, vs, sk] =>
    match lim.toNat?, (vs.splitOn ",").mapM parseVal, parseSeeks sk with
    | some lim, some vals, some seeks =>
      if lim = 0 ∨ lim > 65535 ∨ vals.length > 60000 then "bad-op" else
      let st := fillCol lim vals
      if st.buf.isEmpty then "bad-op" else     -- the column never appeared: nothing is written
      let size := seenSize st.firstRec st.sizes
      let sizeS := match size with | some n => toString n | none => "none"
      let de := st.dict.length
      let isDict := de > 0 ∧ de < lim
      let packed := packDict st.dict
      let dictS := if isDict then bytesHex packed else "-"
      let rawS := rawSeeks st.buf (size.getD inconsistent) seeks
      let dctS := if isDict then
          (match readDict packed vals.length with
           | .ok d => if d.badRec then "err:record-not-found" else dictSeeks d seeks
           | .err e => "err:" ++ e
           | .panic => "panic")
        else "-"
      s!"col={bytesHex st.buf} size={sizeS} de={de} dict={dictS} raw={rawS} dct={dctS}"
    | _, _, _ => "bad-op"
  | _ => "bad-op"

def mixByteOk (b : Nat) : Bool := isDigit b || b == 45 || (97 ≤ b && b ≤ 122)

/-- value class of op `mix` (see Model/Tlv.lean, consolidation): int64, null/absent, and strings of at most 40
bytes over [a-z0-9-] that are either empty, or start with a letter other than i/n (neither ParseInt nor
ParseFloat accepts them), or consist of [0-9-] only and are not -?[0-9]{19,} -/
def mixOk : Option Val → Bool
  | none => true
  | some .backfill => true
  | some (.num .i64 _) => true
  | some (.str s) =>
    let ds := if s.head? == some 45 then s.drop 1 else s
    s.all mixByteOk && s.length ≤ 40 &&
      (match s with
       | [] => true
       | c :: _ =>
         if 97 ≤ c && c ≤ 122 then c != 105 && c != 110
         else s.all (fun b => isDigit b || b == 45) && !(ds.length > 18 && ds.all isDigit))
  | _ => false

def mix (args : List String) : String :=
  match args with
  | [vs, sk] =>
    match (vs.splitOn ",").mapM parseVal, parseSeeks sk with
    | some vals, some seeks =>
      if vals.length > 60000 ∨ !vals.all mixOk then "bad-op" else
      let st := fillCol cardLimit vals
      if st.buf.isEmpty then "bad-op" else
      let mixed := isMixed vals
      let stored := storedVals mixed (vals.map (fun v => v.getD .backfill))
      let buf := encCol stored
      let hint := storedHint mixed st
      s!"mixed={if mixed then 1 else 0} size={hint} col={bytesHex buf} raw={rawSeeks buf hint seeks}"
    | _, _ => "bad-op"
  | _ => "bad-op"

def parseKind (s : String) : Option NumKind :=
  match s with
  | "u8" => some .u8 | "u16" => some .u16 | "u32" => some .u32 | "u64" => some .u64
  | "i8" => some .i8 | "i16" => some .i16 | "i32" => some .i32 | "i64" => some .i64 | "f64" => some .f64
  | _ => none

def num (args : List String) : String :=
  match args with
  | [k, h] =>
    match parseKind k, hexNat? h with
    | some k, some bits =>
      if bits ≥ 256 ^ k.width then "bad-op" else
      let e := encTLV (.num k bits)
      let l := match recLen e with | .ok l => toString l | .err e => "err:" ++ e | .panic => "panic"
      let d := match getCval e with | .ok (c, _) => showCVal c | .err e => "err:" ++ e | .panic => "panic"
      s!"enc={bytesHex e} len={l} dec={d}"
    | _, _ => "bad-op"
  | _ => "bad-op"

def dec (args : List String) : String :=
  match args with
  | [h] =>
    match (if h = "-" then some [] else hexBytes? h) with
    | some bs =>
      (match getCval bs with
       | .ok (c, e) => s!"{showCVal c} end={e}"
       | .err e => "err:" ++ e
       | .panic => "panic")
    | none => "bad-op"
  | _ => "bad-op"

def raw (args : List String) : String :=
  match args with
  | [c, h, sk] =>
    match c.toNat?, (if h = "-" then some [] else hexBytes? h), parseSeeks sk with
    | some c, some bs, some seeks => if c > inconsistent then "bad-op" else rawSeeks bs c seeks
    | _, _, _ => "bad-op"
  | _ => "bad-op"

def parseEntry (s : String) : Option (Bytes × List Nat) :=
  match s.splitOn ":" with
  | [w, rs] =>
    match hexBytes? w, (if rs = "" then some [] else (rs.splitOn ".").mapM (fun t => t.toNat?)) with
    | some w, some rs => if w.isEmpty ∨ rs.any (· ≥ 65536) then none else some (w, rs)
    | _, _ => none
  | _ => none

def dict (args : List String) : String :=
  match args with
  | [rc, es, sk] =>
    match rc.toNat?, (es.splitOn ",").mapM parseEntry, parseSeeks sk with
    | some rc, some d, some seeks =>
      if rc > 65535 ∨ d.length > 65535 ∨ !(d.map (·.1)).eraseDups.length == d.length then "bad-op" else
      -- words that are not one well-framed record of a kind the reader supports: the harness cannot put the
      -- writer's map order back into op order, so only one-entry maps are compared
      if d.length > 1 ∧ !d.all (fun e => dictWordLen e.1 == .ok e.1.length) then "bad-op-unframeable" else
      let p := packDict d
      s!"pack={bytesHex p} {showDictRd (readDict p rc) seeks}"
    | _, _, _ => "bad-op"
  | _ => "bad-op"

def rdict (args : List String) : String :=
  match args with
  | [rc, h, sk] =>
    match rc.toNat?, (if h = "-" then some [] else hexBytes? h), parseSeeks sk with
    | some rc, some bs, some seeks => if rc > 65535 then "bad-op" else showDictRd (readDict bs rc) seeks
    | _, _, _ => "bad-op"
  | _ => "bad-op"

def showTs (r : Res (List Nat)) : String :=
  match r with
  | .ok l => if l.isEmpty then "-" else String.intercalate "," (l.map toString)
  | .err e => "err:" ++ e
  | .panic => "panic"

def ts (args : List String) : String :=
  match args with
  | [l] =>
    match (l.splitOn ",").mapM (fun t => t.toNat?) with
    | some tss =>
      if tss.isEmpty ∨ tss.length > 60000 ∨ tss.any (· ≥ u64) then "bad-op" else
      let (lo, hi) := blockLowHigh tss
      let blk := tsBlock lo hi tss
      s!"low={lo} high={hi} blk={bytesHex blk} dec={showTs (decTs blk tss.length)}"
    | none => "bad-op"
  | _ => "bad-op"

def rts (args : List String) : String :=
  match args with
  | [n, h] =>
    match n.toNat?, (if h = "-" then some [] else hexBytes? h) with
    | some n, some bs => if n > 65535 then "bad-op" else showTs (decTs bs n)
    | _, _ => "bad-op"
  | _ => "bad-op"

def handle (cmd : String) (args : List String) : Option String :=
  match cmd, args with
  | "tlv", "col" :: r => some (col r)
  | "tlv", "mix" :: r => some (mix r)
  | "tlv", "num" :: r => some (num r)
  | "tlv", "dec" :: r => some (dec r)
  | "tlv", "raw" :: r => some (raw r)
  | "tlv", "dict" :: r => some (dict r)
  | "tlv", "rdict" :: r => some (rdict r)
  | "tlv", "ts" :: r => some (ts r)
  | "tlv", "rts" :: r => some (rts r)
  | "tlv", _ => some "bad-op"
  | _, _ => none

end Oracle.C01
