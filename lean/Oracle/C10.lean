import SigModel.Model.Wal
import Oracle.Util
/- suite "wal":
   wal <mut> dps=<t:vhex:tsid,...;...> pay=<hex;hex;...>
     mut ::= none | cut:<k> | set:<pos>:<byte>
   → file=<hex of unmutated file> raw=<hex;hex> read=<n>/<clean|err|noopen> -/
namespace Oracle.C10
open SigModel.Wal Oracle

def parseDp (s : String) : Option Dp :=
  match s.splitOn ":" with
  | [t, v, i] => match t.toNat?, hexNat? v, i.toNat? with
    | some t, some v, some i => some { ts := t, val := v, tsid := i }
    | _, _, _ => none
  | _ => none

def parseBlocks (s : String) : Option (List (List Dp)) :=
  if s.isEmpty then some [] else
  (s.splitOn ";").mapM (fun b => (b.splitOn ",").mapM parseDp)

def parsePays (s : String) : Option (List Bytes) :=
  if s.isEmpty then some [] else (s.splitOn ";").mapM hexBytes?

def applyMut (f : Bytes) (m : String) : Option Bytes :=
  match m.splitOn ":" with
  | ["none"] => some f
  | ["cut", k] => k.toNat?.map (fun k => f.take k)
  | ["set", p, b] => match p.toNat?, b.toNat? with
    | some p, some b => some (f.set p b)
    | _, _ => none
  | _ => none

def wal (args : List String) : String :=
  match args with
  | [m, d, p] =>
    if !(d.startsWith "dps=") || !(p.startsWith "pay=") then "bad-op" else
    match parseBlocks (d.drop 4).toString, parsePays (p.drop 4).toString with
    | some blocks, some pays =>
      let f := file crc32 pays
      match applyMut f m with
      | none => "bad-op"
      | some f' =>
        let rd := match readFile crc32 (fun _ => true) f' with
          | none => "0/noopen"
          | some (bs, .clean) => s!"{bs.length}/clean"
          | some (bs, .err) => s!"{bs.length}/err"
        let raw := String.intercalate ";" (blocks.map (fun b => bytesHex (encBlock b)))
        let rt := blocks.all (fun b => decBlock (encBlock b) == some b)
        s!"file={bytesHex f} raw={raw} rt={rt} read={rd}"
    | _, _ => "bad-op"
  | _ => "bad-op"

def handle (cmd : String) (args : List String) : Option String :=
  match cmd with
  | "wal" => some (wal args)
  | _ => none

end Oracle.C10
