import SigModel.Model.Conc
import Oracle.Util
import Oracle.C11Create
import Oracle.C11Flush
/- suite "conc":  c11 <S> <label> …   label ::= f<i> | r<i> | q<j>r | q<j>s     (see harness/cmd/corr/c11_conc.go)
   → steps=<i>:<step>,… | q<j>:<kind> U=[segs] R=[segs] res=[blocks] (or cnt=<n>) | … | unrot=[seg:n,…] rot=[…] | final=[blocks] cnt=<n>
   The schedule is run on the interleaving machine with the orders extracted from the source (Cfg.real); then
   pending rotations (by stream) and queries (by id) are completed, and a final records query and a final
   count query are run at quiescence.
   c11w ssr | c11w reader → ok | lost | crash   (the read of one request with the rotation inside a check-then-look-up
   window; Model/Conc.lean, namespace ReadOne)
   c11c <S> <label> … → get-or-create of the segstore table: Oracle/C11Create.lean (Model/ConcCreate.lean)
   c11f <n> <tok> …   → concurrent flushes of different segstores: Oracle/C11Flush.lean (Model/ConcFlush.lean)
   suite "concstress":  c11stress <seed> <procs> <ms> <indexes> <race> → "ok" (exploration: the model has no
   opinion on timing; the worker checks the property statement directly). -/
namespace Oracle.C11
open SigModel.Conc Oracle

def eventsPerFlush : Nat := 2

def digitsVal (cs : List Char) : Nat := cs.foldl (fun a c => 10 * a + (c.toNat - 48)) 0

/-- strict decimal: digits only, no sign, no leading zero, at most 6 digits -/
def num? (cs : List Char) : Option Nat :=
  if cs.isEmpty || cs.length > 6 || !(cs.all Char.isDigit) || (cs.length > 1 && cs.head? == some '0') then none
  else some (digitsVal cs)

def parseLabel (S : Nat) (t : String) : Option Label :=
  match t.toList with
  | 'f' :: r => (num? r).bind fun n => if n < S then some (.flush n) else none
  | 'r' :: r => (num? r).bind fun n => if n < S then some (.rot n) else none
  | 'q' :: r =>
    match r.reverse with
    | 'r' :: m => (num? m.reverse).bind fun n => if n < 16 then some (.q n false) else none
    | 's' :: m => (num? m.reverse).bind fun n => if n < 16 then some (.q n true) else none
    | _ => none
  | _ => none

def showSeg (g : Seg) : String := s!"{g.stream}.{g.seq}"

def le3 (a b : Nat × Nat × Nat) : Bool :=
  a.1 < b.1 || (a.1 == b.1 && (a.2.1 < b.2.1 || (a.2.1 == b.2.1 && a.2.2 ≤ b.2.2)))

def insert3 (x : Nat × Nat × Nat) : List (Nat × Nat × Nat) → List (Nat × Nat × Nat)
  | [] => [x]
  | y :: r => if le3 x y then x :: y :: r else y :: insert3 x r

def sort3 (l : List (Nat × Nat × Nat)) : List (Nat × Nat × Nat) := l.foldr insert3 []

def showSegs (l : List (Seg × Nat)) : String :=
  "[" ++ String.intercalate "," ((sort3 (l.map fun r => (r.1.stream, r.1.seq, 0))).map fun t => s!"{t.1}.{t.2.1}") ++ "]"

def showBlocks (l : List Block) : String :=
  "[" ++ String.intercalate "," ((sort3 (l.map fun b => (b.1.stream, b.1.seq, b.2))).map fun t => s!"{t.1}.{t.2.1}#{t.2.2}") ++ "]"

/-- key → number of blocks -/
def showMap (l : List (Seg × Nat)) : String :=
  "[" ++ String.intercalate "," ((sort3 (l.map fun r => (r.1.stream, r.1.seq, r.2))).map
      fun t => s!"{t.1}.{t.2.1}:{t.2.2}") ++ "]"

def stepName (cfg : Cfg) (s : St) (i : Nat) : Option RotStep :=
  match (s.store i).todo with
  | [] => if (s.store i).nblocks = 0 then none else cfg.rotOrder.head?
  | a :: _ => some a

def showStep : RotStep → String
  | .segmetaFile => "segmetaFile" | .addMeta => "addMeta" | .removeUnrot => "removeUnrot" | .reset => "reset"

def runLog (cfg : Cfg) (s : St) (ls : List Label) (acc : List String) : St × List String :=
  match ls with
  | [] => (s, acc)
  | l :: r =>
    let acc := match l with
      | .rot i => match stepName cfg s i with
        | some a => acc ++ [s!"{i}:{showStep a}"]
        | none => acc
      | _ => acc
    runLog cfg (step cfg s l) r acc

def drainLabels (s : St) (S : Nat) : List Label :=
  ((List.range S).flatMap fun i => List.replicate (s.store i).todo.length (Label.rot i)) ++
  ((List.range 16).flatMap fun j =>
    let q := s.query j
    if q.started && !q.finished then List.replicate (q.todo.length + 1) (Label.q j (q.kind == .stats)) else [])

def showQuery (cfg : Cfg) (j : Nat) (q : Query) : String :=
  let kind := if q.kind == .stats then "s" else "r"
  let snaps := String.intercalate " " ((cfg.qOrder.take 2).map fun a => match a with
    | .snapU => "U=" ++ showSegs q.snapU
    | .snapR => "R=" ++ showSegs q.snapR)
  let res := if q.kind == .stats then s!"cnt={eventsPerFlush * q.result.length}" else "res=" ++ showBlocks q.result
  s!"q{j}:{kind} {snaps} {res}"

def conc (args : List String) : String :=
  match args with
  | [] => "bad-op"
  | sTok :: toks =>
    match num? sTok.toList with
    | none => "bad-op"
    | some S =>
      if S < 1 || S > 8 then "bad-op" else
      match toks.mapM (parseLabel S) with
      | none => "bad-op"
      | some labels =>
        let cfg := Cfg.real
        let (s1, log1) := runLog cfg init labels []
        let state := "unrot=" ++ showMap (snapOf s1 s1.unrot) ++ " rot=" ++ showMap (snapOf s1 s1.rot)
        let (s2, log2) := runLog cfg s1 (drainLabels s1 S) log1
        let qs := (List.range 16).filterMap fun j =>
          if (s2.query j).started then some (showQuery cfg j (s2.query j)) else none
        let fin := [Label.q 16 false, .q 16 false, .q 16 false, .q 17 true, .q 17 true, .q 17 true]
        let s3 := run cfg s2 fin
        let final := "final=" ++ showBlocks (s3.query 16).result ++ s!" cnt={eventsPerFlush * (s3.query 17).result.length}"
        String.intercalate " | " (["steps=" ++ String.intercalate "," log2] ++ qs ++ [state, final])

def stress (args : List String) : String :=
  match args.mapM (fun a => num? a.toList) with
  | some [_, procs, ms, nidx, race] =>
    if procs < 1 || procs > 64 || ms < 1 || ms > 120000 || nidx < 1 || nidx > 4 || race > 1 then "bad-op" else "ok"
  | _ => "bad-op"

/-- `c11w ssr` / `c11w reader`: the read of one request (ReadOne) with the whole rotation of its segment between
the check of GetSSRsFromQSR and its look-up (ssr), resp. between the check of initNewMultiColumnReader and its
look-up (reader) → what happens to the segment's events -/
def window (args : List String) : String :=
  let showOut : Option ReadOne.Outcome → String
    | some .readUnrotated => "ok" | some .readRotated => "ok" | some .skipped => "lost" | some .crashed => "crash"
    | none => "unfinished"
  match args with
  | ["ssr"] => showOut (ReadOne.rrun .real {} [.read, .rot, .rot, .rot, .rot, .read, .read, .read]).outcome
  | ["reader"] => showOut (ReadOne.rrun .real {} [.read, .read, .read, .rot, .rot, .rot, .rot, .read]).outcome
  | _ => "bad-op"

def handle (cmd : String) (args : List String) : Option String :=
  match cmd with
  | "c11" => some (conc args)
  | "c11w" => some (window args)
  | "c11stress" => some (stress args)
  | "c11c" => C11Create.handle cmd args   -- get-or-create of the segstore table (Oracle/C11Create.lean)
  | "c11f" => C11Flush.handle cmd args    -- concurrent flushes of different segstores (Oracle/C11Flush.lean)
  | _ => none
end Oracle.C11
