import SigModel.Model.KV
import Oracle.Util
/- suite "kv":  kv <store> <op> <op> …      (C20, keyed-store half)
   tenants are one digit 0|1|2 (0 = org 0); names and values are lower-case hex of their bytes.
     c<t>.<k>=<v>  create        u<t>.<k>=<v>  update       r<t>.<k>><k2>  rename
     d<t>.<k>      delete        g<t>.<k>      get          l<t>           list        R  restart
   store-specific forms are listed at each store below.  One answer token per op. -/
namespace Oracle.C20K
open SigModel.KV Oracle

def isHexLower (s : String) : Bool :=
  s.length % 2 = 0 && s.all (fun c => ('0' ≤ c && c ≤ '9') || ('a' ≤ c && c ≤ 'f'))

def key? (s : String) : Option Key := if isHexLower s then hexBytes? s else none

def tenant? (c : Char) : Option Nat :=
  if c = '0' then some 0 else if c = '1' then some 1 else if c = '2' then some 2 else none

def showKey (k : Key) : String := bytesHex k

def sortStrs (l : List String) : List String := l.mergeSort (fun a b => decide (a ≤ b))

def showRes : Res → String
  | .ok => "ok" | .exists_ => "ex" | .notFound => "nf" | .invalid => "inv"
  | .parentNotFound => "pnf" | .wrongType => "nd" | .cycle => "cyc"

/-- `<t>.<rest>` → (tenant, rest) -/
def splitTenant (s : String) : Option (Nat × String) :=
  match s.toList with
  | c :: '.' :: r => (tenant? c).map (fun t => (t, String.ofList r))
  | _ => none

def split1 (s : String) (sep : Char) : Option (String × String) :=
  match s.splitOn (String.singleton sep) with
  | [a, b] => some (a, b)
  | _ => none

/-! ### usq:  c|u<t>.<name>=<value> (save = upsert)   d<t>.<name>   g<t>.<substring> (search)   l<t>   R -/
def usqOp? (s : String) : Option (Usq.Op String) :=
  if s = "R" then some .restart else
  match s.toList with
  | 'l' :: c :: [] => (tenant? c).map .list
  | o :: r =>
    match splitTenant (String.ofList r) with
    | none => none
    | some (t, rest) =>
      if o = 'c' || o = 'u' then
        match split1 rest '=' with
        | some (k, v) => match key? k, isHexLower v with
          | some k, true => some (.put t k v)
          | _, _ => none
        | none => none
      else if o = 'd' then (key? rest).map (.del t)
      else if o = 'g' then (key? rest).map (.search t)
      else none
  | [] => none

def showEntries (l : AL Key String) : String :=
  String.intercalate "," (sortStrs (l.map (fun p => showKey p.1 ++ "=" ++ p.2)))

def usqTok : Usq.Op String → Usq.Out String → String
  | _, .res r => showRes r
  | .search _ _, .entries l => if l.isEmpty then "nf" else showEntries l
  | _, .entries l => "[" ++ showEntries l ++ "]"
  | _, .restarted => "R"

def usq (ops : List String) : String :=
  match ops.mapM usqOp? with
  | none => "bad-op"
  | some ops =>
    let rec go (st : Usq.St String) (ops : List (Usq.Op String)) (acc : List String) : List String :=
      match ops with
      | [] => acc.reverse
      | op :: r => let (st1, o) := Usq.step st op false; go st1 r (usqTok op o :: acc)
    String.intercalate " " (go Usq.init ops [])

/-! ### alias:  c<t>.<index>=<alias> add   d<t>.<index>=<alias> remove   g<t>.<index>   l<t>   q<t>.<alias> resolve   R   G (graceful shutdown + restart)
     P<t>.<action>,… one POST _aliases request (actions: a<index>=<alias>, A<index>+…=<alias>, r<index>=<alias>, x) → ok | bad -/
def aliasOp? (s : String) : Option Alias.Op :=
  if s = "R" then some .restart else
  if s = "G" then some .graceful else
  match s.toList with
  | 'l' :: c :: [] => (tenant? c).map .list
  | o :: r =>
    match splitTenant (String.ofList r) with
    | none => none
    | some (t, rest) =>
      if o = 'c' || o = 'd' then
        match split1 rest '=' with
        | some (i, a) => match key? i, key? a with
          | some i, some a => some (if o = 'c' then .add t i a else .remove t i a)
          | _, _ => none
        | none => none
      else if o = 'g' then (key? rest).map (.get t)
      else if o = 'q' then (key? rest).map (.resolve t)
      else none
  | [] => none

def aliasTok : Alias.Out → String
  | .res r => showRes r
  | .names l => "{" ++ String.intercalate "," (sortStrs (l.map showKey)) ++ "}"
  | .amap l => "[" ++ String.intercalate "," (sortStrs (l.map (fun e =>
      showKey e.1 ++ ":" ++ String.intercalate "+" (sortStrs (e.2.map showKey))))) ++ "]"
  | .target l => match l with
    | [] => "-"
    | [i] => showKey i
    | _ => "*"
  | .restarted => "R"
  | .gracefulRestarted => "G"

/-- one action of a `P` request: a<index>=<alias> | A<index>+<index>…=<alias> (the `indices` form) |
r<index>=<alias> | x (an action the handler cannot read) -/
def aliasAct? (s : String) : Option Alias.Act :=
  if s = "x" then some .refuse else
  match s.toList with
  | o :: r =>
    match split1 (String.ofList r) '=' with
    | some (is, a) =>
      match key? a with
      | none => none
      | some a =>
        if o = 'a' then (key? is).map (fun i => .add i a)
        else if o = 'r' then (key? is).map (fun i => .remove i a)
        else if o = 'A' then
          (if is.isEmpty then some [] else (is.splitOn "+").mapM key?).map (fun l => .addMany l a)
        else none
    | none => none
  | [] => none

/-- P<t>.<action>,<action>,…  one POST _aliases request -/
def aliasPost? (s : String) : Option (Nat × List Alias.Act) :=
  match s.toList with
  | 'P' :: r =>
    match splitTenant (String.ofList r) with
    | some (t, rest) => if rest.isEmpty then none else ((rest.splitOn ",").mapM aliasAct?).map (fun l => (t, l))
    | none => none
  | _ => none

def aliasItem? (s : String) : Option (Sum Alias.Op (Nat × List Alias.Act)) :=
  match aliasOp? s with
  | some op => some (.inl op)
  | none => (aliasPost? s).map .inr

def alias (ops : List String) : String :=
  match ops.mapM aliasItem? with
  | none => "bad-op"
  | some ops =>
    let rec go (st : Alias.St) (ops : List (Sum Alias.Op (Nat × List Alias.Act))) (acc : List String) : List String :=
      match ops with
      | [] => acc.reverse
      | .inl op :: r => let (st1, o) := Alias.step st op; go st1 r (aliasTok o :: acc)
      | .inr (t, acts) :: r =>
        let (st1, ack) := Alias.post st t acts
        go st1 r ((if ack then "ok" else "bad") :: acc)
    String.intercalate " " (go Alias.init ops [])

/-! ### dash (dashboards + folders): ids are decimal numbers, 0 = root folder, n = the n-th object created by the line
     c<t>.<name>=<payload>[@<pid>]  create dashboard      f<t>.<name>[@<pid>]        create folder
     u<t>.<id>=<name>:<payload>[@<pid>]  update dashboard (move when @)   r<t>.<id>><name>[@<pid>]  rename/move folder (name "" = keep)
     d<t>.<id> delete dashboard   x<t>.<id> delete folder   g<t>.<id> get dashboard   k<t>.<id> folder contents
     l<t> list all items          v<t>.<id> toggle favorite                R -/
def dec? (s : String) : Option Nat :=
  if s.isEmpty || s.length > 6 || !s.all (fun c => '0' ≤ c && c ≤ '9') then none else s.toNat?

/-- `body[@pid]` -/
def splitAt? (s : String) : Option (String × Option Nat) :=
  match s.splitOn "@" with
  | [a] => some (a, none)
  | [a, p] => (dec? p).map (fun p => (a, some p))
  | _ => none

def dashOp? (s : String) : Option Dash.Op :=
  if s = "R" then some .restart else
  match s.toList with
  | 'l' :: c :: [] => (tenant? c).map .list
  | o :: r =>
    match splitTenant (String.ofList r) with
    | none => none
    | some (t, rest) =>
      if o = 'c' then
        match splitAt? rest with
        | some (body, pid) => match split1 body '=' with
          | some (k, v) => match key? k, isHexLower v with
            | some k, true => some (.createDash t k v (pid.getD 0))
            | _, _ => none
          | none => none
        | none => none
      else if o = 'f' then
        match splitAt? rest with
        | some (body, pid) => (key? body).map (fun k => .createFolder t k (pid.getD 0))
        | none => none
      else if o = 'u' then
        match splitAt? rest with
        | some (body, pid) => match split1 body '=' with
          | some (id, nv) => match dec? id, split1 nv ':' with
            | some id, some (k, v) => match key? k, isHexLower v with
              | some k, true => if id = 0 then none else some (.updateDash t id k v pid)
              | _, _ => none
            | _, _ => none
          | none => none
        | none => none
      else if o = 'r' then
        match splitAt? rest with
        | some (body, pid) => match split1 body '>' with
          | some (id, k) => match dec? id, key? k with
            | some id, some k => some (.updateFolder t id (if k = [] then none else some k) pid)
            | _, _ => none
          | none => none
        | none => none
      else
        match dec? rest with
        | none => none
        | some id =>
          if o = 'd' then some (.deleteDash t id)
          else if o = 'x' then some (.deleteFolder t id)
          else if o = 'g' then some (.getDash t id)
          else if o = 'k' then some (.contents t id)
          else if o = 'v' then some (.favorite t id)
          else none
  | [] => none

def showTy : Dash.Ty → String
  | .folder => "F" | .dash => "D"

def showIds (l : List Nat) : String := String.intercalate "." (l.map toString)

def dashTok : Dash.Out → String
  | .res r => showRes r
  | .created id => s!"ok:{id}"
  | .dash d => s!"{showKey d.name}:{d.payload}:{d.fid}:{showKey d.fname}:{showKey d.path}:{showIds d.crumbs}:{if d.fav then 1 else 0}"
  | .folder name ty kids crumbs =>
    showKey name ++ "/" ++ showTy ty ++ "[" ++ String.intercalate "," (kids.map (fun (c : Nat × Key × Dash.Ty × Nat) =>
      s!"{c.1}/{showKey c.2.1}/{showTy c.2.2.1}/{c.2.2.2}")) ++ "]^" ++ showIds crumbs
  | .rows l => "[" ++ String.intercalate "," (sortStrs (l.map (fun r =>
      s!"{r.id}/{showKey r.name}/{showTy r.ty}/{match r.parent with | some p => toString p | none => "-"}/{showKey r.parentName}/{showKey r.fullPath}/{if r.fav then 1 else 0}/{r.payload}"))) ++ "]"
  | .fav b => if b then "1" else "0"
  | .restarted => "R"

def dash (ops : List String) : String :=
  match ops.mapM dashOp? with
  | none => "bad-op"
  | some ops =>
    let rec go (st : Dash.St) (ops : List Dash.Op) (acc : List String) : List String :=
      match ops with
      | [] => acc.reverse
      | op :: r =>
        let (st1, o) := Dash.step st op
        -- the harness reads every tenant back after every op (listItems → getDashboard of every item,
        -- which refreshes stale folder metadata): part of the protocol, mirrored here
        let st2 := [0, 1, 2].foldl (fun s t => (Dash.step s (.list t)).1) st1
        go st2 r (dashTok o :: acc)
    String.intercalate " " (go Dash.init ops [])

/-! ### contact (contact points):  c<t>.<name>=<v>   u|U<t>.<id>=<name>:<v>   d<t>.<id>   l<t>   R
     v = hex of a comma-separated list: pager = v, slack = its non-empty parts -/
def hexStr? (s : String) : Option String :=
  if isHexLower s then (hexBytes? s).map (fun bs => String.ofList (bs.map Char.ofNat)) else none

/-- the non-empty comma-separated parts of the value, as hex strings (bytes, so that UTF-8 needs no decoding) -/
def slackParts (v : String) : Option (List String) :=
  (hexBytes? v).map (fun bs =>
    let rec go (bs : List Nat) (cur : List Nat) (acc : List (List Nat)) : List (List Nat) :=
      match bs with
      | [] => (cur.reverse :: acc).reverse
      | b :: r => if b = 44 then go r [] (cur.reverse :: acc) else go r (b :: cur) acc
    ((go bs [] []).filter (fun p => !p.isEmpty)).map bytesHex)

def contactOp? (s : String) : Option Contact.Op :=
  if s = "R" then some .restart else
  match s.toList with
  | 'l' :: c :: [] => (tenant? c).map .list
  | o :: r =>
    match splitTenant (String.ofList r) with
    | none => none
    | some (t, rest) =>
      if o = 'c' then
        match split1 rest '=' with
        | some (k, v) => match key? k, isHexLower v, slackParts v with
          | some k, true, some sl => some (.create t k v sl)
          | _, _, _ => none
        | none => none
      else if o = 'u' || o = 'U' then   -- U: the request body names another org in org_id (ignored since c20-15)
        match split1 rest '=' with
        | some (id, nv) => match dec? id, split1 nv ':' with
          | some id, some (k, v) => match key? k, isHexLower v, slackParts v with
            | some k, true, some sl => if id = 0 then none else some (.update t id k v sl)
            | _, _, _ => none
          | _, _ => none
        | none => none
      else if o = 'd' then
        match dec? rest with
        | some id => if id = 0 then none else some (.delete t id)
        | none => none
      else none
  | [] => none

def contactTok : Contact.Out → String
  | .res r => showRes r
  | .created id => s!"ok:{id}"
  | .notCreated => "ok:-"
  | .saveFailed => "fail"
  | .rows l => "[" ++ String.intercalate "," (sortStrs (l.map (fun e =>
      s!"{e.1}/{showKey e.2.name}/{e.2.pager}/{String.intercalate "+" (sortStrs e.2.slack)}"))) ++ "]"
  | .restarted => "R"

def contact (ops : List String) : String :=
  match ops.mapM contactOp? with
  | none => "bad-op"
  | some ops =>
    let rec go (st : Contact.St) (ops : List Contact.Op) (acc : List String) : List String :=
      match ops with
      | [] => acc.reverse
      | op :: r => let (st1, o) := Contact.step st op; go st1 r (contactTok o :: acc)
    String.intercalate " " (go Contact.init ops [])

/-! ### lookup (lookup files; one directory per org — the tenant digit says for which org the request is made; WITH patch
   c13-1, before it the handlers took no org id):
     c<t>.<name>=<content> upload   u<t>.<name>=<content> upload with overwrite=true   (C / U: the uploaded file is a .csv.gz)
     g<t>.<name> get   d<t>.<name> delete   l<t> list   R -/
def lookupOp? (s : String) : Option Lookup.Op :=
  if s = "R" then some .restart else
  match s.toList with
  | ['l', c] => (tenant? c).map (fun t => .list t)
  | o :: c :: '.' :: r =>
    match tenant? c with
    | none => none
    | some t =>
    let rest := String.ofList r
    if o = 'c' || o = 'u' || o = 'C' || o = 'U' then
      match split1 rest '=' with
      | some (k, v) => match key? k, isHexLower v with
        | some k, true => some (.upload t k v (o = 'u' || o = 'U') (o = 'C' || o = 'U'))
        | _, _ => none
      | none => none
    else if o = 'g' || o = 'd' then
      match key? rest with
      | some k => if !Alias.validIndex k then none else some (if o = 'g' then .get t k else .delete t k)
      | none => none
    else none
  | _ => none

def lookupTok : Lookup.Out → String
  | .res r => showRes r
  | .stored n => "ok:" ++ showKey n
  | .content c => "=" ++ c
  | .names l => "[" ++ String.intercalate "," (sortStrs (l.map showKey)) ++ "]"
  | .restarted => "R"

def lookup (ops : List String) : String :=
  match ops.mapM lookupOp? with
  | none => "bad-op"
  | some ops =>
    let rec go (st : Lookup.St) (ops : List Lookup.Op) (acc : List String) : List String :=
      match ops with
      | [] => acc.reverse
      | op :: r => let (st1, o) := Lookup.step st op; go st1 r (lookupTok o :: acc)
    String.intercalate " " (go Lookup.init ops [])

/-! ### adb (alert definitions):  p<t>.<name>   c|C<t>.<name>=<msg>@<cid>   u<t>.<id>=<name>:<msg>[@<cid>]
     d<t>.<id>   g<t>.<id>   l<t>   R -/
def adbOp? (s : String) : Option AlertDB.Op :=
  if s = "R" then some .restart else
  match s.toList with
  | 'l' :: c :: [] => (tenant? c).map .list
  | o :: r =>
    match splitTenant (String.ofList r) with
    | none => none
    | some (t, rest) =>
      if o = 'p' then (key? rest).map (.contact t)
      else if o = 'c' || o = 'C' then   -- C: the request body names another org in org_id (ignored since c20-16)
        match splitAt? rest with
        | some (body, some cid) => match split1 body '=' with
          | some (k, v) => match key? k, isHexLower v with
            | some k, true => if cid = 0 then none else some (.create t k v cid)
            | _, _ => none
          | none => none
        | _ => none
      else if o = 'u' then
        match splitAt? rest with
        | some (body, cid) => match split1 body '=' with
          | some (id, nv) => match dec? id, split1 nv ':' with
            | some id, some (k, v) => match key? k, isHexLower v with
              | some k, true => if id = 0 || cid = some 0 then none else some (.update t id k v cid)
              | _, _ => none
            | _, _ => none
          | none => none
        | none => none
      else
        match dec? rest with
        | none => none
        | some id =>
          if id = 0 then none
          else if o = 'd' then some (.delete t id)
          else if o = 'g' then some (.get t id)
          else none
  | [] => none

def adbRow (id : Nat) (r : AlertDB.Row) : String :=
  s!"{id}/{showKey r.name}/{r.msg}/{r.cid}/{showKey r.cname}"

def adbTok : AlertDB.Out → String
  | .res r => showRes r
  | .created id => s!"ok:{id}"
  | .alert id r => adbRow id r
  | .noAlert => "-"
  | .rows l => "[" ++ String.intercalate "," (sortStrs (l.map (fun e => adbRow e.1 e.2))) ++ "]"
  | .restarted => "R"

def adb (ops : List String) : String :=
  match ops.mapM adbOp? with
  | none => "bad-op"
  | some ops =>
    let rec go (st : AlertDB.St) (ops : List AlertDB.Op) (acc : List String) : List String :=
      match ops with
      | [] => acc.reverse
      | op :: r => let (st1, o) := AlertDB.step st op; go st1 r (adbTok o :: acc)
    String.intercalate " " (go AlertDB.init ops [])

def handle (cmd : String) (args : List String) : Option String :=
  match cmd, args with
  | "kv", store :: ops =>
    if ops.isEmpty then some "bad-op" else
    match store with
    | "usq" => some (usq ops)
    | "alias" => some (alias ops)
    | "dash" => some (dash ops)
    | "contact" => some (contact ops)
    | "lookup" => some (lookup ops)
    | "adb" => some (adb ops)
    | _ => some "bad-op"
  | "kv", [] => some "bad-op"
  | _, _ => none
end Oracle.C20K
