import SigModel.Model.BinAlign
import Oracle.Util
/- suite "binalign" (C04: bin on the timestamp field with span and align time).  Op lines — see harness/cmd/corr/c04_binalign.go:

   binb <unit> <num> <align|-> <ts>                     → b=<bucket> k=<bucket>
   binq <abs:T|rel:text> <unit> <num> <sizes> <deltas>  → r=<bucket − T of the event T+delta, for every delta in order>

   The answers come from the SPECIFICATION SigModel/Model/BinAlign.lean (floor semantics on the grid T + k·span), not from the
   regenerated kernel; Props/C04.lean proves the two equal.  For a relative align time T is whatever the parser resolved
   (≈ now, far from 0: no clamping), so bucket − T = floor(delta/span)·span. -/
namespace Oracle.C04B
open SigModel.BinAlign Oracle

def ints? (s : String) : Option (List Int) := (s.splitOn ",").mapM int?

def handle (cmd : String) (args : List String) : Option String :=
  match cmd, args with
  | "binb", [unit, num, align, ts] =>
    some <| match scaleMs unit, int? num, int? ts with
    | some ms, some n, some t =>
      if n ≤ 0 || t < 0 then "bad-op"
      else
        let span := n * ms
        if align == "-" then
          let b := bucketNoAlign span t
          s!"b={b} k={b}"
        else match int? align with
          | some a =>
            if a < 0 || a ≥ 4611686018427387904 then "bad-op"
            else
              let b := bucket span a t
              s!"b={b} k={b}"
          | none => "bad-op"
    | _, _, _ => "bad-op"
  | "binq", [spec, unit, num, sizes, deltas] =>
    some <| match scaleMs unit, int? num, ints? sizes, ints? deltas with
    | some ms, some n, some ss, some ds =>
      if n ≤ 0 || ss.any (· ≤ 0) || ss.foldl (· + ·) 0 != (ds.length : Int) then "bad-op"
      else
        let span := n * ms
        match spec.splitOn ":" with
        | ["abs", a] =>
          match int? a with
          | some T =>
            if T < 0 || T ≥ 4611686018427387904 || ds.any (fun d => T + d < 0) then "bad-op"
            else "r=" ++ ",".intercalate (ds.map (fun d => toString (bucket span T (T + d) - T)))
          | none => "bad-op"
        | ["rel", txt] =>
          if txt.isEmpty then "bad-op"
          else "r=" ++ ",".intercalate (ds.map (fun d => toString (gridPoint span 0 d)))
        | _ => "bad-op"
    | _, _, _, _ => "bad-op"
  | "binb", _ => some "bad-op"
  | "binq", _ => some "bad-op"
  | _, _ => none

end Oracle.C04B
