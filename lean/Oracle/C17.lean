import SigModel.Model.QTable
import Oracle.Util
/- suite "qtable": qt <maxRunning> <op> <op> ...   op ::= s<qid>f | s<qid>w | p | c<qid> | d<qid> | r<qid>
   → one token per op: <out>:<#running>:<#waiting>:<chanLen of qid's running object or ->:<cancelled 0/1 or -> ; final blocked flag
   suite "qlife": ql|qlt <maxRunning> <op> ...   op ::= the above | S<qid>f | S<qid>w (StartQueryAsCoordinator)
     | R<qid>:<newqid>f | R<qid>:<newqid>w (RestartQuery) | k<qid> (complete) | e<qid> (error)
     | T (qlt only: every pending timer of a running query fires)
   → the same tokens (T:<#running>:<#waiting>:-:-), then final=<qid>/<cancelled>/<coord>/<armed>/<sent.sent…>,… W=<qid>/<armed>,…
     (running entries sorted by qid, the queue in order); "would-block" if a send under a table lock met a full channel.
     A qid introduced by a restart may be introduced once only and never be started (the engine hands out unique qids). -/
namespace Oracle.C17
open SigModel.QTable Oracle

def parseOp (s : String) : Option Op :=
  let c := s.take 1 |>.toString
  let rest := s.drop 1 |>.toString
  match c with
  | "p" => if rest.isEmpty then some .pull else none
  | "s" =>
    let n := (rest.dropEnd 1).toString
    let f := (rest.takeEnd 1).toString
    match n.toNat?, f with
    | some q, "f" => some (.start q true)
    | some q, "w" => some (.start q false)
    | _, _ => none
  | "c" => rest.toNat?.map .cancel
  | "d" => rest.toNat?.map .delete
  | "r" => rest.toNat?.map .drain
  | _ => none

def opQid : Op → Option Nat
  | .start q _ => some q | .cancel q => some q | .delete q => some q | .drain q => some q | .pull => none
  | .startc q _ => some q | .timeout q => some q | .restart _ nq _ => some nq | .complete q => some q | .error q => some q

def showOut : Out → String | .ok => "ok" | .rejected => "rej" | .noop => "noop"

def qt (args : List String) : String :=
  match args with
  | m :: ops =>
    match m.toNat?, ops.mapM parseOp with
    | some m, some ops =>
      let rec go (s : St) (ops : List Op) (acc : List String) : List String × St :=
        match ops with
        | [] => (acc.reverse, s)
        | op :: r =>
          let (s', o) := step s op
          let info := match opQid op with
            | none => "-:-"
            | some q => match lookup q s'.running with
              | none => "-:-"
              | some rq => s!"{rq.chanLen}:{if rq.cancelled then 1 else 0}"
          go s' r (s!"{showOut o}:{s'.running.length}:{s'.waiting.length}:{info}" :: acc)
      let (toks, s) := go { maxRunning := m } ops []
      String.intercalate " " toks ++ s!" blocked={if s.blocked then 1 else 0}"
    | _, _ => "bad-op"
  | _ => "bad-op"

/-- an operation of a `ql` line: a model operation, or `T` = all pending timers fire -/
inductive LOp where
  | op (o : Op)
  | fireAll

def parseLOp (s : String) : Option LOp :=
  let c := s.take 1 |>.toString
  let rest := s.drop 1 |>.toString
  match c with
  | "T" => if rest.isEmpty then some .fireAll else none
  | "S" =>
    let n := (rest.dropEnd 1).toString
    let f := (rest.takeEnd 1).toString
    match n.toNat?, f with
    | some q, "f" => some (.op (.startc q true))
    | some q, "w" => some (.op (.startc q false))
    | _, _ => none
  | "R" =>
    let body := (rest.dropEnd 1).toString
    let f := (rest.takeEnd 1).toString
    match body.splitOn ":", f with
    | [a, b], "f" => match a.toNat?, b.toNat? with
      | some q, some nq => some (.op (.restart q nq true))
      | _, _ => none
    | [a, b], "w" => match a.toNat?, b.toNat? with
      | some q, some nq => some (.op (.restart q nq false))
      | _, _ => none
    | _, _ => none
  | "k" => rest.toNat?.map (fun q => .op (.complete q))
  | "e" => rest.toNat?.map (fun q => .op (.error q))
  | _ => (parseOp s).map .op

/-- the qid whose running object the token reports on -/
def infoQid : Op → Option Nat
  | .start q _ => some q | .cancel q => some q | .delete q => some q | .drain q => some q | .pull => none
  | .startc q _ => some q | .timeout q => some q | .restart _ nq _ => some nq | .complete q => some q | .error q => some q

def startedQids (ops : List LOp) : List Nat :=
  ops.filterMap (fun o => match o with | .op (.start q _) => some q | .op (.startc q _) => some q | _ => none)

def restartQids (ops : List LOp) : List Nat :=
  ops.filterMap (fun o => match o with | .op (.restart _ nq _) => some nq | _ => none)

def nodupNat : List Nat → Bool
  | [] => true
  | a :: r => !r.contains a && nodupNat r

def b01 (b : Bool) : String := if b then "1" else "0"

def ql (timeouts : Bool) (args : List String) : String :=
  match args with
  | m :: ops =>
    match m.toNat?, ops.mapM parseLOp with
    | some m, some ops =>
      let rq := restartQids ops
      let sq := startedQids ops
      let hasT := ops.any (fun o => match o with | .fireAll => true | _ => false)
      if !nodupNat rq || rq.any sq.contains || (hasT && !timeouts) || m == 0 then "bad-op" else
      let rec go (s : St) (ops : List LOp) (acc : List String) : List String × St :=
        match ops with
        | [] => (acc.reverse, s)
        | .fireAll :: r =>
          let live := s.running.filterMap (fun (k, v) => if v.timerLive then some k else none)
          let s' := live.foldl (fun s k => (step s (.timeout k)).1) s
          go s' r (s!"T:{s'.running.length}:{s'.waiting.length}:-:-" :: acc)
        | .op op :: r =>
          let (s', o) := step s op
          let info := match infoQid op with
            | none => "-:-"
            | some q => match lookup q s'.running with
              | none => "-:-"
              | some rq => s!"{rq.chanLen}:{if rq.cancelled then 1 else 0}"
          go s' r (s!"{showOut o}:{s'.running.length}:{s'.waiting.length}:{info}" :: acc)
      let (toks, s) := go { maxRunning := m } ops []
      if s.blocked then "would-block" else
      let run := (s.running.toArray.qsort (fun a b => a.1 < b.1)).toList
      let fin := run.map (fun (k, v) =>
        s!"{k}/{b01 v.cancelled}/{b01 v.coord}/{b01 v.timeoutArmed}/{String.intercalate "." (v.sent.map toString)}")
      let wq := s.waiting.map (fun v => s!"{v.qid}/{b01 v.timeoutArmed}")
      let dash (l : List String) := if l.isEmpty then "-" else String.intercalate "," l
      String.intercalate " " toks ++ s!" final={dash fin} W={dash wq}"
    | _, _ => "bad-op"
  | _ => "bad-op"

def handle (cmd : String) (args : List String) : Option String :=
  match cmd with
  | "qt" => some (qt args)
  | "ql" => some (ql false args)
  | "qlt" => some (ql true args)
  | "parse" => some "ok"   -- exploration suite "parsers": the PEG parsers are not modelled (DESIGN §5 C17)
  | _ => none
end Oracle.C17
