import SigModel.Model.QTable
import Oracle.Util
/- suite "qtable": qt <maxRunning> <op> <op> ...   op ::= s<qid>f | s<qid>w | p | c<qid> | d<qid> | r<qid>
   → one token per op: <out>:<#running>:<#waiting>:<chanLen of qid's running object or ->:<cancelled 0/1 or -> ; final blocked flag -/
namespace Oracle.C17
open SigModel.QTable Oracle

def parseOp (s : String) : Option Op :=
  let c := s.take 1 |>.toString
  let rest := s.drop 1 |>.toString
  match c with
  | "p" => if rest.isEmpty then some .pull else none
  | "s" =>
    let n := (rest.dropEnd 1).toString
    let f := (rest.takeEnd 1).toString
    match n.toNat?, f with
    | some q, "f" => some (.start q true)
    | some q, "w" => some (.start q false)
    | _, _ => none
  | "c" => rest.toNat?.map .cancel
  | "d" => rest.toNat?.map .delete
  | "r" => rest.toNat?.map .drain
  | _ => none

def opQid : Op → Option Nat
  | .start q _ => some q | .cancel q => some q | .delete q => some q | .drain q => some q | .pull => none

def showOut : Out → String | .ok => "ok" | .rejected => "rej" | .noop => "noop"

def qt (args : List String) : String :=
  match args with
  | m :: ops =>
    match m.toNat?, ops.mapM parseOp with
    | some m, some ops =>
      let rec go (s : St) (ops : List Op) (acc : List String) : List String × St :=
        match ops with
        | [] => (acc.reverse, s)
        | op :: r =>
          let (s', o) := step s op
          let info := match opQid op with
            | none => "-:-"
            | some q => match lookup q s'.running with
              | none => "-:-"
              | some rq => s!"{rq.chanLen}:{if rq.cancelled then 1 else 0}"
          go s' r (s!"{showOut o}:{s'.running.length}:{s'.waiting.length}:{info}" :: acc)
      let (toks, s) := go { maxRunning := m } ops []
      String.intercalate " " toks ++ s!" blocked={if s.blocked then 1 else 0}"
    | _, _ => "bad-op"
  | _ => "bad-op"

def handle (cmd : String) (args : List String) : Option String :=
  match cmd with
  | "qt" => some (qt args)
  | "parse" => some "ok"   -- exploration suite "parsers": the PEG parsers are not modelled (DESIGN §5 C17)
  | _ => none
end Oracle.C17
