import SigModel.Model.TlvSeg
import Oracle.Util
import Oracle.C01
/- suite "tlvseg" (C01 kernel, segments of several blocks).  One op per line:

   tlvseg w <limit> <col> [<col>]        a fresh SegStore, one or two columns ("c", "d"), every block flushed, the
                                         last flush rotates the segment
        col   ::= block/block/...          1..8 blocks, the same shape in both columns
        block ::= v,v,...                  1..200 events, v = the column's value in that event
        v     ::= s<hex, class mixOk> | b0 | b1 | i<int64> | f<hex16> | z (null) | - (the event lacks the column)
        a column with an f value has no s and no b value (FormatFloat is not modelled; such a column never has a bloom);
        with limit < 501 a column has no i value together with an s or b value (see colOk)
      → c{size=<n|none> blk=[B;B;..]} d{..}     B ::= - (column not in the block) | <e>:<hex of the column's records>
                                                e ::= c columnar | d dictionary | m rewritten by the consolidation
        followed by   bsu=[n;n;..] bmh=[b;b;..]   the record counts of the block summaries in the order of the .bsu
                                                file and the block numbers that have block metadata
-/
namespace Oracle.C01Seg
open SigModel.Tlv Oracle

def tokOk (s : String) : Bool :=
  s = "-" || s = "z" || s = "b0" || s = "b1" || s.startsWith "s" || s.startsWith "i" || s.startsWith "f"

def valOk : Option Val → Bool
  | none | some .backfill | some (.bool _) | some (.num .i64 _) | some (.num .f64 _) => true
  | some (.str s) => Oracle.C01.mixOk (some (.str s))
  | _ => false

def parseBlock (s : String) : Option (List (Option Val)) :=
  (s.splitOn ",").mapM (fun t => if tokOk t then Oracle.C01.parseVal t else none)

def parseCol (s : String) : Option (List (List (Option Val))) := (s.splitOn "/").mapM parseBlock

def isF : Option Val → Bool
  | some (.num .f64 _) => true
  | _ => false

def isSB : Option Val → Bool
  | some (.str _) | some (.bool _) => true
  | _ => false

def isI : Option Val → Bool
  | some (.num .i64 _) => true
  | _ => false

/-- a cardinality limit below the production value 501 is accepted only for columns that do not hold both a
string/bool and a number: with a small limit a block can be columnar without holding any string, the writer then
sizes the column's bloom for 0 entries (`bloom.NewWithEstimates(0, p)`: k = uint(NaN)) and the next insertion
into that bloom (type consolidation to strings) never returns.  Unreachable with the limit 501 (a block of at
most 200 events is then never columnar unless it was rewritten), so this is a harness restriction, not a finding. -/
def colOk (lim : Nat) (c : List (List (Option Val))) : Bool :=
  let all := c.flatten
  1 ≤ c.length && c.length ≤ 8 && c.all (fun b => 1 ≤ b.length && b.length ≤ 200) &&
  all.all valOk && !(all.any isF && all.any isSB) && !(decide (lim < 501) && all.any isSB && all.any isI)

def showBlock (lim : Nat) (b : BlockOut) : String :=
  if b.buf.isEmpty then "-"
  else (if b.mixed then "m" else if b.isDict lim then "d" else "c") ++ ":" ++ bytesHex b.buf

def showCol (name : String) (lim : Nat) (c : List (List (Option Val))) : String :=
  let st := writeSeg lim c
  let sz := match st.size with | some n => toString n | none => "none"
  name ++ "{size=" ++ sz ++ " blk=[" ++ String.intercalate ";" (st.blocks.map (showBlock lim)) ++ "]}"

def evKind (vs : List (Option Val)) : EvKind :=
  if vs.any (fun v => match v with | some .backfill => false | some _ => true | none => false) then .vals
  else if vs.any (fun v => v.isSome) then .nulls else .bare

/-- the events of block `b` as rows over the columns -/
def rowsOf (cs : List (List (List (Option Val)))) (b : Nat) : List (List (Option Val)) :=
  let n := ((cs.head?.getD [])[b]?.getD []).length
  (List.range n).map (fun e => cs.map (fun c => ((c[b]?.getD [])[e]?).getD none))

/-- the block summaries the reader finds in the .bsu file: record counts by position, block numbers present -/
def showBsu (cs : List (List (List (Option Val)))) : String :=
  let nb := (cs.head?.getD []).length
  let ops : List BlkOp := (List.range nb).flatMap (fun b => (rowsOf cs b).map (fun r => BlkOp.ev (evKind r)) ++ [BlkOp.flush])
  let st := runBlk ops
  " bsu=[" ++ String.intercalate ";" (st.bsu.map (fun p => toString p.2)) ++ "] bmh=[" ++
    String.intercalate ";" ((st.bsu.map (·.1)).eraseDups.map toString) ++ "]"

def w (args : List String) : String :=
  match args with
  | limTok :: cols =>
    match limTok.toNat?, cols.mapM parseCol with
    | some lim, some cs =>
      if lim = 0 ∨ lim > 65535 ∨ toString lim ≠ limTok then "bad-op" else
      match cs with
      | [c] => if colOk lim c then showCol "c" lim c ++ showBsu [c] else "bad-op"
      | [c, d] =>
        if colOk lim c && colOk lim d && c.map List.length == d.map List.length then
          showCol "c" lim c ++ " " ++ showCol "d" lim d ++ showBsu [c, d]
        else "bad-op"
      | _ => "bad-op"
    | _, _ => "bad-op"
  | _ => "bad-op"

def handle (cmd : String) (args : List String) : Option String :=
  match cmd, args with
  | "tlvseg", "w" :: r => some (w r)
  | "tlvseg", _ => some "bad-op"
  | _, _ => none

end Oracle.C01Seg
